// Package poolx drives the real PipelineTransport / ReuseConnTransport over
// scripted fake connections and records, per query, the passes it makes
// through the transport's retry loop (schedule points "<t>.attempt" and
// "<t>.conn.created" fire on the caller's goroutine) and the connections its
// bytes were written to.
package poolx

import (
	"bytes"
	"context"
	"encoding/binary"
	"errors"
	"fmt"
	"io"
	"net"
	"os"
	"runtime"
	"strconv"
	"sync"
	"sync/atomic"
	"time"

	"github.com/IrineSistiana/mosdns/v5/pkg/pool"
	"github.com/IrineSistiana/mosdns/v5/pkg/upstream/transport"
	"github.com/IrineSistiana/mosdns/v5/pkg/verifhook"
	"github.com/miekg/dns"
)

// ---------- scripted connections ----------

// ConnPlan says how the server behind one connection behaves.
type ConnPlan struct {
	Dial   string // "ok" | "err" | "hang" (until the dial context ends)
	Answer int    // answer this many queries ...
	After  string // ... then: "healthy" keep answering | "close" EOF right behind the last reply | "closelate" EOF only
	//          once the next query has been written | "silent" |
	//          "reset" the next Write fails | "rst" the next Write succeeds and the read side then fails
	HoldAll bool // do not answer until Release() (to build up concurrent in-flight queries)
	// SlowClose: the client's Close() of this connection takes this long (a TLS close_notify flush, a slow kernel).
	SlowClose time.Duration
	// ReadDL: the connection honours read deadlines like a socket (a Read pending past the deadline fails with a
	// timeout). Off by default: silence is then a plan of its own.
	ReadDL bool
}

var ErrDialInjected = errors.New("poolx: injected dial error")
var errReset = errors.New("poolx: connection reset by peer")

type World struct {
	mu      sync.Mutex
	plans   []ConnPlan
	next    int
	Conns   []*FakeConn
	Dials   int32
	release chan struct{}
	// Datagram: connections carry one message per Read/Write without a length prefix (UDP framing)
	Datagram bool
}

func NewWorld(plans []ConnPlan) *World {
	return &World{plans: plans, release: make(chan struct{})}
}

// Release lets connections with HoldAll answer.
func (w *World) Release() {
	w.mu.Lock()
	select {
	case <-w.release:
	default:
		close(w.release)
	}
	w.mu.Unlock()
}

func (w *World) plan() (ConnPlan, int) {
	w.mu.Lock()
	defer w.mu.Unlock()
	i := w.next
	w.next++
	if i < len(w.plans) {
		return w.plans[i], i
	}
	return ConnPlan{Dial: "ok", After: "healthy"}, i
}

// DialNet is the dial function handed to the transports.
func (w *World) DialNet(ctx context.Context) (transport.NetConn, error) {
	atomic.AddInt32(&w.Dials, 1)
	p, i := w.plan()
	switch p.Dial {
	case "err":
		return nil, ErrDialInjected
	case "hang":
		<-ctx.Done()
		return nil, ctx.Err()
	}
	c := newFakeConn(i, p, w.release)
	c.dg = w.Datagram
	w.mu.Lock()
	w.Conns = append(w.Conns, c)
	w.mu.Unlock()
	return c, nil
}

type FakeConn struct {
	ID      int
	plan    ConnPlan
	release chan struct{}

	mu        sync.Mutex
	cond      *sync.Cond
	buf       bytes.Buffer
	wdl       time.Time // write deadline (zero: none)
	rdl       time.Time // read deadline (zero: none); only with plan.ReadDL
	dg        bool      // datagram framing
	dq        [][]byte  // queued datagrams
	eof       bool      // server closed: EOF once buf is drained
	rerr      error     // read side error once buf is drained
	closed    bool
	closeSeq  int64
	answered  int
	inflight  int
	MaxInFl   int
	Writes    int
	Closes    int
	held      [][]byte
	OnWrite   func(conn, call int)
	releaseOn bool
}

func newFakeConn(id int, p ConnPlan, release chan struct{}) *FakeConn {
	c := &FakeConn{ID: id, plan: p, release: release}
	c.cond = sync.NewCond(&c.mu)
	if p.HoldAll {
		go func() {
			<-release
			c.mu.Lock()
			c.releaseOn = true
			for _, f := range c.held {
				c.deliver(f)
			}
			c.held = nil
			c.mu.Unlock()
		}()
	}
	return c
}

var writeHook atomic.Pointer[func(conn, call int)]
var deadHook atomic.Pointer[func(call int, closeSeq int64)]

// seq orders pass starts and client-side closes.
var seq atomic.Int64

func (c *FakeConn) Read(p []byte) (int, error) {
	c.mu.Lock()
	defer c.mu.Unlock()
	for c.buf.Len() == 0 && len(c.dq) == 0 && !c.eof && c.rerr == nil && !c.closed {
		if !c.rdl.IsZero() && !time.Now().Before(c.rdl) {
			return 0, os.ErrDeadlineExceeded
		}
		c.cond.Wait()
	}
	if len(c.dq) > 0 {
		n := copy(p, c.dq[0])
		c.dq = c.dq[1:]
		return n, nil
	}
	if c.buf.Len() > 0 {
		return c.buf.Read(p)
	}
	if c.closed {
		return 0, net.ErrClosed
	}
	if c.rerr != nil {
		return 0, c.rerr
	}
	return 0, io.EOF
}

// deliver queues one reply frame and applies the plan's After. Caller holds c.mu.
func (c *FakeConn) deliver(frame []byte) {
	if c.dg {
		c.dq = append(c.dq, frame[2:])
	} else {
		c.buf.Write(frame)
	}
	c.answered++
	c.inflight--
	if c.answered >= c.plan.Answer && c.plan.After == "close" {
		c.eof = true
	}
	c.cond.Broadcast()
}

func (c *FakeConn) Write(p []byte) (int, error) {
	if len(p) < 2 {
		return 0, errors.New("poolx: short write")
	}
	body := p[2:]
	if c.dg {
		body = p
	}
	m := new(dns.Msg)
	if err := m.Unpack(body); err != nil || len(m.Question) != 1 {
		return 0, fmt.Errorf("poolx: bad query: %v", err)
	}
	call := -1
	fmt.Sscanf(m.Question[0].Name, "q%d.", &call)
	if f := writeHook.Load(); f != nil {
		(*f)(c.ID, call)
	}
	c.mu.Lock()
	defer c.mu.Unlock()
	if !c.wdl.IsZero() && time.Now().After(c.wdl) {
		return 0, os.ErrDeadlineExceeded
	}
	c.Writes++
	if c.closed {
		if f := deadHook.Load(); f != nil {
			(*f)(call, c.closeSeq)
		}
		return 0, net.ErrClosed
	}
	exhausted := c.answered+c.inflight >= c.plan.Answer && c.plan.After != "healthy"
	if exhausted {
		switch c.plan.After {
		case "reset":
			return 0, errReset
		case "rst":
			c.rerr = errReset
			c.cond.Broadcast()
			return len(p), nil
		case "close", "closelate":
			// the peer is gone: the write still succeeds, the read side reports EOF
			// ("closelate": the server closes only now, after it has read this query, so the client could not
			// have noticed earlier)
			c.eof = true
			c.cond.Broadcast()
			return len(p), nil
		default: // silent
			c.inflight++
			if c.inflight > c.MaxInFl {
				c.MaxInFl = c.inflight
			}
			return len(p), nil
		}
	}
	c.inflight++
	if c.inflight > c.MaxInFl {
		c.MaxInFl = c.inflight
	}
	r := new(dns.Msg)
	r.SetReply(m)
	r.Question[0].Name = fmt.Sprintf("t%d.", call)
	b, _ := r.Pack()
	frame := make([]byte, 2+len(b))
	binary.BigEndian.PutUint16(frame, uint16(len(b)))
	copy(frame[2:], b)
	if c.plan.HoldAll && !c.releaseOn {
		c.held = append(c.held, frame)
		return len(p), nil
	}
	c.deliver(frame)
	return len(p), nil
}

func (c *FakeConn) Close() error {
	if c.plan.SlowClose > 0 {
		time.Sleep(c.plan.SlowClose)
	}
	c.mu.Lock()
	if !c.closed {
		c.closeSeq = seq.Add(1)
	}
	c.closed = true
	c.Closes++
	c.cond.Broadcast()
	c.mu.Unlock()
	return nil
}

// Kill makes the server side go away now: readers see EOF after the buffered bytes.
func (c *FakeConn) Kill() {
	c.mu.Lock()
	c.eof = true
	c.cond.Broadcast()
	c.mu.Unlock()
}

// dead: the server side is gone; clientClosed: the client has called Close.
func (c *FakeConn) state() (dead, clientClosed bool) {
	c.mu.Lock()
	defer c.mu.Unlock()
	exhausted := c.answered+c.inflight >= c.plan.Answer && (c.plan.After == "reset" || c.plan.After == "rst" || c.plan.After == "close")
	return c.eof || c.rerr != nil || exhausted, c.closed
}

// StaleNow counts connections whose server side is gone and that the client has not closed yet.
func (w *World) StaleNow() int {
	w.mu.Lock()
	cs := append([]*FakeConn(nil), w.Conns...)
	w.mu.Unlock()
	n := 0
	for _, c := range cs {
		if d, cl := c.state(); d && !cl {
			n++
		}
	}
	return n
}

// WaitNoStale waits until the client has closed every connection whose server side is gone.
func (w *World) WaitNoStale(d time.Duration) bool {
	deadline := time.Now().Add(d)
	for time.Now().Before(deadline) {
		if w.StaleNow() == 0 {
			return true
		}
		time.Sleep(200 * time.Microsecond)
	}
	return false
}

func (c *FakeConn) Stats() (writes, maxInflight, closes int) {
	c.mu.Lock()
	defer c.mu.Unlock()
	return c.Writes, c.MaxInFl, c.Closes
}

// Like a socket, the fake remembers its write deadline: a Write after it fails with a timeout. (Read
// deadlines are not simulated: silence is a plan of its own.)
func (c *FakeConn) SetDeadline(t time.Time) error {
	c.mu.Lock()
	c.wdl = t
	c.mu.Unlock()
	return c.SetReadDeadline(t)
}
func (c *FakeConn) SetReadDeadline(t time.Time) error {
	if !c.plan.ReadDL {
		return nil
	}
	c.mu.Lock()
	c.rdl = t
	c.cond.Broadcast()
	c.mu.Unlock()
	if !t.IsZero() {
		time.AfterFunc(time.Until(t)+time.Millisecond, func() {
			c.mu.Lock()
			c.cond.Broadcast()
			c.mu.Unlock()
		})
	}
	return nil
}
func (c *FakeConn) SetWriteDeadline(t time.Time) error {
	c.mu.Lock()
	c.wdl = t
	c.mu.Unlock()
	return nil
}

// ---------- transports ----------

type Transport interface {
	ExchangeContext(ctx context.Context, m []byte) (*[]byte, error)
	Close() error
}

// NewPipeline builds a real PipelineTransport whose connections are real
// TraditionalDnsConn over fake connections.
func NewPipeline(w *World, maxCq, maxQueue int) *transport.PipelineTransport {
	return transport.NewPipelineTransport(transport.PipelineOpts{
		DialContext: func(ctx context.Context) (transport.DnsConn, error) {
			c, err := w.DialNet(ctx)
			if err != nil {
				return nil, err
			}
			return transport.NewDnsConn(transport.TraditionalDnsConnOpts{WithLengthHeader: true, MaxConcurrentQuery: maxCq,
				IdleTimeout: time.Minute}, c), nil
		},
		MaxConcurrentQueryWhileDialing: maxQueue,
	})
}

// NewPipelineUDP is NewPipeline over datagram framing (what the plain udp upstream uses).
func NewPipelineUDP(w *World, maxCq, maxQueue int) *transport.PipelineTransport {
	w.Datagram = true
	return transport.NewPipelineTransport(transport.PipelineOpts{
		DialContext: func(ctx context.Context) (transport.DnsConn, error) {
			c, err := w.DialNet(ctx)
			if err != nil {
				return nil, err
			}
			return transport.NewDnsConn(transport.TraditionalDnsConnOpts{WithLengthHeader: false, MaxConcurrentQuery: maxCq,
				IdleTimeout: time.Minute}, c), nil
		},
		MaxConcurrentQueryWhileDialing: maxQueue,
	})
}

func NewReuse(w *World) *transport.ReuseConnTransport {
	return transport.NewReuseConnTransport(transport.ReuseConnOpts{DialContext: w.DialNet})
}

// ---------- per-query observation ----------

type Pass struct {
	Dead                      bool // the query was written to a connection the client had closed before this pass began
	Start                     int64
	Acq, Created, Ok, Written bool
	Conn                      int
}

type CallObs struct {
	Stale     int // connections dead on the server side but still open at the client when the query started
	Idx       int
	Passes    []Pass
	Err       error
	Tag       int // tag of the reply (must equal Idx)
	Returned  bool
	Cancelled bool
	Conns     map[int]bool
}

type Session struct {
	Pipeline bool
	T        Transport
	W        *World
	// WrittenGate, if set (under SetWrittenGate), is called on the caller's goroutine between its write and its wait
	WrittenGate func(idx int)

	mu    sync.Mutex
	gids  map[int64]int
	calls map[int]*CallObs
	ctxs  map[int]context.CancelFunc
	done  map[int]chan struct{}
}

var sessMu sync.Mutex // hooks are process-global: one session at a time

func gid() int64 {
	var b [64]byte
	n := runtime.Stack(b[:], false)
	f := bytes.Fields(b[:n])
	id, _ := strconv.ParseInt(string(f[1]), 10, 64)
	return id
}

func NewSession(pipeline bool, w *World, t Transport) *Session {
	sessMu.Lock()
	s := &Session{Pipeline: pipeline, T: t, W: w, gids: map[int64]int{}, calls: map[int]*CallObs{},
		ctxs: map[int]context.CancelFunc{}, done: map[int]chan struct{}{}}
	verifhook.Set(func(name string) {
		var attempt, created bool
		switch name {
		case "tdc.exchange.written", "reuse.exchange.written":
			// the caller between its write and its wait: a scenario may keep it here
			g := gid()
			s.mu.Lock()
			idx, ok := s.gids[g]
			gate := s.WrittenGate
			s.mu.Unlock()
			if ok && gate != nil {
				gate(idx)
			}
			return
		case "pipeline.attempt", "reuse.attempt":
			attempt = true
		case "pipeline.conn.created", "reuse.conn.created":
			created = true
		default:
			return
		}
		g := gid()
		s.mu.Lock()
		defer s.mu.Unlock()
		idx, ok := s.gids[g]
		if !ok {
			return
		}
		co := s.calls[idx]
		if attempt {
			co.Passes = append(co.Passes, Pass{Conn: -1, Start: seq.Add(1)})
		} else if created && len(co.Passes) > 0 {
			co.Passes[len(co.Passes)-1].Created = true
		}
	})
	f := func(conn, call int) {
		s.mu.Lock()
		defer s.mu.Unlock()
		if co := s.calls[call]; co != nil && len(co.Passes) > 0 {
			p := &co.Passes[len(co.Passes)-1]
			p.Written = true
			p.Conn = conn
			co.Conns[conn] = true
		}
	}
	writeHook.Store(&f)
	g := func(call int, closeSeq int64) {
		s.mu.Lock()
		defer s.mu.Unlock()
		if co := s.calls[call]; co != nil && len(co.Passes) > 0 {
			// dead on arrival: the client had closed the connection before this pass even began
			if p := &co.Passes[len(co.Passes)-1]; closeSeq < p.Start {
				p.Dead = true
			}
		}
	}
	deadHook.Store(&g)
	return s
}

// SetWrittenGate installs f as the gate callers pass between their write and their wait.
func (s *Session) SetWrittenGate(f func(idx int)) {
	s.mu.Lock()
	s.WrittenGate = f
	s.mu.Unlock()
}

// End releases the hooks; call exactly once.
func (s *Session) End() {
	verifhook.Set(nil)
	writeHook.Store(nil)
	deadHook.Store(nil)
	sessMu.Unlock()
}

// Start launches query idx and returns at once.
func (s *Session) Start(idx int) {
	ctx, cancel := context.WithCancel(context.Background())
	q := new(dns.Msg)
	q.SetQuestion(fmt.Sprintf("q%d.", idx), dns.TypeA)
	q.Id = uint16(idx * 7)
	qb, _ := q.Pack()
	co := &CallObs{Idx: idx, Tag: -1, Conns: map[int]bool{}, Stale: s.W.StaleNow()}
	d := make(chan struct{})
	s.mu.Lock()
	s.calls[idx] = co
	s.ctxs[idx] = cancel
	s.done[idx] = d
	s.mu.Unlock()
	ready := make(chan struct{})
	go func() {
		g := gid()
		s.mu.Lock()
		s.gids[g] = idx
		s.mu.Unlock()
		close(ready)
		r, err := s.T.ExchangeContext(ctx, qb)
		tag := 888888 // a reply whose question is not one the fake server writes
		if err == nil && r != nil {
			m := new(dns.Msg)
			if m.Unpack(*r) == nil && len(m.Question) == 1 {
				fmt.Sscanf(m.Question[0].Name, "t%d.", &tag)
				if m.Id != q.Id {
					tag = -2
				}
			}
			pool.ReleaseBuf(r)
		}
		s.mu.Lock()
		delete(s.gids, g)
		co.Err, co.Tag, co.Returned = err, tag, true
		s.mu.Unlock()
		close(d)
	}()
	<-ready
}

func (s *Session) Cancel(idx int) {
	s.mu.Lock()
	s.calls[idx].Cancelled = true
	c := s.ctxs[idx]
	s.mu.Unlock()
	c()
}

// Wait waits for query idx to return.
func (s *Session) Wait(idx int, d time.Duration) bool {
	s.mu.Lock()
	ch := s.done[idx]
	s.mu.Unlock()
	select {
	case <-ch:
		return true
	case <-time.After(d):
		return false
	}
}

// Run = Start + Wait.
func (s *Session) Run(idx int, d time.Duration) bool {
	s.Start(idx)
	return s.Wait(idx, d)
}

// Obs returns a copy of the query's observation with the passes classified.
func (s *Session) Obs(idx int, transportClosed bool) (CallObs, int) {
	s.mu.Lock()
	defer s.mu.Unlock()
	co := *s.calls[idx]
	co.Passes = append([]Pass(nil), co.Passes...)
	n := len(co.Passes)
	for i := range co.Passes {
		p := &co.Passes[i]
		p.Acq, p.Ok = true, false
		if i == n-1 && co.Returned {
			p.Ok = co.Err == nil
			if co.Err != nil {
				if s.Pipeline {
					p.Acq = !(errors.Is(co.Err, transport.ErrClosedTransport) && !p.Written ||
						errors.Is(co.Err, transport.ErrNewConnCannotReserveQueryExchanger))
				} else {
					p.Acq = p.Written
				}
			}
		}
	}
	final := 3
	if co.Returned {
		switch {
		case co.Err == nil:
			final = 0
		case n > 0 && !co.Passes[n-1].Acq:
			final = 2
		default:
			final = 1
		}
	}
	return co, final
}

// WaitWritten waits until query idx has written in its n-th pass (0-based), or returned.
func (s *Session) WaitWritten(idx, n int, d time.Duration) bool {
	deadline := time.Now().Add(d)
	for time.Now().Before(deadline) {
		s.mu.Lock()
		co := s.calls[idx]
		ok := co != nil && ((len(co.Passes) > n && co.Passes[n].Written) || co.Returned)
		s.mu.Unlock()
		if ok {
			return true
		}
		time.Sleep(100 * time.Microsecond)
	}
	return false
}

// WaitDials waits until the dial function has been entered n times.
func (w *World) WaitDials(n int, d time.Duration) bool {
	deadline := time.Now().Add(d)
	for time.Now().Before(deadline) {
		if int(atomic.LoadInt32(&w.Dials)) >= n {
			return true
		}
		time.Sleep(100 * time.Microsecond)
	}
	return false
}
