package msgx

import (
	"encoding/hex"
	"net/netip"
	"strings"

	"github.com/miekg/dns"

	"verifharness/hx"
)

// ---------- client queries ----------

type QueryOpts struct {
	LongNames bool // 255-octet and other long names
	Malformed bool // produce a query that fails the basic check
	ForceOpt  int  // 0 random, 1 with OPT, 2 without
}

var qtypes = []uint16{1, 1, 1, 1, 28, 28, 16, 5, 255, 65}
var udpSizes = []uint16{0, 1, 511, 512, 513, 700, 1200, 1232, 4096, 65535}
var ttls = []uint32{0, 1, 5, 100, 300, 300, 3600, 86400, 4294967295}

func genName(r *hx.RNG, long bool) string {
	if long && r.Chance(1, 6) {
		switch r.Intn(3) {
		case 0:
			return LongName(244, uint64(r.Intn(4))) // 244 letters in 5 labels + "test" + root = 255 octets on the wire
		case 1:
			return LongName(r.Range(60, 200), uint64(r.Intn(4)))
		}
		return LongName(63-5, uint64(r.Intn(4)))
	}
	if r.Chance(3, 4) {
		return NameTable[r.Intn(4)]
	}
	return NameTable[r.Intn(len(NameTable))]
}

func hexBytes(r *hx.RNG, n int) string {
	b := make([]byte, n)
	for i := range b {
		b[i] = byte(r.Intn(256))
	}
	return hex.EncodeToString(b)
}

func ecsOption(r *hx.RNG, scope uint8) dns.EDNS0 {
	e := &dns.EDNS0_SUBNET{Code: dns.EDNS0SUBNET, SourceScope: scope}
	if r.Chance(2, 3) {
		e.Family, e.SourceNetmask = 1, 24
		e.Address = IP4(0x0A000000 | uint32(r.Intn(4))<<16 | uint32(r.Intn(4))<<8)
	} else {
		e.Family, e.SourceNetmask = 2, 48
		ip := IP6(0)
		ip[3] = byte(r.Intn(4))
		e.Address = ip
	}
	return e
}

// GenOptions: options a client or an upstream attaches.
func GenOptions(r *hx.RNG, scope uint8) []dns.EDNS0 {
	n := []int{0, 1, 1, 2, 2, 3}[r.Intn(6)]
	var out []dns.EDNS0
	for i := 0; i < n; i++ {
		switch r.Intn(6) {
		case 0, 1:
			out = append(out, ecsOption(r, scope))
		case 2:
			out = append(out, &dns.EDNS0_COOKIE{Code: dns.EDNS0COOKIE, Cookie: hexBytes(r, []int{8, 16, 24}[r.Intn(3)])})
		case 3:
			out = append(out, &dns.EDNS0_PADDING{Padding: make([]byte, r.Range(0, 40))})
		case 4:
			out = append(out, &dns.EDNS0_LOCAL{Code: 65001, Data: []byte{byte(r.Intn(4)), 7}})
		default:
			out = append(out, &dns.EDNS0_NSID{Code: dns.EDNS0NSID, Nsid: hexBytes(r, 2)})
		}
	}
	return out
}

func newOPT(size uint16, do bool, version uint8, opts []dns.EDNS0) *dns.OPT {
	o := new(dns.OPT)
	o.Hdr.Name = "."
	o.Hdr.Rrtype = dns.TypeOPT
	o.SetUDPSize(size)
	o.SetVersion(version)
	if do {
		o.SetDo()
	}
	o.Option = opts
	return o
}

func plainA(name string, ttl uint32, tag uint32) dns.RR {
	return &dns.A{Hdr: dns.RR_Header{Name: name, Rrtype: dns.TypeA, Class: dns.ClassINET, Ttl: ttl}, A: IP4(tag)}
}

// GenQuery builds one client query (already wire-normalised).
func GenQuery(r *hx.RNG, o QueryOpts) Query {
	for {
		m := new(dns.Msg)
		m.Id = hx.Pick(r, []uint16{0, 1, 0xFFFF, uint16(r.Intn(65536)), uint16(r.Intn(8))})
		m.RecursionDesired = r.Chance(3, 4)
		m.AuthenticatedData = r.Chance(1, 5)
		m.CheckingDisabled = r.Chance(1, 5)
		m.Zero = r.Chance(1, 10)
		m.Authoritative = r.Chance(1, 12)
		m.Truncated = r.Chance(1, 12)
		m.RecursionAvailable = r.Chance(1, 12)
		if r.Chance(1, 12) {
			m.Opcode = hx.Pick(r, []int{1, 2, 4, 5})
		}
		if r.Chance(1, 10) {
			m.Rcode = r.Range(1, 15)
		}
		cl := uint16(dns.ClassINET)
		if r.Chance(1, 8) {
			cl = hx.Pick(r, []uint16{3, 255, 4})
		}
		m.Question = []dns.Question{{Name: genName(r, o.LongNames), Qtype: hx.Pick(r, qtypes), Qclass: cl}}
		withOpt := r.Bool()
		if o.ForceOpt == 1 {
			withOpt = true
		} else if o.ForceOpt == 2 {
			withOpt = false
		}
		if withOpt {
			ver := hx.Pick(r, []uint8{0, 0, 0, 0, 1, 255})
			m.Extra = []dns.RR{newOPT(hx.Pick(r, udpSizes), r.Bool(), ver, GenOptions(r, 0))}
			if r.Chance(1, 10) {
				m.Rcode |= r.Range(1, 3) << 4 // extended rcode bits in the client's OPT
			}
		} else if r.Chance(1, 8) {
			m.Extra = []dns.RR{plainA(NameTable[r.Intn(3)], 60, uint32(r.Intn(8)))}
		}
		if o.Malformed {
			switch r.Intn(8) {
			case 0:
				m.Response = true
			case 1:
				m.Question = nil
			case 2:
				m.Question = append(m.Question, dns.Question{Name: NameTable[r.Intn(3)], Qtype: 1, Qclass: 1})
			case 3:
				m.Answer = []dns.RR{plainA(m.Question[0].Name, 60, 1)}
			case 4:
				m.Ns = []dns.RR{plainA(m.Question[0].Name, 60, 2)}
			case 5:
				m.Extra = []dns.RR{newOPT(1232, false, 0, nil), plainA(NameTable[0], 60, 3)}
			case 6:
				m.Extra = []dns.RR{plainA(NameTable[0], 60, 3), newOPT(1232, true, 0, nil)}
			default:
				m.Extra = []dns.RR{newOPT(512, false, 0, nil), newOPT(4096, true, 0, nil)}
			}
		}
		n, err := WireNormalise(m)
		if err != nil {
			continue
		}
		q := Query{Msg: n, UDP: r.Bool(), TCPf: r.Bool()}
		switch r.Intn(3) {
		case 0:
			q.Addr = netip.MustParseAddr("10.9.8.0")
		case 1:
			q.Addr = netip.MustParseAddr("fd00:1::")
		}
		return q
	}
}

// Requery: the same question again (new id, maybe other flags / OPT) so that caches are hit.
func Requery(r *hx.RNG, prev Query, o QueryOpts) Query {
	q := GenQuery(r, o)
	if len(prev.Msg.Question) == 1 && len(q.Msg.Question) == 1 {
		q.Msg.Question[0] = prev.Msg.Question[0]
		if r.Chance(2, 3) {
			q.Msg.AuthenticatedData = prev.Msg.AuthenticatedData
			q.Msg.CheckingDisabled = prev.Msg.CheckingDisabled
			q.Msg.Opcode = prev.Msg.Opcode
		}
	}
	return q
}

// ---------- upstream scripts ----------

type ScriptOpts struct {
	Big bool // answers that do not fit small UDP sizes
}

func genRecord(r *hx.RNG, big bool) dns.RR {
	name := ""
	if r.Chance(1, 4) {
		name = NameTable[r.Intn(len(NameTable)-1)]
	}
	h := dns.RR_Header{Name: name, Class: dns.ClassINET, Ttl: hx.Pick(r, ttls)}
	if big {
		h.Rrtype = dns.TypeTXT
		h.Ttl = hx.Pick(r, []uint32{100, 300, 3600})
		return &dns.TXT{Hdr: h, Txt: []string{strings.Repeat("x", r.Range(20, 120))}}
	}
	switch r.Intn(6) {
	case 0, 1, 2:
		h.Rrtype = dns.TypeA
		return &dns.A{Hdr: h, A: IP4(0x0A000000 | uint32(r.Intn(16)))}
	case 3:
		h.Rrtype = dns.TypeAAAA
		return &dns.AAAA{Hdr: h, AAAA: IP6(uint16(r.Intn(16)))}
	case 4:
		h.Rrtype = dns.TypeTXT
		return &dns.TXT{Hdr: h, Txt: []string{strings.Repeat("t", r.Range(1, 12))}}
	}
	h.Rrtype = dns.TypeCNAME
	return &dns.CNAME{Hdr: h, Target: NameTable[r.Intn(len(NameTable)-1)]}
}

func GenTemplate(r *hx.RNG, o ScriptOpts) Template {
	var t Template
	if r.Chance(1, 10) {
		t.Fail = true
		return t
	}
	for _, bit := range []uint{10, 7, 5, 4} {
		if r.Chance(1, 3) {
			t.Flags |= 1 << bit
		}
	}
	if r.Chance(1, 12) {
		t.Flags |= 1 << 9 // TC
	}
	if r.Chance(1, 10) {
		t.Flags |= 1 << 6 // Z
	}
	t.Rcode = hx.Pick(r, []int{0, 0, 0, 0, 0, 0, 2, 3, 3, 5, 9})
	big := o.Big && r.Chance(1, 2)
	na := []int{0, 1, 1, 2, 3}[r.Intn(5)]
	if big {
		na = r.Range(4, 30)
	}
	if t.Rcode == 3 && r.Bool() {
		na = 0
	}
	for i := 0; i < na; i++ {
		t.Answer = append(t.Answer, genRecord(r, big))
	}
	if r.Chance(1, 3) {
		n := 1
		if big {
			n = r.Range(1, 8)
		}
		for i := 0; i < n; i++ {
			t.Ns = append(t.Ns, genRecord(r, big && r.Bool()))
		}
	}
	if r.Chance(1, 4) {
		n := 1
		if big {
			n = r.Range(1, 8)
		}
		for i := 0; i < n; i++ {
			t.Extra = append(t.Extra, genRecord(r, big && r.Bool()))
		}
	}
	if r.Chance(2, 3) {
		t.Opt = newOPT(hx.Pick(r, []uint16{512, 1232, 4096}), r.Bool(), 0, GenOptions(r, uint8(r.Intn(2)*24)))
		if r.Chance(1, 10) {
			t.Rcode = hx.Pick(r, []int{16, 23}) // BADVERS, BADCOOKIE
		}
	}
	return t
}

func GenScripts(r *hx.RNG, nUp int, o ScriptOpts) [][]Template {
	out := make([][]Template, nUp)
	for i := range out {
		n := r.Range(1, 3)
		for j := 0; j < n; j++ {
			out[i] = append(out[i], GenTemplate(r, o))
		}
	}
	return out
}

// ---------- plugins ----------

func GenEcs(r *hx.RNG) WDesc {
	d := WDesc{Kind: "ecs"}
	switch r.Intn(6) {
	case 0, 1:
		d.Fwd = true
	case 2:
		d.Fwd, d.Send = true, true
	case 3:
		d.Send = true
	case 4:
		d.Preset = hx.Pick(r, []string{"10.1.2.0", "fd00:2::"})
	default:
		d.Fwd = true
		d.Preset = hx.Pick(r, []string{"10.1.2.0", "fd00:2::"})
	}
	if r.Chance(1, 3) {
		// masks that leave the harness addresses (aligned to /24 and /48) unchanged on the wire
		d.Mask4 = hx.Pick(r, []int{24, 32, 25})
		d.Mask6 = hx.Pick(r, []int{48, 128, 64})
	}
	return d
}

func GenFwdOpt(r *hx.RNG) WDesc {
	d := WDesc{Kind: "fwdopt"}
	for _, c := range []int{8, 10, 12, 65001, 3} {
		if r.Chance(2, 5) {
			d.Codes = append(d.Codes, c)
		}
	}
	return d
}

func GenTTL(r *hx.RNG) XDesc {
	d := XDesc{Kind: "ttl"}
	switch r.Intn(4) {
	case 0:
		d.Fix = hx.Pick(r, []uint32{1, 60, 300})
	case 1:
		d.Min = hx.Pick(r, []uint32{5, 120, 600})
	case 2:
		d.Max = hx.Pick(r, []uint32{1, 200, 3000})
	default:
		d.Min, d.Max = 100, hx.Pick(r, []uint32{50, 600})
	}
	return d
}

// GenChainC15: plugin chains of cache, ttl, ecs_handler, forward_edns0opt in
// any order around one or two forwards.
func GenChainC15(r *hx.RNG) ([]XDesc, []WDesc, []TSeq, int) {
	var xs []XDesc
	var ws []WDesc
	nUp := r.Range(1, 2)
	var rules []TRule
	addW := func(d WDesc) {
		ws = append(ws, d)
		rules = append(rules, TRule{Kind: "wrap", Arg: len(ws) - 1})
	}
	addX := func(d XDesc, ms ...TMatch) {
		xs = append(xs, d)
		rules = append(rules, TRule{Ms: ms, Kind: "exec", Arg: len(xs) - 1})
	}
	pre := r.Range(0, 4)
	for i := 0; i < pre; i++ {
		switch r.Intn(7) {
		case 0, 1:
			addW(WDesc{Kind: "cache"})
		case 2, 3:
			addW(GenEcs(r))
		case 4, 5:
			addW(GenFwdOpt(r))
		default:
			addX(GenTTL(r))
		}
	}
	addX(XDesc{Kind: "forward", Up: 0})
	if nUp == 2 {
		// a second upstream asked when the first gave nothing (it cannot: forward fails instead) or always
		if r.Bool() {
			addX(XDesc{Kind: "forward", Up: 1}, TMatch{Neg: true, ID: 0})
		} else {
			if r.Bool() {
				addW(GenFwdOpt(r))
			}
			addX(XDesc{Kind: "forward", Up: 1})
		}
	}
	post := r.Range(0, 2)
	for i := 0; i < post; i++ {
		addX(GenTTL(r))
	}
	// reuse a wrapper a second time now and then (the same plugin instance twice in the chain)
	if len(ws) > 0 && r.Chance(1, 6) {
		k := r.Intn(len(rules))
		dup := TRule{Kind: "wrap", Arg: r.Intn(len(ws))}
		rules = append(rules[:k], append([]TRule{dup}, rules[k:]...)...)
	}
	ss := []TSeq{{Name: 0, Rules: rules}}
	if r.Chance(1, 5) && len(rules) >= 2 {
		// split: the tail lives in its own sequence reached by jump or goto
		k := r.Range(1, len(rules)-1)
		kind := hx.Pick(r, []string{"jump", "goto"})
		ss = []TSeq{{Name: 1, Rules: rules[k:]}, {Name: 0, Rules: append(append([]TRule{}, rules[:k]...), TRule{Kind: kind, Arg: 1})}}
	}
	return xs, ws, ss, nUp
}

// GenCaseC15 builds one random C15 case.
func GenCaseC15(r *hx.RNG) *Case {
	xs, ws, ss, nUp := GenChainC15(r)
	c := &Case{Xs: xs, Ws: ws, Prog: ss, Scripts: GenScripts(r, nUp, ScriptOpts{})}
	n := r.Range(2, 5)
	for i := 0; i < n; i++ {
		o := QueryOpts{}
		if r.Chance(3, 5) {
			o.ForceOpt = 1
		}
		if i > 0 && r.Chance(1, 2) {
			c.Queries = append(c.Queries, Requery(r, c.Queries[r.Intn(i)], o))
		} else {
			c.Queries = append(c.Queries, GenQuery(r, o))
		}
	}
	return c
}

// ---------- C03: all modelled plugins, any program shape ----------

var hostPatterns = []string{"a.test", "A.TEST.", "full:b.test", "b.test.", "c.test", "full:C.Test.", "d.example", "e.test."}
var redirectPairs = []RedirectRule{
	{"a.test", "b.test."}, {"b.test", "c.test"}, {"c.test.", "a.test."}, {"full:A.test", "d.example."},
	{"d.example", "e.test."}, {"e.test", "e.test."}, {"b.test", "a.test"}, {"a.test.", "c.test."},
}

func GenHosts(r *hx.RNG) XDesc {
	d := XDesc{Kind: "hosts"}
	n := r.Range(1, 3)
	used := map[string]bool{}
	for i := 0; i < n; i++ {
		p := hx.Pick(r, hostPatterns)
		key := strings.ToLower(strings.TrimSuffix(strings.TrimPrefix(p, "full:"), "."))
		if used[key] {
			continue
		}
		used[key] = true
		e := HostEntry{Pattern: p}
		for j := r.Range(0, 2); j > 0; j-- {
			e.V4 = append(e.V4, 0x0A000100|uint32(r.Intn(8)))
		}
		for j := r.Range(0, 1); j > 0; j-- {
			e.V6 = append(e.V6, uint16(0x100+r.Intn(8)))
		}
		d.Hosts = append(d.Hosts, e)
	}
	return d
}

func GenBlackHole(r *hx.RNG) XDesc {
	d := XDesc{Kind: "black_hole"}
	for j := r.Range(0, 2); j > 0; j-- {
		d.V4 = append(d.V4, 0x0A000200|uint32(r.Intn(8)))
	}
	for j := r.Range(0, 1); j > 0; j-- {
		d.V6 = append(d.V6, uint16(0x200+r.Intn(8)))
	}
	return d
}

func GenArbitrary(r *hx.RNG) XDesc {
	d := XDesc{Kind: "arbitrary"}
	n := r.Range(1, 4)
	for i := 0; i < n; i++ {
		z := ZoneRR{Owner: NameTable[r.Intn(7)], TTL: hx.Pick(r, []uint32{0, 1, 60, 300, 3600})}
		if r.Chance(2, 3) {
			z.Type, z.V4 = dns.TypeA, 0x0A000300|uint32(r.Intn(8))
		} else {
			z.Type, z.Txt = dns.TypeTXT, strings.Repeat("z", r.Range(1, 9))
		}
		d.Zone = append(d.Zone, z)
	}
	return d
}

func GenRedirect(r *hx.RNG) WDesc {
	d := WDesc{Kind: "redirect"}
	n := r.Range(1, 3)
	used := map[string]bool{}
	for i := 0; i < n; i++ {
		p := hx.Pick(r, redirectPairs)
		key := strings.ToLower(strings.TrimSuffix(strings.TrimPrefix(p.Pattern, "full:"), "."))
		if used[key] {
			continue
		}
		used[key] = true
		d.Rules = append(d.Rules, p)
	}
	return d
}

func genMatchers(r *hx.RNG) []TMatch {
	n := []int{0, 0, 0, 0, 1, 1, 1, 2}[r.Intn(8)]
	ms := make([]TMatch, n)
	for i := range ms {
		switch r.Intn(8) {
		case 0, 1:
			ms[i] = TMatch{Neg: true, ID: 0} // !has_resp
		case 2:
			ms[i] = TMatch{ID: 0}
		case 3:
			ms[i] = TMatch{ID: 1, Neg: r.Chance(1, 4)}
		case 4:
			ms[i] = TMatch{ID: 28, Neg: r.Chance(1, 4)}
		case 5:
			ms[i] = TMatch{ID: 100, Neg: r.Chance(1, 5)}
		case 6:
			ms[i] = TMatch{ID: 101, Neg: r.Chance(4, 5)}
		default:
			ms[i] = TMatch{ID: 16, Neg: r.Bool()}
		}
	}
	return ms
}

// GenProgramC03: 1-3 sequences over a pool of plugins of every modelled kind.
func GenProgramC03(r *hx.RNG) ([]XDesc, []WDesc, []TSeq, int) {
	nUp := r.Range(1, 2)
	var xs []XDesc
	var ws []WDesc
	nx := r.Range(1, 5)
	for i := 0; i < nx; i++ {
		switch r.Intn(9) {
		case 0, 1:
			xs = append(xs, XDesc{Kind: "forward", Up: r.Intn(nUp)})
		case 2, 3:
			xs = append(xs, GenHosts(r))
		case 4:
			xs = append(xs, GenBlackHole(r))
		case 5:
			xs = append(xs, GenArbitrary(r))
		case 6, 7:
			xs = append(xs, GenTTL(r))
		default:
			xs = append(xs, XDesc{Kind: "drop_resp"})
		}
	}
	if r.Chance(3, 4) {
		xs = append(xs, XDesc{Kind: "forward", Up: r.Intn(nUp)})
	}
	nw := r.Range(0, 4)
	for i := 0; i < nw; i++ {
		switch r.Intn(7) {
		case 0, 1, 2:
			ws = append(ws, WDesc{Kind: "cache"})
		case 3, 4:
			ws = append(ws, GenRedirect(r))
		case 5:
			ws = append(ws, GenEcs(r))
		default:
			ws = append(ws, GenFwdOpt(r))
		}
	}
	nseq := []int{1, 1, 1, 2, 2, 3}[r.Intn(6)]
	ss := make([]TSeq, nseq)
	for si := range ss {
		// names: targets first, the entry last
		ss[si].Name = nseq - 1 - si
		nr := r.Range(1, 6)
		for j := 0; j < nr; j++ {
			t := TRule{Ms: genMatchers(r)}
			k := r.Intn(20)
			switch {
			case k < 8:
				t.Kind, t.Arg = "exec", r.Intn(len(xs))
			case k < 13 && len(ws) > 0:
				t.Kind, t.Arg = "wrap", r.Intn(len(ws))
			case k < 14:
				t.Kind = "accept"
			case k < 16:
				t.Kind, t.Arg = "reject", hx.Pick(r, []int{-1, -1, 0, 2, 3, 5, 5, 16})
			case k < 17:
				t.Kind = "return"
			case k < 19 && si > 0:
				t.Kind, t.Arg = hx.Pick(r, []string{"jump", "jump", "goto"}), ss[r.Intn(si)].Name
			default:
				t.Kind, t.Arg = "exec", r.Intn(len(xs))
			}
			ss[si].Rules = append(ss[si].Rules, t)
		}
	}
	return xs, ws, ss, nUp
}

// GenCaseC03 builds one random C03 case.
func GenCaseC03(r *hx.RNG) *Case {
	xs, ws, ss, nUp := GenProgramC03(r)
	c := &Case{Xs: xs, Ws: ws, Prog: ss, Scripts: GenScripts(r, nUp, ScriptOpts{Big: r.Chance(1, 3)})}
	n := r.Range(3, 6)
	for i := 0; i < n; i++ {
		o := QueryOpts{LongNames: true, Malformed: r.Chance(1, 7)}
		if i > 0 && r.Chance(1, 2) && !o.Malformed {
			c.Queries = append(c.Queries, Requery(r, c.Queries[r.Intn(i)], o))
		} else {
			c.Queries = append(c.Queries, GenQuery(r, o))
		}
	}
	return c
}

// GenStructuredC03: programs of the shape [local answer?] [redirect?] cache
// [redirect?] [local answer?] [ecs/fwdopt?] forward [ttl?] with queries for a
// few names and one type, so that cache hits, redirect nesting and responses
// that exist before a redirect or a cache are frequent.
func GenStructuredC03(r *hx.RNG) *Case {
	var xs []XDesc
	var ws []WDesc
	var rules []TRule
	addX := func(d XDesc, ms ...TMatch) {
		xs = append(xs, d)
		rules = append(rules, TRule{Ms: ms, Kind: "exec", Arg: len(xs) - 1})
	}
	addW := func(d WDesc) {
		ws = append(ws, d)
		rules = append(rules, TRule{Kind: "wrap", Arg: len(ws) - 1})
	}
	local := func() {
		var ms []TMatch
		if r.Chance(1, 3) {
			ms = []TMatch{{Neg: true, ID: 0}}
		}
		switch r.Intn(3) {
		case 0:
			addX(GenHosts(r), ms...)
		case 1:
			addX(GenArbitrary(r), ms...)
		default:
			addX(GenBlackHole(r), ms...)
		}
	}
	if r.Chance(1, 2) {
		local()
	}
	if r.Chance(1, 2) {
		addW(GenRedirect(r))
	}
	if r.Chance(5, 6) {
		addW(WDesc{Kind: "cache"})
	}
	if r.Chance(1, 2) {
		addW(GenRedirect(r))
	}
	if r.Chance(1, 4) {
		addW(WDesc{Kind: "cache"})
	}
	if r.Chance(1, 3) {
		local()
	}
	if r.Chance(1, 4) {
		if r.Bool() {
			addW(GenEcs(r))
		} else {
			addW(GenFwdOpt(r))
		}
	}
	if r.Chance(5, 6) {
		if r.Chance(1, 2) {
			addX(XDesc{Kind: "forward", Up: 0}, TMatch{Neg: true, ID: 0})
		} else {
			addX(XDesc{Kind: "forward", Up: 0})
		}
	}
	if r.Chance(1, 3) {
		addX(GenTTL(r))
	}
	if len(rules) == 0 {
		local()
	}
	c := &Case{Xs: xs, Ws: ws, Prog: []TSeq{{Name: 0, Rules: rules}}}
	// cacheable answers mostly
	for j := r.Range(1, 3); j > 0; j-- {
		t := GenTemplate(r, ScriptOpts{})
		if r.Chance(2, 3) {
			t.Fail, t.Rcode = false, 0
			t.Flags &^= 1 << 9
			for _, rr := range append(append(append([]dns.RR{}, t.Answer...), t.Ns...), t.Extra...) {
				if rr.Header().Ttl < 100 {
					rr.Header().Ttl = 300
				}
			}
			if t.Opt != nil && t.Rcode > 15 {
				t.Rcode = 0
			}
		}
		c.Scripts = append(c.Scripts, nil)
		c.Scripts[0] = append(c.Scripts[0], t)
	}
	c.Scripts = c.Scripts[:1]
	n := r.Range(3, 6)
	qt := hx.Pick(r, []uint16{1, 1, 28})
	for i := 0; i < n; i++ {
		q := GenQuery(r, QueryOpts{})
		q.Msg.Question[0] = dns.Question{Name: NameTable[r.Intn(4)], Qtype: qt, Qclass: 1}
		q.Msg.Opcode = 0
		if r.Chance(3, 4) {
			q.Msg.AuthenticatedData, q.Msg.CheckingDisabled = false, false
		}
		c.Queries = append(c.Queries, q)
	}
	return c
}

// ---------- plugins that run the chain on copies: dual_selector, fallback ----------

// subChain: a small sequence body: [cache?] [ecs/fwdopt?] {forward | local answer | reject | nothing} [ttl?]
func subChain(r *hx.RNG, xs *[]XDesc, ws *[]WDesc, up int, allowCache bool) []TRule {
	var rules []TRule
	addX := func(d XDesc, ms ...TMatch) {
		*xs = append(*xs, d)
		rules = append(rules, TRule{Ms: ms, Kind: "exec", Arg: len(*xs) - 1})
	}
	addW := func(d WDesc) {
		*ws = append(*ws, d)
		rules = append(rules, TRule{Kind: "wrap", Arg: len(*ws) - 1})
	}
	if allowCache && r.Chance(1, 3) {
		addW(WDesc{Kind: "cache"})
	}
	if r.Chance(1, 2) {
		if r.Bool() {
			addW(GenEcs(r))
		} else {
			addW(GenFwdOpt(r))
		}
	}
	switch r.Intn(8) {
	case 0:
		addX(GenHosts(r))
	case 1:
		rules = append(rules, TRule{Kind: "reject", Arg: hx.Pick(r, []int{-1, 0, 3})})
	case 2:
		// nothing: the sub-sequence leaves no response
	default:
		addX(XDesc{Kind: "forward", Up: up})
	}
	if r.Chance(1, 4) {
		addX(GenTTL(r))
	}
	return rules
}

// GenCopyingCase: a program around one dual_selector or one fallback, with
// option-forwarding plugins before and after it, caches, and queries of type
// A / AAAA for a few names.
func GenCopyingCase(r *hx.RNG) *Case {
	var xs []XDesc
	var ws []WDesc
	var ss []TSeq
	var entry []TRule
	addW := func(d WDesc) {
		ws = append(ws, d)
		entry = append(entry, TRule{Kind: "wrap", Arg: len(ws) - 1})
	}
	pre := func() {
		for i := r.Range(0, 2); i > 0; i-- {
			switch r.Intn(4) {
			case 0:
				addW(WDesc{Kind: "cache"})
			case 1:
				addW(GenEcs(r))
			case 2:
				addW(GenFwdOpt(r))
			default:
				addW(GenRedirect(r))
			}
		}
	}
	nUp := 2
	if r.Bool() {
		// dual_selector: pre-wrappers, selector, then the rest of the chain
		pre()
		addW(WDesc{Kind: "dual", V6: r.Chance(1, 3)})
		entry = append(entry, subChain(r, &xs, &ws, 0, true)...)
	} else {
		// fallback over two sub-sequences; a standing-by secondary shares no cache with the primary
		standby := r.Chance(1, 2)
		p := subChain(r, &xs, &ws, 0, true)
		s := subChain(r, &xs, &ws, 1, true)
		ss = append(ss, TSeq{Name: 1, Rules: p}, TSeq{Name: 2, Rules: s})
		pre()
		xs = append(xs, XDesc{Kind: "fallback", Prim: 1, Sec: hx.Pick(r, []int{2, 2, 2, 1}), Standby: standby})
		if standby {
			xs[len(xs)-1].Sec = 2
		}
		entry = append(entry, TRule{Kind: "exec", Arg: len(xs) - 1})
		if r.Chance(1, 3) {
			xs = append(xs, GenTTL(r))
			entry = append(entry, TRule{Kind: "exec", Arg: len(xs) - 1})
		}
	}
	ss = append(ss, TSeq{Name: 0, Rules: entry})
	c := &Case{Xs: xs, Ws: ws, Prog: ss}
	// scripts: per upstream 2 templates (so that A and AAAA of one name get different ones), mostly cacheable,
	// with and without records of type A / AAAA, all with options
	for u := 0; u < nUp; u++ {
		var ts []Template
		for j := 0; j < 2; j++ {
			t := GenTemplate(r, ScriptOpts{})
			if r.Chance(3, 4) {
				t.Fail, t.Rcode = false, 0
				t.Flags &^= 1 << 9
			}
			if !t.Fail && r.Chance(2, 3) && t.Opt == nil {
				t.Opt = newOPT(1232, r.Bool(), 0, GenOptions(r, 24))
			}
			if !t.Fail && r.Chance(1, 4) {
				// an extended rcode: it needs an OPT to travel in, upstream and downstream
				t.Rcode = hx.Pick(r, []int{16, 17, 18, 19, 20, 21, 22, 23, 4095})
				if t.Opt == nil {
					t.Opt = newOPT(1232, false, 0, nil)
				}
			}
			ts = append(ts, t)
		}
		c.Scripts = append(c.Scripts, ts)
	}
	n := r.Range(3, 6)
	for i := 0; i < n; i++ {
		o := QueryOpts{}
		if r.Chance(3, 4) {
			o.ForceOpt = 1
		}
		q := GenQuery(r, o)
		q.Msg.Question[0] = dns.Question{Name: NameTable[r.Intn(3)], Qtype: hx.Pick(r, []uint16{1, 28, 28, 16}), Qclass: 1}
		q.Msg.Opcode = 0
		if r.Chance(3, 4) {
			q.Msg.AuthenticatedData, q.Msg.CheckingDisabled = false, false
		}
		c.Queries = append(c.Queries, q)
	}
	return c
}
