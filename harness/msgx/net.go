package msgx

import (
	"bytes"
	"encoding/base64"
	"encoding/binary"
	"errors"
	"fmt"
	"io"
	"net"
	"net/http"
	"net/http/httptest"
	"runtime"
	"strings"
	"sync"
	"sync/atomic"
	"time"

	"github.com/IrineSistiana/mosdns/v5/pkg/server"
	"github.com/IrineSistiana/mosdns/v5/pkg/server_handler"
	"github.com/miekg/dns"

	"verifharness/hx"
)

// Transports of Judge.C15.NObs.
const (
	TrUDP = iota
	TrTCP
	TrTCPPipelined
	TrDoHGet
	TrDoHPost
)

// waitReply: how long a reply that is expected may take before "no reply" is
// recorded (a reply or a closed connection is an event; this only bounds a
// hang). waitNone: how long a UDP query that must not be answered is watched.
const (
	waitReply = 20 * time.Second
	waitNone  = 300 * time.Millisecond
)

type NetQuery struct {
	Tr  int
	Msg *dns.Msg // wire-normalised
}

type netObs struct {
	reply *dns.Msg
	rlen  int
}

// wellFormed is the basic check of the property; it only selects the waiting
// time over UDP (a malformed query is watched for waitNone, a well-formed one
// for up to waitReply) — what came back is recorded either way.
func wellFormed(m *dns.Msg) bool {
	return !m.Response && len(m.Question) == 1 && len(m.Answer)+len(m.Ns) == 0 && len(m.Extra) <= 1
}

func parseReply(b []byte) (netObs, error) {
	r := new(dns.Msg)
	if err := r.Unpack(b); err != nil {
		return netObs{}, fmt.Errorf("reply does not unpack: %w", err)
	}
	return netObs{reply: r, rlen: len(b)}, nil
}

type netServers struct {
	udpAddr *net.UDPAddr
	tcpAddr string
	dohSrv  *httptest.Server
	closers []func()
}

func startServers(h *server_handler.EntryHandler) (*netServers, error) {
	s := &netServers{}
	uc, err := net.ListenUDP("udp", &net.UDPAddr{IP: net.IPv4(127, 0, 0, 1)})
	if err != nil {
		return nil, err
	}
	s.udpAddr = uc.LocalAddr().(*net.UDPAddr)
	go server.ServeUDP(uc, h, server.UDPServerOpts{})
	s.closers = append(s.closers, func() { uc.Close() })
	l, err := net.Listen("tcp", "127.0.0.1:0")
	if err != nil {
		s.close()
		return nil, err
	}
	s.tcpAddr = l.Addr().String()
	go server.ServeTCP(l, h, server.TCPServerOpts{IdleTimeout: 60 * time.Second})
	s.closers = append(s.closers, func() { l.Close() })
	s.dohSrv = httptest.NewServer(server.NewHttpHandler(h, server.HttpHandlerOpts{}))
	s.closers = append(s.closers, s.dohSrv.Close)
	return s, nil
}

func (s *netServers) close() {
	for _, f := range s.closers {
		f()
	}
}

func (s *netServers) udp(m *dns.Msg) (netObs, error) {
	b, err := m.Pack()
	if err != nil {
		return netObs{}, err
	}
	c, err := net.DialUDP("udp", nil, s.udpAddr)
	if err != nil {
		return netObs{}, err
	}
	defer c.Close()
	if _, err := c.Write(b); err != nil {
		return netObs{}, err
	}
	wait := waitReply
	if !wellFormed(m) {
		wait = waitNone
	}
	c.SetReadDeadline(time.Now().Add(wait))
	buf := make([]byte, 65535)
	n, err := c.Read(buf)
	if err != nil {
		return netObs{}, nil // nothing came back
	}
	return parseReply(buf[:n])
}

func frame(b []byte) []byte {
	out := make([]byte, 2+len(b))
	binary.BigEndian.PutUint16(out, uint16(len(b)))
	copy(out[2:], b)
	return out
}

func readFrame(c net.Conn) ([]byte, error) {
	var h [2]byte
	if _, err := io.ReadFull(c, h[:]); err != nil {
		return nil, err
	}
	b := make([]byte, binary.BigEndian.Uint16(h[:]))
	if _, err := io.ReadFull(c, b); err != nil {
		return nil, err
	}
	return b, nil
}

// tcp sends the queries back to back on one connection and collects the
// replies by id until all have one or the server closes the connection.
func (s *netServers) tcp(ms []*dns.Msg) ([]netObs, error) {
	out := make([]netObs, len(ms))
	c, err := net.Dial("tcp", s.tcpAddr)
	if err != nil {
		return nil, err
	}
	defer c.Close()
	var all []byte
	for _, m := range ms {
		b, err := m.Pack()
		if err != nil {
			return nil, err
		}
		all = append(all, frame(b)...)
	}
	if _, err := c.Write(all); err != nil {
		return out, nil
	}
	c.SetReadDeadline(time.Now().Add(waitReply))
	for got := 0; got < len(ms); {
		b, err := readFrame(c)
		if err != nil {
			return out, nil // closed (or hung): the rest got no reply
		}
		o, err := parseReply(b)
		if err != nil {
			continue // not a DNS message: nobody's reply
		}
		for i, m := range ms {
			if out[i].reply == nil && m.Id == o.reply.Id {
				out[i] = o
				got++
				break
			}
		}
	}
	return out, nil
}

// tcpRound: the queries are written back to back on one connection; the
// barrier at the end of the chain holds every one of them until all have
// arrived and then lets them go together, so that their replies are written
// at the same moment. When all handler goroutines have ended everything the
// server had to say is in the socket: what is read then, frame by frame, is
// matched to the queries by id.
func (s *netServers) tcpRound(ms []*dns.Msg, meet *Rendezvous, base int) ([]netObs, error) {
	out := make([]netObs, len(ms))
	if !waitGoroutines(base, waitReply) {
		return nil, errors.New("servers are not idle before a pipelined round")
	}
	meet.Reset(len(ms))
	defer meet.Reset(1)
	c, err := net.Dial("tcp", s.tcpAddr)
	if err != nil {
		return nil, err
	}
	defer c.Close()
	var all []byte
	for _, m := range ms {
		b, err := m.Pack()
		if err != nil {
			return nil, err
		}
		all = append(all, frame(b)...)
	}
	if _, err := c.Write(all); err != nil {
		return out, nil
	}
	// a reader takes frames off the connection from the start, so that a
	// connection the server closes is noticed at once
	frames := make(chan []byte, len(ms)+64)
	var phase2 atomic.Bool
	go func() {
		defer close(frames)
		for {
			b, err := readFrame(c)
			if err != nil {
				return // closed, or (after the release) nothing more / out of step
			}
			if phase2.Load() {
				c.SetReadDeadline(time.Now().Add(2 * time.Second))
			}
			frames <- b
		}
	}()
	place := func(b []byte) {
		o, err := parseReply(b)
		if err != nil {
			return // not a DNS message: nobody's reply
		}
		for i, m := range ms {
			if out[i].reply == nil && m.Id == o.reply.Id {
				out[i] = o
				return
			}
		}
	}
	drain := func() {
		for b := range frames {
			place(b)
		}
	}
	for i := 0; i < len(ms); i++ {
		select {
		case <-meet.Arrived:
		case b, ok := <-frames:
			if !ok { // the server closed the connection before all queries were in
				return out, nil
			}
			place(b)
			i--
		case <-time.After(waitReply):
			return nil, errors.New("pipelined queries do not all reach the barrier")
		}
	}
	// base + the connection's read loop + the reader: the handler goroutines have written and ended
	if !waitGoroutines(base+2, waitReply) {
		return nil, errors.New("handlers of a pipelined round do not end")
	}
	// everything is in the socket already; the deadline only ends a read on a stream that is out of step
	phase2.Store(true)
	c.SetReadDeadline(time.Now().Add(2 * time.Second))
	got := func() int {
		n := 0
		for i := range out {
			if out[i].reply != nil {
				n++
			}
		}
		return n
	}
	for got() < len(ms) {
		b, ok := <-frames
		if !ok {
			break
		}
		place(b)
	}
	c.Close()
	drain()
	return out, nil
}

func (s *netServers) doh(m *dns.Msg, post bool) (netObs, error) {
	b, err := m.Pack()
	if err != nil {
		return netObs{}, err
	}
	var req *http.Request
	if post {
		req, err = http.NewRequest(http.MethodPost, s.dohSrv.URL+"/dns-query", bytes.NewReader(b))
		if err == nil {
			req.Header.Set("Content-Type", "application/dns-message")
		}
	} else {
		req, err = http.NewRequest(http.MethodGet, s.dohSrv.URL+"/dns-query?dns="+base64.RawURLEncoding.EncodeToString(b), nil)
		if err == nil {
			req.Header.Set("Accept", "application/dns-message")
		}
	}
	if err != nil {
		return netObs{}, err
	}
	cl := &http.Client{Timeout: waitReply, Transport: &http.Transport{DisableKeepAlives: true}}
	resp, err := cl.Do(req)
	if err != nil {
		return netObs{}, nil
	}
	defer resp.Body.Close()
	body, err := io.ReadAll(resp.Body)
	if err != nil || resp.StatusCode != http.StatusOK {
		return netObs{}, nil
	}
	return parseReply(body)
}

// NetCase: a stateless program (hosts and a forward over a scripted upstream)
// behind the real servers.
type NetCase struct {
	Xs      []XDesc
	Scripts [][]Template
	Prog    []TSeq
	Queries []NetQuery
	Rounds  [][]*dns.Msg // each: queries pipelined on one TCP connection and released together by the barrier
}

// Run starts the servers, sends every query over its transport (pipelined
// ones together on one connection, the UDP queries that must stay unanswered
// concurrently) and renders a Judge.C15.CNet case.
func (c *NetCase) Run(render func() *hx.RNG) (string, map[string]int, error) {
	rec := &Recorder{}
	Quiesce()
	b, err := Build(render(), c.Xs, nil, c.Scripts, c.Prog, rec)
	if err != nil {
		return "", nil, err
	}
	defer b.Close()
	h := server_handler.NewEntryHandler(server_handler.EntryHandlerOpts{Entry: b.Entry, QueryTimeout: time.Minute})
	srv, err := startServers(h)
	if err != nil {
		return "", nil, err
	}
	defer srv.close()
	base := runtime.NumGoroutine() // the idle servers
	obs := make([]netObs, len(c.Queries))
	errs := make([]error, len(c.Queries))
	var wg sync.WaitGroup
	var pipe []int
	for i, q := range c.Queries {
		switch {
		case q.Tr == TrTCPPipelined:
			pipe = append(pipe, i)
		case q.Tr == TrUDP && !wellFormed(q.Msg):
			wg.Add(1)
			go func(i int, m *dns.Msg) {
				defer wg.Done()
				obs[i], errs[i] = srv.udp(m)
			}(i, q.Msg)
		}
	}
	for i, q := range c.Queries {
		switch q.Tr {
		case TrUDP:
			if wellFormed(q.Msg) {
				obs[i], errs[i] = srv.udp(q.Msg)
			}
		case TrTCP:
			var o []netObs
			o, errs[i] = srv.tcp([]*dns.Msg{q.Msg})
			if errs[i] == nil {
				obs[i] = o[0]
			}
		case TrDoHGet, TrDoHPost:
			obs[i], errs[i] = srv.doh(q.Msg, q.Tr == TrDoHPost)
		}
	}
	if len(pipe) > 0 {
		ms := make([]*dns.Msg, len(pipe))
		for k, i := range pipe {
			ms[k] = c.Queries[i].Msg
		}
		o, err := srv.tcp(ms)
		if err != nil {
			return "", nil, err
		}
		for k, i := range pipe {
			obs[i] = o[k]
		}
	}
	wg.Wait()
	tally := map[string]int{}
	it := make([]string, len(c.Queries))
	for i, q := range c.Queries {
		if errs[i] != nil {
			return "", nil, errs[i]
		}
		reply := "None"
		if obs[i].reply != nil {
			reply = hx.Some(MsgCoq(obs[i].reply))
			tally[fmt.Sprintf("net-replied-tr%d", q.Tr)]++
		} else {
			tally[fmt.Sprintf("net-noreply-tr%d", q.Tr)]++
		}
		it[i] = fmt.Sprintf("(NObs %d %s %s %d)", q.Tr, MsgCoq(q.Msg), reply, obs[i].rlen)
	}
	for _, ms := range c.Rounds {
		if b.Meet == nil {
			return "", nil, errors.New("pipelined rounds without a barrier in the program")
		}
		o, err := srv.tcpRound(ms, b.Meet, base)
		if err != nil {
			return "", nil, err
		}
		for k, m := range ms {
			reply := "None"
			if o[k].reply != nil {
				reply = hx.Some(MsgCoq(o[k].reply))
				tally["net-round-replied"]++
			} else {
				tally["net-round-noreply"]++
			}
			it = append(it, fmt.Sprintf("(NObs %d %s %s %d)", TrTCPPipelined, MsgCoq(m), reply, o[k].rlen))
		}
	}
	xs := make([]string, len(c.Xs))
	for i, d := range c.Xs {
		xs[i] = d.Coq()
	}
	return fmt.Sprintf("CNet %s [] %s %s %s", hx.List(xs), ScriptsCoq(c.Scripts), ProgCoq(c.Prog), hx.List(it)), tally, nil
}

// ---------- the boundary queries ----------

func netQuery(id uint16, name string, qtype uint16, o *dns.OPT, mod func(*dns.Msg)) *dns.Msg {
	m := new(dns.Msg)
	m.Id = id
	m.RecursionDesired = true
	m.Question = []dns.Question{{Name: name, Qtype: qtype, Qclass: dns.ClassINET}}
	if o != nil {
		m.Extra = []dns.RR{o}
	}
	if mod != nil {
		mod(m)
	}
	n, err := WireNormalise(m)
	if err != nil {
		panic(err)
	}
	return n
}

// pickID returns an id >= from for which the scripted upstream (2 templates)
// answers (name, qtype) with template want.
func pickID(from uint16, name string, qtype uint16, want int) uint16 {
	for id := from; ; id++ {
		if int((hx.Sum([]byte(name))+uint64(qtype)+uint64(id))%2) == want {
			return id
		}
	}
}

// GenNetCase: the fixed chain [hosts; forward (when no response yet)] and a
// list of boundary queries, each over several transports, followed by random ones.
func GenNetCase(r *hx.RNG, boundary bool) *NetCase {
	c := &NetCase{
		Xs: []XDesc{
			{Kind: "hosts", Hosts: []HostEntry{{Pattern: "a.test", V4: []uint32{0x0A000101}, V6: []uint16{0x101}}}},
			{Kind: "forward", Up: 0},
			{Kind: "barrier"},
		},
		Prog: []TSeq{{Name: 0, Rules: []TRule{{Kind: "exec", Arg: 0}, {Ms: []TMatch{{Neg: true, ID: 0}}, Kind: "exec", Arg: 1}, {Kind: "exec", Arg: 2}}}},
	}
	small := Template{Flags: 1 << 7, Answer: []dns.RR{plainA("", 300, 0x0A000001)}, Opt: newOPT(1232, false, 0, nil)}
	var big []dns.RR
	nbig, lbig := 240, 250 // about 63 kB: the largest class of answers that still fits a TCP frame
	if !boundary {
		nbig, lbig = r.Range(3, 12), r.Range(60, 200)
	}
	for i := 0; i < nbig; i++ {
		big = append(big, &dns.TXT{Hdr: dns.RR_Header{Name: "", Rrtype: dns.TypeTXT, Class: 1, Ttl: 300}, Txt: []string{strings.Repeat("y", lbig)}})
	}
	c.Scripts = [][]Template{{small, {Flags: 1 << 7, Answer: big}}}
	id := uint16(r.Intn(1000))
	add := func(trs []int, name string, qtype uint16, o *dns.OPT, want int, mod func(*dns.Msg)) {
		for _, tr := range trs {
			id = pickID(id+1, name, qtype, want)
			c.Queries = append(c.Queries, NetQuery{tr, netQuery(id, name, qtype, o, mod)})
		}
	}
	all := []int{TrUDP, TrTCP, TrTCPPipelined, TrDoHGet, TrDoHPost}
	stream := []int{TrTCP, TrTCPPipelined, TrDoHGet, TrDoHPost}
	if boundary {
		// the smallest well-formed queries: the root name, without and with OPT
		for _, t := range []uint16{dns.TypeNS, dns.TypeDNSKEY, dns.TypeSOA} {
			add(all, ".", t, nil, 0, nil)
		}
		add(all, ".", dns.TypeNS, newOPT(1232, true, 0, nil), 0, nil)
		// one-label, mixed-case, 255-octet names
		add(all, "a.", 1, nil, 0, nil)
		add(all, "A.tEsT.", 1, nil, 0, nil)
		add(all, "A.tEsT.", 28, newOPT(4096, false, 0, nil), 0, nil)
		add(all, LongName(244, 3), 1, nil, 0, nil)
		add(all, LongName(244, 3), 16, newOPT(512, false, 0, nil), 0, nil)
		// the largest answers over the stream transports, and over UDP with and without room for them
		add(stream, "b.test.", 16, nil, 1, nil)
		add([]int{TrUDP}, "b.test.", 16, newOPT(65535, false, 0, nil), 1, nil)
		add([]int{TrUDP}, "b.test.", 16, newOPT(4096, true, 0, nil), 1, nil)
		add([]int{TrUDP}, "b.test.", 16, nil, 1, nil)
		// every malformation, over UDP (watched for a while), its own TCP connection and DoH
		mal := []func(*dns.Msg){
			func(m *dns.Msg) { m.Response = true },
			func(m *dns.Msg) { m.Question = nil },
			func(m *dns.Msg) { m.Question = append(m.Question, m.Question[0]) },
			func(m *dns.Msg) { m.Answer = []dns.RR{plainA("a.test.", 1, 1)} },
			func(m *dns.Msg) { m.Ns = []dns.RR{plainA("a.test.", 1, 1)} },
			func(m *dns.Msg) { m.Extra = []dns.RR{plainA("a.test.", 1, 1), newOPT(1232, false, 0, nil)} },
			func(m *dns.Msg) { m.Extra = []dns.RR{newOPT(1232, false, 0, nil), newOPT(512, true, 0, nil)} },
		}
		for i, f := range mal {
			trs := []int{TrTCP, TrDoHGet, TrDoHPost}
			if i%2 == 0 {
				trs = append(trs, TrUDP)
			}
			add(trs, "a.test.", 1, nil, 0, f)
		}
		return c
	}
	// random: valid queries of all shapes over random transports; advertised UDP sizes around the reply size
	n := r.Range(6, 12)
	for i := 0; i < n; i++ {
		q := GenQuery(r, QueryOpts{LongNames: true})
		if r.Chance(1, 4) {
			q.Msg.Question[0].Name = hx.Pick(r, []string{".", "a.", "Z."})
		}
		q.Msg.Rcode &= 0xF
		if q.Msg.Rcode != 0 && len(q.Msg.Extra) == 0 {
			q.Msg.Rcode = 0
		}
		id = id + 1 + uint16(r.Intn(3))
		q.Msg.Id = id
		c.Queries = append(c.Queries, NetQuery{hx.Pick(r, all), q.Msg})
	}
	// UDP sizes around the length of the big reply for this case
	probe := netQuery(pickID(id+1, "c.test.", 16, 1), "c.test.", 16, newOPT(65535, false, 0, nil), nil)
	id = probe.Id
	c.Queries = append(c.Queries, NetQuery{TrTCP, probe})
	l := 12 + 12 + nbig*(2+10+1+lbig) + 11
	for _, s := range []int{l - 30, l - 1, l, l + 1, 512, 513} {
		if s > 0 && s < 65536 {
			add([]int{TrUDP}, "c.test.", 16, newOPT(uint16(s), false, 0, nil), 1, nil)
		}
	}
	return c
}

// GenPipeCase: rounds of k queries pipelined on one TCP connection whose
// replies (of different lengths: hosts answers, one record, a few TXT records)
// are released at the same moment.
func GenPipeCase(r *hx.RNG, k, rounds int) *NetCase {
	c := GenNetCase(r, false)
	c.Queries = nil
	names := []string{"a.test.", "b.test.", "c.test.", "A.Test.", ".", "d.example.", LongName(r.Range(20, 120), uint64(r.Intn(4)))}
	id := uint16(r.Intn(30000))
	for j := 0; j < rounds; j++ {
		var ms []*dns.Msg
		for i := 0; i < k; i++ {
			id += 1 + uint16(r.Intn(3))
			var o *dns.OPT
			if r.Bool() {
				o = newOPT(hx.Pick(r, udpSizes), r.Bool(), 0, nil)
			}
			ms = append(ms, netQuery(id, hx.Pick(r, names), hx.Pick(r, []uint16{1, 28, 16, 2}), o, nil))
		}
		c.Rounds = append(c.Rounds, ms)
	}
	return c
}
