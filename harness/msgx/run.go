package msgx

import (
	"context"
	"errors"
	"fmt"
	"net/netip"
	"runtime"
	"sync"
	"time"

	"github.com/IrineSistiana/mosdns/v5/pkg/pool"
	"github.com/IrineSistiana/mosdns/v5/pkg/query_context"
	"github.com/IrineSistiana/mosdns/v5/pkg/server"
	"github.com/IrineSistiana/mosdns/v5/pkg/server_handler"
	"github.com/IrineSistiana/mosdns/v5/plugin/executable/sequence"
	"github.com/miekg/dns"

	"verifharness/hx"
)

// ---------- scripted upstream ----------

// Template is Judge.C15.rtmpl. Records with owner name "" stand for the query name.
type Template struct {
	Fail   bool
	Flags  uint64 // AA TC RA Z AD CD bits of the header flag word
	Rcode  int
	Answer []dns.RR
	Ns     []dns.RR
	Extra  []dns.RR
	Opt    *dns.OPT
}

func (t Template) Coq() string {
	o := "None"
	if t.Opt != nil {
		o = hx.Some(OptCoq(t.Opt))
	}
	return fmt.Sprintf("(RT %s %d %d %s %s %s %s)", hx.Bool(t.Fail), t.Flags, t.Rcode,
		RRsCoq(t.Answer), RRsCoq(t.Ns), RRsCoq(t.Extra), o)
}

func ScriptsCoq(scripts [][]Template) string {
	out := make([]string, len(scripts))
	for i, ts := range scripts {
		it := make([]string, len(ts))
		for j, t := range ts {
			it[j] = t.Coq()
		}
		out[i] = hx.List(it)
	}
	return hx.List(out)
}

type seenMsg struct {
	up  int
	msg *dns.Msg
}

// Recorder collects what the upstreams received during one query.
type Recorder struct {
	mu   sync.Mutex
	seen []seenMsg
}

func (r *Recorder) take() []seenMsg {
	r.mu.Lock()
	defer r.mu.Unlock()
	s := r.seen
	r.seen = nil
	return s
}

// StubUpstream is an upstream.Upstream that answers from a script; the reply
// is a function of the message it receives (Judge.C15.ups_of).
type StubUpstream struct {
	Idx    int
	Rec    *Recorder
	Script []Template

	mu   sync.Mutex
	hold chan struct{} // while non-nil: calls are recorded, then wait until it is closed
}

// Hold makes the upstream keep every call (after recording it) until the
// returned function is called.
func (s *StubUpstream) Hold() (release func()) {
	ch := make(chan struct{})
	s.mu.Lock()
	s.hold = ch
	s.mu.Unlock()
	return func() {
		s.mu.Lock()
		s.hold = nil
		s.mu.Unlock()
		close(ch)
	}
}

func (s *StubUpstream) Close() error { return nil }

func substName(rrs []dns.RR, qn string) []dns.RR {
	out := make([]dns.RR, len(rrs))
	for i, r := range rrs {
		c := dns.Copy(r)
		if c.Header().Name == "" {
			c.Header().Name = qn
		}
		out[i] = c
	}
	return out
}

func (s *StubUpstream) ExchangeContext(_ context.Context, b []byte) (*[]byte, error) {
	q := new(dns.Msg)
	if err := q.Unpack(b); err != nil {
		return nil, fmt.Errorf("stub: query does not unpack: %w", err)
	}
	s.Rec.mu.Lock()
	s.Rec.seen = append(s.Rec.seen, seenMsg{s.Idx, q.Copy()})
	s.Rec.mu.Unlock()
	s.mu.Lock()
	hold := s.hold
	s.mu.Unlock()
	if hold != nil {
		<-hold
	}
	if len(s.Script) == 0 {
		return nil, errors.New("stub: no script")
	}
	idx := uint64(q.Id)
	qn := ""
	if len(q.Question) > 0 {
		qn = q.Question[0].Name
		idx += hx.Sum([]byte(qn)) + uint64(q.Question[0].Qtype)
	}
	t := s.Script[idx%uint64(len(s.Script))]
	if t.Fail {
		return nil, errors.New("stub: scripted failure")
	}
	r := new(dns.Msg)
	r.Id = q.Id
	r.Response = true
	r.Opcode = q.Opcode
	r.RecursionDesired = q.RecursionDesired
	r.Authoritative = t.Flags&(1<<10) != 0
	r.Truncated = t.Flags&(1<<9) != 0
	r.RecursionAvailable = t.Flags&(1<<7) != 0
	r.Zero = t.Flags&(1<<6) != 0
	r.AuthenticatedData = t.Flags&(1<<5) != 0
	r.CheckingDisabled = t.Flags&(1<<4) != 0
	r.Rcode = t.Rcode
	r.Question = append([]dns.Question(nil), q.Question...)
	r.Answer = substName(t.Answer, qn)
	r.Ns = substName(t.Ns, qn)
	r.Extra = substName(t.Extra, qn)
	if t.Opt != nil {
		r.Extra = append(r.Extra, dns.Copy(t.Opt))
	}
	out, err := r.Pack()
	if err != nil {
		return nil, fmt.Errorf("stub: reply does not pack: %w", err)
	}
	buf := pool.GetBuf(len(out)) // forward releases the reply buffer to the pool
	copy(*buf, out)
	return buf, nil
}

// ---------- observing the entry executable ----------

type spy struct {
	inner sequence.Executable
	err   error
	resp  *dns.Msg

	mu   sync.Mutex
	byID map[uint16]spyResult // for overlapping queries: keyed by the query id
}

type spyResult struct {
	err  error
	resp *dns.Msg
}

func (s *spy) Exec(ctx context.Context, qCtx *query_context.Context) error {
	id := qCtx.Q().Id
	err := s.inner.Exec(ctx, qCtx)
	var resp *dns.Msg
	if r := qCtx.R(); r != nil {
		resp = r.Copy()
	}
	s.mu.Lock()
	s.err, s.resp = err, resp
	if s.byID != nil {
		s.byID[id] = spyResult{err, resp}
	}
	s.mu.Unlock()
	return err
}

// ---------- a meeting point for overlapping queries ----------

// Rendezvous is a harness executable placed behind a cache: a query that
// comes with a response (a cache hit) waits here until [need] such queries
// have arrived; queries without a response (a miss, a lazy update) pass. It
// never touches the context.
type Rendezvous struct {
	All     bool // hold every query, not only those that come with a response
	mu      sync.Mutex
	need    int
	arrived int
	release chan struct{}
	Arrived chan struct{} // one token per arrival
}

func NewRendezvous() *Rendezvous {
	return &Rendezvous{need: 1, release: make(chan struct{}), Arrived: make(chan struct{}, 4096)}
}

func (r *Rendezvous) Reset(need int) {
	r.mu.Lock()
	if r.arrived < r.need {
		close(r.release) // whoever still waits for a meeting that will not happen goes on
	}
	r.need, r.arrived, r.release = need, 0, make(chan struct{})
	r.mu.Unlock()
	for len(r.Arrived) > 0 {
		<-r.Arrived
	}
}

func (r *Rendezvous) Exec(_ context.Context, qCtx *query_context.Context) error {
	if qCtx.R() == nil && !r.All {
		return nil
	}
	r.mu.Lock()
	r.arrived++
	ch := r.release
	if r.arrived == r.need {
		close(ch)
	}
	r.mu.Unlock()
	r.Arrived <- struct{}{}
	<-ch
	return nil
}

// ---------- one query ----------

type Query struct {
	Msg  *dns.Msg // as the server would hand it to Handle (already unpacked from the wire)
	UDP  bool
	Addr netip.Addr
	TCPf bool // not UDP: frame with PackTCPBuffer instead of PackBuffer
}

type QObs struct {
	coq     string
	Replied bool
	Seen    int
	Len     int
	TC      bool
	Rcode   int
	Chain   string
}

// WireNormalise packs and unpacks a message (what a server does before Handle).
func WireNormalise(m *dns.Msg) (*dns.Msg, error) {
	b, err := m.Pack()
	if err != nil {
		return nil, err
	}
	out := new(dns.Msg)
	if err := out.Unpack(b); err != nil {
		return nil, err
	}
	return out, nil
}

// ---------- joining goroutines ----------

// procBaseline: the number of goroutines of the idle process. Every case
// starts from it (Quiesce), so that the count right after Build is exactly
// the idle process plus the persistent goroutines of this case's plugins, and
// "back to that count" after a query means that nothing started by the query
// is still running.
var procBaseline = -1

func waitGoroutines(limit int, max time.Duration) bool {
	t0 := time.Now()
	for i := 0; runtime.NumGoroutine() > limit; i++ {
		if time.Since(t0) > max {
			return false
		}
		if i < 1000 {
			runtime.Gosched()
		} else {
			time.Sleep(50 * time.Microsecond)
		}
	}
	return true
}

// Quiesce waits until what earlier cases started has ended.
func Quiesce() {
	if procBaseline < 0 {
		procBaseline = runtime.NumGoroutine()
		return
	}
	if !waitGoroutines(procBaseline, 10*time.Second) {
		procBaseline = runtime.NumGoroutine() // something persistent was left behind: it is part of the idle process now
	}
}

func runQuery(h *server_handler.EntryHandler, sp *spy, rec *Recorder, q Query, baseline int) (QObs, error) {
	qcoq := MsgCoq(q.Msg)
	in := q.Msg.Copy()
	sp.err, sp.resp = nil, nil
	rec.take()
	pack := pool.PackBuffer
	if !q.UDP && q.TCPf {
		pack = pool.PackTCPBuffer
	}
	payload := h.Handle(context.Background(), in, server.QueryMeta{FromUDP: q.UDP, ClientAddr: q.Addr}, pack)
	// dual_selector and fallback leave sub-executions running on context
	// copies when they return early; join them (they are the only goroutines
	// started while Handle ran) so that their effects belong to this query.
	if !waitGoroutines(baseline, 60*time.Second) {
		return QObs{}, errors.New("goroutines started by Handle do not end")
	}
	seen := rec.take()
	o := QObs{Seen: len(seen)}
	seenC := make([]string, len(seen))
	for i, s := range seen {
		seenC[i] = hx.Tuple(hx.Ni(s.up), MsgCoq(s.msg))
	}
	chain := "ONone"
	o.Chain = "none"
	switch {
	case sp.err != nil:
		chain, o.Chain = "OErr", "err"
	case sp.resp != nil:
		chain, o.Chain = "(OAnswer "+MsgCoq(sp.resp)+")", "answer"
	}
	reply := "None"
	if payload != nil {
		b := *payload
		if !q.UDP && q.TCPf {
			if len(b) < 2 || int(b[0])<<8|int(b[1]) != len(b)-2 {
				return o, errors.New("bad TCP frame from PackTCPBuffer")
			}
			b = b[2:]
		}
		r := new(dns.Msg)
		if err := r.Unpack(b); err != nil {
			return o, fmt.Errorf("reply does not unpack: %w", err)
		}
		o.Replied, o.Len, o.TC, o.Rcode = true, len(b), r.Truncated, r.Rcode
		reply = hx.Some(MsgCoq(r))
		pool.ReleaseBuf(payload)
	}
	o.coq = fmt.Sprintf("(QObs %s %s %s %s %s %s %d)", qcoq, hx.Bool(q.UDP), OptAddrCoq(q.Addr),
		hx.List(seenC), chain, reply, o.Len)
	return o, nil
}

// ---------- one case ----------

type Case struct {
	Xs      []XDesc
	Ws      []WDesc
	Scripts [][]Template
	Prog    []TSeq
	Queries []Query
}

type Result struct {
	Coq  string
	Obs  []QObs
	Text [][]sequence.RuleArgs
}

// maxRun: the cache reads the clock, dual_selector waits at most 500 ms for
// its reference query; a run is only accepted when all of it took less than
// this (then no entry expired, no whole second passed and no grace period ran
// out), and is repeated on fresh plugins otherwise.
const maxRun = 400 * time.Millisecond

var ErrSlow = errors.New("run too slow, repeated without success")

// Run builds the program with fresh plugins and sends the queries through
// EntryHandler.Handle one after the other.
func (c *Case) Run(render func() *hx.RNG) (*Result, error) {
	for attempt := 0; attempt < 6; attempt++ {
		rec := &Recorder{}
		Quiesce()
		b, err := Build(render(), c.Xs, c.Ws, c.Scripts, c.Prog, rec)
		if err != nil {
			return nil, err
		}
		baseline := runtime.NumGoroutine() // idle process + this case's caches and selectors
		sp := &spy{inner: b.Entry}
		h := server_handler.NewEntryHandler(server_handler.EntryHandlerOpts{Entry: sp})
		t0 := time.Now()
		obs := make([]QObs, 0, len(c.Queries))
		var rerr error
		for _, q := range c.Queries {
			o, err := runQuery(h, sp, rec, q, baseline)
			if err != nil {
				rerr = err
				break
			}
			obs = append(obs, o)
		}
		el := time.Since(t0)
		b.Close()
		if rerr != nil {
			return nil, rerr
		}
		if el >= maxRun {
			continue
		}
		xs := make([]string, len(c.Xs))
		for i, d := range c.Xs {
			xs[i] = d.Coq()
		}
		ws := make([]string, len(c.Ws))
		for i, d := range c.Ws {
			ws[i] = d.Coq(i)
		}
		qs := make([]string, len(obs))
		for i, o := range obs {
			qs[i] = o.coq
		}
		return &Result{
			Coq: fmt.Sprintf("CRun %s %s %s %s %s", hx.List(xs), hx.List(ws), ScriptsCoq(c.Scripts),
				ProgCoq(c.Prog), hx.List(qs)),
			Obs:  obs,
			Text: b.Text,
		}, nil
	}
	return nil, ErrSlow
}
