package msgx

import (
	"fmt"

	"github.com/IrineSistiana/mosdns/v5/pkg/dnsutils"
	"github.com/IrineSistiana/mosdns/v5/pkg/query_context"
	"github.com/IrineSistiana/mosdns/v5/plugin/executable/cache"
	"github.com/miekg/dns"

	"verifharness/hx"
)

// GenOptMsg builds a message with OPT records anywhere in its sections (not
// wire-normalised: the helpers under test work on the dns.Msg structure).
func GenOptMsg(r *hx.RNG) *dns.Msg {
	m := new(dns.Msg)
	m.Id = uint16(r.Intn(4))
	m.Response = r.Bool()
	m.Rcode = hx.Pick(r, []int{0, 0, 2, 3})
	m.Question = []dns.Question{{Name: NameTable[r.Intn(3)], Qtype: 1, Qclass: 1}}
	sec := func(max int, optNum, optDen int) []dns.RR {
		var out []dns.RR
		n := r.Range(0, max)
		for i := 0; i < n; i++ {
			if r.Chance(optNum, optDen) {
				out = append(out, newOPT(hx.Pick(r, udpSizes), r.Bool(), hx.Pick(r, []uint8{0, 1}), GenOptions(r, 0)))
			} else {
				rr := genRecord(r, false)
				if rr.Header().Name == "" {
					rr.Header().Name = NameTable[r.Intn(3)]
				}
				rr.Header().Ttl = hx.Pick(r, []uint32{0, 1, 2, 59, 60, 61, 300, 4294967295})
				out = append(out, rr)
			}
		}
		return out
	}
	m.Answer = sec(3, 1, 5)
	m.Ns = sec(2, 1, 5)
	m.Extra = sec(4, 2, 5)
	return m
}

// RunFun applies helper op to a copy of m and renders a Judge.C15.CFun case.
func RunFun(op int, arg uint32, m *dns.Msg) string {
	in := MsgCoq(m)
	w := m.Copy()
	out := w
	aux := uint64(0)
	switch op {
	case 0:
		dnsutils.SetTTL(w, arg)
	case 1:
		dnsutils.ApplyMinimalTTL(w, arg)
	case 2:
		dnsutils.ApplyMaximumTTL(w, arg)
	case 3:
		if dnsutils.SubtractTTL(w, arg) {
			aux = 1
		}
	case 4:
		aux = uint64(dnsutils.GetMinimalTTL(w))
	case 5:
		out = cache.VerifCopyNoOpt(w)
	case 6:
		c := query_context.NewContext(w)
		out = c.Q()
		if c.ClientOpt() != nil {
			aux = 2
			if c.RespOpt().Do() {
				aux = 3
			}
		}
	default:
		q := new(dns.Msg)
		c := query_context.NewContext(q)
		c.SetResponse(w)
		out = c.R()
		if c.UpstreamOpt() != nil {
			aux = 1
		}
	}
	return fmt.Sprintf("CFun %d %d %s %s %d", op, arg, in, MsgCoq(out), aux)
}

// GenFun picks a helper and an argument near the TTLs the generator uses.
func GenFun(r *hx.RNG) (int, uint32, *dns.Msg) {
	return r.Intn(8), hx.Pick(r, []uint32{0, 1, 2, 60, 61, 299, 300, 4294967295}), GenOptMsg(r)
}

// ---------- Context.Copy ----------

func optOrNone(o *dns.OPT) string {
	if o == nil {
		return "None"
	}
	return hx.Some(OptCoq(o))
}

func ctxObs(c *query_context.Context) string {
	r := "None"
	if c.R() != nil {
		r = hx.Some(MsgCoq(c.R()))
	}
	return fmt.Sprintf("(CObs %s %s %s %s %s)", MsgCoq(c.Q()), optOrNone(c.ClientOpt()), r, optOrNone(c.RespOpt()), optOrNone(c.UpstreamOpt()))
}

func optionsCoq(es []dns.EDNS0) string {
	it := make([]string, len(es))
	for i, e := range es {
		it[i] = OptionCoq(e)
	}
	return hx.List(it)
}

// RunCopy renders a Judge.C15.CCopy case: a context built from a client
// query (and a first response), copied; then one of the two is written to the
// way plugins write (RespOpt options, TTLs of R in place, query OPT options,
// SetResponse) and both are observed.
func RunCopy(r *hx.RNG) string {
	q := GenQuery(r, QueryOpts{ForceOpt: 1 + r.Intn(2)*r.Intn(2)}).Msg // mostly with OPT
	if len(q.Question) != 1 {
		q.Question = []dns.Question{{Name: NameTable[0], Qtype: 1, Qclass: 1}}
	}
	q0 := MsgCoq(q)
	mkResp := func() *dns.Msg {
		t := GenTemplate(r, ScriptOpts{})
		m := new(dns.Msg)
		m.SetReply(q)
		m.Rcode = t.Rcode & 0xF
		m.Answer = substName(t.Answer, q.Question[0].Name)
		m.Extra = substName(t.Extra, q.Question[0].Name)
		if t.Opt != nil {
			m.Extra = append(m.Extra, dns.Copy(t.Opt))
		}
		return m
	}
	orig := query_context.NewContext(q.Copy())
	pre := "None"
	if r.Chance(2, 3) {
		m := mkResp()
		pre = hx.Some(MsgCoq(m))
		orig.SetResponse(m)
	}
	before := ctxObs(orig)
	cp := orig.Copy()
	onCopy := r.Bool()
	t := orig
	if onCopy {
		t = cp
	}
	esResp := GenOptions(r, 24)
	if len(esResp) == 0 {
		esResp = GenOptions(r, 24)
	}
	esQ := GenOptions(r, 0)
	ttl := hx.Pick(r, []uint32{0, 7, 999})
	if ro := t.RespOpt(); ro != nil {
		ro.Option = append(ro.Option, esResp...)
	}
	if t.R() != nil && ttl > 0 {
		dnsutils.SetTTL(t.R(), ttl)
	}
	qo := t.QOpt()
	qo.Option = append(qo.Option, esQ...)
	m2 := "None"
	if r.Chance(1, 2) {
		m := mkResp()
		m2 = hx.Some(MsgCoq(m))
		t.SetResponse(m)
	}
	return fmt.Sprintf("CCopy %s %s %s %s %s %d %s %s %s %s", q0, pre, hx.Bool(onCopy), optionsCoq(esResp), optionsCoq(esQ),
		ttl, m2, before, ctxObs(orig), ctxObs(cp))
}
