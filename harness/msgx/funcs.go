package msgx

import (
	"fmt"

	"github.com/IrineSistiana/mosdns/v5/pkg/dnsutils"
	"github.com/IrineSistiana/mosdns/v5/pkg/query_context"
	"github.com/IrineSistiana/mosdns/v5/plugin/executable/cache"
	"github.com/miekg/dns"

	"verifharness/hx"
)

// GenOptMsg builds a message with OPT records anywhere in its sections (not
// wire-normalised: the helpers under test work on the dns.Msg structure).
func GenOptMsg(r *hx.RNG) *dns.Msg {
	m := new(dns.Msg)
	m.Id = uint16(r.Intn(4))
	m.Response = r.Bool()
	m.Rcode = hx.Pick(r, []int{0, 0, 2, 3})
	m.Question = []dns.Question{{Name: NameTable[r.Intn(3)], Qtype: 1, Qclass: 1}}
	sec := func(max int, optNum, optDen int) []dns.RR {
		var out []dns.RR
		n := r.Range(0, max)
		for i := 0; i < n; i++ {
			if r.Chance(optNum, optDen) {
				out = append(out, newOPT(hx.Pick(r, udpSizes), r.Bool(), hx.Pick(r, []uint8{0, 1}), GenOptions(r, 0)))
			} else {
				rr := genRecord(r, false)
				if rr.Header().Name == "" {
					rr.Header().Name = NameTable[r.Intn(3)]
				}
				rr.Header().Ttl = hx.Pick(r, []uint32{0, 1, 2, 59, 60, 61, 300, 4294967295})
				out = append(out, rr)
			}
		}
		return out
	}
	m.Answer = sec(3, 1, 5)
	m.Ns = sec(2, 1, 5)
	m.Extra = sec(4, 2, 5)
	return m
}

// RunFun applies helper op to a copy of m and renders a Judge.C15.CFun case.
func RunFun(op int, arg uint32, m *dns.Msg) string {
	in := MsgCoq(m)
	w := m.Copy()
	out := w
	aux := uint64(0)
	switch op {
	case 0:
		dnsutils.SetTTL(w, arg)
	case 1:
		dnsutils.ApplyMinimalTTL(w, arg)
	case 2:
		dnsutils.ApplyMaximumTTL(w, arg)
	case 3:
		if dnsutils.SubtractTTL(w, arg) {
			aux = 1
		}
	case 4:
		aux = uint64(dnsutils.GetMinimalTTL(w))
	case 5:
		out = cache.VerifCopyNoOpt(w)
	case 6:
		c := query_context.NewContext(w)
		out = c.Q()
		if c.ClientOpt() != nil {
			aux = 2
			if c.RespOpt().Do() {
				aux = 3
			}
		}
	default:
		q := new(dns.Msg)
		c := query_context.NewContext(q)
		c.SetResponse(w)
		out = c.R()
		if c.UpstreamOpt() != nil {
			aux = 1
		}
	}
	return fmt.Sprintf("CFun %d %d %s %s %d", op, arg, in, MsgCoq(out), aux)
}

// GenFun picks a helper and an argument near the TTLs the generator uses.
func GenFun(r *hx.RNG) (int, uint32, *dns.Msg) {
	return r.Intn(8), hx.Pick(r, []uint32{0, 1, 2, 60, 61, 299, 300, 4294967295}), GenOptMsg(r)
}
