package msgx

import (
	"context"
	"errors"
	"fmt"
	"runtime"
	"time"

	"github.com/IrineSistiana/mosdns/v5/pkg/pool"
	"github.com/IrineSistiana/mosdns/v5/pkg/server"
	"github.com/IrineSistiana/mosdns/v5/pkg/server_handler"
	"github.com/IrineSistiana/mosdns/v5/plugin/executable/cache"
	"github.com/miekg/dns"

	"verifharness/hx"
)

// LazyStep is Judge.C15.lstep.
type LazyStep struct {
	Kind string // q expire pair
	A, B Query
}

// LazyCase: a program with a lazy cache (the first cache of Ws), a
// rendezvous behind it and one forward, run on steps.
type LazyCase struct {
	Xs      []XDesc
	Ws      []WDesc
	Scripts [][]Template
	Prog    []TSeq
	Steps   []LazyStep
}

// cacheKey: the key of the context's query for a client query (the fresh OPT
// of the context never has DO set).
func cacheKey(q *dns.Msg) string {
	c := q.Copy()
	c.Extra = nil
	return cache.VerifGetMsgKey(c)
}

func storedCoq(b *Built, q *dns.Msg) string {
	if len(b.Caches) == 0 {
		return "None"
	}
	m := b.Caches[0].VerifC10Item(cacheKey(q))
	if m == nil {
		return "None"
	}
	return hx.Some(MsgCoq(m))
}

type handled struct {
	payload *[]byte
}

func obsCoq(q Query, seen []seenMsg, res spyResult, payload *[]byte) (string, error) {
	seenC := make([]string, len(seen))
	for i, s := range seen {
		seenC[i] = hx.Tuple(hx.Ni(s.up), MsgCoq(s.msg))
	}
	chain := "ONone"
	switch {
	case res.err != nil:
		chain = "OErr"
	case res.resp != nil:
		chain = "(OAnswer " + MsgCoq(res.resp) + ")"
	}
	reply, l := "None", 0
	if payload != nil {
		r := new(dns.Msg)
		if err := r.Unpack(*payload); err != nil {
			return "", fmt.Errorf("reply does not unpack: %w", err)
		}
		reply, l = hx.Some(MsgCoq(r)), len(*payload)
		pool.ReleaseBuf(payload)
	}
	return fmt.Sprintf("(QObs %s %s %s %s %s %s %d)", MsgCoq(q.Msg), hx.Bool(q.UDP), OptAddrCoq(q.Addr),
		hx.List(seenC), chain, reply, l), nil
}

// Run executes the steps. ok=false: the scenario did not come about (nothing
// was stored by the priming query), nothing is emitted.
func (c *LazyCase) Run(render func() *hx.RNG) (string, error) {
	for attempt := 0; attempt < 6; attempt++ {
		rec := &Recorder{}
		Quiesce()
		b, err := Build(render(), c.Xs, c.Ws, c.Scripts, c.Prog, rec)
		if err != nil {
			return "", err
		}
		baseline := runtime.NumGoroutine()
		sp := &spy{inner: b.Entry, byID: map[uint16]spyResult{}}
		h := server_handler.NewEntryHandler(server_handler.EntryHandlerOpts{Entry: sp, QueryTimeout: time.Minute})
		t0 := time.Now()
		var steps []string
		var rerr error
		for _, st := range c.Steps {
			switch st.Kind {
			case "expire":
				for _, ca := range b.Caches {
					// every key the steps use
					for _, s2 := range c.Steps {
						if s2.Kind != "expire" {
							ca.VerifC10Backdate(cacheKey(s2.A.Msg), time.Hour)
						}
					}
				}
				steps = append(steps, "LExpire")
			case "q":
				if b.Meet != nil {
					b.Meet.Reset(1)
				}
				o, err := runQuery(h, sp, rec, st.A, baseline)
				if err != nil {
					rerr = err
					break
				}
				steps = append(steps, fmt.Sprintf("(LQ %s %s)", o.coq, storedCoq(b, st.A.Msg)))
			case "pair":
				s, err := runPair(h, sp, rec, b, st.A, st.B, baseline)
				if err != nil {
					rerr = err
					break
				}
				steps = append(steps, s)
			}
			if rerr != nil {
				break
			}
		}
		el := time.Since(t0)
		b.Close()
		if rerr != nil {
			return "", rerr
		}
		if el >= maxRun {
			continue
		}
		xs := make([]string, len(c.Xs))
		for i, d := range c.Xs {
			xs[i] = d.Coq()
		}
		ws := make([]string, len(c.Ws))
		for i, d := range c.Ws {
			ws[i] = d.Coq(i)
		}
		return fmt.Sprintf("CLazy %s %s %s %s %s", hx.List(xs), hx.List(ws), ScriptsCoq(c.Scripts), ProgCoq(c.Prog), hx.List(steps)), nil
	}
	return "", ErrSlow
}

// runPair: a's Handle is started and has arrived at the rendezvous (or has
// finished) before b's is started; the upstreams are held until both replies
// are out, then released; everything the two started is joined.
func runPair(h *server_handler.EntryHandler, sp *spy, rec *Recorder, b *Built, qa, qb Query, baseline int) (string, error) {
	if b.Meet == nil {
		return "", errors.New("pair without a rendezvous in the program")
	}
	rec.take()
	b.Meet.Reset(2)
	var releases []func()
	for _, u := range b.Stubs {
		releases = append(releases, u.Hold())
	}
	run := func(q Query) chan *[]byte {
		ch := make(chan *[]byte, 1)
		in := q.Msg.Copy()
		go func() {
			ch <- h.Handle(context.Background(), in, server.QueryMeta{FromUDP: q.UDP, ClientAddr: q.Addr}, pool.PackBuffer)
		}()
		return ch
	}
	var pa, pb *[]byte
	doneA := false
	ca := run(qa)
	select {
	case <-b.Meet.Arrived:
	case pa = <-ca: // not a hit: it went through (or failed) on its own
		doneA = true
	case <-time.After(waitReply):
		return "", errors.New("first query of a pair neither reached the rendezvous nor finished")
	}
	cb := run(qb)
	if !doneA {
		select {
		case pa = <-ca:
		case <-time.After(waitReply):
			return "", errors.New("first query of a pair does not finish")
		}
	}
	select {
	case pb = <-cb:
	case <-time.After(waitReply):
		return "", errors.New("second query of a pair does not finish")
	}
	for _, f := range releases {
		f()
	}
	for _, c := range b.Caches {
		c.VerifC10LazyWait(cacheKey(qa.Msg))
	}
	if !waitGoroutines(baseline, 60*time.Second) {
		return "", errors.New("goroutines started by a pair do not end")
	}
	seen := rec.take()
	sp.mu.Lock()
	ra, rb := sp.byID[qa.Msg.Id], sp.byID[qb.Msg.Id]
	sp.mu.Unlock()
	oa, err := obsCoq(qa, seen, ra, pa)
	if err != nil {
		return "", err
	}
	ob, err := obsCoq(qb, nil, rb, pb)
	if err != nil {
		return "", err
	}
	return fmt.Sprintf("(LPair %s %s %s)", oa, ob, storedCoq(b, qa.Msg)), nil
}

// GenLazyCase: [forwarders?] cache(lazy) [forwarders?] rendezvous forward(!has_resp) [ttl?];
// prime, expire, an overlapping pair of stale hits whose refresh fails, then
// single queries (with and without OPT) whose refresh fails or succeeds.
func GenLazyCase(r *hx.RNG) *LazyCase {
	c := &LazyCase{}
	var rules []TRule
	addW := func(d WDesc) {
		c.Ws = append(c.Ws, d)
		rules = append(rules, TRule{Kind: "wrap", Arg: len(c.Ws) - 1})
	}
	fwd := func() {
		if r.Bool() {
			addW(GenFwdOpt(r))
		} else {
			addW(GenEcs(r))
		}
	}
	// the lazy cache is the first cache of Ws
	pre := r.Chance(1, 3)
	if pre {
		// a forwarder in front: put the cache first in Ws all the same
		c.Ws = append(c.Ws, WDesc{Kind: "cache", Lazy: hx.Pick(r, []int{3600, 86400})})
		fwd()
		rules = append(rules, TRule{Kind: "wrap", Arg: 0})
	} else {
		addW(WDesc{Kind: "cache", Lazy: hx.Pick(r, []int{3600, 86400})})
	}
	if r.Chance(1, 3) {
		fwd()
	}
	c.Xs = []XDesc{{Kind: "rendezvous"}, {Kind: "forward", Up: 0}}
	rules = append(rules, TRule{Kind: "exec", Arg: 0}, TRule{Ms: []TMatch{{Neg: true, ID: 0}}, Kind: "exec", Arg: 1})
	if r.Chance(1, 3) {
		c.Xs = append(c.Xs, GenTTL(r))
		rules = append(rules, TRule{Kind: "exec", Arg: 2})
	}
	c.Prog = []TSeq{{Name: 0, Rules: rules}}
	// upstream: template 0 a cacheable answer (with an OPT carrying options), template 1 fails
	ans := Template{Flags: 1 << 7, Answer: []dns.RR{plainA("", hx.Pick(r, []uint32{100, 300, 3600}), 0x0A000000|uint32(r.Intn(16)))}}
	for i := r.Range(0, 2); i > 0; i-- {
		ans.Answer = append(ans.Answer, genRecord(r, false))
		ans.Answer[len(ans.Answer)-1].Header().Ttl = 300
	}
	if r.Chance(2, 3) {
		ans.Opt = newOPT(1232, r.Bool(), 0, GenOptions(r, 24))
	}
	c.Scripts = [][]Template{{ans, {Fail: true}}}
	name, qt := NameTable[r.Intn(4)], hx.Pick(r, []uint16{1, 1, 28})
	id := uint16(r.Intn(60000))
	mk := func(want int, opt int) Query {
		q := GenQuery(r, QueryOpts{ForceOpt: opt})
		q.Msg.Question[0] = dns.Question{Name: name, Qtype: qt, Qclass: 1}
		q.Msg.Opcode, q.Msg.AuthenticatedData, q.Msg.CheckingDisabled = 0, false, false
		q.Msg.Rcode &= 0xF
		if len(q.Msg.Extra) == 0 {
			q.Msg.Rcode = 0
		}
		id = pickID(id+1+uint16(r.Intn(50)), name, qt, want)
		q.Msg.Id = id
		return q
	}
	c.Steps = []LazyStep{
		{Kind: "q", A: mk(0, r.Intn(3))},                // prime: stored
		{Kind: "expire"},
		{Kind: "pair", A: mk(1, 1), B: mk(r.Intn(2), 1)}, // two clients with OPT, refresh fails
		{Kind: "q", A: mk(1, 2)},                        // a client without OPT, refresh fails again
	}
	if r.Bool() {
		c.Steps = append(c.Steps, LazyStep{Kind: "pair", A: mk(1, r.Intn(3)), B: mk(1, r.Intn(3))})
	}
	c.Steps = append(c.Steps, LazyStep{Kind: "q", A: mk(r.Intn(2), r.Intn(3))}) // refresh may succeed now
	c.Steps = append(c.Steps, LazyStep{Kind: "q", A: mk(r.Intn(2), r.Intn(3))})
	if r.Chance(1, 3) {
		c.Steps = append(c.Steps, LazyStep{Kind: "expire"}, LazyStep{Kind: "q", A: mk(0, r.Intn(3))}, LazyStep{Kind: "q", A: mk(1, 2)})
	}
	return c
}
