package msgx

import (
	"fmt"
	"net/netip"
	"strconv"
	"strings"

	"github.com/IrineSistiana/mosdns/v5/coremain"
	"github.com/IrineSistiana/mosdns/v5/plugin/executable/arbitrary"
	"github.com/IrineSistiana/mosdns/v5/plugin/executable/black_hole"
	"github.com/IrineSistiana/mosdns/v5/plugin/executable/cache"
	"github.com/IrineSistiana/mosdns/v5/plugin/executable/drop_resp"
	"github.com/IrineSistiana/mosdns/v5/plugin/executable/ecs_handler"
	fastforward "github.com/IrineSistiana/mosdns/v5/plugin/executable/forward"
	_ "github.com/IrineSistiana/mosdns/v5/plugin/executable/dual_selector"
	_ "github.com/IrineSistiana/mosdns/v5/plugin/executable/forward_edns0opt"
	"github.com/IrineSistiana/mosdns/v5/plugin/executable/hosts"
	"github.com/IrineSistiana/mosdns/v5/plugin/executable/redirect"
	"github.com/IrineSistiana/mosdns/v5/plugin/executable/sequence"
	"github.com/IrineSistiana/mosdns/v5/plugin/executable/sequence/fallback"
	"github.com/IrineSistiana/mosdns/v5/plugin/executable/ttl"
	_ "github.com/IrineSistiana/mosdns/v5/plugin/matcher/has_resp"
	_ "github.com/IrineSistiana/mosdns/v5/plugin/matcher/qtype"
	"github.com/miekg/dns"

	"verifharness/hx"
)

// ---------- plugin descriptions (Judge.C15.xdesc / wdesc) ----------

type HostEntry struct {
	Pattern string // as written in the entry, e.g. "A.test" or "full:a.test."
	V4      []uint32
	V6      []uint16
}

type ZoneRR struct {
	Owner string // written in the rule
	Type  uint16 // A or TXT
	TTL   uint32
	V4    uint32 // A
	Txt   string // TXT
}

type RedirectRule struct{ Pattern, Target string }

type XDesc struct {
	Kind     string // hosts black_hole arbitrary ttl forward drop_resp fallback
	Hosts    []HostEntry
	V4       []uint32
	V6       []uint16
	Zone     []ZoneRR
	Fix      uint32
	Min, Max uint32
	Up       int
	Prim     int  // fallback: name of the primary sequence
	Sec      int  // fallback: name of the secondary sequence
	Standby  bool // fallback: always_standby
}

type WDesc struct {
	Kind   string // cache redirect ecs fwdopt dual
	Rules  []RedirectRule
	Fwd    bool
	Send   bool
	Preset string
	Mask4  int
	Mask6  int
	Codes  []int
	V6     bool // dual: prefer_ipv6
	Lazy   int  // cache: lazy_cache_ttl

	built any // the plugin once constructed
}

func v4List(xs []uint32) string { return hx.NList(xs) }
func v6List(xs []uint16) string {
	it := make([]string, len(xs))
	for i, x := range xs {
		it[i] = hx.N(V6Tag(IP6(x)))
	}
	return hx.List(it)
}

func patternName(p string) string {
	return strings.TrimPrefix(p, "full:")
}

func (d XDesc) zoneRR(z ZoneRR) dns.RR {
	h := dns.RR_Header{Name: z.Owner, Rrtype: z.Type, Class: dns.ClassINET, Ttl: z.TTL}
	if z.Type == dns.TypeA {
		return &dns.A{Hdr: h, A: IP4(z.V4)}
	}
	return &dns.TXT{Hdr: h, Txt: []string{z.Txt}}
}

func (d XDesc) Coq() string {
	switch d.Kind {
	case "hosts":
		it := make([]string, len(d.Hosts))
		for i, e := range d.Hosts {
			it[i] = hx.Tuple(NameCoq(patternName(e.Pattern)), v4List(e.V4), v6List(e.V6))
		}
		return "(DHosts " + hx.List(it) + ")"
	case "black_hole":
		return fmt.Sprintf("(DBlackHole %s %s)", v4List(d.V4), v6List(d.V6))
	case "arbitrary":
		// grouped by (lower-cased owner, type, class) in order of first appearance
		type key struct {
			n string
			t uint16
		}
		var order []key
		groups := map[key][]string{}
		for _, z := range d.Zone {
			k := key{strings.ToLower(z.Owner), z.Type}
			if _, ok := groups[k]; !ok {
				order = append(order, k)
			}
			groups[k] = append(groups[k], RRCoq(d.zoneRR(z)))
		}
		it := make([]string, len(order))
		for i, k := range order {
			it[i] = hx.Tuple(fmt.Sprintf("(Q %s %d 1)", NameCoq(k.n), k.t), hx.List(groups[k]))
		}
		return "(DArbitrary " + hx.List(it) + ")"
	case "ttl":
		return fmt.Sprintf("(DTtl %d %d %d)", d.Fix, d.Min, d.Max)
	case "forward":
		return fmt.Sprintf("(DForward %d)", d.Up)
	case "fallback":
		return fmt.Sprintf("(DFallback %d %d %s)", d.Prim, d.Sec, hx.Bool(d.Standby))
	case "rendezvous", "barrier":
		return "DRendezvous"
	}
	return "DDropResp"
}

func (d WDesc) Coq(idx int) string {
	switch d.Kind {
	case "cache":
		return fmt.Sprintf("(DCache %d %d)", idx, d.Lazy)
	case "redirect":
		it := make([]string, len(d.Rules))
		for i, r := range d.Rules {
			it[i] = hx.Tuple(NameCoq(patternName(r.Pattern)), NameCoq(r.Target))
		}
		return "(DRedirect " + hx.List(it) + ")"
	case "ecs":
		p := "None"
		if d.Preset != "" {
			p = hx.Some(AddrCoq(netip.MustParseAddr(d.Preset)))
		}
		return fmt.Sprintf("(DEcs %s %s %s %d %d)", hx.Bool(d.Fwd), hx.Bool(d.Send), p, d.Mask4, d.Mask6)
	}
	if d.Kind == "dual" {
		return fmt.Sprintf("(DDual %d %s)", idx, hx.Bool(d.V6))
	}
	return "(DFwdOpt " + hx.NList(d.Codes) + ")"
}

// ---------- programs (Model.Sequence.tseq) ----------

type TMatch struct {
	Neg bool
	ID  int // 0 has_resp, 100 _true, 101 _false, else qtype ID
}

type TRule struct {
	Ms   []TMatch
	Kind string // exec wrap accept reject return jump goto
	Arg  int    // plugin index / sequence name / rcode (-1: reject without argument)
}

type TSeq struct {
	Name  int
	Rules []TRule
}

func (r TRule) coq() string {
	ms := make([]string, len(r.Ms))
	for i, m := range r.Ms {
		ms[i] = hx.Tuple(hx.Bool(m.Neg), hx.Ni(m.ID))
	}
	var a string
	switch r.Kind {
	case "exec":
		a = "TExec " + hx.Ni(r.Arg)
	case "wrap":
		a = "TWrap " + hx.Ni(r.Arg)
	case "accept":
		a = "TAccept"
	case "reject":
		if r.Arg < 0 {
			a = "TReject None"
		} else {
			a = "TReject " + hx.Some(hx.Ni(r.Arg))
		}
	case "return":
		a = "TReturn"
	case "jump":
		a = "TJump " + hx.Ni(r.Arg)
	case "goto":
		a = "TGoto " + hx.Ni(r.Arg)
	}
	return hx.Tuple(hx.List(ms), a)
}

func ProgCoq(ss []TSeq) string {
	out := make([]string, len(ss))
	for i, s := range ss {
		rs := make([]string, len(s.Rules))
		for j, r := range s.Rules {
			rs[j] = r.coq()
		}
		out[i] = hx.Tuple(hx.Ni(s.Name), hx.List(rs))
	}
	return hx.List(out)
}

// ---------- building the real plugins ----------

type Built struct {
	Entry   *sequence.Sequence
	Caches  []*cache.Cache
	Stubs   []*StubUpstream
	Meet    *Rendezvous
	closers []func()
	Text    [][]sequence.RuleArgs
}

func (b *Built) Close() {
	for _, f := range b.closers {
		f()
	}
}

func ipStrings(v4 []uint32, v6 []uint16) []string {
	var out []string
	for _, a := range v4 {
		out = append(out, IP4(a).String())
	}
	for _, a := range v6 {
		out = append(out, IP6(a).String())
	}
	return out
}

func (z ZoneRR) text() string {
	if z.Type == dns.TypeA {
		return fmt.Sprintf("%s %d IN A %s", z.Owner, z.TTL, IP4(z.V4))
	}
	return fmt.Sprintf("%s %d IN TXT \"%s\"", z.Owner, z.TTL, z.Txt)
}

func buildX(b *Built, d XDesc, rec *Recorder, scripts [][]Template) (any, error) {
	switch d.Kind {
	case "hosts":
		var entries []string
		for _, e := range d.Hosts {
			entries = append(entries, strings.Join(append([]string{e.Pattern}, ipStrings(e.V4, e.V6)...), " "))
		}
		return hosts.NewHosts(&hosts.Args{Entries: entries})
	case "black_hole":
		return black_hole.NewBlackHole(ipStrings(d.V4, d.V6))
	case "arbitrary":
		var rules []string
		for _, z := range d.Zone {
			rules = append(rules, z.text())
		}
		return arbitrary.NewArbitrary(&arbitrary.Args{Rules: rules})
	case "ttl":
		return ttl.NewTTL(d.Fix, d.Min, d.Max), nil
	case "forward":
		var ts []Template
		if d.Up < len(scripts) {
			ts = scripts[d.Up]
		}
		up := &StubUpstream{Idx: d.Up, Rec: rec, Script: ts}
		if b != nil {
			b.Stubs = append(b.Stubs, up)
		}
		return fastforward.VerifNewForward(1, []fastforward.VerifUpstream{{Tag: "u", U: up}}), nil
	}
	if d.Kind == "rendezvous" || d.Kind == "barrier" {
		b.Meet = NewRendezvous()
		b.Meet.All = d.Kind == "barrier"
		return b.Meet, nil
	}
	return &drop_resp.DropResp{}, nil
}

func buildW(d WDesc) (any, func(), error) {
	switch d.Kind {
	case "cache":
		c := cache.NewCache(&cache.Args{Size: 1024, LazyCacheTTL: d.Lazy}, cache.Opts{})
		return c, func() { _ = c.Close() }, nil
	case "redirect":
		var rules []string
		for _, r := range d.Rules {
			rules = append(rules, r.Pattern+" "+r.Target)
		}
		p, err := redirect.NewRedirect(&redirect.Args{Rules: rules})
		return p, nil, err
	case "ecs":
		p, err := ecs_handler.NewHandler(ecs_handler.Args{Forward: d.Fwd, Send: d.Send, Preset: d.Preset, Mask4: d.Mask4, Mask6: d.Mask6})
		return p, nil, err
	}
	return nil, nil, nil // fwdopt: quick setup only
}

// quick-setup text for a plugin, "" when it has none
func quickX(d XDesc) string {
	switch d.Kind {
	case "black_hole":
		return strings.TrimSpace("black_hole " + strings.Join(ipStrings(d.V4, d.V6), " "))
	case "ttl":
		if d.Fix > 0 && d.Min == 0 && d.Max == 0 {
			return "ttl " + strconv.FormatUint(uint64(d.Fix), 10)
		}
		if d.Fix == 0 {
			return fmt.Sprintf("ttl %d-%d", d.Min, d.Max)
		}
	case "drop_resp":
		return "drop_resp"
	}
	return ""
}

func quickW(d WDesc) string {
	switch d.Kind {
	case "dual":
		if d.V6 {
			return "prefer_ipv6"
		}
		return "prefer_ipv4"
	case "fwdopt":
		s := make([]string, len(d.Codes))
		for i, c := range d.Codes {
			s[i] = strconv.Itoa(c)
		}
		return strings.TrimSpace("forward_edns0opt " + strings.Join(s, " "))
	case "ecs":
		// the old "ecs" quick setup: preset only, default masks
		if !d.Fwd && !d.Send && d.Preset != "" && d.Mask4 == 0 && d.Mask6 == 0 {
			return "ecs " + d.Preset
		}
	}
	return ""
}

func renderMatch(m TMatch) string {
	var s string
	switch m.ID {
	case 0:
		s = "has_resp"
	case 100:
		s = "_true"
	case 101:
		s = "_false"
	default:
		s = "qtype " + strconv.Itoa(m.ID)
	}
	if m.Neg {
		s = "!" + s
	}
	return s
}

// Build constructs every plugin with its real constructor, registers them in
// a test registry and loads the sequences from rule text with the real
// sequence.NewSequence. The entry is the last sequence.
func Build(r *hx.RNG, xs []XDesc, ws []WDesc, scripts [][]Template, ss []TSeq, rec *Recorder) (*Built, error) {
	b := &Built{}
	ps := map[string]any{}
	for i, d := range xs {
		if d.Kind == "fallback" {
			continue // built when the sequence that uses it is built: its sub-sequences exist by then
		}
		p, err := buildX(b, d, rec, scripts)
		if err != nil {
			return nil, fmt.Errorf("x%d: %w", i, err)
		}
		ps["x"+strconv.Itoa(i)] = p
	}
	for i, d := range ws {
		p, cl, err := buildW(d)
		if err != nil {
			return nil, fmt.Errorf("w%d: %w", i, err)
		}
		if cl != nil {
			b.closers = append(b.closers, cl)
		}
		if c, ok := p.(*cache.Cache); ok {
			b.Caches = append(b.Caches, c)
		}
		if p != nil {
			ps["w"+strconv.Itoa(i)] = p
		}
	}
	m := coremain.NewTestMosdnsWithPlugins(ps)
	for _, s := range ss {
		ra := make([]sequence.RuleArgs, len(s.Rules))
		for _, t := range s.Rules {
			if t.Kind != "exec" || xs[t.Arg].Kind != "fallback" {
				continue
			}
			tag := "x" + strconv.Itoa(t.Arg)
			if _, have := ps[tag]; have {
				continue
			}
			d := xs[t.Arg]
			p, err := fallback.Init(coremain.NewBP(tag, m), &fallback.Args{
				Primary: "s" + strconv.Itoa(d.Prim), Secondary: "s" + strconv.Itoa(d.Sec),
				Threshold: 60000, AlwaysStandby: d.Standby})
			if err != nil {
				b.Close()
				return nil, fmt.Errorf("fallback %s: %w", tag, err)
			}
			ps[tag] = p
		}
		for j, t := range s.Rules {
			for _, mt := range t.Ms {
				ra[j].Matches = append(ra[j].Matches, renderMatch(mt))
			}
			switch t.Kind {
			case "exec":
				q := quickX(xs[t.Arg])
				if q != "" && r.Bool() {
					ra[j].Exec = q
				} else {
					ra[j].Exec = "$x" + strconv.Itoa(t.Arg)
				}
			case "wrap":
				q := quickW(ws[t.Arg])
				if _, have := ps["w"+strconv.Itoa(t.Arg)]; q != "" && (!have || r.Bool()) {
					ra[j].Exec = q
				} else {
					ra[j].Exec = "$w" + strconv.Itoa(t.Arg)
				}
			case "accept", "return":
				ra[j].Exec = t.Kind
			case "reject":
				ra[j].Exec = "reject"
				if t.Arg >= 0 {
					ra[j].Exec = "reject " + strconv.Itoa(t.Arg)
				}
			case "jump", "goto":
				ra[j].Exec = t.Kind + " s" + strconv.Itoa(t.Arg)
			}
		}
		b.Text = append(b.Text, ra)
		seq, err := sequence.NewSequence(coremain.NewBP("s"+strconv.Itoa(s.Name), m), ra)
		if err != nil {
			b.Close()
			return nil, fmt.Errorf("sequence s%d: %w", s.Name, err)
		}
		ps["s"+strconv.Itoa(s.Name)] = seq
		b.closers = append(b.closers, func() { _ = seq.Close() })
		b.Entry = seq
	}
	return b, nil
}
