// Package msgx is shared by the C15 and C03 drivers: the printer from
// *dns.Msg to the abstract message of coq/Model/Msg.v (as Gallina terms using
// the helpers of coq/Judge/C15.v), the program/plugin descriptions and their
// construction with the real plugin constructors, the scripted in-memory
// upstream, the runner that sends a list of queries through the real
// EntryHandler.Handle, and the case generators.
package msgx

import (
	"encoding/binary"
	"fmt"
	"net"
	"net/netip"
	"strings"

	"github.com/miekg/dns"

	"verifharness/hx"
)

// ---------- names ----------

// NameTable is Judge.C15.n0 .. n7.
var NameTable = []string{"a.test.", "b.test.", "c.test.", "A.Test.", "d.example.", "B.TEST.", "e.test.", "."}

type longName struct {
	k    int
	seed uint64
}

var longNames = map[string]longName{}

// LongName is Judge.C15.ln k seed.
func LongName(k int, seed uint64) string {
	raw := hx.GenBytes(k, seed)
	var sb strings.Builder
	i := 50
	for _, b := range raw {
		if i == 0 {
			sb.WriteByte('.')
			i = 49
		} else {
			i--
		}
		sb.WriteByte('a' + b%26)
	}
	sb.WriteString(".test.")
	s := sb.String()
	longNames[s] = longName{k, seed}
	return s
}

func NameCoq(s string) string {
	for i, n := range NameTable {
		if n == s {
			return fmt.Sprintf("n%d", i)
		}
	}
	if ln, ok := longNames[s]; ok {
		return fmt.Sprintf("(ln %d %d)", ln.k, ln.seed)
	}
	return hx.Str(s)
}

// ---------- tags ----------

func V4Tag(ip net.IP) uint64 {
	b := ip.To4()
	if b == nil {
		return hx.Sum(ip)
	}
	return uint64(binary.BigEndian.Uint32(b))
}

func V6Tag(ip net.IP) uint64 { return hx.Sum(ip.To16()) }

// AddrTag is the (family, tag) pair of Model.Handler.addr for an unmapped address.
func AddrTag(a netip.Addr) (bool, uint64) {
	if a.Is4() {
		return false, V4Tag(net.IP(a.AsSlice()))
	}
	return true, V6Tag(net.IP(a.AsSlice()))
}

func AddrCoq(a netip.Addr) string {
	v6, t := AddrTag(a)
	return hx.Tuple(hx.Bool(v6), hx.N(t))
}

func OptAddrCoq(a netip.Addr) string {
	if !a.IsValid() {
		return "None"
	}
	return hx.Some(AddrCoq(a))
}

// EcsData is Model.Plugins.ecs_data generalised to any scope.
func EcsData(family, mask, scope uint64, addrTag uint64) uint64 {
	return (((family*256+mask)*256 + scope) << 32) + addrTag
}

func optionTag(o dns.EDNS0) uint64 {
	switch v := o.(type) {
	case *dns.EDNS0_SUBNET:
		var at uint64
		if v.Family == 1 {
			at = V4Tag(v.Address)
		} else {
			at = V6Tag(v.Address)
		}
		return EcsData(uint64(v.Family), uint64(v.SourceNetmask), uint64(v.SourceScope), at)
	case *dns.EDNS0_COOKIE:
		return hx.Sum([]byte(v.Cookie))
	case *dns.EDNS0_PADDING:
		return hx.Sum(v.Padding) + uint64(len(v.Padding))<<32
	case *dns.EDNS0_LOCAL:
		return hx.Sum(v.Data) + uint64(len(v.Data))<<32
	case *dns.EDNS0_NSID:
		return hx.Sum([]byte(v.Nsid))
	}
	return hx.Sum([]byte(o.String()))
}

func OptionCoq(o dns.EDNS0) string {
	return hx.Tuple(hx.N(uint64(o.Option())), hx.N(optionTag(o)))
}

func optFields(o *dns.OPT) string {
	opts := make([]string, len(o.Option))
	for i, e := range o.Option {
		opts[i] = OptionCoq(e)
	}
	return fmt.Sprintf("%d %s %d %d %s", o.UDPSize(), hx.Bool(o.Do()), o.Version(), (o.Hdr.Ttl>>24)&0xFF, hx.List(opts))
}

// OptCoq renders a *dns.OPT as a Model.Msg.opt.
func OptCoq(o *dns.OPT) string { return "(Opt " + optFields(o) + ")" }

// ---------- records ----------

const fakeSOASerial = 2021110400

// RRCoq renders one record as a Model.Msg.rr. placeholder: print the owner
// name "" (= the query name in a reply template) as [].
func RRCoq(rr dns.RR) string {
	h := rr.Header()
	name := NameCoq(h.Name)
	if h.Name == "" {
		name = "[]"
	}
	switch v := rr.(type) {
	case *dns.OPT:
		return "(O " + optFields(v) + ")"
	case *dns.CNAME:
		if h.Class == dns.ClassINET {
			return fmt.Sprintf("(CN %s %d %s)", name, h.Ttl, NameCoq(v.Target))
		}
		return fmt.Sprintf("(RR %s %d %d %d (RName %s))", name, h.Rrtype, h.Class, h.Ttl, NameCoq(v.Target))
	case *dns.A:
		return fmt.Sprintf("(R %s %d %d %d %d)", name, h.Rrtype, h.Class, h.Ttl, V4Tag(v.A))
	case *dns.AAAA:
		return fmt.Sprintf("(R %s %d %d %d %d)", name, h.Rrtype, h.Class, h.Ttl, V6Tag(v.AAAA))
	case *dns.TXT:
		return fmt.Sprintf("(R %s %d %d %d %d)", name, h.Rrtype, h.Class, h.Ttl, hx.Sum([]byte(strings.Join(v.Txt, "|")))+uint64(len(v.Txt))<<32)
	case *dns.SOA:
		return fmt.Sprintf("(R %s %d %d %d %d)", name, h.Rrtype, h.Class, h.Ttl, uint64(v.Serial-fakeSOASerial))
	}
	s := rr.String()
	return fmt.Sprintf("(R %s %d %d %d %d)", name, h.Rrtype, h.Class, h.Ttl, hx.Sum([]byte(s[len(h.String()):])))
}

func RRsCoq(rrs []dns.RR) string {
	it := make([]string, len(rrs))
	for i, r := range rrs {
		it[i] = RRCoq(r)
	}
	return hx.List(it)
}

func QuestionCoq(q dns.Question) string {
	return fmt.Sprintf("(Q %s %d %d)", NameCoq(q.Name), q.Qtype, q.Qclass)
}

// FlagWord is the header flag word without the rcode bits.
func FlagWord(m *dns.Msg) uint64 {
	var f uint64
	set := func(b bool, bit uint) {
		if b {
			f |= 1 << bit
		}
	}
	set(m.Response, 15)
	f |= uint64(m.Opcode&0xF) << 11
	set(m.Authoritative, 10)
	set(m.Truncated, 9)
	set(m.RecursionDesired, 8)
	set(m.RecursionAvailable, 7)
	set(m.Zero, 6)
	set(m.AuthenticatedData, 5)
	set(m.CheckingDisabled, 4)
	return f
}

// MsgCoq renders a message as Judge.C15.mk id fl rc qs an ns ex.
func MsgCoq(m *dns.Msg) string {
	qs := make([]string, len(m.Question))
	for i, q := range m.Question {
		qs[i] = QuestionCoq(q)
	}
	return fmt.Sprintf("(mk %d %d %d %s %s %s %s)", m.Id, FlagWord(m), m.Rcode, hx.List(qs),
		RRsCoq(m.Answer), RRsCoq(m.Ns), RRsCoq(m.Extra))
}

// ---------- small constructors ----------

func IP4(tag uint32) net.IP {
	b := make([]byte, 4)
	binary.BigEndian.PutUint32(b, tag)
	return net.IP(b)
}

func IP6(low uint16) net.IP {
	ip := make(net.IP, 16)
	ip[0] = 0xfd
	ip[14] = byte(low >> 8)
	ip[15] = byte(low)
	return ip
}
