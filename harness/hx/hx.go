// Package hx holds what every driver shares: flags, the per-case PRNG, the
// payload generator and checksum that coq/Base/Prelude.v defines identically,
// Gallina literal printers and the JSON-lines case writer.
package hx

import (
	"bufio"
	"encoding/json"
	"flag"
	"fmt"
	"os"
	"sort"
	"strconv"
	"strings"
	"sync"
	"time"
)

// ---------- flags ----------

type Opts struct {
	Seed  uint64
	Tier  string
	Out   string
	Only  string // run only the case with this id ("" = all)
	N     int    // number of generated cases (0 = driver default for the tier)
	Extra map[string]string
}

func ParseFlags() *Opts {
	o := &Opts{}
	flag.Uint64Var(&o.Seed, "seed", 1, "PRNG seed")
	flag.StringVar(&o.Tier, "tier", "quick", "quick|thorough")
	flag.StringVar(&o.Out, "out", "", "output file (JSON lines); default stdout")
	flag.StringVar(&o.Only, "only", "", "run only the case with this id")
	flag.IntVar(&o.N, "n", 0, "number of generated cases")
	flag.Parse()
	return o
}

func (o *Opts) Count(quick, thorough int) int {
	if o.N > 0 {
		return o.N
	}
	if o.Tier == "thorough" {
		return thorough
	}
	return quick
}

// Want reports whether the case with this id should run.
func (o *Opts) Want(id string) bool {
	ok := o.Only == "" || o.Only == id
	if ok {
		watchMu.Lock()
		watchID, watchT = id, time.Now()
		watchMu.Unlock()
	}
	return ok
}

var (
	watchMu sync.Mutex
	watchID string
	watchT  time.Time
)

// Watchdog (opt-in, for drivers whose cases run one after the other in-process): when no case has been started
// for limit, the code under test hangs in the case started last (or in a background part). That is reported as a
// harness-level violation without a replay (the orchestrator keeps such records), the cases written so far are
// kept, and the driver ends.
func Watchdog(w *Writer, limit time.Duration) {
	watchMu.Lock()
	watchT = time.Now()
	watchMu.Unlock()
	go func() {
		for {
			time.Sleep(time.Second)
			watchMu.Lock()
			id, since := watchID, time.Since(watchT)
			watchMu.Unlock()
			if since > limit {
				b, _ := json.Marshal(map[string]any{"id": "hang:" + id, "violation": fmt.Sprintf("the driver made no progress for %v: the code under test hangs in (or after) case %q", limit, id),
					"desc": map[string]any{"last_case": id}})
				w.mu.Lock()
				w.w.Write(b)
				w.w.WriteByte('\n')
				w.count["harness-violation"]++
				w.n++
				w.mu.Unlock()
				w.Close()
				os.Exit(0)
			}
		}
	}()
}

// ---------- PRNG (splitmix64), one independent stream per (seed, case id) ----------

type RNG struct{ s uint64 }

func NewRNG(seed uint64, id string) *RNG {
	h := uint64(1469598103934665603)
	for i := 0; i < len(id); i++ {
		h ^= uint64(id[i])
		h *= 1099511628211
	}
	r := &RNG{s: seed*0x9E3779B97F4A7C15 ^ h}
	r.U64()
	return r
}

func (r *RNG) U64() uint64 {
	r.s += 0x9E3779B97F4A7C15
	z := r.s
	z = (z ^ (z >> 30)) * 0xBF58476D1CE4E5B9
	z = (z ^ (z >> 27)) * 0x94D049BB133111EB
	return z ^ (z >> 31)
}

// Intn returns a value in [0, n).
func (r *RNG) Intn(n int) int {
	if n <= 0 {
		return 0
	}
	return int(r.U64() % uint64(n))
}

// Range returns a value in [lo, hi].
func (r *RNG) Range(lo, hi int) int { return lo + r.Intn(hi-lo+1) }
func (r *RNG) Bool() bool           { return r.U64()&1 == 1 }

// Chance returns true with probability num/den.
func (r *RNG) Chance(num, den int) bool { return r.Intn(den) < num }

func Pick[T any](r *RNG, xs []T) T { return xs[r.Intn(len(xs))] }

func (r *RNG) Perm(n int) []int {
	p := make([]int, n)
	for i := range p {
		p[i] = i
	}
	for i := n - 1; i > 0; i-- {
		j := r.Intn(i + 1)
		p[i], p[j] = p[j], p[i]
	}
	return p
}

// ---------- payload generator and checksum (same as Base/Prelude.v) ----------

func GenBytes(n int, seed uint64) []byte {
	b := make([]byte, n)
	x := seed
	for i := range b {
		x = (x*1103515245 + 12345) % 2147483648
		b[i] = byte((x / 65536) % 256)
	}
	return b
}

func Sum(b []byte) uint64 {
	a, s := uint64(1), uint64(0)
	for _, c := range b {
		a = (a + uint64(c)) % 65521
		s = (s + a) % 65521
	}
	return s*65536 + a
}

// ---------- Gallina literals ----------

func N(v uint64) string  { return strconv.FormatUint(v, 10) }
func Ni(v int) string    { return strconv.Itoa(v) }
func Z(v int64) string   { return "(" + strconv.FormatInt(v, 10) + ")%Z" }
func Nat(v int) string   { return "(" + strconv.Itoa(v) + ")%nat" }
func Bool(b bool) string { return map[bool]string{true: "true", false: "false"}[b] }

func List(items []string) string { return "[" + strings.Join(items, "; ") + "]" }

func NList[T ~int | ~uint8 | ~uint16 | ~uint32 | ~uint64 | ~int64](xs []T) string {
	it := make([]string, len(xs))
	for i, x := range xs {
		it[i] = strconv.FormatUint(uint64(x), 10)
	}
	return List(it)
}

func NatList(xs []int) string {
	it := make([]string, len(xs))
	for i, x := range xs {
		it[i] = strconv.Itoa(x)
	}
	return "(" + List(it) + ")%nat"
}

// Bytes renders a byte string as a list of N.
func Bytes(b []byte) string { return NList(b) }

// Str renders an ASCII string as a list of N (the models' string type).
func Str(s string) string { return NList([]byte(s)) }

func Some(s string) string { return "(Some " + s + ")" }
func Opt(ok bool, s string) string {
	if ok {
		return Some(s)
	}
	return "None"
}
func Tuple(items ...string) string { return "(" + strings.Join(items, ", ") + ")" }
func App(ctor string, args ...string) string {
	if len(args) == 0 {
		return ctor
	}
	return "(" + ctor + " " + strings.Join(args, " ") + ")"
}

// ---------- case writer ----------

type Case struct {
	ID     string         `json:"id"`
	Coq    string         `json:"coq"`
	Desc   map[string]any `json:"desc,omitempty"`
	FKey   string         `json:"fkey,omitempty"` // classification used by known_findings.json
	Replay []string       `json:"replay,omitempty"`
}

type Writer struct {
	mu    sync.Mutex
	w     *bufio.Writer
	f     *os.File
	count map[string]int
	n     int
}

func NewWriter(o *Opts) *Writer {
	w := &Writer{count: map[string]int{}}
	if o.Out == "" {
		w.w = bufio.NewWriter(os.Stdout)
	} else {
		f, err := os.Create(o.Out)
		if err != nil {
			fmt.Fprintln(os.Stderr, err)
			os.Exit(2)
		}
		w.f = f
		w.w = bufio.NewWriterSize(f, 1<<20)
	}
	return w
}

// Emit writes one case. kind feeds the distribution summary.
func (w *Writer) Emit(kind string, c Case) {
	if c.Replay == nil {
		c.Replay = []string{"-only", c.ID}
	}
	b, _ := json.Marshal(c)
	w.mu.Lock()
	w.w.Write(b)
	w.w.WriteByte('\n')
	w.count[kind]++
	w.n++
	w.mu.Unlock()
}

// Violation reports an observation of the real code that cannot be expressed as a case of the judge and
// that the property excludes; the orchestrator counts it as a failure of the property's oracle.
func (w *Writer) Violation(id, reason string, desc map[string]any) {
	b, _ := json.Marshal(map[string]any{"id": id, "violation": reason, "desc": desc, "replay": []string{"-only", id}})
	w.mu.Lock()
	w.w.Write(b)
	w.w.WriteByte('\n')
	w.count["harness-violation"]++
	w.n++
	w.mu.Unlock()
}

// Tally adds to a distribution counter without emitting a case.
func (w *Writer) Tally(kind string, n int) {
	w.mu.Lock()
	w.count[kind] += n
	w.mu.Unlock()
}

func (w *Writer) Close() {
	w.mu.Lock()
	defer w.mu.Unlock()
	keys := make([]string, 0, len(w.count))
	for k := range w.count {
		keys = append(keys, k)
	}
	sort.Strings(keys)
	sum := map[string]any{"cases": w.n, "kinds": w.count}
	b, _ := json.Marshal(map[string]any{"summary": sum})
	w.w.Write(b)
	w.w.WriteByte('\n')
	w.w.Flush()
	if w.f != nil {
		w.f.Close()
	}
}

// ErrClass maps an error to a small stable class for the given classifier list.
func Recover(f func()) (panicked any) {
	defer func() { panicked = recover() }()
	f()
	return nil
}
