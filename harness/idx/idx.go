// Package idx exercises the message-id handling of the DoH upstream (fake
// http.RoundTripper) and of the DoQ connection (fake quic.Connection/Stream):
// id 0 on the wire, the caller's id restored on the reply, nothing else touched.
package idx

import (
	"bytes"
	"context"
	"encoding/base64"
	"encoding/binary"
	"fmt"
	"io"
	"net/http"
	"sync"
	"time"

	"verifharness/hx"

	"github.com/IrineSistiana/mosdns/v5/pkg/pool"
	"github.com/IrineSistiana/mosdns/v5/pkg/upstream/doh"
	"github.com/IrineSistiana/mosdns/v5/pkg/upstream/transport"
	"github.com/quic-go/quic-go"
)

func mk(id uint16, n int, seed uint64) []byte {
	b := make([]byte, 2, 2+n)
	binary.BigEndian.PutUint16(b, id)
	return append(b, hx.GenBytes(n, seed)...)
}

type rt struct {
	reply []byte
	wire  []byte
}

func (r *rt) RoundTrip(req *http.Request) (*http.Response, error) {
	w, err := base64.RawURLEncoding.DecodeString(req.URL.Query().Get("dns"))
	if err != nil {
		return nil, err
	}
	r.wire = w
	return &http.Response{StatusCode: 200, Body: io.NopCloser(bytes.NewReader(r.reply)), Header: http.Header{}, Request: req}, nil
}

// ---------- fake quic ----------

type fstream struct {
	quic.Stream
	mu    sync.Mutex
	wrote bytes.Buffer
	rd    *bytes.Reader
	fin   chan struct{}
	reply []byte
}

func (s *fstream) Write(p []byte) (int, error) {
	s.mu.Lock()
	defer s.mu.Unlock()
	return s.wrote.Write(p)
}
func (s *fstream) Close() error {
	select {
	case <-s.fin:
	default:
		close(s.fin)
	}
	return nil
}
func (s *fstream) Read(p []byte) (int, error) {
	<-s.fin // the server answers after the client's FIN
	s.mu.Lock()
	if s.rd == nil {
		f := make([]byte, 2+len(s.reply))
		binary.BigEndian.PutUint16(f, uint16(len(s.reply)))
		copy(f[2:], s.reply)
		s.rd = bytes.NewReader(f)
	}
	s.mu.Unlock()
	return s.rd.Read(p)
}
func (s *fstream) CancelRead(quic.StreamErrorCode)  {}
func (s *fstream) CancelWrite(quic.StreamErrorCode) {}
func (s *fstream) SetDeadline(time.Time) error      { return nil }
func (s *fstream) SetReadDeadline(time.Time) error  { return nil }
func (s *fstream) SetWriteDeadline(time.Time) error { return nil }

type fqconn struct {
	quic.Connection
	st *fstream
}

func (c *fqconn) Context() context.Context         { return context.Background() }
func (c *fqconn) OpenStream() (quic.Stream, error) { return c.st, nil }
func (c *fqconn) CloseWithError(quic.ApplicationErrorCode, string) error {
	return nil
}

// One runs one exchange and returns the Judge.IdZero.icase literal.
func One(doq bool, qid uint16, n int, seed uint64, rid uint16, rn int, rseed uint64) (string, map[string]any, error) {
	q := mk(qid, n, seed)
	reply := mk(rid, rn, rseed)
	var wire []byte
	var got *[]byte
	var err error
	ctx, cancel := context.WithTimeout(context.Background(), 5*time.Second)
	defer cancel()
	if doq {
		st := &fstream{fin: make(chan struct{}), reply: reply}
		dc := transport.NewQuicDnsConn(&fqconn{st: st})
		rx, _ := dc.ReserveNewQuery()
		if rx == nil {
			return "", nil, fmt.Errorf("no stream")
		}
		got, err = rx.ExchangeReserved(ctx, q)
		w := st.wrote.Bytes()
		if len(w) >= 2 {
			wire = w[2:] // strip the two byte length
		}
	} else {
		r := &rt{reply: reply}
		u, e := doh.NewUpstream("https://doh.test/dns-query", r, nil)
		if e != nil {
			return "", nil, e
		}
		got, err = u.ExchangeContext(ctx, q)
		wire = r.wire
	}
	if err != nil || got == nil || len(*got) < 2 || len(wire) < 2 {
		return "", nil, fmt.Errorf("exchange failed: %v", err)
	}
	g := *got
	lit := hx.App("CId", hx.Bool(doq), hx.Ni(int(qid)), hx.Ni(n), hx.N(seed), hx.Ni(int(rid)), hx.Ni(rn), hx.N(rseed),
		hx.Ni(int(binary.BigEndian.Uint16(wire))), hx.Ni(len(wire)-2), hx.N(hx.Sum(wire[2:])),
		hx.Ni(int(binary.BigEndian.Uint16(g))), hx.Ni(len(g)-2), hx.N(hx.Sum(g[2:])))
	desc := map[string]any{"doq": doq, "qid": qid, "rid": rid, "qlen": n + 2, "rlen": rn + 2}
	pool.ReleaseBuf(got)
	return lit, desc, nil
}

// Drive emits id-handling cases; wrap adapts the literal to the caller's case type.
func Drive(w *hx.Writer, o *hx.Opts, wrap func(string) string) {
	n := o.Count(80, 2000)
	ids := []uint16{0, 1, 255, 256, 0x8000, 0xFFFF, 0xBEEF}
	for i := 0; i < n; i++ {
		id := fmt.Sprintf("id:%d", i)
		if !o.Want(id) {
			continue
		}
		r := hx.NewRNG(o.Seed, id)
		qid, rid := hx.Pick(r, ids), hx.Pick(r, ids)
		if r.Chance(1, 2) {
			qid, rid = uint16(r.Intn(65536)), uint16(r.Intn(65536))
		}
		lit, desc, err := One(r.Bool(), qid, r.Range(10, 200), r.U64()%100000, rid, r.Range(10, 300), r.U64()%100000)
		if err != nil {
			lit = hx.App("CId", "false", "0", "0", "0", "0", "0", "0", "9", "9", "9", "9", "9", "9") // never what the model says
			desc = map[string]any{"error": err.Error()}
		}
		w.Emit("id", hx.Case{ID: id, Coq: wrap(lit), Desc: desc})
	}
}
