// Package idx exercises the message-id handling of the DoH upstream (fake
// http.RoundTripper) and of the DoQ connection (fake quic.Connection/Stream):
// id 0 on the wire, the caller's id restored on the reply, nothing else touched.
package idx

import (
	"bytes"
	"context"
	"encoding/base64"
	"encoding/binary"
	"fmt"
	"io"
	"net"
	"net/http"
	"runtime"
	"sync"
	"time"

	"verifharness/hx"

	"github.com/IrineSistiana/mosdns/v5/pkg/pool"
	"github.com/IrineSistiana/mosdns/v5/pkg/upstream"
	"github.com/IrineSistiana/mosdns/v5/pkg/upstream/doh"
	"github.com/IrineSistiana/mosdns/v5/pkg/upstream/transport"
	"github.com/miekg/dns"
	"github.com/quic-go/quic-go"
)

func mk(id uint16, n int, seed uint64) []byte {
	b := make([]byte, 2, 2+n)
	binary.BigEndian.PutUint16(b, id)
	return append(b, hx.GenBytes(n, seed)...)
}

type rt struct {
	reply []byte
	wire  []byte
}

func (r *rt) RoundTrip(req *http.Request) (*http.Response, error) {
	w, err := base64.RawURLEncoding.DecodeString(req.URL.Query().Get("dns"))
	if err != nil {
		return nil, err
	}
	r.wire = w
	return &http.Response{StatusCode: 200, Body: io.NopCloser(bytes.NewReader(r.reply)), Header: http.Header{}, Request: req}, nil
}

// ---------- fake quic ----------

type fstream struct {
	quic.Stream
	mu    sync.Mutex
	wrote bytes.Buffer
	rd    *bytes.Reader
	fin   chan struct{}
	reply []byte
}

func (s *fstream) Write(p []byte) (int, error) {
	s.mu.Lock()
	defer s.mu.Unlock()
	return s.wrote.Write(p)
}
func (s *fstream) Close() error {
	select {
	case <-s.fin:
	default:
		close(s.fin)
	}
	return nil
}
func (s *fstream) Read(p []byte) (int, error) {
	<-s.fin // the server answers after the client's FIN
	s.mu.Lock()
	if s.rd == nil {
		f := make([]byte, 2+len(s.reply))
		binary.BigEndian.PutUint16(f, uint16(len(s.reply)))
		copy(f[2:], s.reply)
		s.rd = bytes.NewReader(f)
	}
	s.mu.Unlock()
	return s.rd.Read(p)
}
func (s *fstream) CancelRead(quic.StreamErrorCode)  {}
func (s *fstream) CancelWrite(quic.StreamErrorCode) {}
func (s *fstream) SetDeadline(time.Time) error      { return nil }
func (s *fstream) SetReadDeadline(time.Time) error  { return nil }
func (s *fstream) SetWriteDeadline(time.Time) error { return nil }

type fqconn struct {
	quic.Connection
	st *fstream
}

func (c *fqconn) Context() context.Context         { return context.Background() }
func (c *fqconn) OpenStream() (quic.Stream, error) { return c.st, nil }
func (c *fqconn) CloseWithError(quic.ApplicationErrorCode, string) error {
	return nil
}

// One runs one exchange and returns the Judge.IdZero.icase literal.
func One(doq bool, qid uint16, n int, seed uint64, rid uint16, rn int, rseed uint64) (string, map[string]any, error) {
	q := mk(qid, n, seed)
	reply := mk(rid, rn, rseed)
	var wire []byte
	var got *[]byte
	var err error
	ctx, cancel := context.WithTimeout(context.Background(), 5*time.Second)
	defer cancel()
	if doq {
		st := &fstream{fin: make(chan struct{}), reply: reply}
		dc := transport.NewQuicDnsConn(&fqconn{st: st})
		rx, _ := dc.ReserveNewQuery()
		if rx == nil {
			return "", nil, fmt.Errorf("no stream")
		}
		got, err = rx.ExchangeReserved(ctx, q)
		w := st.wrote.Bytes()
		if len(w) >= 2 {
			wire = w[2:] // strip the two byte length
		}
	} else {
		r := &rt{reply: reply}
		u, e := doh.NewUpstream("https://doh.test/dns-query", r, nil)
		if e != nil {
			return "", nil, e
		}
		got, err = u.ExchangeContext(ctx, q)
		wire = r.wire
	}
	if err != nil || got == nil || len(*got) < 2 || len(wire) < 2 {
		return "", nil, fmt.Errorf("exchange failed: %v", err)
	}
	g := *got
	lit := hx.App("CId", hx.Bool(doq), hx.Ni(int(qid)), hx.Ni(n), hx.N(seed), hx.Ni(int(rid)), hx.Ni(rn), hx.N(rseed),
		hx.Ni(int(binary.BigEndian.Uint16(wire))), hx.Ni(len(wire)-2), hx.N(hx.Sum(wire[2:])),
		hx.Ni(int(binary.BigEndian.Uint16(g))), hx.Ni(len(g)-2), hx.N(hx.Sum(g[2:])))
	desc := map[string]any{"doq": doq, "qid": qid, "rid": rid, "qlen": n + 2, "rlen": rn + 2}
	pool.ReleaseBuf(got)
	return lit, desc, nil
}

// ---------- concurrent exchanges on one upstream / one connection ----------

type Item struct {
	Qid      uint16
	N        int
	Seed     uint64
	Rid      uint16
	Rn       int
	Rseed    uint64
	q, reply []byte
}

// barrier lets every participant go on once all k have arrived (or after 2 s).
type barrier struct {
	mu   sync.Mutex
	n, k int
	ch   chan struct{}
}

func newBarrier(k int) *barrier { return &barrier{k: k, ch: make(chan struct{})} }
func (b *barrier) wait() {
	b.mu.Lock()
	b.n++
	if b.n == b.k {
		close(b.ch)
	}
	b.mu.Unlock()
	select {
	case <-b.ch:
	case <-time.After(2 * time.Second):
	}
}

// answerFor: the fake server answers the query it RECEIVED (matched by everything after the id).
func answerFor(items []*Item, wire []byte) []byte {
	if len(wire) >= 2 {
		for _, it := range items {
			if bytes.Equal(it.q[2:], wire[2:]) {
				return it.reply
			}
		}
	}
	return mk(0x7777, 12, 424242) // a query nobody sent
}

type rtB struct {
	items   []*Item
	bar     *barrier
	mu      sync.Mutex
	wire    map[int][]byte
	arrived chan int
	n       int
}

// The upstream runs the HTTP exchange in its own goroutine under a fresh context, so a request is
// attributed to its caller by arrival order: the harness starts the callers one at a time and waits for
// each one's request to arrive before starting the next.
func (r *rtB) RoundTrip(req *http.Request) (*http.Response, error) {
	r.mu.Lock()
	i := r.n
	r.n++
	r.mu.Unlock()
	r.arrived <- i
	r.bar.wait() // every request is in flight before any of them is looked at
	w, err := base64.RawURLEncoding.DecodeString(req.URL.Query().Get("dns"))
	if err != nil {
		return nil, err
	}
	r.mu.Lock()
	r.wire[i] = w
	r.mu.Unlock()
	return &http.Response{StatusCode: 200, Body: io.NopCloser(bytes.NewReader(answerFor(r.items, w))), Header: http.Header{}, Request: req}, nil
}

type bstream struct {
	fstream
	items []*Item
	bar   *barrier
	once  sync.Once
}

func (s *bstream) Read(p []byte) (int, error) {
	<-s.fin
	s.once.Do(func() {
		s.bar.wait()
		s.mu.Lock()
		w := s.wrote.Bytes()
		var wire []byte
		if len(w) >= 2 {
			wire = w[2:]
		}
		s.reply = answerFor(s.items, wire)
		s.mu.Unlock()
	})
	return s.fstream.Read(p)
}

type bqconn struct {
	quic.Connection
	mu      sync.Mutex
	streams []*bstream
	items   []*Item
	bar     *barrier
}

func (c *bqconn) Context() context.Context { return context.Background() }
func (c *bqconn) OpenStream() (quic.Stream, error) {
	st := &bstream{items: c.items, bar: c.bar}
	st.fin = make(chan struct{})
	c.mu.Lock()
	c.streams = append(c.streams, st)
	c.mu.Unlock()
	return st, nil
}
func (c *bqconn) CloseWithError(quic.ApplicationErrorCode, string) error { return nil }

// Batch runs the items concurrently on ONE DoH upstream or ONE QUIC connection and returns the list of
// Judge.IdZero.icase literals (one per exchange, in item order).
func Batch(doq bool, items []*Item) (string, map[string]any) {
	for _, it := range items {
		it.q = mk(it.Qid, it.N, it.Seed)
		it.reply = mk(it.Rid, it.Rn, it.Rseed)
	}
	k := len(items)
	bar := newBarrier(k)
	got := make([]*[]byte, k)
	errs := make([]error, k)
	wires := make([][]byte, k)
	var wg sync.WaitGroup
	ctx, cancel := context.WithTimeout(context.Background(), 5*time.Second)
	defer cancel()
	if doq {
		qc := &bqconn{items: items, bar: bar}
		dc := transport.NewQuicDnsConn(qc)
		rxs := make([]transport.ReservedExchanger, k)
		for i := range items {
			rxs[i], _ = dc.ReserveNewQuery()
		}
		for i := range items {
			wg.Add(1)
			go func(i int) {
				defer wg.Done()
				got[i], errs[i] = rxs[i].ExchangeReserved(ctx, items[i].q)
			}(i)
		}
		wg.Wait()
		for i, st := range qc.streams {
			if w := st.wrote.Bytes(); len(w) >= 2 && i < k {
				wires[i] = w[2:]
			}
		}
	} else {
		r := &rtB{items: items, bar: bar, wire: map[int][]byte{}, arrived: make(chan int, k)}
		u, e := doh.NewUpstream("https://doh.test/dns-query", r, nil)
		if e != nil {
			return "[]", map[string]any{"error": e.Error()}
		}
		for i := range items {
			wg.Add(1)
			go func(i int) {
				defer wg.Done()
				got[i], errs[i] = u.ExchangeContext(ctx, items[i].q)
			}(i)
			select {
			case <-r.arrived:
			case <-time.After(2 * time.Second):
			}
		}
		wg.Wait()
		for i := range items {
			wires[i] = r.wire[i]
		}
	}
	lits := make([]string, k)
	for i, it := range items {
		if errs[i] != nil || got[i] == nil || len(*got[i]) < 2 || len(wires[i]) < 2 {
			lits[i] = hx.App("CId", "false", "0", "0", "0", "0", "0", "0", "9", "9", "9", "9", "9", "9")
			continue
		}
		g, wire := *got[i], wires[i]
		lits[i] = hx.App("CId", hx.Bool(doq), hx.Ni(int(it.Qid)), hx.Ni(it.N), hx.N(it.Seed), hx.Ni(int(it.Rid)), hx.Ni(it.Rn), hx.N(it.Rseed),
			hx.Ni(int(binary.BigEndian.Uint16(wire))), hx.Ni(len(wire)-2), hx.N(hx.Sum(wire[2:])),
			hx.Ni(int(binary.BigEndian.Uint16(g))), hx.Ni(len(g)-2), hx.N(hx.Sum(g[2:])))
		pool.ReleaseBuf(got[i])
	}
	es := []string{}
	for i, e := range errs {
		if e != nil {
			es = append(es, fmt.Sprintf("%d: %v", i, e))
		}
	}
	return hx.List(lits), map[string]any{"doq": doq, "concurrent": k, "errors": es}
}

// Drive emits id-handling cases; wrap adapts the literal to the caller's case type.
func Drive(w *hx.Writer, o *hx.Opts, wrap func(string) string) {
	n := o.Count(80, 2000)
	ids := []uint16{0, 1, 255, 256, 0x8000, 0xFFFF, 0xBEEF}
	for i := 0; i < n; i++ {
		id := fmt.Sprintf("id:%d", i)
		if !o.Want(id) {
			continue
		}
		r := hx.NewRNG(o.Seed, id)
		qid, rid := hx.Pick(r, ids), hx.Pick(r, ids)
		if r.Chance(1, 2) {
			qid, rid = uint16(r.Intn(65536)), uint16(r.Intn(65536))
		}
		// replies of at least 13 bytes: the stream reader shared with TCP refuses a bare 12-byte header (C16)
		lit, desc, err := One(r.Bool(), qid, r.Range(10, 200), r.U64()%100000, rid, r.Range(11, 300), r.U64()%100000)
		if err != nil {
			lit = hx.App("CId", "false", "0", "0", "0", "0", "0", "0", "9", "9", "9", "9", "9", "9") // never what the model says
			desc = map[string]any{"error": err.Error()}
		}
		w.Emit("id", hx.Case{ID: id, Coq: wrap(lit), Desc: desc})
	}
}

// ---------- replies stay the caller's ----------

// Held runs a sequence of exchanges on one real udp upstream (with its TCP fallback) against a UDP server that
// answers the first query truncated (nothing listens on TCP) and the others normally; successful replies are
// kept by the caller and read again at the end.
func Held(nq int, ids []uint16) (string, map[string]any, bool) {
	pc, err := net.ListenPacket("udp", "127.0.0.1:0")
	if err != nil {
		return "", nil, false
	}
	defer pc.Close()
	go func() {
		b := make([]byte, 4096)
		first := true
		for {
			n, from, err := pc.ReadFrom(b)
			if err != nil {
				return
			}
			m := new(dns.Msg)
			if m.Unpack(b[:n]) != nil {
				continue
			}
			r := new(dns.Msg)
			r.SetReply(m)
			if first {
				r.Truncated = true
				first = false
			}
			out, _ := r.Pack()
			pc.WriteTo(out, from)
		}
	}()
	prev := runtime.GOMAXPROCS(1) // one P: what goes back to the buffer pool is what comes out next
	defer runtime.GOMAXPROCS(prev)
	u, err := upstream.NewUpstream("udp://"+pc.LocalAddr().String(), upstream.Opt{})
	if err != nil {
		return "", nil, false
	}
	defer u.Close()
	type held struct {
		r       *[]byte
		rn, rid int
		ok      bool
	}
	nameIdx := func(b []byte) (int, int) {
		m := new(dns.Msg)
		if m.Unpack(b) != nil || len(m.Question) != 1 {
			return 9999, 0
		}
		k := 9998
		fmt.Sscanf(m.Question[0].Name, "h%d.", &k)
		return k, int(m.Id)
	}
	hs := make([]held, nq)
	for i := 0; i < nq; i++ {
		q := new(dns.Msg)
		q.SetQuestion(fmt.Sprintf("h%d.", i+1), dns.TypeA)
		q.Id = ids[i%len(ids)]
		qb, _ := q.Pack()
		ctx, cancel := context.WithTimeout(context.Background(), 3*time.Second)
		r, err := u.ExchangeContext(ctx, qb)
		cancel()
		if err == nil && r != nil {
			hs[i].ok, hs[i].r = true, r
			hs[i].rn, hs[i].rid = nameIdx(*r)
		}
	}
	items := make([]string, nq)
	for i := range hs {
		ln, lid := 0, 0
		if hs[i].ok {
			ln, lid = nameIdx(*hs[i].r)
		}
		items[i] = hx.Tuple(hx.Ni(i+1), hx.Ni(int(ids[i%len(ids)])), hx.Bool(hs[i].ok), hx.Ni(hs[i].rn), hx.Ni(hs[i].rid), hx.Ni(ln), hx.Ni(lid))
	}
	for i := range hs {
		if hs[i].ok {
			pool.ReleaseBuf(hs[i].r)
		}
	}
	return hx.App("CHeld", hx.List(items)), map[string]any{"queries": nq}, true
}

// DriveHeld emits the held-reply sequences.
func DriveHeld(w *hx.Writer, o *hx.Opts, wrap func(string) string) {
	n := o.Count(6, 60)
	for i := 0; i < n; i++ {
		id := fmt.Sprintf("held:%d", i)
		if !o.Want(id) {
			continue
		}
		r := hx.NewRNG(o.Seed, id)
		ids := []uint16{0x1111, 0x2001, uint16(r.Intn(65536)), 0, 0xFFFF, uint16(r.Intn(65536))}
		lit, desc, ok := Held(r.Range(4, 12), ids)
		if !ok {
			w.Tally("held-skipped", 1)
			continue
		}
		w.Emit("held", hx.Case{ID: id, Coq: wrap(lit), Desc: desc})
	}
}

// DriveBatches emits batches of concurrent exchanges (C01: a reply only ever goes to the exchange that sent
// its query, whatever else is in flight on the same upstream).
func DriveBatches(w *hx.Writer, o *hx.Opts, wrap func(string) string) {
	n := o.Count(40, 800)
	ids := []uint16{0, 1, 0xFFFF, 0x1111, 0xBEEF}
	for i := 0; i < n; i++ {
		id := fmt.Sprintf("idb:%d", i)
		if !o.Want(id) {
			continue
		}
		r := hx.NewRNG(o.Seed, id)
		k := r.Range(2, 6)
		items := make([]*Item, k)
		for j := range items {
			// distinct (length, seed) per item so the fake server can tell the queries apart; ids may repeat
			items[j] = &Item{Qid: hx.Pick(r, ids), N: 20 + 7*j + r.Intn(5), Seed: r.U64() % 100000, Rid: uint16(r.Intn(65536)), Rn: 15 + 11*j + r.Intn(7), Rseed: r.U64() % 100000}
		}
		lit, desc := Batch(r.Bool(), items)
		w.Emit("id-batch", hx.Case{ID: id, Coq: wrap(lit), Desc: desc})
	}
}
