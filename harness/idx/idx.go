// Package idx exercises the message-id handling of the DoH upstream (fake
// http.RoundTripper) and of the DoQ connection (fake quic.Connection/Stream):
// id 0 on the wire, the caller's id restored on the reply, nothing else touched.
package idx

import (
	"bytes"
	"context"
	"encoding/base64"
	"encoding/binary"
	"fmt"
	"io"
	"net"
	"net/http"
	"runtime"
	"runtime/debug"
	"sync"
	"time"

	"verifharness/hx"
	"verifharness/quicx"

	"github.com/IrineSistiana/mosdns/v5/pkg/pool"
	"github.com/IrineSistiana/mosdns/v5/pkg/upstream"
	"github.com/IrineSistiana/mosdns/v5/pkg/upstream/doh"
	"github.com/IrineSistiana/mosdns/v5/pkg/upstream/transport"
	"github.com/miekg/dns"
	"github.com/quic-go/quic-go"
)

func mk(id uint16, n int, seed uint64) []byte {
	b := make([]byte, 2, 2+n)
	binary.BigEndian.PutUint16(b, id)
	return append(b, hx.GenBytes(n, seed)...)
}

type rt struct {
	reply []byte
	wire  []byte
}

func (r *rt) RoundTrip(req *http.Request) (*http.Response, error) {
	w, err := base64.RawURLEncoding.DecodeString(req.URL.Query().Get("dns"))
	if err != nil {
		return nil, err
	}
	r.wire = w
	return &http.Response{StatusCode: 200, Body: io.NopCloser(bytes.NewReader(r.reply)), Header: http.Header{}, Request: req}, nil
}

// ---------- fake quic ----------

type fstream struct {
	quic.Stream
	mu    sync.Mutex
	wrote bytes.Buffer
	rd    *bytes.Reader
	fin   chan struct{}
	reply []byte
}

func (s *fstream) Write(p []byte) (int, error) {
	s.mu.Lock()
	defer s.mu.Unlock()
	return s.wrote.Write(p)
}
func (s *fstream) Close() error {
	select {
	case <-s.fin:
	default:
		close(s.fin)
	}
	return nil
}
func (s *fstream) Read(p []byte) (int, error) {
	<-s.fin // the server answers after the client's FIN
	s.mu.Lock()
	if s.rd == nil {
		f := make([]byte, 2+len(s.reply))
		binary.BigEndian.PutUint16(f, uint16(len(s.reply)))
		copy(f[2:], s.reply)
		s.rd = bytes.NewReader(f)
	}
	s.mu.Unlock()
	return s.rd.Read(p)
}
func (s *fstream) CancelRead(quic.StreamErrorCode)  {}
func (s *fstream) CancelWrite(quic.StreamErrorCode) {}
func (s *fstream) SetDeadline(time.Time) error      { return nil }
func (s *fstream) SetReadDeadline(time.Time) error  { return nil }
func (s *fstream) SetWriteDeadline(time.Time) error { return nil }

type fqconn struct {
	quic.Connection
	st *fstream
}

func (c *fqconn) Context() context.Context         { return context.Background() }
func (c *fqconn) OpenStream() (quic.Stream, error) { return c.st, nil }
func (c *fqconn) CloseWithError(quic.ApplicationErrorCode, string) error {
	return nil
}

// One runs one exchange and returns the Judge.IdZero.icase literal.
func One(doq bool, qid uint16, n int, seed uint64, rid uint16, rn int, rseed uint64) (string, map[string]any, error) {
	q := mk(qid, n, seed)
	reply := mk(rid, rn, rseed)
	var wire []byte
	var got *[]byte
	var err error
	ctx, cancel := context.WithTimeout(context.Background(), 5*time.Second)
	defer cancel()
	if doq {
		st := &fstream{fin: make(chan struct{}), reply: reply}
		dc := transport.NewQuicDnsConn(&fqconn{st: st})
		rx, _ := dc.ReserveNewQuery()
		if rx == nil {
			return "", nil, fmt.Errorf("no stream")
		}
		got, err = rx.ExchangeReserved(ctx, q)
		w := st.wrote.Bytes()
		if len(w) >= 2 {
			wire = w[2:] // strip the two byte length
		}
	} else {
		r := &rt{reply: reply}
		u, e := doh.NewUpstream("https://doh.test/dns-query", r, nil)
		if e != nil {
			return "", nil, e
		}
		got, err = u.ExchangeContext(ctx, q)
		wire = r.wire
	}
	if err != nil || got == nil || len(*got) < 2 || len(wire) < 2 {
		return "", nil, fmt.Errorf("exchange failed: %v", err)
	}
	g := *got
	lit := hx.App("CId", hx.Bool(doq), hx.Ni(int(qid)), hx.Ni(n), hx.N(seed), hx.Ni(int(rid)), hx.Ni(rn), hx.N(rseed),
		hx.Ni(int(binary.BigEndian.Uint16(wire))), hx.Ni(len(wire)-2), hx.N(hx.Sum(wire[2:])),
		hx.Ni(int(binary.BigEndian.Uint16(g))), hx.Ni(len(g)-2), hx.N(hx.Sum(g[2:])))
	desc := map[string]any{"doq": doq, "qid": qid, "rid": rid, "qlen": n + 2, "rlen": rn + 2}
	pool.ReleaseBuf(got)
	return lit, desc, nil
}

// ---------- concurrent exchanges on one upstream / one connection ----------

type Item struct {
	Qid      uint16
	N        int
	Seed     uint64
	Rid      uint16
	Rn       int
	Rseed    uint64
	q, reply []byte
}

// barrier lets every participant go on once all k have arrived (or after 2 s).
type barrier struct {
	mu   sync.Mutex
	n, k int
	ch   chan struct{}
}

func newBarrier(k int) *barrier { return &barrier{k: k, ch: make(chan struct{})} }
func (b *barrier) wait() {
	b.mu.Lock()
	b.n++
	if b.n == b.k {
		close(b.ch)
	}
	b.mu.Unlock()
	select {
	case <-b.ch:
	case <-time.After(2 * time.Second):
	}
}

// answerFor: the fake server answers the query it RECEIVED (matched by everything after the id).
func answerFor(items []*Item, wire []byte) []byte {
	if len(wire) >= 2 {
		for _, it := range items {
			if bytes.Equal(it.q[2:], wire[2:]) {
				return it.reply
			}
		}
	}
	return mk(0x7777, 12, 424242) // a query nobody sent
}

type rtB struct {
	items   []*Item
	bar     *barrier
	mu      sync.Mutex
	wire    map[int][]byte
	arrived chan int
	n       int
}

// The upstream runs the HTTP exchange in its own goroutine under a fresh context, so a request is
// attributed to its caller by arrival order: the harness starts the callers one at a time and waits for
// each one's request to arrive before starting the next.
func (r *rtB) RoundTrip(req *http.Request) (*http.Response, error) {
	r.mu.Lock()
	i := r.n
	r.n++
	r.mu.Unlock()
	r.arrived <- i
	r.bar.wait() // every request is in flight before any of them is looked at
	w, err := base64.RawURLEncoding.DecodeString(req.URL.Query().Get("dns"))
	if err != nil {
		return nil, err
	}
	r.mu.Lock()
	r.wire[i] = w
	r.mu.Unlock()
	return &http.Response{StatusCode: 200, Body: io.NopCloser(bytes.NewReader(answerFor(r.items, w))), Header: http.Header{}, Request: req}, nil
}

type bstream struct {
	fstream
	items []*Item
	bar   *barrier
	once  sync.Once
}

func (s *bstream) Read(p []byte) (int, error) {
	<-s.fin
	s.once.Do(func() {
		s.bar.wait()
		s.mu.Lock()
		w := s.wrote.Bytes()
		var wire []byte
		if len(w) >= 2 {
			wire = w[2:]
		}
		s.reply = answerFor(s.items, wire)
		s.mu.Unlock()
	})
	return s.fstream.Read(p)
}

type bqconn struct {
	quic.Connection
	mu      sync.Mutex
	streams []*bstream
	items   []*Item
	bar     *barrier
}

func (c *bqconn) Context() context.Context { return context.Background() }
func (c *bqconn) OpenStream() (quic.Stream, error) {
	st := &bstream{items: c.items, bar: c.bar}
	st.fin = make(chan struct{})
	c.mu.Lock()
	c.streams = append(c.streams, st)
	c.mu.Unlock()
	return st, nil
}
func (c *bqconn) CloseWithError(quic.ApplicationErrorCode, string) error { return nil }

// Batch runs the items concurrently on ONE DoH upstream or ONE QUIC connection and returns the list of
// Judge.IdZero.icase literals (one per exchange, in item order).
func Batch(doq bool, items []*Item) (string, map[string]any) {
	for _, it := range items {
		it.q = mk(it.Qid, it.N, it.Seed)
		it.reply = mk(it.Rid, it.Rn, it.Rseed)
	}
	k := len(items)
	bar := newBarrier(k)
	got := make([]*[]byte, k)
	errs := make([]error, k)
	wires := make([][]byte, k)
	var wg sync.WaitGroup
	ctx, cancel := context.WithTimeout(context.Background(), 5*time.Second)
	defer cancel()
	if doq {
		qc := &bqconn{items: items, bar: bar}
		dc := transport.NewQuicDnsConn(qc)
		rxs := make([]transport.ReservedExchanger, k)
		for i := range items {
			rxs[i], _ = dc.ReserveNewQuery()
		}
		for i := range items {
			wg.Add(1)
			go func(i int) {
				defer wg.Done()
				got[i], errs[i] = rxs[i].ExchangeReserved(ctx, items[i].q)
			}(i)
		}
		wg.Wait()
		for i, st := range qc.streams {
			if w := st.wrote.Bytes(); len(w) >= 2 && i < k {
				wires[i] = w[2:]
			}
		}
	} else {
		r := &rtB{items: items, bar: bar, wire: map[int][]byte{}, arrived: make(chan int, k)}
		u, e := doh.NewUpstream("https://doh.test/dns-query", r, nil)
		if e != nil {
			return "[]", map[string]any{"error": e.Error()}
		}
		for i := range items {
			wg.Add(1)
			go func(i int) {
				defer wg.Done()
				got[i], errs[i] = u.ExchangeContext(ctx, items[i].q)
			}(i)
			select {
			case <-r.arrived:
			case <-time.After(2 * time.Second):
			}
		}
		wg.Wait()
		for i := range items {
			wires[i] = r.wire[i]
		}
	}
	lits := make([]string, k)
	for i, it := range items {
		if errs[i] != nil || got[i] == nil || len(*got[i]) < 2 || len(wires[i]) < 2 {
			lits[i] = hx.App("CId", "false", "0", "0", "0", "0", "0", "0", "9", "9", "9", "9", "9", "9")
			continue
		}
		g, wire := *got[i], wires[i]
		lits[i] = hx.App("CId", hx.Bool(doq), hx.Ni(int(it.Qid)), hx.Ni(it.N), hx.N(it.Seed), hx.Ni(int(it.Rid)), hx.Ni(it.Rn), hx.N(it.Rseed),
			hx.Ni(int(binary.BigEndian.Uint16(wire))), hx.Ni(len(wire)-2), hx.N(hx.Sum(wire[2:])),
			hx.Ni(int(binary.BigEndian.Uint16(g))), hx.Ni(len(g)-2), hx.N(hx.Sum(g[2:])))
		pool.ReleaseBuf(got[i])
	}
	es := []string{}
	for i, e := range errs {
		if e != nil {
			es = append(es, fmt.Sprintf("%d: %v", i, e))
		}
	}
	return hx.List(lits), map[string]any{"doq": doq, "concurrent": k, "errors": es}
}

// Drive emits id-handling cases; wrap adapts the literal to the caller's case type.
func Drive(w *hx.Writer, o *hx.Opts, wrap func(string) string) {
	n := o.Count(80, 2000)
	ids := []uint16{0, 1, 255, 256, 0x8000, 0xFFFF, 0xBEEF}
	for i := 0; i < n; i++ {
		id := fmt.Sprintf("id:%d", i)
		if !o.Want(id) {
			continue
		}
		r := hx.NewRNG(o.Seed, id)
		qid, rid := hx.Pick(r, ids), hx.Pick(r, ids)
		if r.Chance(1, 2) {
			qid, rid = uint16(r.Intn(65536)), uint16(r.Intn(65536))
		}
		// replies of at least 13 bytes: the stream reader shared with TCP refuses a bare 12-byte header (C16)
		lit, desc, err := One(r.Bool(), qid, r.Range(10, 200), r.U64()%100000, rid, r.Range(11, 300), r.U64()%100000)
		if err != nil {
			lit = hx.App("CId", "false", "0", "0", "0", "0", "0", "0", "9", "9", "9", "9", "9", "9") // never what the model says
			desc = map[string]any{"error": err.Error()}
		}
		w.Emit("id", hx.Case{ID: id, Coq: wrap(lit), Desc: desc})
	}
}

// ---------- replies stay the caller's ----------

// Held runs a sequence of exchanges on one real udp upstream (with its TCP fallback) against a UDP server that
// answers the first query truncated (nothing listens on TCP) and the others normally; successful replies are
// kept by the caller and read again at the end.
func Held(nq int, ids []uint16) (string, map[string]any, bool) {
	pc, err := net.ListenPacket("udp", "127.0.0.1:0")
	if err != nil {
		return "", nil, false
	}
	defer pc.Close()
	go func() {
		b := make([]byte, 4096)
		first := true
		for {
			n, from, err := pc.ReadFrom(b)
			if err != nil {
				return
			}
			m := new(dns.Msg)
			if m.Unpack(b[:n]) != nil {
				continue
			}
			r := new(dns.Msg)
			r.SetReply(m)
			if first {
				r.Truncated = true
				first = false
			}
			out, _ := r.Pack()
			pc.WriteTo(out, from)
		}
	}()
	prev := runtime.GOMAXPROCS(1) // one P: what goes back to the buffer pool is what comes out next
	defer runtime.GOMAXPROCS(prev)
	u, err := upstream.NewUpstream("udp://"+pc.LocalAddr().String(), upstream.Opt{})
	if err != nil {
		return "", nil, false
	}
	defer u.Close()
	type held struct {
		r       *[]byte
		rn, rid int
		ok      bool
	}
	nameIdx := func(b []byte) (int, int) {
		m := new(dns.Msg)
		if m.Unpack(b) != nil || len(m.Question) != 1 {
			return 9999, 0
		}
		k := 9998
		fmt.Sscanf(m.Question[0].Name, "h%d.", &k)
		return k, int(m.Id)
	}
	hs := make([]held, nq)
	for i := 0; i < nq; i++ {
		q := new(dns.Msg)
		q.SetQuestion(fmt.Sprintf("h%d.", i+1), dns.TypeA)
		q.Id = ids[i%len(ids)]
		qb, _ := q.Pack()
		ctx, cancel := context.WithTimeout(context.Background(), 3*time.Second)
		r, err := u.ExchangeContext(ctx, qb)
		cancel()
		if err == nil && r != nil {
			hs[i].ok, hs[i].r = true, r
			hs[i].rn, hs[i].rid = nameIdx(*r)
		}
	}
	items := make([]string, nq)
	for i := range hs {
		ln, lid := 0, 0
		if hs[i].ok {
			ln, lid = nameIdx(*hs[i].r)
		}
		items[i] = hx.Tuple(hx.Ni(i+1), hx.Ni(int(ids[i%len(ids)])), hx.Bool(hs[i].ok), hx.Ni(hs[i].rn), hx.Ni(hs[i].rid), hx.Ni(ln), hx.Ni(lid))
	}
	for i := range hs {
		if hs[i].ok {
			pool.ReleaseBuf(hs[i].r)
		}
	}
	return hx.App("CHeld", hx.List(items)), map[string]any{"queries": nq}, true
}

// DriveHeld emits the held-reply sequences.
func DriveHeld(w *hx.Writer, o *hx.Opts, wrap func(string) string) {
	n := o.Count(6, 60)
	for i := 0; i < n; i++ {
		id := fmt.Sprintf("held:%d", i)
		if !o.Want(id) {
			continue
		}
		r := hx.NewRNG(o.Seed, id)
		ids := []uint16{0x1111, 0x2001, uint16(r.Intn(65536)), 0, 0xFFFF, uint16(r.Intn(65536))}
		lit, desc, ok := Held(r.Range(4, 12), ids)
		if !ok {
			w.Tally("held-skipped", 1)
			continue
		}
		w.Emit("held", hx.Case{ID: id, Coq: wrap(lit), Desc: desc})
	}
}

// DriveBatches emits batches of concurrent exchanges (C01: a reply only ever goes to the exchange that sent
// its query, whatever else is in flight on the same upstream).
func DriveBatches(w *hx.Writer, o *hx.Opts, wrap func(string) string) {
	n := o.Count(40, 800)
	ids := []uint16{0, 1, 0xFFFF, 0x1111, 0xBEEF}
	for i := 0; i < n; i++ {
		id := fmt.Sprintf("idb:%d", i)
		if !o.Want(id) {
			continue
		}
		r := hx.NewRNG(o.Seed, id)
		k := r.Range(2, 6)
		items := make([]*Item, k)
		for j := range items {
			// distinct (length, seed) per item so the fake server can tell the queries apart; ids may repeat
			items[j] = &Item{Qid: hx.Pick(r, ids), N: 20 + 7*j + r.Intn(5), Seed: r.U64() % 100000, Rid: uint16(r.Intn(65536)), Rn: 15 + 11*j + r.Intn(7), Rseed: r.U64() % 100000}
		}
		lit, desc := Batch(r.Bool(), items)
		w.Emit("id-batch", hx.Case{ID: id, Coq: wrap(lit), Desc: desc})
	}
}

// ---------- DoQ: a failed stream write, then exchanges whose payload building is interleaved ----------

// WriteFault runs, on ONE QUIC connection (quicx fakes under transport.NewQuicDnsConn):
//  1. len(fails) exchanges one after the other whose stream.Write fails (stream reset by the peer, or a write
//     deadline) -- each must return an error;
//  2. the exchanges of items concurrently, scheduled through the streams' SetDeadline hook (the client calls
//     it after it has built its payload and before it writes it): item 0 builds, item 1 builds, ... and only
//     then the payloads are written, in writeOrder. The fake server answers on each stream the query that
//     ARRIVED on that stream.
//
// All payloads are chosen by the caller to fall into one size class of the byte pool, so that a buffer the
// failed exchange gave back wrongly (twice, or while still in use) is what the later exchanges build in.
// One P and no GC while the case runs make sync.Pool hand buffers out in a fixed order; both settings are
// restored on return. Returns the Judge.IdZero.wcase literal.
func WriteFault(fails []*Item, failErrs []error, items []*Item, writeOrder []int) (string, map[string]any) {
	prevP := runtime.GOMAXPROCS(1)
	defer runtime.GOMAXPROCS(prevP)
	prevGC := debug.SetGCPercent(-1)
	defer debug.SetGCPercent(prevGC)

	const wait = 30 * time.Second // nothing below depends on real time; this only bounds a client that hangs
	for _, it := range fails {
		it.q = mk(it.Qid, it.N, it.Seed)
	}
	for _, it := range items {
		it.q = mk(it.Qid, it.N, it.Seed)
		it.reply = mk(it.Rid, it.Rn, it.Rseed)
	}
	k := len(items)
	var streams []*quicx.Stream
	for i := range fails {
		st := quicx.NewStream()
		st.ID = quic.StreamID(4 * i)
		st.WriteErr = failErrs[i%len(failErrs)]
		streams = append(streams, st)
	}
	built := make([]chan struct{}, k)
	turn := make([]chan struct{}, k)
	written := make([]chan struct{}, k)
	ist := make([]*quicx.Stream, k)
	for j := 0; j < k; j++ {
		j := j
		built[j], turn[j], written[j] = make(chan struct{}), make(chan struct{}), make(chan struct{})
		st := quicx.NewStream()
		st.ID = quic.StreamID(4 * (len(fails) + j))
		st.OnSetDeadline = func() {
			close(built[j])
			select {
			case <-turn[j]:
			case <-time.After(wait):
			}
		}
		st.OnWritten = func() { close(written[j]) }
		st.Reply = func(received []byte) io.Reader {
			if len(received) < 2 || int(binary.BigEndian.Uint16(received)) != len(received)-2 {
				return nil // not one whole frame: the server has nothing to answer
			}
			r := answerFor(items, received[2:])
			f := make([]byte, 2+len(r))
			binary.BigEndian.PutUint16(f, uint16(len(r)))
			copy(f[2:], r)
			return bytes.NewReader(f)
		}
		ist[j] = st
		streams = append(streams, st)
	}
	dc := transport.NewQuicDnsConn(quicx.NewConn(streams...))
	defer dc.Close()
	ctx, cancel := context.WithTimeout(context.Background(), wait)
	defer cancel()

	// 1. the failing writes
	nfailed := 0
	for _, it := range fails {
		rx, _ := dc.ReserveNewQuery()
		if rx == nil {
			continue
		}
		r, err := rx.ExchangeReserved(ctx, it.q)
		if err != nil {
			nfailed++
		} else if r != nil {
			pool.ReleaseBuf(r)
		}
	}

	// 2. build, build, ..., then write in writeOrder
	got := make([]*[]byte, k)
	errs := make([]error, k)
	var wg sync.WaitGroup
	stuck := false
	for j := 0; j < k; j++ {
		rx, _ := dc.ReserveNewQuery()
		if rx == nil {
			errs[j] = fmt.Errorf("no stream")
			close(built[j])
			continue
		}
		wg.Add(1)
		go func(j int) {
			defer wg.Done()
			got[j], errs[j] = rx.ExchangeReserved(ctx, items[j].q)
		}(j)
		select {
		case <-built[j]:
		case <-time.After(wait):
			stuck = true
		}
	}
	for _, j := range writeOrder {
		close(turn[j])
		select {
		case <-written[j]:
		case <-time.After(wait):
			stuck = true
		}
	}
	wg.Wait()

	lits := make([]string, k)
	es := []string{}
	for j, it := range items {
		wire, _ := ist[j].Written()
		if len(wire) >= 2 {
			wire = wire[2:] // strip the two byte length
		}
		if errs[j] != nil || got[j] == nil || len(*got[j]) < 2 || len(wire) < 2 {
			lits[j] = "None"
			es = append(es, fmt.Sprintf("%d: %v", j, errs[j]))
			continue
		}
		g := *got[j]
		lits[j] = hx.Some(hx.App("CId", "true", hx.Ni(int(it.Qid)), hx.Ni(it.N), hx.N(it.Seed), hx.Ni(int(it.Rid)), hx.Ni(it.Rn), hx.N(it.Rseed),
			hx.Ni(int(binary.BigEndian.Uint16(wire))), hx.Ni(len(wire)-2), hx.N(hx.Sum(wire[2:])),
			hx.Ni(int(binary.BigEndian.Uint16(g))), hx.Ni(len(g)-2), hx.N(hx.Sum(g[2:]))))
	}
	for j := range got {
		if got[j] != nil {
			pool.ReleaseBuf(got[j])
		}
	}
	qlens := []int{}
	for _, it := range items {
		qlens = append(qlens, it.N+2)
	}
	return hx.App("CWf", hx.Ni(len(fails)), hx.Ni(nfailed), hx.List(lits)),
		map[string]any{"doq": true, "failed_writes": len(fails), "concurrent": k, "write_order": writeOrder, "query_lens": qlens, "errors": es, "stuck": stuck}
}

// DriveWriteFault emits the failed-write-then-concurrent-exchanges cases.
func DriveWriteFault(w *hx.Writer, o *hx.Opts, wrap func(string) string) {
	n := o.Count(16, 300)
	ids := []uint16{0, 1, 0xFFFF, 0x1111, 0xBEEF}
	failErrs := [][]error{
		{&quic.StreamError{StreamID: 0, ErrorCode: 0x2, Remote: true}}, // STOP_SENDING / reset by the peer
		{quicx.TimeoutError{}},                                 // write deadline
		{&quic.ApplicationError{Remote: true, ErrorCode: 0x1}}, // the connection went away
	}
	for i := 0; i < n; i++ {
		id := fmt.Sprintf("idw:%d", i)
		if !o.Want(id) {
			continue
		}
		r := hx.NewRNG(o.Seed, id)
		// one size class of the byte pool (capacity 2^bit - 1) for every payload (= query + 2 length bytes) of the case
		bit := r.Range(6, 9)
		lo, hi := 1<<(bit-1), 1<<bit-1 // payload lengths of the class
		nf := 1
		if i >= 2 {
			nf = hx.Pick(r, []int{1, 1, 1, 2, 0})
		}
		k := 2
		if i >= 2 && r.Chance(1, 4) {
			k = 3
		}
		fails := make([]*Item, nf)
		for j := range fails {
			fails[j] = &Item{Qid: uint16(r.Intn(65536)), N: r.Range(lo, hi) - 4, Seed: r.U64() % 100000}
		}
		items := make([]*Item, k)
		used := map[int]bool{}
		for j := range items {
			// distinct lengths per item so the fake server can tell the queries apart; ids may repeat
			nq := r.Range(lo, hi) - 4
			for used[nq] {
				nq = r.Range(lo, hi) - 4
			}
			used[nq] = true
			items[j] = &Item{Qid: hx.Pick(r, ids), N: nq, Seed: r.U64() % 100000, Rid: uint16(r.Intn(65536)), Rn: 15 + 40*j + r.Intn(30), Rseed: r.U64() % 100000}
		}
		if i < 2 { // the two fixed ones: caller ids 0xFFFF and 0, first builder writes first / last
			items[0].Qid, items[1].Qid = 0xFFFF, 0
		}
		order := r.Perm(k)
		if i == 0 {
			order = []int{0, 1}
		} else if i == 1 {
			order = []int{1, 0}
		}
		lit, desc := WriteFault(fails, hx.Pick(r, failErrs), items, order)
		w.Emit("id-wfault", hx.Case{ID: id, Coq: wrap(lit), Desc: desc})
	}
}
