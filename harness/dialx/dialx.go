// Package dialx checks the contract the transport models assume of the dial functions that
// pkg/upstream/upstream.go builds for each scheme: a dial (including the TLS handshake) ends when its
// context does — at the transport's dial timeout for an unbounded caller, at once when the transport is
// closed — and the socket it opened is released. The server accepts TCP connections and then says nothing.
package dialx

import (
	"context"
	"fmt"
	"net"
	"sync"
	"time"

	"verifharness/hx"

	"github.com/IrineSistiana/mosdns/v5/pkg/upstream"
	"github.com/miekg/dns"
)

type muteServer struct {
	l      net.Listener
	pc     net.PacketConn // same port over UDP: answers every datagram with TC set (scheme udp: the tcp fallback hits the mute listener)
	mu     sync.Mutex
	opened int
	closed int
	accept chan struct{}
}

func newMuteServer(withUDP bool) (*muteServer, error) {
	l, err := net.Listen("tcp", "127.0.0.1:0")
	if err != nil {
		return nil, err
	}
	s := &muteServer{l: l, accept: make(chan struct{}, 64)}
	if withUDP {
		pc, err := net.ListenPacket("udp", l.Addr().String())
		if err != nil {
			l.Close()
			return nil, err
		}
		s.pc = pc
		go func() {
			b := make([]byte, 4096)
			for {
				n, from, err := pc.ReadFrom(b)
				if err != nil {
					return
				}
				m := new(dns.Msg)
				if m.Unpack(b[:n]) != nil {
					continue
				}
				r := new(dns.Msg)
				r.SetReply(m)
				r.Truncated = true
				if rb, err := r.Pack(); err == nil {
					pc.WriteTo(rb, from)
				}
			}
		}()
	}
	go func() {
		for {
			c, err := l.Accept()
			if err != nil {
				return
			}
			s.mu.Lock()
			s.opened++
			s.mu.Unlock()
			s.accept <- struct{}{}
			go func() {
				b := make([]byte, 4096)
				for {
					if _, err := c.Read(b); err != nil { // the client went away
						break
					}
				}
				c.Close()
				s.mu.Lock()
				s.closed++
				s.mu.Unlock()
			}()
		}
	}()
	return s, nil
}

func (s *muteServer) counts() (int, int) {
	s.mu.Lock()
	defer s.mu.Unlock()
	return s.opened, s.closed
}

var schemes = []string{"tls", "tls+pipeline", "tcp", "tcp+pipeline", "udp"}

// one runs one variant: 0 = unbounded caller context against the mute server (the exchange must come back
// on the transport's own timeouts), 1 = Close while the dial / exchange is stuck (the exchange must come
// back at once and every socket must be released).
func one(scheme int, variant int, limit time.Duration) (returned, within, released bool, note string) {
	srv, err := newMuteServer(schemes[scheme] == "udp")
	if err != nil {
		return false, false, false, "listen: " + err.Error()
	}
	defer srv.l.Close()
	if srv.pc != nil {
		defer srv.pc.Close()
	}
	u, err := upstream.NewUpstream(fmt.Sprintf("%s://%s", schemes[scheme], srv.l.Addr().String()), upstream.Opt{})
	if err != nil {
		return false, false, false, "NewUpstream: " + err.Error()
	}
	q := new(dns.Msg)
	q.SetQuestion("example.test.", dns.TypeA)
	qb, _ := q.Pack()
	done := make(chan error, 1)
	t0 := time.Now()
	go func() {
		_, err := u.ExchangeContext(context.Background(), qb)
		done <- err
	}()
	select {
	case <-srv.accept:
	case <-time.After(3 * time.Second):
		u.Close()
		return false, false, false, "the upstream never connected"
	}
	if variant == 1 {
		time.Sleep(20 * time.Millisecond) // let it get stuck in the handshake / the wait for a reply
		t0 = time.Now()
		u.Close()
	}
	select {
	case err := <-done:
		returned = err != nil // silence can only end in an error
		within = time.Since(t0) <= limit
	case <-time.After(limit + 2*time.Second):
	}
	if variant == 0 {
		u.Close()
	}
	deadline := time.Now().Add(3 * time.Second)
	for time.Now().Before(deadline) {
		o, c := srv.counts()
		if o == c {
			released = true
			break
		}
		time.Sleep(2 * time.Millisecond)
	}
	return returned, within, released, ""
}

// Drive emits the cases as Judge.Live.lcase literals. Quick tier: the TLS handshake stall (5 s dial timeout)
// and Close during it; thorough adds a silent server after a plain TCP connect (6 s / 10 s reply timeouts).
func Drive(w *hx.Writer, o *hx.Opts, wrap func(string) string) {
	type job struct {
		scheme, variant int
		limit           time.Duration
	}
	var jobs []job
	for sc := range schemes {
		tlsScheme := sc < 2
		if tlsScheme || o.Tier == "thorough" {
			// tls: the transport's dial timeout (5 s); tcp: the waiting-reply timeouts (6 s non-pipelined, 10 s pipelined)
			lim := 10 * time.Second // generous: only "never" matters, and the machine may be busy
			if !tlsScheme {
				lim = 16 * time.Second
			}
			jobs = append(jobs, job{sc, 0, lim})
		}
		jobs = append(jobs, job{sc, 1, 4 * time.Second})
	}
	type res struct {
		j                          job
		returned, within, released bool
		note                       string
	}
	out := make([]res, len(jobs))
	var wg sync.WaitGroup
	for i, j := range jobs {
		id := fmt.Sprintf("live:%s:%d", schemes[j.scheme], j.variant)
		if !o.Want(id) {
			continue
		}
		wg.Add(1)
		go func(i int, j job) {
			defer wg.Done()
			r, wi, rel, note := one(j.scheme, j.variant, j.limit)
			out[i] = res{j, r, wi, rel, note}
		}(i, j)
	}
	wg.Wait()
	for i, j := range jobs {
		id := fmt.Sprintf("live:%s:%d", schemes[j.scheme], j.variant)
		if !o.Want(id) {
			continue
		}
		r := out[i]
		if r.note != "" && r.note[:6] == "listen" {
			w.Tally("live-skipped", 1)
			continue
		}
		w.Emit("live", hx.Case{ID: id,
			Coq:  wrap(hx.App("CLive", hx.Ni(j.scheme), hx.Ni(j.variant), hx.Bool(r.returned), hx.Bool(r.within), hx.Bool(r.released))),
			Desc: map[string]any{"scheme": schemes[j.scheme], "variant": j.variant, "limit_ms": j.limit.Milliseconds(), "note": r.note}})
	}
}
