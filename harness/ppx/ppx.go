// Package ppx runs scripted calls against the real PipelineTransport over dummy
// DnsConns whose ReserveNewQuery answers what the script says and logs every
// call, so the order in which getReservedExchanger walked the connection map is
// observed. Script + observations are rendered as a Judge.PPool.case.
package ppx

import (
	"bytes"
	"context"
	"errors"
	"fmt"
	"runtime"
	"sort"
	"strconv"
	"strings"
	"sync"
	"time"

	"verifharness/hx"

	"github.com/IrineSistiana/mosdns/v5/pkg/pool"
	"github.com/IrineSistiana/mosdns/v5/pkg/upstream/transport"
	"github.com/IrineSistiana/mosdns/v5/pkg/verifhook"
	"github.com/miekg/dns"
)

type Kind int

const (
	QStart Kind = iota
	QSet
	QFinish
	QTClose
	QCancel // the caller's context of the blocked call C ends
)

const (
	RAdmit = iota
	RFull
	RClosed
)

var rname = []string{"RAdmit", "RFull", "RClosed"}

type Action struct {
	K  Kind
	C  int // call
	N  int // connection
	R  int // answer mode
	Ok bool
	// Late (QFinish with Ok): the caller's context ends just before the connection hands the reply up. For the
	// model the same step as a plain QFinish: the reply is returned.
	Late bool
}

func (a Action) Coq() string {
	switch a.K {
	case QStart:
		return hx.App("QStart", hx.Nat(a.C))
	case QSet:
		return hx.App("QSet", hx.Nat(a.N), rname[a.R])
	case QFinish:
		return hx.App("QFinish", hx.Nat(a.C), hx.Bool(a.Ok))
	case QCancel:
		return hx.App("QCancel", hx.Nat(a.C))
	}
	return "QTClose"
}
func (a Action) String() string {
	return strings.NewReplacer("(", "", ")", "", "%nat", "").Replace(a.Coq())
}

type Visit struct{ N, R int }
type Att struct {
	Call    int
	Visits  []Visit
	Landed  int // connection + 1, 0 none
	Created bool
}
type Ret struct{ C, Code int }
type Obs struct {
	Atts   []Att
	Rets   []Ret
	Pool   int
	Leaked int // reservations the dummies handed out that were neither exchanged on nor withdrawn
}

func (o Obs) Coq() string {
	as := make([]string, len(o.Atts))
	for i, a := range o.Atts {
		vs := make([]string, len(a.Visits))
		for j, v := range a.Visits {
			vs[j] = hx.Tuple(hx.Nat(v.N), rname[v.R])
		}
		as[i] = hx.App("mkQA", hx.Nat(a.Call), hx.List(vs), hx.Ni(a.Landed), hx.Bool(a.Created))
	}
	rs := make([]string, len(o.Rets))
	for i, r := range o.Rets {
		rs[i] = hx.Tuple(hx.Nat(r.C), hx.Ni(r.Code))
	}
	return hx.App("mkQO", hx.List(as), hx.List(rs), hx.Ni(o.Pool), hx.Ni(o.Leaked))
}

// ---------- dummy connections ----------

var errFin = errors.New("ppx: scripted exchange error")

type world struct {
	mu      sync.Mutex
	mode    map[int]int
	nconns  int
	cur     map[int64]*Att // goroutine -> the pass it is in
	atts    []*Att
	landed  chan int      // call whose exchange is now blocked on a connection
	fin     map[int]chan bool
	late    map[int]bool
	created map[int64]map[int]bool // connections created during the current pass of that goroutine
	issued  int                    // reservations handed out by dummies
	used    int                    // ... on which ExchangeReserved or WithdrawReserved was called
}

type dconn struct {
	id int
	w  *world
}

func gid() int64 {
	var b [64]byte
	n := runtime.Stack(b[:], false)
	f := bytes.Fields(b[:n])
	id, _ := strconv.ParseInt(string(f[1]), 10, 64)
	return id
}

func (d *dconn) ReserveNewQuery() (transport.ReservedExchanger, bool) {
	w := d.w
	g := gid()
	w.mu.Lock()
	m := w.mode[d.id]
	if a := w.cur[g]; a != nil && !w.created[g][d.id] {
		// a visit of the scan (reservations on the connection this very pass created are the lazy
		// wrapper handing over, not the pool's walk)
		a.Visits = append(a.Visits, Visit{d.id, m})
	}
	w.mu.Unlock()
	switch m {
	case RAdmit:
		w.mu.Lock()
		w.issued++
		w.mu.Unlock()
		return &dex{d}, false
	case RFull:
		return nil, false
	}
	return nil, true
}
func (d *dconn) Close() error { return nil }

type dex struct{ d *dconn }

func (x *dex) ExchangeReserved(ctx context.Context, q []byte) (*[]byte, error) {
	m := new(dns.Msg)
	c := -1
	if m.Unpack(q) == nil && len(m.Question) == 1 {
		fmt.Sscanf(m.Question[0].Name, "q%d.", &c)
	}
	w := x.d.w
	g := gid()
	w.mu.Lock()
	if a := w.cur[g]; a != nil {
		a.Landed = x.d.id + 1
	}
	w.cur[g] = nil
	w.used++
	ch := make(chan bool, 1)
	w.fin[c] = ch
	w.mu.Unlock()
	w.landed <- c
	select {
	case ok := <-ch:
		if !ok {
			return nil, errFin
		}
		r := new(dns.Msg)
		r.SetReply(m)
		b, _ := r.Pack()
		bp := pool.GetBuf(len(b))
		copy(*bp, b)
		return bp, nil
	case <-ctx.Done():
		w.mu.Lock()
		late := w.late[c]
		w.mu.Unlock()
		if late {
			// the reply was handed over before the context ended (the connection's exchange prefers it)
			<-ch
			r := new(dns.Msg)
			r.SetReply(m)
			b, _ := r.Pack()
			bp := pool.GetBuf(len(b))
			copy(*bp, b)
			return bp, nil
		}
		return nil, ctx.Err()
	}
}
func (x *dex) WithdrawReserved() {
	x.d.w.mu.Lock()
	x.d.w.used++
	x.d.w.mu.Unlock()
}

// ---------- executor ----------

type View struct {
	Started map[int]bool
	Blocked map[int]bool // call blocked in an exchange
	NConns  int
	Closed  bool
	Steps   int
}

func (v *View) Applicable(a Action) bool {
	switch a.K {
	case QStart:
		return !v.Started[a.C]
	case QSet:
		return a.N < v.NConns
	case QFinish, QCancel:
		return v.Blocked[a.C]
	case QTClose:
		return !v.Closed
	}
	return false
}

var mu sync.Mutex

// Wedged: the transport's mutex was held for more than 3 s during the last Run (set under mu).
var Wedged bool

const wait = 3 * time.Second

func code(err error) int {
	switch {
	case err == nil:
		return 0
	case errors.Is(err, transport.ErrClosedTransport):
		return 1
	case errors.Is(err, transport.ErrNewConnCannotReserveQueryExchanger):
		return 2
	case errors.Is(err, errFin):
		return 3
	case errors.Is(err, context.Canceled):
		return 4
	}
	return 9
}

func Run(next func(v *View) *Action) ([]Action, []Obs) {
	mu.Lock()
	defer mu.Unlock()
	Wedged = false
	w := &world{mode: map[int]int{}, cur: map[int64]*Att{}, landed: make(chan int, 64), fin: map[int]chan bool{}, late: map[int]bool{}, created: map[int64]map[int]bool{}}
	calls := map[int64]int{} // goroutine -> call
	var cmu sync.Mutex
	rets := make(chan Ret, 64)
	// connections are numbered at creation (hook pipeline.conn.created, on the caller's goroutine, under
	// the transport's mutex), the dial function hands out the dummy of the connection being created
	pending := make(chan *dconn, 64)
	t := transport.NewPipelineTransport(transport.PipelineOpts{
		DialContext: func(ctx context.Context) (transport.DnsConn, error) {
			return <-pending, nil
		},
	})
	verifhook.Set(func(name string) {
		g := gid()
		switch name {
		case "pipeline.attempt":
			cmu.Lock()
			c, ok := calls[g]
			cmu.Unlock()
			if !ok {
				return
			}
			a := &Att{Call: c}
			w.mu.Lock()
			w.cur[g] = a
			w.created[g] = map[int]bool{}
			w.atts = append(w.atts, a)
			w.mu.Unlock()
		case "pipeline.conn.created":
			w.mu.Lock()
			id := w.nconns
			w.nconns++
			w.mode[id] = RAdmit
			if a := w.cur[g]; a != nil {
				a.Created = true
				w.created[g][id] = true
			}
			w.mu.Unlock()
			pending <- &dconn{id: id, w: w}
		}
	})
	defer verifhook.Set(nil)

	started, blocked := map[int]bool{}, map[int]bool{}
	cancels := map[int]context.CancelFunc{}
	closed := false
	var script []Action
	var obs []Obs
	settle := func(o *Obs, expect map[int]bool) {
		// every expected call either lands on a connection or returns
		deadline := time.After(wait)
		for len(expect) > 0 {
			select {
			case c := <-w.landed:
				blocked[c] = true
				delete(expect, c)
			case r := <-rets:
				o.Rets = append(o.Rets, r)
				delete(blocked, r.C)
				delete(expect, r.C)
			case <-deadline:
				expect = map[int]bool{}
			}
		}
		for {
			select {
			case c := <-w.landed:
				blocked[c] = true
			case r := <-rets:
				o.Rets = append(o.Rets, r)
				delete(blocked, r.C)
			case <-time.After(300 * time.Microsecond):
				w.mu.Lock()
				for _, a := range w.atts {
					o.Atts = append(o.Atts, *a)
				}
				w.atts = nil
				w.mu.Unlock()
				sort.SliceStable(o.Atts, func(i, j int) bool { return o.Atts[i].Call < o.Atts[j].Call })
				sort.Slice(o.Rets, func(i, j int) bool { return o.Rets[i].C < o.Rets[j].C })
				pc := make(chan int, 1)
				go func() { pc <- t.VerifConnCount() }()
				select {
				case o.Pool = <-pc:
				case <-time.After(wait):
					// the transport's mutex is not coming back (a caller is stuck inside getReservedExchanger)
					o.Pool = 99999
					Wedged = true
				}
				w.mu.Lock()
				o.Leaked = w.issued - w.used
				w.mu.Unlock()
				return
			}
		}
	}
	for {
		w.mu.Lock()
		v := &View{Started: started, Blocked: blocked, NConns: w.nconns, Closed: closed, Steps: len(script)}
		w.mu.Unlock()
		ap := next(v)
		if ap == nil {
			break
		}
		a := *ap
		if !v.Applicable(a) {
			continue
		}
		script = append(script, a)
		o := Obs{}
		expect := map[int]bool{}
		switch a.K {
		case QStart:
			started[a.C] = true
			q := new(dns.Msg)
			q.SetQuestion(fmt.Sprintf("q%d.", a.C), dns.TypeA)
			qb, _ := q.Pack()
			ready := make(chan struct{})
			c := a.C
			ctx, cancel := context.WithCancel(context.Background())
			cancels[c] = cancel
			go func() {
				g := gid()
				cmu.Lock()
				calls[g] = c
				cmu.Unlock()
				close(ready)
				r, err := t.ExchangeContext(ctx, qb)
				if r != nil {
					pool.ReleaseBuf(r)
				}
				w.mu.Lock()
				w.cur[g] = nil
				w.mu.Unlock()
				cmu.Lock()
				delete(calls, g)
				cmu.Unlock()
				rets <- Ret{c, code(err)}
			}()
			<-ready
			expect[a.C] = true
		case QSet:
			w.mu.Lock()
			w.mode[a.N] = a.R
			w.mu.Unlock()
		case QFinish:
			w.mu.Lock()
			ch := w.fin[a.C]
			if a.Late {
				w.late[a.C] = true
			}
			w.mu.Unlock()
			delete(blocked, a.C)
			if a.Late {
				cancels[a.C]() // the caller's context ends; the connection hands the reply up all the same
			}
			ch <- a.Ok
			expect[a.C] = true
		case QCancel:
			delete(blocked, a.C)
			cancels[a.C]()
			expect[a.C] = true
		case QTClose:
			t.Close()
			closed = true
		}
		settle(&o, expect)
		obs = append(obs, o)
		if Wedged {
			break
		}
	}
	if Wedged {
		// nothing can be cleaned up through the transport any more; let the blocked exchanges go
		for _, cf := range cancels {
			cf()
		}
		return script, obs
	}
	// clean up: let every blocked exchange end
	t.Close()
	for _, cf := range cancels {
		cf()
	}
	w.mu.Lock()
	for _, ch := range w.fin {
		select {
		case ch <- false:
		default:
		}
	}
	w.mu.Unlock()
	deadline := time.After(wait)
	for n := len(blocked); n > 0; {
		select {
		case <-rets:
			n--
		case <-w.landed:
		case <-deadline:
			n = 0
		}
	}
	return script, obs
}

func CaseCoq(script []Action, obs []Obs) string {
	it := make([]string, len(script))
	for i := range script {
		it[i] = hx.Tuple(script[i].Coq(), obs[i].Coq())
	}
	return hx.App("CPool", hx.List(it))
}

func RunScript(as []Action) ([]Action, []Obs) {
	i := 0
	return Run(func(v *View) *Action {
		for i < len(as) {
			a := as[i]
			i++
			if v.Applicable(a) {
				return &a
			}
		}
		return nil
	})
}

func Catalogue() map[string][]Action {
	st := func(c int) Action { return Action{K: QStart, C: c} }
	set := func(n, r int) Action { return Action{K: QSet, N: n, R: r} }
	fin := func(c int, ok bool) Action { return Action{K: QFinish, C: c, Ok: ok} }
	tc := Action{K: QTClose}
	can := func(c int) Action { return Action{K: QCancel, C: c} }
	many := func(n int) []Action {
		// n connections, all full: the scan gives up after more than 16 refusals and dials
		var as []Action
		for i := 0; i < n; i++ {
			as = append(as, st(i), set(i, RFull))
		}
		return append(as, st(n), st(n+1), set(3, RAdmit), st(n+2))
	}
	return map[string][]Action{
		"reply-just-before-the-context-ends": {st(0), Action{K: QFinish, C: 0, Ok: true, Late: true}, st(1), st(2), Action{K: QFinish, C: 2, Ok: true, Late: true}, fin(1, true)},
		"reuse-while-admitting":       {st(0), st(1), st(2), fin(0, true), fin(1, true), fin(2, true), st(3)},
		"full-opens-another":          {st(0), set(0, RFull), st(1), st(2), set(0, RAdmit), set(1, RFull), st(3), fin(0, true)},
		"closed-is-dropped":           {st(0), st(1), set(0, RClosed), st(2), fin(2, true), st(3), set(1, RClosed), st(4)},
		"reused-fails-retried":        {st(0), fin(0, true), st(1), fin(1, false), fin(1, true)},
		"reused-fails-three-times":    {st(0), fin(0, true), st(1), fin(1, false), fin(1, false), fin(1, false), st(2), fin(2, true)},
		"new-fails-reported":          {st(0), fin(0, false), st(1), fin(1, true)},
		"retry-lands-on-new":          {st(0), fin(0, true), st(1), set(0, RClosed), fin(1, false), fin(1, false)},
		"close-then-calls-fail":       {st(0), st(1), tc, st(2), fin(0, false), fin(1, true), st(3)},
		"cancel-on-reused-no-leak":    {st(0), fin(0, true), st(1), can(1), st(2), fin(2, true), st(3), can(3), st(4)},
		"cancel-on-new-no-leak":       {st(0), can(0), st(1), can(1), st(2), fin(2, true)},
		"scan-bound-17-full":          many(18),
		"scan-bound-20-full":          many(20),
		"mixed-full-closed-admitting": {st(0), st(1), st(2), set(0, RFull), set(1, RClosed), st(3), set(2, RFull), st(4), set(0, RAdmit), st(5), fin(3, false)},
	}
}

func RandomNext(r *hx.RNG, maxSteps int) func(v *View) *Action {
	nextCall := 0
	return func(v *View) *Action {
		if v.Steps >= maxSteps {
			return nil
		}
		for try := 0; try < 60; try++ {
			var a Action
			switch k := r.Intn(100); {
			case k < 38:
				a = Action{K: QStart, C: nextCall}
			case k < 68:
				a = Action{K: QSet, N: r.Intn(v.NConns + 1), R: hx.Pick(r, []int{RAdmit, RAdmit, RFull, RFull, RClosed})}
			case k < 88:
				a = Action{K: QFinish, C: r.Intn(nextCall + 1), Ok: r.Chance(1, 2)}
				a.Late = a.Ok && r.Chance(1, 4)
			case k < 97:
				a = Action{K: QCancel, C: r.Intn(nextCall + 1)}
			default:
				a = Action{K: QTClose}
			}
			if v.Applicable(a) {
				if a.K == QStart {
					nextCall++
				}
				return &a
			}
		}
		return nil
	}
}

func Drive(w *hx.Writer, o *hx.Opts, wrap func(string) string) {
	emit := func(id string, script []Action, obs []Obs) {
		acts := make([]string, len(script))
		for i, a := range script {
			acts[i] = a.String()
		}
		if Wedged {
			w.Violation(id, "PipelineTransport stopped responding: its mutex is held for ever by a call stuck inside getReservedExchanger (no exchange on it can start or finish)",
				map[string]any{"actions": acts})
			return
		}
		w.Emit("pool-script", hx.Case{ID: id, Coq: wrap(CaseCoq(script, obs)), Desc: map[string]any{"actions": acts}})
		w.Tally("pool-actions", len(script))
	}
	cat := Catalogue()
	names := make([]string, 0, len(cat))
	for n := range cat {
		names = append(names, n)
	}
	sort.Strings(names)
	for _, n := range names {
		id := "pool:cat:" + n
		if !o.Want(id) {
			continue
		}
		s, obs := RunScript(cat[n])
		emit(id, s, obs)
	}
	n := o.Count(150, 4000)
	for i := 0; i < n; i++ {
		id := fmt.Sprintf("pool:gen:%d", i)
		if !o.Want(id) {
			continue
		}
		r := hx.NewRNG(o.Seed, id)
		s, obs := Run(RandomNext(r, r.Range(6, 40)))
		emit(id, s, obs)
	}
}
