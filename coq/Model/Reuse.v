(** pkg/upstream/transport/reuse.go — the non-pipelined transport
    (ReuseConnTransport + reusableConn) as a labelled transition system: a
    pool of connections each carrying ONE query at a time, the dial
    goroutines, the per-connection readers and the retry loop of
    ExchangeContext. One label per shared-state access. Executable model
    only; proofs in Proofs/Reuse.v. Serves C01, C02, C08, C09, C07
    (non-pipelined TCP/DoT part). *)
From Verif Require Import Base.Prelude Gen.Constants Gen.RetryFacts.
From Verif Require Export Base.Count.
Open Scope N_scope.

Inductive xerr := XClosedT | XCtx | XWrite | XRead | XUnexpected | XDial.

(** A reply frame: payload tag and (ghost) the call whose query the server answered. *)
Record xreply := mkXR { xtag : N; xfor : option nat }.

Inductive xres := XOk (r : xreply) | XErr (e : xerr).

Record xconn := mkXC {
  xexists : bool;
  xclosed : bool;
  xcerr : xerr;
  xwaiting : option (nat * N);   (* waitingResp: the (call, attempt) whose channel is installed *)
  xrdead : bool;                 (* reader goroutine has exited *)
  xhold : option xreply;         (* reader: frame read, not yet dispatched *)
  xout : N                       (* ghost: queries written minus frames dispatched to a waiter *)
}.
Definition xconn0 := mkXC false false XRead None false None 0.

Inductive xdial := DNone | DPending | DDone (r : option nat) (e : xerr) | DTaken.

Inductive xpc :=
| U0                 (* not started *)
| ULoop              (* top of the retry loop: getIdleConn is next *)
| UDialWait          (* inside getNewConn's select *)
| UHave              (* holds a connection, exchange not begun *)
| UInstalled         (* waitingResp installed *)
| UWriting
| UWaiting
| UExiting (e : xerr)
| UFailed (e : xerr) (* the exchange returned an error: the retry decision is next *)
| UDone.

Record xcall := mkXCall {
  upc : xpc;
  uconn : nat;
  unew : bool;
  uretry : N;
  uatt : N;                 (* attempt number: identifies the reply channel *)
  ubuf : option xreply;
  uctx : bool;
  ures : option xres;
  ugot : option xreply;     (* ghost: first reply handed to the current attempt *)
  udial : xdial;
  upasses : N               (* ghost: exchanges begun *)
}.
Definition xcall0 := mkXCall U0 0 false 0 0 None false None None DNone 0.

Record xst := mkXS {
  tclosed : bool;
  nconns : nat;                 (* connections ever created *)
  cset : list nat;              (* t.conns *)
  idle : list nat;              (* t.idleConns *)
  conns : nat -> xconn;
  xcalls : nat -> xcall
}.
Definition xinit : xst := mkXS false 0 [] [] (fun _ => xconn0) (fun _ => xcall0).

Definition max_retry_reuse : N := reuse_max_retry.
Definition may_retry_reuse (k : xcall) : bool :=
  negb (unew k) && (if reuse_retry_strict then uretry k <? max_retry_reuse else uretry k <=? max_retry_reuse).

Inductive xsel := XSelReply | XSelClose | XSelCtx.

Inductive xlabel :=
| MBegin (c : nat)
| MGetIdle (c : nat) (pick : option nat)
| MDialDone (c : nat) (ok : bool)
| MDialRecv (c : nat)
| MDialAbandon (c : nat)
| MDialOrphan (c : nat)
| MInstall (c : nat)
| MWriteBegin (c : nat)
| MWriteEnd (c : nat) (ok : bool)
| MSelect (c : nat) (k : xsel)
| MTake (c : nat)
| MAfter (c : nat)
| MCtx (c : nat)
| MRecv (n : nat) (r : xreply)
| MDispatch (n : nat)
| MRecvErr (n : nat)
| MTClose.

Definition xpc_eqb (a b : xpc) : bool :=
  match a, b with
  | U0, U0 | ULoop, ULoop | UDialWait, UDialWait | UHave, UHave | UInstalled, UInstalled
  | UWriting, UWriting | UWaiting, UWaiting | UDone, UDone => true
  | _, _ => false
  end.

Definition set_xcall (s : xst) (c : nat) (v : xcall) : xst :=
  mkXS (tclosed s) (nconns s) (cset s) (idle s) (conns s) (gupd (xcalls s) c v).
Definition set_xconn (s : xst) (n : nat) (v : xconn) : xst :=
  mkXS (tclosed s) (nconns s) (cset s) (idle s) (gupd (conns s) n v) (xcalls s).

Definition with_upc (k : xcall) (p : xpc) : xcall :=
  mkXCall p (uconn k) (unew k) (uretry k) (uatt k) (ubuf k) (uctx k) (ures k) (ugot k) (udial k) (upasses k).
Definition ret (k : xcall) (r : xres) : xcall :=
  mkXCall UDone (uconn k) (unew k) (uretry k) (uatt k) None (uctx k) (Some r) (ugot k) (udial k) (upasses k).

(** reusableConn.closeWithErr: leave both sets, mark closed (once). *)
Definition close_conn (s : xst) (n : nat) (e : xerr) : xst :=
  let k := conns s n in
  if xclosed k then s
  else mkXS (tclosed s) (nconns s) (gremove n (cset s)) (gremove n (idle s))
            (gupd (conns s) n (mkXC (xexists k) true e (xwaiting k) (xrdead k) (xhold k) (xout k))) (xcalls s).

(** ReuseConnTransport.setIdle *)
Definition set_idle (s : xst) (n : nat) : xst :=
  if tclosed s then s
  else if gmem n (cset s) then
    (if gmem n (idle s) then s else mkXS (tclosed s) (nconns s) (cset s) (n :: idle s) (conns s) (xcalls s))
  else s.

(** Close every tracked connection (Close of the transport). *)
Fixpoint close_all (f : nat -> xconn) (l : list nat) : nat -> xconn :=
  match l with
  | [] => f
  | n :: t =>
    let k := f n in
    close_all (if xclosed k then f
               else gupd f n (mkXC (xexists k) true XClosedT (xwaiting k) (xrdead k) (xhold k) (xout k))) t
  end.

Definition in_attempt (p : xpc) : bool :=
  match p with UInstalled | UWriting | UWaiting | UExiting _ => true | _ => false end.

Definition xstep (s : xst) (l : xlabel) : option xst :=
  match l with
  | MBegin c =>
    let k := xcalls s c in
    if xpc_eqb (upc k) U0 then Some (set_xcall s c (with_upc k ULoop)) else None
  | MGetIdle c pick =>
    let k := xcalls s c in
    if xpc_eqb (upc k) ULoop then
      if tclosed s then Some (set_xcall s c (ret k (XErr XClosedT)))
      else
        match pick with
        | Some n =>
          if gmem n (idle s) then
            Some (mkXS (tclosed s) (nconns s) (cset s) (gremove n (idle s)) (conns s)
                       (gupd (xcalls s) c (mkXCall UHave n false (uretry k) (uatt k + 1) None (uctx k) None None (udial k) (upasses k))))
          else None
        | None =>
          match idle s with
          | [] => Some (set_xcall s c (mkXCall UDialWait (uconn k) true (uretry k) (uatt k + 1) None (uctx k) None None DPending (upasses k)))
          | _ => None
          end
        end
    else None
  | MDialDone c ok =>
    let k := xcalls s c in
    match udial k with
    | DPending =>
      if ok then
        if tclosed s then
          (* newReusableConn refuses: the fresh socket is closed at once *)
          Some (set_xcall s c (mkXCall (upc k) (uconn k) (unew k) (uretry k) (uatt k) (ubuf k) (uctx k) (ures k) (ugot k)
                                       (DDone None XClosedT) (upasses k)))
        else
          let n := nconns s in
          Some (mkXS (tclosed s) (S n) (n :: cset s) (idle s)
                     (gupd (conns s) n (mkXC true false XRead None false None 0))
                     (gupd (xcalls s) c (mkXCall (upc k) (uconn k) (unew k) (uretry k) (uatt k) (ubuf k) (uctx k) (ures k) (ugot k)
                                                 (DDone (Some n) XDial) (upasses k))))
      else
        Some (set_xcall s c (mkXCall (upc k) (uconn k) (unew k) (uretry k) (uatt k) (ubuf k) (uctx k) (ures k) (ugot k)
                                     (DDone None XDial) (upasses k)))
    | _ => None
    end
  | MDialRecv c =>
    let k := xcalls s c in
    if xpc_eqb (upc k) UDialWait then
      match udial k with
      | DDone (Some n) _ =>
        Some (set_xcall s c (mkXCall UHave n true (uretry k) (uatt k) None (uctx k) None None DTaken (upasses k)))
      | DDone None e =>
        Some (set_xcall s c (mkXCall UDone (uconn k) (unew k) (uretry k) (uatt k) None (uctx k) (Some (XErr e)) None DTaken (upasses k)))
      | _ => None
      end
    else None
  | MDialAbandon c =>
    let k := xcalls s c in
    if xpc_eqb (upc k) UDialWait && (uctx k || tclosed s) then
      Some (set_xcall s c (mkXCall UDone (uconn k) (unew k) (uretry k) (uatt k) None (uctx k)
                                   (Some (XErr (if uctx k then XCtx else XClosedT))) None (udial k) (upasses k)))
    else None
  | MDialOrphan c =>
    (* the dial finished after its caller left: a connection goes to the idle pool *)
    let k := xcalls s c in
    match upc k, udial k with
    | UDone, DDone r e =>
      let s1 := set_xcall s c (mkXCall (upc k) (uconn k) (unew k) (uretry k) (uatt k) (ubuf k) (uctx k) (ures k) (ugot k) DTaken (upasses k)) in
      Some (match r with Some n => set_idle s1 n | None => s1 end)
    | _, _ => None
    end
  | MInstall c =>
    let k := xcalls s c in
    if xpc_eqb (upc k) UHave then
      let n := uconn k in
      let q := conns s n in
      match (if xexists q then xwaiting q else Some (c, 0)) with
      | Some _ => None    (* "bug: reusableConn: concurrent exchange calls" (or no such connection): the step is not enabled *)
      | None =>
        Some (mkXS (tclosed s) (nconns s) (cset s) (idle s)
                   (gupd (conns s) n (mkXC (xexists q) (xclosed q) (xcerr q) (Some (c, uatt k)) (xrdead q) (xhold q) (xout q)))
                   (gupd (xcalls s) c (mkXCall UInstalled n (unew k) (uretry k) (uatt k) None (uctx k) None None (udial k) (upasses k + 1))))
      end
    else None
  | MWriteBegin c =>
    let k := xcalls s c in
    if xpc_eqb (upc k) UInstalled && xexists (conns s (uconn k)) then
      let n := uconn k in
      let q := conns s n in
      Some (mkXS (tclosed s) (nconns s) (cset s) (idle s)
                 (gupd (conns s) n (mkXC (xexists q) (xclosed q) (xcerr q) (xwaiting q) (xrdead q) (xhold q) (xout q + 1)))
                 (gupd (xcalls s) c (with_upc k UWriting)))
    else None
  | MWriteEnd c ok =>
    let k := xcalls s c in
    if xpc_eqb (upc k) UWriting then
      if ok then Some (set_xcall s c (with_upc k UWaiting))
      else let s1 := close_conn s (uconn k) XWrite in Some (set_xcall s1 c (with_upc k (UExiting XWrite)))
    else None
  | MSelect c sl =>
    let k := xcalls s c in
    if xpc_eqb (upc k) UWaiting then
      match sl with
      | XSelReply => match ubuf k with Some r => Some (set_xcall s c (ret k (XOk r))) | None => None end
      | XSelClose =>
        let q := conns s (uconn k) in
        if xclosed q then Some (set_xcall s c (with_upc k (UExiting (xcerr q)))) else None
      | XSelCtx => if uctx k then Some (set_xcall s c (with_upc k (UExiting XCtx))) else None
      end
    else None
  | MTake c =>
    let k := xcalls s c in
    match upc k with
    | UExiting e =>
      match ubuf k with
      | Some r => Some (set_xcall s c (ret k (XOk r)))
      | None => Some (set_xcall s c (with_upc k (UFailed e)))
      end
    | _ => None
    end
  | MAfter c =>
    let k := xcalls s c in
    match upc k with
    | UFailed e =>
      if may_retry_reuse k then
        Some (set_xcall s c (mkXCall ULoop (uconn k) (unew k) (uretry k + 1) (uatt k) None (uctx k) None None (udial k) (upasses k)))
      else Some (set_xcall s c (ret k (XErr e)))
    | _ => None
    end
  | MCtx c =>
    let k := xcalls s c in
    Some (set_xcall s c (mkXCall (upc k) (uconn k) (unew k) (uretry k) (uatt k) (ubuf k) true (ures k) (ugot k) (udial k) (upasses k)))
  | MRecv n r =>
    let q := conns s n in
    if xexists q && negb (xrdead q) then
      match xhold q with
      | None => Some (set_xconn s n (mkXC (xexists q) (xclosed q) (xcerr q) (xwaiting q) (xrdead q) (Some r) (xout q)))
      | Some _ => None
      end
    else None
  | MDispatch n =>
    let q := conns s n in
    match (if xexists q then xhold q else None) with
    | Some r =>
      match xwaiting q with
      | None =>
        (* unexpected response: close, reader exits *)
        let s1 := set_xconn s n (mkXC (xexists q) (xclosed q) (xcerr q) None true None (xout q)) in
        Some (close_conn s1 n XUnexpected)
      | Some (c, att) =>
        let s1 := set_xconn s n (mkXC (xexists q) (xclosed q) (xcerr q) None (xrdead q) None (xout q - 1)) in
        let s2 := set_idle s1 n in
        let k := xcalls s2 c in
        if (uatt k =? att) && in_attempt (upc k) && Nat.eqb (uconn k) n then
          Some (set_xcall s2 c (mkXCall (upc k) (uconn k) (unew k) (uretry k) (uatt k) (Some r) (uctx k) (ures k)
                                        (Some r) (udial k) (upasses k)))
        else Some s2   (* the exchange that installed this channel has returned: the reply goes nowhere *)
      end
    | None => None
    end
  | MRecvErr n =>
    let q := conns s n in
    if xexists q && negb (xrdead q) then
      match xhold q with
      | None =>
        let s1 := set_xconn s n (mkXC (xexists q) (xclosed q) (xcerr q) (xwaiting q) true None (xout q)) in
        Some (close_conn s1 n XRead)
      | Some _ => None
      end
    else None
  | MTClose =>
    if tclosed s then Some s
    else Some (mkXS true (nconns s) [] [] (close_all (conns s) (cset s)) (xcalls s))
  end.

Fixpoint xrun (s : xst) (ls : list xlabel) : option xst :=
  match ls with
  | [] => Some s
  | l :: t => match xstep s l with Some s' => xrun s' t | None => None end
  end.

(** The property's assumption about the peer of a non-pipelined connection:
    it sends one reply per query, in order. Checked where it matters, at the
    reader's dispatch: when a frame is handed to the installed waiter, it is
    the server's answer to that waiter's query, and that query has been
    written ([xout] >= 1). A frame that finds no waiter is a surplus reply
    (the code closes the connection). *)
Definition xenv_step (s : xst) (l : xlabel) : Prop :=
  match l with
  | MDispatch n =>
    match xhold (conns s n), xwaiting (conns s n) with
    | Some r, Some (c, _) => xfor r = Some c /\ 1 <= xout (conns s n)
    | _, _ => True
    end
  | _ => True
  end.

Fixpoint xenv (s : xst) (ls : list xlabel) : Prop :=
  match ls with
  | [] => True
  | l :: t => xenv_step s l /\ match xstep s l with Some s' => xenv s' t | None => True end
  end.
