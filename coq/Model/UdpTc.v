(** C17 — truncated UDP replies are retried over TCP, as implemented by
    pkg/upstream/utils.go (msgTruncated),
    pkg/upstream/upstream.go (udpWithFallback.ExchangeContext, NewUpstream "udp"),
    and the parts of the two transports the fallback is built from:
    pkg/upstream/transport/utils.go (readMsgUdp),
    pkg/upstream/transport/conn_traditional.go (writeQuery / readLoop / exchange: id rewrite),
    pkg/upstream/transport/reuse.go (ReuseConnTransport.ExchangeContext, used sequentially).

    Executable model only; the proofs are in Proofs/UdpTc.v. *)
From Verif Require Import Base.Prelude Gen.Constants.
From Verif Require Model.Addr.   (* only for [udp_upstream_dials] *)
From Verif Require Model.Retry.  (* only for [reuse_stale] at the end *)
Open Scope N_scope.

(** * The DNS header (RFC 1035 4.1.1) *)

Record header := mkHeader {
  h_id : N;
  h_qr : bool; h_opcode : N; h_aa : bool; h_tc : bool; h_rd : bool;
  h_ra : bool; h_z : bool; h_ad : bool; h_cd : bool; h_rcode : N;
  h_qd : N; h_an : N; h_ns : N; h_ar : N
}.

Definition b2n (b : bool) : N := if b then 1 else 0.
Definition be16 (x : N) : bytes := [x / 256; x mod 256].

(** byte 2: QR(1) OPCODE(4) AA TC RD;  byte 3: RA Z AD CD RCODE(4) *)
Definition flags_hi (h : header) : N :=
  128 * b2n (h_qr h) + 8 * h_opcode h + 4 * b2n (h_aa h) + 2 * b2n (h_tc h) + b2n (h_rd h).
Definition flags_lo (h : header) : N :=
  128 * b2n (h_ra h) + 64 * b2n (h_z h) + 32 * b2n (h_ad h) + 16 * b2n (h_cd h) + h_rcode h.

Definition encode_header (h : header) : bytes :=
  be16 (h_id h) ++ [flags_hi h; flags_lo h]
  ++ be16 (h_qd h) ++ be16 (h_an h) ++ be16 (h_ns h) ++ be16 (h_ar h).

(** all fields in range: then [encode_header] is 12 bytes, each below 256 *)
Definition wf_headerb (h : header) : bool :=
  (h_id h <? 65536) && (h_opcode h <? 16) && (h_rcode h <? 16)
  && (h_qd h <? 65536) && (h_an h <? 65536) && (h_ns h <? 65536) && (h_ar h <? 65536).

(** The header whose flag bytes are [b2], [b3] (every pair of bytes is the
    encoding of exactly one header, see Proofs). *)
Definition header_of_flags (id b2 b3 qd an ns ar : N) : header :=
  mkHeader id
    (N.testbit b2 7) ((b2 / 8) mod 16) (N.testbit b2 2) (N.testbit b2 1) (N.testbit b2 0)
    (N.testbit b3 7) (N.testbit b3 6) (N.testbit b3 5) (N.testbit b3 4) (b3 mod 16)
    qd an ns ar.

(** * msgTruncated

    [return b[2]&(1<<1) != 0].  No length check: a slice shorter than three
    bytes makes Go panic (index out of range) = [None]. *)
Definition msg_truncated (b : bytes) : option bool :=
  match nth_error b 2 with
  | None => None
  | Some x => Some (negb (N.land x (N.shiftl 1 1) =? 0))
  end.

(** * udpWithFallback.ExchangeContext

    [udp]: what the UDP transport returned; [tcp]: what the TCP transport
    would return for a given query (oracle).  Result, and the list of queries
    handed to the TCP transport (empty = TCP not used). *)
Inductive outcome := Reply (b : bytes) | Err (e : N).
Inductive result := RReply (b : bytes) | RErr (e : N) | RPanic.

Definition of_outcome (o : outcome) : result :=
  match o with Reply b => RReply b | Err e => RErr e end.

Definition udp_with_fallback (q : bytes) (udp : outcome) (tcp : bytes -> outcome)
  : result * list bytes :=
  match udp with
  | Err e => (RErr e, [])
  | Reply r =>
    match msg_truncated r with
    | None => (RPanic, [])
    | Some true => (of_outcome (tcp q), [q])
    | Some false => (RReply r, [])
    end
  end.

Definition tcp_used (tq : list bytes) : bool := match tq with [] => false | _ => true end.

(** * The UDP side (PipelineTransport over a TraditionalDnsConn without length header)

    The query goes out with the connection's own id [qid] in bytes 0-1
    (writeQuery); datagrams are read into a [udp_rx_buf] byte buffer, those
    shorter than the DNS header are ignored (readMsgUdp), those whose id is
    not waited for are dropped (readLoop); the reply gets the caller's id back
    (exchange).  [ds]: the datagrams that arrive before the caller gives up. *)
Definition udp_rx_buf : N := 4095.   (* pool.GetBuf(4095) in readMsgUdp *)

Definition get_id (b : bytes) : N := nth 0 b 0 * 256 + nth 1 b 0.
Definition put_id (id : N) (b : bytes) : bytes := be16 id ++ skipn 2 b.

Definition udp_wire_query (q : bytes) (qid : N) : bytes := put_id qid q.

Definition udp_rx (d : bytes) : bytes := firstn (N.to_nat udp_rx_buf) d.

Fixpoint udp_receive (qid : N) (ds : list bytes) : option bytes :=
  match ds with
  | [] => None
  | d :: t =>
    let p := udp_rx d in
    if len p <? tr_dns_header_len then udp_receive qid t
    else if get_id p =? qid then Some p
    else udp_receive qid t
  end.

Definition e_timeout : N := 1.  (* context deadline while waiting for the UDP reply *)
Definition e_refused : N := 2.  (* TCP dial failed *)
Definition e_closed : N := 3.   (* TCP connection died before a whole reply *)
Definition e_small : N := 4.    (* TCP frame of at most 12 bytes *)

Definition udp_exchange (q : bytes) (qid : N) (ds : list bytes) : outcome :=
  match udp_receive qid ds with
  | Some p => Reply (put_id (get_id q) p)
  | None => Err e_timeout
  end.

(** * The TCP side (ReuseConnTransport, one query at a time)

    What the server does with a query on a connection. *)
Inductive tcp_beh :=
| TAnswer (f : bytes -> bytes)       (* replies [f query], keeps the connection *)
| TAnswerClose (f : bytes -> bytes)  (* replies, then closes the connection *)
| TDieAfterQuery                     (* reads the query, closes *)
| TDieOnAccept                       (* closes a new connection at once; an open one after the query *)
| TPartial.                          (* announces a frame, sends half of it, closes *)

(** dnsutils.ReadRawMsgFromTCP on a whole frame around [r] *)
Definition tcp_read_reply (r : bytes) : outcome :=
  if len r <? min_frame_len then Err e_small else Reply r.

(** one attempt on one connection: outcome, connection reusable afterwards,
    queries the server read in full *)
Definition tcp_attempt (fresh : bool) (beh : tcp_beh) (q : bytes) : outcome * bool * list bytes :=
  match beh with
  | TAnswer f =>
    match tcp_read_reply (f q) with
    | Reply r => (Reply r, true, [q])
    | Err e => (Err e, false, [q])
    end
  | TAnswerClose f => (tcp_read_reply (f q), false, [q])
  | TDieAfterQuery => (Err e_closed, false, [q])
  | TDieOnAccept => (Err e_closed, false, if fresh then [] else [q])
  | TPartial => (Err e_closed, false, [q])
  end.

Record tcp_eff := mkEff { te_idle : bool; te_conns : N; te_seen : list bytes }.

(** ReuseConnTransport.ExchangeContext: an idle connection is tried first and,
    if the exchange fails on it, the query is retried on a new connection; an
    error on a new connection is final.  [listening]: the server accepts
    connections (otherwise the dial is refused). *)
Definition reuse_exchange (listening idle : bool) (beh : tcp_beh) (q : bytes) : outcome * tcp_eff :=
  if idle then
    match tcp_attempt false beh q with
    | (Reply r, idle', seen) => (Reply r, mkEff idle' 0 seen)
    | (Err e, _, seen) =>
      if listening then
        let '(o, idle', seen') := tcp_attempt true beh q in (o, mkEff idle' 1 (seen ++ seen'))
      else (Err e_refused, mkEff false 0 seen)
    end
  else if listening then
    let '(o, idle', seen) := tcp_attempt true beh q in (o, mkEff idle' 1 seen)
  else (Err e_refused, mkEff false 0 []).

(** * One upstream used for a sequence of queries

    [st_udp]: the datagrams the UDP server sends when it receives the wire
    query; [st_tcp]: what the TCP server does during this step. *)
Record step := mkStep { st_q : bytes; st_udp : bytes -> list bytes; st_tcp : tcp_beh }.
Record sess := mkSess { s_idle : bool; s_qid : N }.
Record step_obs := mkObs {
  o_wire : bytes;            (* datagram the UDP server received *)
  o_res : result;            (* what ExchangeContext returned *)
  o_tcp_seen : list bytes;   (* queries the TCP server read *)
  o_conns : N                (* TCP connections opened *)
}.

Definition session_step (listening : bool) (s : sess) (x : step) : sess * step_obs :=
  let q := st_q x in
  let wire := udp_wire_query q (s_qid s) in
  let u := udp_exchange q (s_qid s) (st_udp x wire) in
  let '(res, tq) :=
    udp_with_fallback q u (fun q' => fst (reuse_exchange listening (s_idle s) (st_tcp x) q')) in
  let eff := match tq with
             | [] => mkEff (s_idle s) 0 []
             | q' :: _ => snd (reuse_exchange listening (s_idle s) (st_tcp x) q')
             end in
  (mkSess (te_idle eff) ((s_qid s + 1) mod 65536),
   mkObs wire res (te_seen eff) (te_conns eff)).

Fixpoint run_session (listening : bool) (s : sess) (xs : list step) : list step_obs :=
  match xs with
  | [] => []
  | x :: t => let '(s', o) := session_step listening s x in o :: run_session listening s' t
  end.

Definition sess0 : sess := mkSess false 0.

(** * Where the two transports of the "udp" upstream connect (NewUpstream, case "", "udp")

    One string, [dialAddr = joinPort(host, port)] with [(host, port)] from
    [parseDialAddr(addrUrlHost, opt.DialAddr, 53)], is dialled by both closures:
    [dialUdpPipeline] ("udp") and [dialTcpNetConn] ("tcp").  The url parsing and
    [parseDialAddr] are the C18 model (Model/Addr.v); [None] = NewUpstream
    returns an error. *)
Record udp_dials := mkDials { d_udp : list N * N; d_tcp : list N * N }.

Definition udp_upstream_dials (addr dial_addr : list N) : option udp_dials :=
  match Addr.new_upstream Addr.ip_literal addr dial_addr false with
  | Some t =>
    match Addr.t_transport t with
    | Addr.TUdp =>
      let dial_addr := (Addr.t_host t, Addr.t_port t) in
      Some (mkDials dial_addr dial_addr)
    | _ => None
    end
  | None => None
  end.

(** * Time

    udpWithFallback passes the caller's [ctx] unchanged to both transports and
    has no timeout of its own: the only limits are the caller's deadline and,
    for the TCP exchange, the connection deadline [reuseConnQueryTimeout].
    Times in ms from the start of the call: the UDP outcome is known at
    [t_udp]; the TCP exchange, started then, takes [t_tcp]. *)
Definition tcp_query_timeout_ms : N := Z.to_N (reuse_conn_query_timeout / 1000000)%Z.

Definition with_deadline (deadline t : N) (o : outcome) : outcome :=
  if t <? deadline then o else Err e_timeout.

Definition udp_with_fallback_timed (q : bytes) (deadline t_udp : N) (udp : outcome)
                                   (t_tcp : N) (tcp : bytes -> outcome) : result * list bytes :=
  udp_with_fallback q (with_deadline deadline t_udp udp)
    (fun q' => if tcp_query_timeout_ms <=? t_tcp then Err e_closed
               else with_deadline deadline (t_udp + t_tcp) (tcp q')).

(** * TCP retries whose caller gives up (ReuseConnTransport, reusableConn.exchange)

    A connection carries one query at a time and replies are matched to
    queries by connection only.  Per connection: the replies the server still
    owes on it, oldest first.  A connection whose caller gave up (ctx.Done) is
    NOT handed back: it stays out of the idle pool until readLoop has read the
    owed reply (dropped into the abandoned channel), then it is idle again.  An
    exchange on an idle connection gets the first frame that arrives on it; a
    further frame with nobody waiting closes the connection. *)
Inductive rev :=
| EvExchange (q : bytes) (gives_up : bool)   (* a retry; its caller gives up before the reply, or waits *)
| EvLate.                                    (* the replies owed on abandoned connections arrive *)

Record rpool := mkPool { r_idle : list (list bytes); r_out : list (list bytes) }.

Definition rpool0 : rpool := mkPool [] [].

Definition rstep (f : bytes -> bytes) (s : rpool) (e : rev) : rpool * option bytes :=
  match e with
  | EvExchange q gu =>
    let '(owed, rest) := match r_idle s with [] => ([], []) | o :: t => (o, t) end in
    let stream := owed ++ [f q] in
    if gu then (mkPool rest (stream :: r_out s), None)
    else match stream with
         | [] => (mkPool rest (r_out s), None)
         | r :: [] => (mkPool ([] :: rest) (r_out s), Some r)
         | r :: _ => (mkPool rest (r_out s), Some r)   (* the next frame is unexpected: closed *)
         end
  | EvLate =>
    (mkPool (r_idle s ++ map (fun _ => []) (filter (fun st => (length st =? 1)%nat) (r_out s))) [], None)
  end.

(** replies handed to the callers, one entry per event *)
Fixpoint rrun (f : bytes -> bytes) (s : rpool) (es : list rev) : list (option bytes) :=
  match es with
  | [] => []
  | e :: t => let '(s', r) := rstep f s e in r :: rrun f s' t
  end.

(** * Several idle TCP connections that have gone stale

    The retry loop of ReuseConnTransport.ExchangeContext is the one of
    Model/Retry.v ([Retry.loop Retry.reuse_cfg]; condition and constant
    regenerated from reuse.go into Gen/RetryFacts.v, Gen/Constants.v).  Here:
    [k] idle connections on each of which the server reads the query and then
    closes, while a freshly dialled connection is answered with [f q]. *)
Definition stale_att : Retry.attempt := Retry.mkAtt false false false.

Definition stale_script (k : nat) (fresh : option bool) : list Retry.pass :=
  repeat (Retry.Exch stale_att) k ++
  match fresh with
  | None => [Retry.AcqFail]                          (* the dial is refused *)
  | Some ok => [Retry.Exch (Retry.mkAtt true ok false)]
  end.

Definition reuse_stale (k : nat) (f : bytes -> bytes) (q : bytes) : outcome * tcp_eff :=
  match Retry.loop Retry.reuse_cfg 0 (stale_script k (Some true)) with
  | (Retry.FOk, n) => (Reply (f q), mkEff true 1 (repeat q n))
  | (Retry.FErr, n) => (Err e_closed, mkEff false 0 (repeat q n))
  | (_, _) => (Err e_refused, mkEff false 0 [])
  end.

(** * Re-sent UDP queries (exchange(), the 1 s [resend] ticker)

    Every datagram of one exchange, the first and each re-send, is produced by
    [writeQuery(q, assignedQid)]: the same bytes under the same wire id. *)
Definition udp_sends (q : bytes) (qid : N) (n : nat) : list bytes :=
  repeat (udp_wire_query q qid) n.

(** * Idle TCP connections the server closed while they were idle

    The connection's reader sees EOF, [closeWithErr] deletes the connection
    from [t.conns] and [t.idleConns] (Model/Reuse.v: a connection the client
    saw die is in neither set, an idle connection is open).  Of [k] idle
    connections of which [d] died that way only [k - d] can still be handed
    out by getIdleConn. *)
Definition idle_after_noticed_deaths (k d : nat) : nat := (k - d)%nat.

Definition reuse_dead_idle (k : nat) (f : bytes -> bytes) (q : bytes) : outcome * tcp_eff :=
  reuse_stale (idle_after_noticed_deaths k k) f q.
