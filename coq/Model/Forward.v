(** C14 — the forward plugin's fan-out and collection,
    plugin/executable/forward/forward.go (exchange, QuickConfigureExec) and
    utils.go (copyPayload).

    Executable model only; the proofs are in Proofs/Forward.v.

    Go code being modelled (exchange):

      concurrent := f.args.Concurrent
      if concurrent <= 0 { concurrent = 1 }
      if concurrent > maxConcurrentQueries { concurrent = maxConcurrentQueries }
      resChan := make(chan res)            // unbuffered
      done := make(chan struct{}); defer close(done)
      r := rand.IntN(len(us))
      for i := 0; i < concurrent; i++ {
          u := us[(r+i)%len(us)]; qc := copyPayload(queryPayload)
          go func() { ... resp, err := u.ExchangeContext(5s ctx, *qc)
                      if err == nil { r = new(dns.Msg); err = r.Unpack(resp); if err != nil { r = nil } }
                      select { case resChan <- res{r, err}: case <-done: } }()
      }
      for i := 0; i < concurrent; i++ {
          select {
          case res := <-resChan:
              if res.err != nil { continue }
              if i < concurrent-1 && r.Rcode != Success && r.Rcode != NameError { continue }
              return r, nil
          case <-ctx.Done(): return nil, context.Cause(ctx)
          }
      }
      return nil, errors.New("all upstream servers failed") *)
From Verif Require Import Base.Prelude Gen.Constants.
Open Scope N_scope.

(** * Concurrency clamp *)
Definition clampZ (c : Z) : Z :=
  let c1 := if (c <=? 0)%Z then 1%Z else c in
  if (Z.of_N forward_max_concurrent <? c1)%Z then Z.of_N forward_max_concurrent else c1.
Definition clamp (c : Z) : nat := Z.to_nat (clampZ c).

(** * Target selection: positions (r+i) % n for i = 0 .. c-1 of a list of length n *)
Definition targets (r c n : nat) : list nat := map (fun i => ((r + i) mod n)%nat) (seq 0 c).

(** Every selected position is handed the packed query [q] (copyPayload:
    a private buffer with the same bytes). *)
Definition queries {Q : Type} (q : Q) (r c n : nat) : list (nat * Q) :=
  map (fun p => (p, q)) (targets r c n).

(** QuickConfigureExec: the effective upstream list of a tag selection, as
    positions into the configured list; [None] = no argument = all of them. *)
Definition effective (n : nat) (sub : option (list nat)) : list nat :=
  match sub with None => seq 0 n | Some l => l end.

(** * The context handed to an upstream:
    [context.WithTimeout(context.Background(), queryTimeout)] created by the helper
    goroutine. Time left (ns) on it at its creation, given the time left on the
    caller's context ([None] = the caller has no deadline): the caller's deadline
    plays no part. *)
Definition upstream_deadline (caller : option Z) : Z := forward_query_timeout.

(** * Worker: what one goroutine reports for what its upstream did *)
Inductive uout :=
| UMsg (rcode tag : N)   (* bytes that unpack to a message with this rcode; [tag] identifies it *)
| UFail                  (* ExchangeContext returned an error *)
| UGarbage               (* bytes that dns.Msg.Unpack rejects *)
| UTimeout.              (* nothing until the 5 s upstream context expires: ExchangeContext returns its error *)

(** What the collection loop can receive in one iteration. *)
Inductive arrival :=
| AReply (rcode tag : N)  (* res{r, nil} *)
| AErr                    (* res{nil, err} *)
| ACtx.                   (* the caller's ctx.Done() fired *)

Definition worker_result (o : uout) : arrival :=
  match o with
  | UMsg rc t => AReply rc t
  | UFail => AErr
  | UGarbage => AErr
  | UTimeout => AErr
  end.

(** * Collection loop *)
Inductive result :=
| RReply (rcode tag : N)
| RCtx          (* context.Cause(ctx) *)
| RAllFailed    (* "all upstream servers failed" *)
| RNoUpstream   (* "no upstream to exchange" *)
| RWaiting.     (* the call is still blocked in its select: nothing more has arrived *)

Definition rcode_success : N := 0.
Definition rcode_name_error : N := 3.

(** One iteration [i] of the loop on one arrival: [Some r] = return r, [None] = continue. *)
Definition body (c i : nat) (a : arrival) : option result :=
  match a with
  | ACtx => Some RCtx
  | AErr => None
  | AReply rc t =>
    if (i <? c - 1)%nat && negb (rc =? rcode_success) && negb (rc =? rcode_name_error)
    then None else Some (RReply rc t)
  end.

(** [for i := i; i < c; i++] over the arrivals in the order the select took them. *)
Fixpoint loop (c i : nat) (arr : list arrival) : result :=
  if (c <=? i)%nat then RAllFailed else
  match arr with
  | [] => RWaiting
  | a :: rest =>
    match body c i a with
    | Some r => r
    | None => loop c (S i) rest
    end
  end.

Definition collect (c : nat) (arr : list arrival) : result := loop c 0 arr.

(** exchange on an effective list of [n] upstreams with configured concurrency [c]. *)
Definition exchange (n : nat) (c : Z) (arr : list arrival) : result :=
  if (n =? 0)%nat then RNoUpstream else collect (clamp c) arr.

(** * The property's reading of the same thing, stated without the loop:
    the first decisive event (a NOERROR/NXDOMAIN reply or the context ending)
    among the first c arrivals, else the last of the c arrivals. *)
Definition good_rcode (rc : N) : bool := (rc =? 0) || (rc =? 3).
Definition decisive (a : arrival) : bool :=
  match a with AReply rc _ => good_rcode rc | AErr => false | ACtx => true end.
Definition outcome_of (a : arrival) : result :=
  match a with AReply rc t => RReply rc t | AErr => RAllFailed | ACtx => RCtx end.

Definition oracle (c : nat) (arr : list arrival) : result :=
  let w := firstn c arr in
  match find decisive w with
  | Some a => outcome_of a
  | None => if (length w <? c)%nat then RWaiting else outcome_of (last w AErr)
  end.

(** * Worker / collector protocol as a finite transition system.
    [with_done = true] is the code as written (workers select on the send and on
    [done]); [false] is the variant with a plain send, kept to show that the
    check below distinguishes them. *)
Local Open Scope nat_scope.
Inductive wst := WRun | WReady (a : arrival) | WEnd.
Inductive cst :=
| CWait (i : nat)       (* blocked in the select of iteration i *)
| CRet (r : result)     (* decided to return r; deferred close(done) not yet run *)
| CGone (r : result).   (* returned; done is closed *)

Record st := mkSt { col : cst; ctxd : bool; ws : list wst; hist : list arrival }.

(** what a worker can end up holding: good, NXDOMAIN, SERVFAIL, error *)
Definition outs : list arrival := [AReply 0 1; AReply 3 1; AReply 2 1; AErr].

Fixpoint set_nth {A} (k : nat) (x : A) (l : list A) : list A :=
  match l, k with
  | [], _ => []
  | _ :: t, O => x :: t
  | y :: t, S k' => y :: set_nth k' x t
  end.

Definition after_recv (c i : nat) (a : arrival) : cst :=
  match body c i a with
  | Some r => CRet r
  | None => if (c <=? S i)%nat then CRet RAllFailed else CWait (S i)
  end.

Definition worker_steps (with_done : bool) (c : nat) (s : st) (k : nat) : list st :=
  match nth k (ws s) WEnd with
  | WRun => map (fun a => mkSt (col s) (ctxd s) (set_nth k (WReady a) (ws s)) (hist s)) outs
  | WReady a =>
    match col s with
    | CWait i => [mkSt (after_recv c i a) (ctxd s) (set_nth k WEnd (ws s)) (hist s ++ [a])]
    | CRet _ => []
    | CGone _ => if with_done then [mkSt (col s) (ctxd s) (set_nth k WEnd (ws s)) (hist s)] else []
    end
  | WEnd => []
  end.

Definition step (with_done : bool) (c : nat) (s : st) : list st :=
  (if ctxd s then [] else [mkSt (col s) true (ws s) (hist s)])
  ++ match col s with
     | CWait i => if ctxd s then [mkSt (CRet RCtx) true (ws s) (hist s ++ [ACtx])] else []
     | CRet r => [mkSt (CGone r) (ctxd s) (ws s) (hist s)]
     | CGone _ => []
     end
  ++ flat_map (worker_steps with_done c s) (seq 0 (length (ws s))).

Definition init (c : nat) : st := mkSt (CWait 0) false (repeat WRun c) [].

(** every step consumes some of this; it bounds the length of every run *)
Definition wweight (w : wst) : nat := match w with WRun => 2 | WReady _ => 1 | WEnd => 0 end.
Definition cweight (x : cst) : nat := match x with CWait i => 5 - i | CRet _ => 1 | CGone _ => 0 end.
Definition measure (s : st) : nat :=
  (if ctxd s then 0 else 1) + cweight (col s) + fold_right (fun w n => wweight w + n) 0 (ws s).

(** ** decidable equality and breadth-first exploration *)
Definition arrival_eqb (a b : arrival) : bool :=
  match a, b with
  | AReply r t, AReply r' t' => N.eqb r r' && N.eqb t t'
  | AErr, AErr => true
  | ACtx, ACtx => true
  | _, _ => false
  end.
Definition result_eqb (a b : result) : bool :=
  match a, b with
  | RReply r t, RReply r' t' => N.eqb r r' && N.eqb t t'
  | RCtx, RCtx | RAllFailed, RAllFailed | RNoUpstream, RNoUpstream | RWaiting, RWaiting => true
  | _, _ => false
  end.
Definition wst_eqb (a b : wst) : bool :=
  match a, b with
  | WRun, WRun | WEnd, WEnd => true
  | WReady x, WReady y => arrival_eqb x y
  | _, _ => false
  end.
Definition cst_eqb (a b : cst) : bool :=
  match a, b with
  | CWait i, CWait j => (i =? j)%nat
  | CRet r, CRet r' => result_eqb r r'
  | CGone r, CGone r' => result_eqb r r'
  | _, _ => false
  end.
Definition st_eqb (a b : st) : bool :=
  cst_eqb (col a) (col b) && Bool.eqb (ctxd a) (ctxd b)
  && list_eqb wst_eqb (ws a) (ws b) && list_eqb arrival_eqb (hist a) (hist b).

(** The explored set is kept in [nbuckets] buckets indexed by a hash, so that
    membership does not scan the whole set. *)
Definition nbuckets : N := 509.
Definition arrival_code (a : arrival) : N :=
  match a with AReply r t => 3 + N.modulo r 16 | AErr => 1 | ACtx => 2 end.
Definition wst_code (w : wst) : N :=
  match w with WRun => 1 | WEnd => 2 | WReady a => 3 + arrival_code a end.
Definition cst_code (x : cst) : N :=
  match x with
  | CWait i => N.of_nat i
  | CRet r => 7 + (match r with RReply rc _ => 5 + N.modulo rc 16 | RCtx => 1 | RAllFailed => 2 | _ => 3 end)
  | CGone r => 37 + (match r with RReply rc _ => 5 + N.modulo rc 16 | RCtx => 1 | RAllFailed => 2 | _ => 3 end)
  end.
Definition mix (h x : N) : N := N.modulo (h * 31 + x) 1000003.
Definition hash (s : st) : nat :=
  let h := mix (cst_code (col s)) (if ctxd s then 1 else 0)%N in
  let h := fold_left (fun h w => mix h (wst_code w)) (ws s) h in
  let h := fold_left (fun h a => mix h (arrival_code a)) (hist s) h in
  N.to_nat (N.modulo h nbuckets).

Definition table := list (list st).
Definition empty_table : table := repeat [] (N.to_nat nbuckets).
Definition tmem (x : st) (T : table) : bool := existsb (st_eqb x) (nth (hash x) T []).
Definition tadd (x : st) (T : table) : table := set_nth (hash x) (x :: nth (hash x) T []) T.

Fixpoint add_new (xs : list st) (T : table) : list st * table :=
  (* (newly added, T') *)
  match xs with
  | [] => ([], T)
  | x :: t =>
    if tmem x T then add_new t T
    else let '(nw, T') := add_new t (tadd x T) in (x :: nw, T')
  end.

Fixpoint explore (stepf : st -> list st) (fuel : nat) (frontier : list st) (T : table) : table :=
  match fuel with
  | O => T
  | S f =>
    match frontier with
    | [] => T
    | _ => let '(nw, T') := add_new (flat_map stepf frontier) T in explore stepf f nw T'
    end
  end.

Definition reach_table (with_done : bool) (c : nat) : table :=
  explore (step with_done c) 20 [init c] (tadd (init c) empty_table).
Definition reach_set (with_done : bool) (c : nat) : list st := concat (reach_table with_done c).

Definition closed (stepf : st -> list st) (i : st) (T : table) : bool :=
  tmem i T && forallb (fun x => forallb (fun y => tmem y T) (stepf x)) (concat T).

(** ** what is checked on every reachable state *)
Definition ended (w : wst) : bool := match w with WEnd => true | _ => false end.
Definition live_workers (s : st) : nat := length (filter (fun w => negb (ended w)) (ws s)).

Definition inv (with_done : bool) (c : nat) (s : st) : bool :=
  (* the collector's decision is the fold over the receive order *)
  match col s with
  | CWait i => (i =? length (hist s))%nat && result_eqb (collect c (hist s)) RWaiting
               && (i <? c)%nat && (live_workers s =? c - i)%nat
  | CRet r | CGone r => result_eqb (collect c (hist s)) r
  end
  (* every step consumes measure *)
  && forallb (fun s' => (measure s' <? measure s)%nat) (step with_done c s)
  (* a state without successor is: collector gone, every worker ended *)
  && (match step with_done c s with
      | [] => forallb ended (ws s) && match col s with CGone _ => true | _ => false end
      | _ => true
      end).
