(** C03 / C15 — the built-in plugins, as query-context transformers that plug
    into the sequence interpreter of C06 (Model/Sequence.v: [machine]):

    plain executables ([exec_o])
      hosts             plugin/executable/hosts/hosts.go + pkg/hosts/hosts.go (LookupMsg)
      black_hole        plugin/executable/black_hole/black_hole.go
      arbitrary         plugin/executable/arbitrary/arbitrary.go + pkg/zone_file/zone_file.go (Reply)
      ttl               plugin/executable/ttl/ttl.go
      forward           plugin/executable/forward/forward.go (Exec); the network side is the
                        oracle [ups i : msg -> option msg] ([None] = every upstream failed)
      drop_resp         plugin/executable/drop_resp/drop_resp.go
    wrapping executables ([wrap_o], they receive the rest of the chain)
      cache             plugin/executable/cache/cache.go (Exec, doLazyUpdate) + utils.go
      redirect          plugin/executable/redirect/redirect.go
      ecs_handler       plugin/executable/ecs_handler/handler.go
      forward_edns0opt  plugin/executable/forward_edns0opt/forwarder.go
    built-in          reject (sequence/built_in.go ActionReject)
    matchers          has_resp, qtype, and arbitrary read-only oracles.

      dual_selector     plugin/executable/dual_selector/dual_selector.go (prefer_ipv4 / prefer_ipv6)
    and the plain executable that runs two sub-sequences
      fallback          plugin/executable/sequence/fallback/fallback.go

    dual_selector and fallback run (the rest of) the chain on COPIES of the
    context (Context.Copy: deep for everything a plugin may write, see
    [ctx_copy]) in other goroutines. Their timers are not modelled: the
    reference query of dual_selector is assumed to finish within its 500 ms
    grace period and fallback's threshold not to expire (the drivers configure
    60 s and reject slow runs), so which copy is adopted is a function of the
    sub-results. The sub-runs are sequenced (reference before original, primary
    before secondary); with plugins whose shared state is touched under
    different keys by the two runs this is one of the equivalent interleavings.

    The lazy cache refresh (a goroutine running the rest of the chain on a
    copy) is sequenced before the foreground continuation; when it is held up
    or fails, as the drivers arrange for overlapping hits, that is one of the
    equivalent orders.

    Executable model only; the proofs are in Proofs/Handler.v. *)
From Verif Require Import Base.Prelude Gen.Constants Model.Msg Model.Handler Model.Sequence.
From Verif Require Model.CacheKey.
Open Scope N_scope.

(** ** State kept between queries *)

Definition store := list (bytes * msg).     (* newest binding first *)

Record world := World {
  w_store : N -> store;          (* one store per cache instance *)
  w_log : list (N * msg);        (* (upstream, message) handed to an upstream, newest first *)
  w_next : N;                    (* allocation counter: object identities, clock reads *)
  w_pref : N -> list bytes;      (* per dual_selector: names known to have the preferred type *)
  w_stale : list (N * bytes);    (* (cache, key): the stored message has expired, the entry is retained (lazy cache) *)
  w_sf : bool                    (* a lazy update is in flight (singleflight): further ones are not started *)
}.

Definition state := (ctx * world)%type.

Definition bump (w : world) : world := World (w_store w) (w_log w) (w_next w + 1) (w_pref w) (w_stale w) (w_sf w).
Definition log_up (w : world) (u : N) (m : msg) : world :=
  World (w_store w) ((u, m) :: w_log w) (w_next w) (w_pref w) (w_stale w) (w_sf w).
Definition put_store (w : world) (inst : N) (st : store) : world :=
  World (fun i => if i =? inst then st else w_store w i) (w_log w) (w_next w) (w_pref w) (w_stale w) (w_sf w).
Definition add_pref (w : world) (inst : N) (name : bytes) : world :=
  World (w_store w) (w_log w) (w_next w) (fun i => if i =? inst then name :: w_pref w i else w_pref w i)
        (w_stale w) (w_sf w).
Definition clear_log (w : world) : world := World (w_store w) [] (w_next w) (w_pref w) (w_stale w) (w_sf w).
Definition same_entry (inst : N) (key : bytes) (p : N * bytes) : bool :=
  (fst p =? inst) && list_eqb N.eqb (snd p) key.
(** a fresh store under (inst, key): the entry is not stale any more *)
Definition unstale (w : world) (inst : N) (key : bytes) : world :=
  World (w_store w) (w_log w) (w_next w) (w_pref w)
        (filter (fun p => negb (same_entry inst key p)) (w_stale w)) (w_sf w).
(** time passes: every stored message expires, the entries are retained *)
Definition expire_all (w : world) (insts : list N) : world :=
  World (w_store w) (w_log w) (w_next w) (w_pref w)
        (flat_map (fun i => map (fun e => (i, fst e)) (w_store w i)) insts ++ w_stale w) (w_sf w).
Definition set_sf (w : world) (b : bool) : world :=
  World (w_store w) (w_log w) (w_next w) (w_pref w) (w_stale w) b.
Definition empty_world : world := World (fun _ => []) [] 1 (fun _ => []) [] false.

(** Context.Copy(): query, response and response OPT are deep copies (so
    writes to the copy never reach the original and vice versa), client OPT
    and upstream OPT are shared but read-only. In a functional model that is
    the identity, except that the copied response is a new object. *)
Definition ctx_copy (s : state) : state :=
  let (c, w) := s in
  (Ctx (c_query c) (c_client_opt c) (c_resp c) (w_next w) (c_resp_opt c) (c_upstream_opt c)
       (c_from_udp c) (c_client_addr c), bump w).

(** SetResponse with a freshly allocated message *)
Definition set_fresh (s : state) (m : msg) : state :=
  let (c, w) := s in (set_response c (w_next w) m, bump w).

Definition err_upstream : N := 1.    (* forward: all upstreams failed *)
Definition err_panic : N := 99.      (* QOpt()/QQuestion() would panic *)
Definition err_fallback : N := 2.    (* fallback.ErrFailed *)
Definition err_depth : N := 98.      (* the model's nesting bound for fallback sub-sequences was too small *)

(** ** Plain executables *)

Inductive xplugin :=
| XHosts (h : bytes -> list N * list N)     (* the domain matcher: name -> IPv4 tags, IPv6 tags *)
| XBlackHole (v4 v6 : list N)
| XArbitrary (z : question -> list rr)      (* Matcher.Search (lower-cases the name itself) *)
| XTtl (fix_ mn mx : N)
| XForward (u : N)
| XDropResp
| XFallback (primary secondary : rules) (standby : bool).

(** hosts.LookupMsg *)
Definition hosts_reply (h : bytes -> list N * list N) (m : msg) : option msg :=
  match m_question m with
  | [qu] =>
    let typ := qtype qu in
    let fqdn := qname qu in
    if negb (qclass qu =? class_inet) || negb ((typ =? type_a) || (typ =? type_aaaa)) then None
    else
      let (v4, v6) := h fqdn in
      if (length v4 + length v6 =? 0)%nat then None
      else
        let r := set_reply m in
        let ans :=
          if (typ =? type_a) && (0 <? length v4)%nat
          then map (fun ip => RR fqdn type_a class_inet 10 (RTag ip)) v4
          else if (typ =? type_aaaa) && (0 <? length v6)%nat
          then map (fun ip => RR fqdn type_aaaa class_inet 10 (RTag ip)) v6
          else [] in
        (* Append fake SOA record for empty reply. *)
        Some (match ans with
              | [] => with_ns r [fake_soa fqdn]
              | _ => with_answer r ans
              end)
  | _ => None
  end.

(** BlackHole.Response *)
Definition black_hole_reply (v4 v6 : list N) (q : msg) : option msg :=
  match m_question q with
  | [qu] =>
    let qn := qname qu in
    let typ := qtype qu in
    if (typ =? type_a) && (0 <? length v4)%nat
    then Some (with_answer (set_reply q) (map (fun ip => RR qn type_a class_inet 300 (RTag ip)) v4))
    else if (typ =? type_aaaa) && (0 <? length v6)%nat
    then Some (with_answer (set_reply q) (map (fun ip => RR qn type_aaaa class_inet 300 (RTag ip)) v6))
    else None
  | _ => None
  end.

(** zone_file.Matcher.Reply *)
Definition arbitrary_reply (z : question -> list rr) (q : msg) : option msg :=
  match flat_map z (m_question q) with
  | [] => None
  | rrs => Some (with_answer (set_reply q) rrs)
  end.

(** TTL.Exec on a response *)
Definition ttl_apply (fix_ mn mx : N) (r : msg) : msg :=
  if 0 <? fix_ then set_ttl fix_ r
  else
    let r := if 0 <? mn then apply_min_ttl mn r else r in
    if 0 <? mx then apply_max_ttl mx r else r.

Definition set_opt (s : state) (o : option msg) : state * option N :=
  match o with Some r => (set_fresh s r, None) | None => (s, None) end.

Inductive wplugin :=
| WCache (inst : N) (lazy : N)                (* lazy_cache_ttl, 0 = off *)
| WRedirect (f : bytes -> option bytes)      (* the domain matcher: name -> target *)
| WEcs (fwd send : bool) (preset : option addr) (mask4 mask6 : N)
| WFwdOpt (codes : list N)
| WDual (inst : N) (v6 : bool).              (* prefer_ipv6 / prefer_ipv4 *)

Inductive matcher :=
| MHasResp
| MQtype (l : list N)
| MOracle (f : state -> mres).

Section Plugins.
  Variable ups : N -> msg -> option msg.      (* upstream oracles *)
  Variable clock : N -> option N.             (* cache clock: Some d = entry is d seconds old, None = expired / evicted *)

  (** [runsub]: how a sub-sequence (fallback's primary / secondary) is executed *)

  (** fallback.doFallback: primary on a copy; the secondary runs when the
      primary failed (error or no response) or always when standing by; the
      response of the first of the two that has one is adopted with
      SetResponse, else ErrFailed. Nothing but the response comes back. *)
  Definition fallback_exec (runsub : rules -> state -> outcome state)
             (primary secondary : rules) (standby : bool) (s : state) : state * option N :=
    let (c, w) := s in
    let '(_, (cp, w1), errp) := runsub primary (ctx_copy (c, w)) in
    let rp := match errp with Some _ => None | None => match c_resp cp with Some r => Some (c_rid cp, r) | None => None end end in
    let run_sec := standby || match rp with Some _ => false | None => true end in
    let '(rs, w2) :=
      if run_sec then
        let '(_, (cs, w2), errs) := runsub secondary (ctx_copy (c, w1)) in
        (match errs with Some _ => None | None => match c_resp cs with Some r => Some (c_rid cs, r) | None => None end end, w2)
      else (None, w1) in
    match rp, rs with
    | Some (rid, r), _ => ((set_response c rid r, w2), None)
    | None, Some (rid, r) => ((set_response c rid r, w2), None)
    | None, None => ((c, w2), Some err_fallback)
    end.

  Definition exec_x (runsub : rules -> state -> outcome state) (p : xplugin) (s : state) : state * option N :=
    let (c, w) := s in
    match p with
    | XHosts h => set_opt s (hosts_reply h (c_query c))
    | XBlackHole v4 v6 => set_opt s (black_hole_reply v4 v6 (c_query c))
    | XArbitrary z => set_opt s (arbitrary_reply z (c_query c))
    | XTtl f mn mx =>
      match c_resp c with
      | Some r => ((with_resp_inplace c (ttl_apply f mn mx r), w), None)
      | None => (s, None)
      end
    | XForward u =>
      (* exchange: pack Q(), send; Exec: SetResponse(r) *)
      let qw := wire (c_query c) in
      let w1 := log_up w u qw in
      match ups u qw with
      | Some r => (set_fresh (c, w1) r, None)
      | None => ((c, w1), Some err_upstream)
      end
    | XDropResp => ((clear_response c, w), None)
    | XFallback pr se standby => fallback_exec runsub pr se standby s
    end.

  (** ActionReject.Exec *)
  Definition reject_x (rc : N) (s : state) : state :=
    set_fresh s (with_rcode (set_reply (c_query (fst s))) rc).

  (** ** Wrapping executables *)

  (** *** cache *)

  (** getMsgKey; [None] = "" = skip the cache *)
  Definition msg_do (q : msg) : bool :=
    match find_opt (m_extra q) with Some o => o_do o | None => false end.
  Definition msg_key (q : msg) : option bytes :=
    if m_qr q || negb (m_opcode q =? opcode_query) || negb (length (m_question q) =? 1)%nat then None
    else
      match m_question q with
      | qu :: _ => Some (CacheKey.key_of (m_ad q) (m_cd q) (msg_do q) qu)
      | [] => None
      end.

  Fixpoint lookup (k : bytes) (st : store) : option msg :=
    match st with
    | [] => None
    | (k', v) :: t => if list_eqb N.eqb k k' then Some v else lookup k t
    end.

  (** saveRespToCache: the message lifetime in seconds (lazy cache off); 0 = do not store *)
  Definition save_ttl (r : msg) : N :=
    if m_tc r then 0
    else if m_rcode r =? rcode_nxdomain then 30
    else if m_rcode r =? rcode_servfail then 5
    else if m_rcode r =? 0 then
      let mt := min_ttl r in
      if (length (m_answer r) =? 0)%nat then N.min mt cache_max_empty_answer_ttl else mt
    else 0.

  Definition save (inst : N) (key : bytes) (r : msg) (w : world) : world :=
    if 0 <? save_ttl r then unstale (put_store w inst ((key, copy_no_opt r) :: w_store w inst)) inst key else w.

  (** getRespFromCache, entry not expired *)
  Definition get_cached (key : bytes) (st : store) (now : N) : option msg :=
    match lookup key st with
    | Some v => match clock now with Some d => Some (subtract_ttl d v) | None => None end
    | None => None
    end.

  (** getRespFromCache: the response handed out, and whether it is a lazy hit
      (message expired, entry retained, lazy cache on: a copy with all TTLs 5) *)
  Definition cache_find (inst lazy : N) (key : bytes) (w : world) : option msg * bool :=
    if existsb (same_entry inst key) (w_stale w) then
      if 0 <? lazy then
        match lookup key (w_store w inst) with
        | Some v => (Some (set_ttl cache_expired_msg_ttl v), true)
        | None => (None, false)
        end
      else (None, false)
    else (get_cached key (w_store w inst) (w_next w), false).

  (** r != nil && answersQuestion(r, q): saveRespToCache *)
  Definition try_save (inst : N) (key : bytes) (c2 : ctx) (w2 : world) : world :=
    match c_resp c2 with
    | Some r => if answers_question r (c_query c2) then save inst key r w2 else w2
    | None => w2
    end.

  Definition cache_exec (inst lazy : N) (k : state -> outcome state) (s : state) : outcome state :=
    let (c, w) := s in
    let q := c_query c in
    match msg_key q with
    | None => k s                                   (* skip cache *)
    | Some key =>
      let rid := w_next w in
      let found := cache_find inst lazy key w in
      let w1 := bump w in
      (* doLazyUpdate: the rest of the chain on a copy taken before the cached
         response is set; whatever response it ends with is stored *)
      let w1 := if snd found && negb (w_sf w1)
                then let '(_, (cb, wb), _) := k (ctx_copy (c, w1)) in try_save inst key cb wb
                else w1 in
      let c1 := match fst found with
                | Some r => set_response c rid (with_id r (m_id q))    (* change msg id *)
                | None => c
                end in
      let '(t, (c2, w2), err) := k (c1, w1) in
      (* r != nil && cachedResp != r && answersQuestion(r, q) *)
      let same := match fst found with Some _ => c_rid c2 =? rid | None => false end in
      (t, (c2, if same then w2 else try_save inst key c2 w2), err)
    end.

  (** *** redirect *)
  Definition set_q0_name (q : msg) (n : bytes) : msg :=
    match m_question q with
    | qu :: t => with_question q (mkqu n (qtype qu) (qclass qu) :: t)
    | [] => q
    end.
  Definition rename_question (tgt org : bytes) (qu : question) : question :=
    if name_eqb (qname qu) tgt then mkqu org (qtype qu) (qclass qu) else qu.

  Definition redirect_exec (f : bytes -> option bytes) (k : state -> outcome state) (s : state) : outcome state :=
    let (c, w) := s in
    let q := c_query c in
    match m_question q with
    | [qu] =>
      if negb (qclass qu =? class_inet) then k s
      else
        let org := qname qu in
        match f org with
        | None => k s
        | Some tgt =>
          let '(t, (c2, w2), err) := k (with_query c (set_q0_name q tgt), w) in
          let c3 :=
            match c_resp c2 with
            | Some r =>
              (* Restore original query name. Insert a CNAME record. *)
              let r1 := with_question r (map (rename_question tgt org) (m_question r)) in
              with_resp_inplace c2
                (with_answer r1 (RR org type_cname class_inet 1 (RName tgt) :: m_answer r1))
            | None => c2
            end in
          (* deferred: q.Question[0].Name = orgQName *)
          (t, (with_query c3 (set_q0_name (c_query c3) org), w2), err)
        end
    | _ => k s
    end.

  (** *** ecs_handler *)
  Definition has_code (code : N) (l : list eopt) : bool := existsb (fun o => fst o =? code) l.
  Definition first_code (code : N) (l : list eopt) : option eopt := find (fun o => fst o =? code) l.

  (** The data tag of a client-subnet option: family, source netmask, scope, address tag. *)
  Definition ecs_data (a : addr) (mask : N) : N :=
    ((((if fst a then 2 else 1) * 256 + mask) * 256 + 0) * 4294967296) + snd a.
  (** newSubnet for an (unmapped) address: mask4 for IPv4, mask6 for IPv6 *)
  Definition new_subnet (a : addr) (mask4 mask6 : N) : eopt :=
    (ecs_code, ecs_data a (if fst a then mask6 else mask4)).

  Definition add_opts (o : opt) (es : list eopt) : opt :=
    Opt (o_udp o) (o_do o) (o_ver o) (o_ext o) (o_opts o ++ es).

  (** queryOpt.Option = append(queryOpt.Option, ...) on the OPT that QOpt() returns *)
  Definition q_add_opts (c : ctx) (es : list eopt) : ctx :=
    match map_last_opt (fun o => add_opts o es) (m_extra (c_query c)) with
    | Some ex => with_query c (with_extra (c_query c) ex)
    | None => c
    end.

  (** addECS: the new context and [forwarded]; [None]: QOpt()/QQuestion() panics *)
  Definition add_ecs (fwd send : bool) (preset : option addr) (mask4 mask6 : N) (c : ctx) : option (ctx * bool) :=
    match q_opt c, m_question (c_query c) with
    | Some qo, qu :: _ =>
      if has_code ecs_code (o_opts qo) then Some (c, false)          (* query already has an ecs *)
      else if negb (qclass qu =? class_inet) then Some (c, false)
      else
        let from_client :=
          if fwd then
            match c_client_opt c with
            | Some co => first_code ecs_code (o_opts co)
            | None => None
            end
          else None in
        match from_client with
        | Some o => Some (q_add_opts c [o], true)
        | None =>
          match preset with
          | Some a => Some (q_add_opts c [new_subnet a mask4 mask6], false)
          | None =>
            if send then
              match c_client_addr c with
              | Some a => Some (q_add_opts c [new_subnet a mask4 mask6], false)
              | None => Some (c, false)
              end
            else Some (c, false)
          end
        end
    | _, _ => None
    end.

  Definition resp_add_opts (c : ctx) (es : list eopt) : ctx :=
    match c_resp_opt c with
    | Some ro => with_resp_opt c (Some (add_opts ro es))
    | None => c
    end.

  Definition ecs_exec (fwd send : bool) (preset : option addr) (mask4 mask6 : N)
             (k : state -> outcome state) (s : state) : outcome state :=
    let (c, w) := s in
    match add_ecs fwd send preset mask4 mask6 c with
    | None => ([], s, Some err_panic)
    | Some (c1, forwarded) =>
      let '(t, (c2, w2), err) := k (c1, w) in
      match err with
      | Some e => (t, (c2, w2), Some e)
      | None =>
        if forwarded then
          (* forward upstream ecs back to client *)
          match c_resp_opt c2, c_upstream_opt c2 with
          | Some _, Some uo =>
            match first_code ecs_code (o_opts uo) with
            | Some o => (t, (resp_add_opts c2 [o], w2), None)
            | None => (t, (c2, w2), None)
            end
          | _, _ => (t, (c2, w2), None)
          end
        else (t, (c2, w2), None)
      end
    end.

  (** NewHandler: mask checks and defaults *)
  Definition check_mask (v mx def : N) : option N :=
    if mx <? v then None else Some (if v =? 0 then def else v).
  Definition new_ecs (fwd send : bool) (preset : option addr) (mask4 mask6 : N) : option wplugin :=
    match check_mask mask4 32 24, check_mask mask6 128 48 with
    | Some m4, Some m6 => Some (WEcs fwd send preset m4 m6)
    | _, _ => None
    end.

  (** *** forward_edns0opt *)
  Definition pick_codes (codes : list N) (l : list eopt) : list eopt :=
    filter (fun o => existsb (N.eqb (fst o)) codes) l.

  Definition fwdopt_exec (codes : list N) (k : state -> outcome state) (s : state) : outcome state :=
    let (c, w) := s in
    match q_opt c with
    | None => ([], s, Some err_panic)
    | Some _ =>
      let c1 := match c_client_opt c with
                | Some co => q_add_opts c (pick_codes codes (o_opts co))
                | None => c
                end in
      let '(t, (c2, w2), err) := k (c1, w) in
      match err with
      | Some e => (t, (c2, w2), Some e)
      | None =>
        match c_upstream_opt c2, c_resp_opt c2 with
        | Some uo, Some _ => (t, (resp_add_opts c2 (pick_codes codes (o_opts uo)), w2), None)
        | _, _ => (t, (c2, w2), None)
        end
      end
    end.

  (** *** dual_selector *)
  Definition msg_ans_has_rr (m : msg) (t : N) : bool :=
    existsb (fun r => match r with RR _ ty _ _ _ => ty =? t | OPT _ => false end) (m_answer m).

  (** dnsutils.GenEmptyReply(q, RcodeSuccess): the SOA is always owned by "." *)
  Definition gen_empty_reply (q : msg) : msg := with_ns (set_reply q) [fake_soa [46]].

  Definition set_q0_type (q : msg) (t : N) : msg :=
    match m_question q with
    | qu :: l => with_question q (mkqu (qname qu) t (qclass qu) :: l)
    | [] => q
    end.

  Definition dual_exec (inst : N) (v6 : bool) (k : state -> outcome state) (s : state) : outcome state :=
    let (c, w) := s in
    let q := c_query c in
    let prefer := if v6 then type_aaaa else type_a in
    match m_question q with
    | [qu] =>
      let qt := qtype qu in
      if negb ((qt =? type_a) || (qt =? type_aaaa)) then k s
      else if qt =? prefer then
        let '(t, (c2, w2), err) := k s in
        match err with
        | Some e => (t, (c2, w2), Some e)
        | None =>
          let ok := match c_resp c2 with Some r => msg_ans_has_rr r prefer | None => false end in
          (t, (c2, if ok then add_pref w2 inst (qname qu) else w2), None)
        end
      else if existsb (name_eqb (qname qu)) (w_pref w inst) then
        (* the domain is known to have the preferred type: block right away *)
        ([], set_fresh s (gen_empty_reply q), None)
      else
        (* reference query on a copy with the preferred type *)
        let s0 := ctx_copy (c, w) in
        let '(t1, (cr, w1), errr) := k (with_query (fst s0) (set_q0_type (c_query (fst s0)) prefer), snd s0) in
        let block := match errr with
                     | Some _ => false
                     | None => match c_resp cr with Some r => msg_ans_has_rr r prefer | None => false end
                     end in
        let w1 := if block then add_pref w1 inst (qname qu) else w1 in
        (* the original query on another copy *)
        let '(t2, (co, w2), erro) := k (ctx_copy (c, w1)) in
        if block then (t1 ++ t2, set_fresh (c, w2) (gen_empty_reply q), None)
        else
          (* *qCtx = *qCtxOrg; every later reader of the query message holds
             the original object, which no sub-run has touched *)
          (t1 ++ t2, (with_query co q, w2), erro)
    | _ => k s
    end.

  Definition wrap_w (p : wplugin) : (state -> outcome state) -> state -> outcome state :=
    match p with
    | WCache inst lazy => cache_exec inst lazy
    | WRedirect f => redirect_exec f
    | WEcs fwd send preset m4 m6 => ecs_exec fwd send preset m4 m6
    | WFwdOpt codes => fwdopt_exec codes
    | WDual inst v6 => dual_exec inst v6
    end.

  (** ** Matchers (read-only) *)
  Definition match_m (m : matcher) (s : state) : mres :=
    match m with
    | MHasResp => match c_resp (fst s) with Some _ => MTrue | None => MFalse end
    | MQtype l =>
      if existsb (fun qu => existsb (N.eqb (qtype qu)) l) (m_question (c_query (fst s))) then MTrue else MFalse
    | MOracle f => f s
    end.

  (** ** The environment of the sequence interpreter and the entry executable *)
  Variable xp : N -> xplugin.
  Variable wp : N -> wplugin.
  Variable mp : N -> matcher.

  Definition env_with (sub : rules -> state -> outcome state) : env state :=
    Env state (fun m => match_m (mp m)) (fun e => exec_x sub (xp e)) reject_x (fun w => wrap_w (wp w)).

  (** Sub-sequences of fallback are sequences built before it (the registry
      is acyclic); [depth] bounds that nesting. A program nested deeper than
      [depth] fails with [err_depth] in the model — the theorems hold for every
      depth, the Judge uses one larger than any program it builds. *)
  Fixpoint plug_env (depth : nat) : env state :=
    match depth with
    | O => env_with (fun _ s => ([], s, Some err_depth))
    | S d => env_with (fun rs s => run_seq (plug_env d) rs s)
    end.

  (** Sequence.Exec as [EntryHandlerOpts.Entry] *)
  Definition entry (depth : nat) (prog : rules) (s : state) : state * option N :=
    let '(_, s', err) := run_seq (plug_env depth) prog s in (s', err).
End Plugins.
