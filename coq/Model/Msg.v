(** C03 / C15 — the abstract DNS message shared by Model/Handler.v and
    Model/Plugins.v: what github.com/miekg/dns.Msg holds, as far as the entry
    handler, the query context and the modelled plugins look at it, and the
    message helpers of pkg/dnsutils/msg.go, plugin/executable/cache/utils.go
    (copyNoOpt) and miekg's Msg.SetReply.

    Representation invariant (holds for every message miekg unpacks from the
    wire and for every message the modelled code builds): a record has type 41
    exactly when it is an [OPT]; the model therefore tells OPT records by their
    constructor where the Go code uses either the type assertion a type assertion to dns.OPT
    or [Header().Rrtype == dns.TypeOPT].

    Executable model only; the proofs are in Proofs/Handler.v. *)
From Verif Require Import Base.Prelude Gen.Constants.
From Verif Require Model.CacheKey.
Open Scope N_scope.

(** dns.Question (name in presentation format as miekg holds it, any bytes) —
    the same record the cache-key model (C04) uses. *)
Notation question := CacheKey.question.
Notation mkqu := CacheKey.mkqu.
Notation qname := CacheKey.qname.
Notation qtype := CacheKey.qtype.
Notation qclass := CacheKey.qclass.
Notation question_eqb := CacheKey.question_eqb.

Definition name_eqb : bytes -> bytes -> bool := list_eqb N.eqb.

(** One EDNS0 option: its code and a tag that stands for its data. *)
Definition eopt := (N * N)%type.
Definition eopt_eqb (a b : eopt) : bool := (fst a =? fst b) && (snd a =? snd b).

(** dns.OPT: Hdr.Class (UDP size), and Hdr.Ttl split into extended rcode,
    version and the DO bit; the option list. *)
Record opt := Opt { o_udp : N; o_do : bool; o_ver : N; o_ext : N; o_opts : list eopt }.

Definition opt_eqb (a b : opt) : bool :=
  (o_udp a =? o_udp b) && Bool.eqb (o_do a) (o_do b) && (o_ver a =? o_ver b) && (o_ext a =? o_ext b)
  && list_eqb eopt_eqb (o_opts a) (o_opts b).

(** rdata: a small tag, or a domain name (CNAME target). *)
Inductive rdata := RTag (t : N) | RName (n : bytes).
Definition rdata_eqb (a b : rdata) : bool :=
  match a, b with
  | RTag x, RTag y => x =? y
  | RName x, RName y => name_eqb x y
  | _, _ => false
  end.

Inductive rr :=
| RR (name : bytes) (ty cl ttl : N) (rd : rdata)
| OPT (o : opt).

Definition rr_eqb (a b : rr) : bool :=
  match a, b with
  | RR n1 t1 c1 l1 d1, RR n2 t2 c2 l2 d2 =>
    name_eqb n1 n2 && (t1 =? t2) && (c1 =? c2) && (l1 =? l2) && rdata_eqb d1 d2
  | OPT x, OPT y => opt_eqb x y
  | _, _ => false
  end.

Definition is_opt (r : rr) : bool := match r with OPT _ => true | RR _ _ _ _ _ => false end.

(** dns.Msg: MsgHdr, Question, Answer, Ns, Extra. *)
Record msg := Msg {
  m_id : N;
  m_qr : bool;         (* Response *)
  m_opcode : N;
  m_aa : bool;         (* Authoritative *)
  m_tc : bool;         (* Truncated *)
  m_rd : bool;         (* RecursionDesired *)
  m_ra : bool;         (* RecursionAvailable *)
  m_z : bool;          (* Zero *)
  m_ad : bool;         (* AuthenticatedData *)
  m_cd : bool;         (* CheckingDisabled *)
  m_rcode : N;
  m_question : list question;
  m_answer : list rr;
  m_ns : list rr;
  m_extra : list rr
}.

Definition msg_eqb (a b : msg) : bool :=
  (m_id a =? m_id b) && Bool.eqb (m_qr a) (m_qr b) && (m_opcode a =? m_opcode b)
  && Bool.eqb (m_aa a) (m_aa b) && Bool.eqb (m_tc a) (m_tc b) && Bool.eqb (m_rd a) (m_rd b)
  && Bool.eqb (m_ra a) (m_ra b) && Bool.eqb (m_z a) (m_z b) && Bool.eqb (m_ad a) (m_ad b)
  && Bool.eqb (m_cd a) (m_cd b) && (m_rcode a =? m_rcode b)
  && list_eqb question_eqb (m_question a) (m_question b)
  && list_eqb rr_eqb (m_answer a) (m_answer b)
  && list_eqb rr_eqb (m_ns a) (m_ns b)
  && list_eqb rr_eqb (m_extra a) (m_extra b).

(** Field updates (assignments to one field of a *dns.Msg). *)
Definition with_id (m : msg) (v : N) : msg :=
  Msg v (m_qr m) (m_opcode m) (m_aa m) (m_tc m) (m_rd m) (m_ra m) (m_z m) (m_ad m) (m_cd m)
      (m_rcode m) (m_question m) (m_answer m) (m_ns m) (m_extra m).
Definition with_tc (m : msg) (v : bool) : msg :=
  Msg (m_id m) (m_qr m) (m_opcode m) (m_aa m) v (m_rd m) (m_ra m) (m_z m) (m_ad m) (m_cd m)
      (m_rcode m) (m_question m) (m_answer m) (m_ns m) (m_extra m).
Definition with_ra (m : msg) (v : bool) : msg :=
  Msg (m_id m) (m_qr m) (m_opcode m) (m_aa m) (m_tc m) (m_rd m) v (m_z m) (m_ad m) (m_cd m)
      (m_rcode m) (m_question m) (m_answer m) (m_ns m) (m_extra m).
Definition with_rcode (m : msg) (v : N) : msg :=
  Msg (m_id m) (m_qr m) (m_opcode m) (m_aa m) (m_tc m) (m_rd m) (m_ra m) (m_z m) (m_ad m) (m_cd m)
      v (m_question m) (m_answer m) (m_ns m) (m_extra m).
Definition with_question (m : msg) (v : list question) : msg :=
  Msg (m_id m) (m_qr m) (m_opcode m) (m_aa m) (m_tc m) (m_rd m) (m_ra m) (m_z m) (m_ad m) (m_cd m)
      (m_rcode m) v (m_answer m) (m_ns m) (m_extra m).
Definition with_answer (m : msg) (v : list rr) : msg :=
  Msg (m_id m) (m_qr m) (m_opcode m) (m_aa m) (m_tc m) (m_rd m) (m_ra m) (m_z m) (m_ad m) (m_cd m)
      (m_rcode m) (m_question m) v (m_ns m) (m_extra m).
Definition with_ns (m : msg) (v : list rr) : msg :=
  Msg (m_id m) (m_qr m) (m_opcode m) (m_aa m) (m_tc m) (m_rd m) (m_ra m) (m_z m) (m_ad m) (m_cd m)
      (m_rcode m) (m_question m) (m_answer m) v (m_extra m).
Definition with_extra (m : msg) (v : list rr) : msg :=
  Msg (m_id m) (m_qr m) (m_opcode m) (m_aa m) (m_tc m) (m_rd m) (m_ra m) (m_z m) (m_ad m) (m_cd m)
      (m_rcode m) (m_question m) (m_answer m) (m_ns m) v.
Definition with_sections (m : msg) (an ns ex : list rr) : msg :=
  Msg (m_id m) (m_qr m) (m_opcode m) (m_aa m) (m_tc m) (m_rd m) (m_ra m) (m_z m) (m_ad m) (m_cd m)
      (m_rcode m) (m_question m) an ns ex.

(** ** OPT records in a section *)

(** The OPT records of a section, in order. *)
Fixpoint opts_of (l : list rr) : list opt :=
  match l with
  | [] => []
  | OPT o :: t => o :: opts_of t
  | RR _ _ _ _ _ :: t => opts_of t
  end.

Definition count_opt (l : list rr) : nat := length (opts_of l).
Definition no_opt (l : list rr) : bool := forallb (fun r => negb (is_opt r)) l.

(** popOpt / Msg.popEdns0: remove the LAST OPT of the section; the section
    without it and the record. addNewAndSwapOldOpt: replace it by [fresh]. *)
Fixpoint pop_opt (ex : list rr) : option (list rr * opt) :=
  match ex with
  | [] => None
  | x :: t =>
    match pop_opt t with
    | Some (t', o) => Some (x :: t', o)
    | None => match x with OPT o => Some (t, o) | RR _ _ _ _ _ => None end
    end
  end.

Fixpoint swap_opt (fresh : opt) (ex : list rr) : option (list rr * opt) :=
  match ex with
  | [] => None
  | x :: t =>
    match swap_opt fresh t with
    | Some (t', o) => Some (x :: t', o)
    | None => match x with OPT o => Some (OPT fresh :: t, o) | RR _ _ _ _ _ => None end
    end
  end.

(** findOpt / Msg.IsEdns0: the last OPT of the section. *)
Definition find_opt (ex : list rr) : option opt :=
  match pop_opt ex with Some (_, o) => Some o | None => None end.

(** Replace the last OPT of the section by [f] of it (in-place mutation of the
    record [findOpt] returns). *)
Fixpoint map_last_opt (f : opt -> opt) (ex : list rr) : option (list rr) :=
  match ex with
  | [] => None
  | x :: t =>
    match map_last_opt f t with
    | Some t' => Some (x :: t')
    | None => match x with OPT o => Some (OPT (f o) :: t) | RR _ _ _ _ _ => None end
    end
  end.

(** ** miekg Pack followed by Unpack, as far as it changes a message the
    modelled code builds: "Set extended rcode unconditionally if we have an
    opt" — the extended-rcode byte of the last OPT becomes Rcode >> 4 (Unpack
    puts it back into Rcode). This is what the peer sees. *)
Definition with_ext (o : opt) (e : N) : opt := Opt (o_udp o) (o_do o) (o_ver o) e (o_opts o).
Definition wire (m : msg) : msg :=
  match map_last_opt (fun o => with_ext o (m_rcode m / 16)) (m_extra m) with
  | Some ex => with_extra m ex
  | None => m
  end.

(** ** miekg: Msg.SetReply on a zero Msg *)
Definition opcode_query : N := 0.
Definition set_reply (req : msg) : msg :=
  let isq := m_opcode req =? opcode_query in
  Msg (m_id req) true (m_opcode req) false false
      (if isq then m_rd req else false) false false false
      (if isq then m_cd req else false)
      0 (firstn 1 (m_question req)) [] [] [].

Definition rcode_servfail : N := 2.   (* dns.RcodeServerFailure *)
Definition rcode_nxdomain : N := 3.   (* dns.RcodeNameError *)
Definition rcode_refused : N := 5.    (* dns.RcodeRefused *)
Definition class_inet : N := 1.
Definition type_a : N := 1.
Definition type_cname : N := 5.
Definition type_soa : N := 6.
Definition type_aaaa : N := 28.
Definition type_opt : N := 41.
Definition ecs_code : N := 8.         (* dns.EDNS0SUBNET *)

(** ** pkg/dnsutils/msg.go: the TTL helpers; every one skips OPT records *)
Definition max_u32 : N := 4294967295.

Definition map_ttl (f : N -> N) (r : rr) : rr :=
  match r with
  | RR n ty cl ttl rd => RR n ty cl (f ttl) rd
  | OPT o => OPT o                      (* opt record ttl is not ttl. *)
  end.
Definition map_ttl_msg (f : N -> N) (m : msg) : msg :=
  with_sections m (map (map_ttl f) (m_answer m)) (map (map_ttl f) (m_ns m)) (map (map_ttl f) (m_extra m)).

Definition set_ttl (ttl : N) : msg -> msg := map_ttl_msg (fun _ => ttl).
Definition apply_max_ttl (ttl : N) : msg -> msg := map_ttl_msg (fun t => if ttl <? t then ttl else t).
Definition apply_min_ttl (ttl : N) : msg -> msg := map_ttl_msg (fun t => if t <? ttl then ttl else t).
(** SubtractTTL: ttl > delta ? ttl - delta : 1 *)
Definition subtract_ttl (delta : N) : msg -> msg := map_ttl_msg (fun t => if delta <? t then t - delta else 1).

(** GetMinimalTTL: minimum over the non-OPT records of all sections, 0 if none *)
Fixpoint min_ttl_aux (mn : N) (has : bool) (l : list rr) : N * bool :=
  match l with
  | [] => (mn, has)
  | OPT _ :: t => min_ttl_aux mn has t
  | RR _ _ _ ttl _ :: t => min_ttl_aux (if ttl <? mn then ttl else mn) true t
  end.
Definition min_ttl (m : msg) : N :=
  let '(mn, has) := min_ttl_aux max_u32 false (m_answer m ++ m_ns m ++ m_extra m) in
  if has then mn else 0.

(** FakeSOA(name) *)
Definition fake_soa (name : bytes) : rr := RR name type_soa class_inet 300 (RTag 0).

(** ** plugin/executable/cache/utils.go: copyNoOpt *)
Definition copy_no_opt (m : msg) : msg :=
  with_extra m (filter (fun r => negb (is_opt r)) (m_extra m)).

(** answersQuestion(r, q) *)
Definition answers_question (r q : msg) : bool :=
  match m_question r, m_question q with
  | [a], [b] => question_eqb a b
  | _, _ => false
  end.
