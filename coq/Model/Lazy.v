(** pkg/upstream/transport/conn_lazy_dial.go (lazyDnsConn) as a labelled
    transition system: a connection handed out before its dial has finished.
    Callers that arrive while it is dialing take an *early* reservation
    (bounded by the queue limit), wait for the dial, then re-reserve on the
    real connection before anybody else can (wait group). The real connection
    is abstracted to its capacity counter ([icount] <= [imax]); its own
    behaviour is Model.Tdc. Executable model only. Serves C09 (dialing phase)
    and C07 (dial faults, Close while dialing). *)
From Verif Require Import Base.Prelude Gen.Constants.
From Verif Require Export Base.Count.
Open Scope N_scope.

Inductive dial := Dialing | DialOk | DialErr | DialCancelled.

Inductive lerr := LECtx | LEDial | LECancelled | LECannotReserve | LEInner.
Inductive lres :=
| LROk                       (* the inner exchange returned a reply *)
| LRErr (e : lerr)
| LRRefused (conn_closed : bool)
| LRWithdrawn.

Inductive lpc :=
| QIdle
| QEarly          (* holds an early reservation *)
| QEarlyWait      (* early: inside ExchangeReserved, waiting for the dial or its context *)
| QEarlyGo        (* early: saw dialFinished without error, about to re-reserve on the real connection *)
| QInner          (* holds a reservation of the real connection (exchange in progress or not yet started) *)
| QDone.

Record lcall := mkLCall { qpc : lpc; qctx : bool; qres : option lres; qearly : bool (* entered while dialing *) }.
Definition lcall0 := mkLCall QIdle false None false.

Record lst := mkLst {
  lclosed : bool;
  ldial : dial;
  lreserved : N;        (* lazyDnsConn.reservedQuery *)
  lmaxq : N;            (* queue limit while dialing *)
  lwg : N;              (* earlyReserveCallWg *)
  lfast : N;            (* fastPath: 0, 1 (dial ok, early callers done), 2 (dial failed) *)
  icount : N;           (* real connection: reservations + queries in flight *)
  imax : N;             (* real connection: its limit *)
  iclosed : bool;       (* real connection closed *)
  iexists : bool;       (* the dial produced a connection *)
  lcalls : nat -> lcall;
  llive : list nat      (* calls holding an early or inner reservation *)
}.

Definition linit (maxq imax : N) : lst :=
  mkLst false Dialing 0 maxq 0 0 0 imax false false (fun _ => lcall0) [].

Definition lupd := @gupd lcall.
Definition lremove := gremove.
Definition lmem := gmem.

Inductive llabel :=
| ZReserve (c : nat)
| ZWithdraw (c : nat)
| ZStart (c : nat)          (* early caller enters ExchangeReserved *)
| ZCtx (c : nat)
| ZCtxExit (c : nat)        (* early caller's select takes ctx.Done *)
| ZDialDone (ok : bool)     (* the dial goroutine finishes *)
| ZGo (c : nat)             (* early caller's select takes dialFinished *)
| ZReReserve (c : nat)      (* early caller re-reserves on the real connection, then wg.Done *)
| ZInnerDone (c : nat) (ok : bool)   (* the exchange (or withdrawal) on the real connection ends *)
| ZInnerClose               (* the real connection dies *)
| ZClose.

Definition lpc_eqb (a b : lpc) : bool :=
  match a, b with
  | QIdle, QIdle | QEarly, QEarly | QEarlyWait, QEarlyWait | QEarlyGo, QEarlyGo | QInner, QInner | QDone, QDone => true
  | _, _ => false
  end.

Definition set_lcall (s : lst) (c : nat) (v : lcall) : lst :=
  mkLst (lclosed s) (ldial s) (lreserved s) (lmaxq s) (lwg s) (lfast s) (icount s) (imax s) (iclosed s) (iexists s)
        (lupd (lcalls s) c v) (llive s).

Definition fin (k : lcall) (r : lres) : lcall := mkLCall QDone (qctx k) (Some r) (qearly k).

(** ReserveNewQuery of the real connection. *)
Definition inner_can (s : lst) : bool := negb (iclosed s) && (icount s <? imax s).

Definition lstep (s : lst) (l : llabel) : option lst :=
  match l with
  | ZReserve c =>
    let k := lcalls s c in
    if lpc_eqb (qpc k) QIdle && negb (lmem c (llive s)) then
      let via_inner (fast : N) :=
        if iclosed s then
          Some (mkLst (lclosed s) (ldial s) (lreserved s) (lmaxq s) (lwg s) fast (icount s) (imax s) (iclosed s) (iexists s)
                      (lupd (lcalls s) c (fin k (LRRefused true))) (llive s))
        else if icount s <? imax s then
          Some (mkLst (lclosed s) (ldial s) (lreserved s) (lmaxq s) (lwg s) fast (icount s + 1) (imax s) (iclosed s) (iexists s)
                      (lupd (lcalls s) c (mkLCall QInner (qctx k) None false)) (c :: llive s))
        else
          Some (mkLst (lclosed s) (ldial s) (lreserved s) (lmaxq s) (lwg s) fast (icount s) (imax s) (iclosed s) (iexists s)
                      (lupd (lcalls s) c (fin k (LRRefused false))) (llive s)) in
      if lfast s =? 1 then via_inner 1
      else if lfast s =? 2 then Some (set_lcall s c (fin k (LRRefused true)))
      else
        match ldial s with
        | Dialing =>
          if lmaxq s <=? lreserved s then Some (set_lcall s c (fin k (LRRefused false)))
          else Some (mkLst (lclosed s) (ldial s) (lreserved s + 1) (lmaxq s) (lwg s + 1) (lfast s) (icount s) (imax s)
                           (iclosed s) (iexists s) (lupd (lcalls s) c (mkLCall QEarly (qctx k) None true)) (c :: llive s))
        | DialOk =>
          (* blocks in wg.Wait() until every early caller has re-reserved or left *)
          if lwg s =? 0 then via_inner 1 else None
        | DialErr | DialCancelled =>
          Some (mkLst (lclosed s) (ldial s) (lreserved s) (lmaxq s) (lwg s) 2 (icount s) (imax s) (iclosed s) (iexists s)
                      (lupd (lcalls s) c (fin k (LRRefused true))) (llive s))
        end
    else None
  | ZWithdraw c =>
    let k := lcalls s c in
    if lpc_eqb (qpc k) QEarly then
      Some (mkLst (lclosed s) (ldial s) (lreserved s - 1) (lmaxq s) (lwg s - 1) (lfast s) (icount s) (imax s) (iclosed s)
                  (iexists s) (lupd (lcalls s) c (fin k LRWithdrawn)) (lremove c (llive s)))
    else None
  | ZStart c =>
    let k := lcalls s c in
    if lpc_eqb (qpc k) QEarly then Some (set_lcall s c (mkLCall QEarlyWait (qctx k) None true)) else None
  | ZCtx c =>
    let k := lcalls s c in
    Some (set_lcall s c (mkLCall (qpc k) true (qres k) (qearly k)))
  | ZCtxExit c =>
    let k := lcalls s c in
    if lpc_eqb (qpc k) QEarlyWait && qctx k then
      Some (mkLst (lclosed s) (ldial s) (lreserved s - 1) (lmaxq s) (lwg s - 1) (lfast s) (icount s) (imax s) (iclosed s)
                  (iexists s) (lupd (lcalls s) c (fin k (LRErr LECtx))) (lremove c (llive s)))
    else None
  | ZDialDone ok =>
    match ldial s with
    | Dialing =>
      Some (mkLst (lclosed s) (if ok then DialOk else DialErr) (lreserved s) (lmaxq s) (lwg s) (lfast s) (icount s) (imax s)
                  (iclosed s) ok (lcalls s) (llive s))
    | DialCancelled =>
      (* the connection was closed while dialing: a connection the dial still produced is closed at once *)
      if iexists s then None
      else Some (mkLst (lclosed s) (ldial s) (lreserved s) (lmaxq s) (lwg s) (lfast s) (icount s) (imax s)
                       ok ok (lcalls s) (llive s))
    | _ => None
    end
  | ZGo c =>
    let k := lcalls s c in
    if lpc_eqb (qpc k) QEarlyWait then
      match ldial s with
      | Dialing => None
      | DialOk => Some (set_lcall s c (mkLCall QEarlyGo (qctx k) None true))
      | DialErr =>
        (* NB: the early caller returns the dial error WITHOUT wg.Done(): harmless, nobody waits on the group after a failed dial *)
        Some (mkLst (lclosed s) (ldial s) (lreserved s - 1) (lmaxq s) (lwg s) (lfast s) (icount s) (imax s) (iclosed s)
                    (iexists s) (lupd (lcalls s) c (fin k (LRErr LEDial))) (lremove c (llive s)))
      | DialCancelled =>
        Some (mkLst (lclosed s) (ldial s) (lreserved s - 1) (lmaxq s) (lwg s) (lfast s) (icount s) (imax s) (iclosed s)
                    (iexists s) (lupd (lcalls s) c (fin k (LRErr LECancelled))) (lremove c (llive s)))
      end
    else None
  | ZReReserve c =>
    let k := lcalls s c in
    if lpc_eqb (qpc k) QEarlyGo then
      if inner_can s then
        Some (mkLst (lclosed s) (ldial s) (lreserved s) (lmaxq s) (lwg s - 1) (lfast s) (icount s + 1) (imax s) (iclosed s)
                    (iexists s) (lupd (lcalls s) c (mkLCall QInner (qctx k) None true)) (llive s))
      else
        Some (mkLst (lclosed s) (ldial s) (lreserved s - 1) (lmaxq s) (lwg s - 1) (lfast s) (icount s) (imax s) (iclosed s)
                    (iexists s) (lupd (lcalls s) c (fin k (LRErr LECannotReserve))) (lremove c (llive s)))
    else None
  | ZInnerDone c ok =>
    let k := lcalls s c in
    if lpc_eqb (qpc k) QInner then
      Some (mkLst (lclosed s) (ldial s) (if qearly k then lreserved s - 1 else lreserved s) (lmaxq s) (lwg s) (lfast s)
                  (icount s - 1) (imax s) (iclosed s) (iexists s)
                  (lupd (lcalls s) c (fin k (if ok then LROk else LRErr LEInner))) (lremove c (llive s)))
    else None
  | ZInnerClose =>
    if iexists s then
      Some (mkLst (lclosed s) (ldial s) (lreserved s) (lmaxq s) (lwg s) (lfast s) (icount s) (imax s) true (iexists s)
                  (lcalls s) (llive s))
    else None
  | ZClose =>
    if lclosed s then Some s
    else
      match ldial s with
      | Dialing =>
        Some (mkLst true DialCancelled (lreserved s) (lmaxq s) (lwg s) (lfast s) (icount s) (imax s) (iclosed s) (iexists s)
                    (lcalls s) (llive s))
      | _ =>
        Some (mkLst true (ldial s) (lreserved s) (lmaxq s) (lwg s) (lfast s) (icount s) (imax s)
                    (if iexists s then true else iclosed s) (iexists s) (lcalls s) (llive s))
      end
  end.

Fixpoint lrun (s : lst) (ls : list llabel) : option lst :=
  match ls with
  | [] => Some s
  | l :: t => match lstep s l with Some s' => lrun s' t | None => None end
  end.
