(** C03 / C15 — the query context (pkg/query_context/context.go: NewContext /
    addNewAndSwapOldOpt, SetResponse / popOpt, RespOpt, ClientOpt, UpstreamOpt,
    QOpt) and the entry handler (pkg/server_handler/entry_handler.go: Handle,
    getValidUDPSize).

    External library behaviour is a Section variable: miekg's [Msg.Truncate]
    ([truncate]), the pack function handed to [Handle] ([packs]: does it succeed,
    [plen]: the length of what it produces). Their contracts are stated in
    Proofs/Handler.v as hypotheses and checked on every observed reply by the
    Judge ([trunc_rel]).

    Executable model only; the proofs are in Proofs/Handler.v. *)
From Verif Require Import Base.Prelude Gen.Constants Model.Msg.
Open Scope N_scope.

(** ** query_context.Context *)

(** An address as far as ecs_handler needs it: family (true = IPv6) and a tag
    for the address bytes. *)
Definition addr := (bool * N)%type.

Record ctx := Ctx {
  c_query : msg;                 (* query: what Q() returns *)
  c_client_opt : option opt;     (* clientOpt, may be nil *)
  c_resp : option msg;           (* resp *)
  c_rid : N;                     (* identity of the dns.Msg object in resp (pointer compare in cache) *)
  c_resp_opt : option opt;       (* respOpt: nil iff clientOpt == nil *)
  c_upstream_opt : option opt;   (* upstreamOpt *)
  c_from_udp : bool;             (* ServerMeta.FromUDP *)
  c_client_addr : option addr    (* ServerMeta.ClientAddr, when valid *)
}.

Definition with_query (c : ctx) (q : msg) : ctx :=
  Ctx q (c_client_opt c) (c_resp c) (c_rid c) (c_resp_opt c) (c_upstream_opt c) (c_from_udp c) (c_client_addr c).
Definition with_resp_opt (c : ctx) (o : option opt) : ctx :=
  Ctx (c_query c) (c_client_opt c) (c_resp c) (c_rid c) o (c_upstream_opt c) (c_from_udp c) (c_client_addr c).
(** in-place mutation of the response object (same pointer) *)
Definition with_resp_inplace (c : ctx) (r : msg) : ctx :=
  Ctx (c_query c) (c_client_opt c) (Some r) (c_rid c) (c_resp_opt c) (c_upstream_opt c) (c_from_udp c) (c_client_addr c).

(** newOpt(): name ".", type OPT, SetUDPSize(edns0Size); everything else zero. *)
Definition new_opt : opt := Opt edns0_size false 0 0 [].

(** setDo(opt, do): sets the bit only when [do] *)
Definition set_do (o : opt) (do : bool) : opt :=
  if do then Opt (o_udp o) true (o_ver o) (o_ext o) (o_opts o) else o.

(** NewContext(q) and [qCtx.ServerMeta = serverMeta] *)
Definition new_context (q : msg) (udp : bool) (ca : option addr) : ctx :=
  match swap_opt new_opt (m_extra q) with
  | Some (ex, old) =>
    (* clientOpt != nil: respOpt = newOpt(); if clientOpt.Do() { setDo(respOpt, true) } *)
    Ctx (with_extra q ex) (Some old) None 0 (Some (set_do new_opt (o_do old))) None udp ca
  | None =>
    Ctx (with_extra q (m_extra q ++ [OPT new_opt])) None None 0 None None udp ca
  end.

(** SetResponse(m) for a message object with identity [rid]; SetResponse(nil) *)
Definition set_response (c : ctx) (rid : N) (m : msg) : ctx :=
  match pop_opt (m_extra m) with
  | Some (ex, o) =>
    Ctx (c_query c) (c_client_opt c) (Some (with_extra m ex)) rid (c_resp_opt c) (Some o) (c_from_udp c) (c_client_addr c)
  | None =>
    Ctx (c_query c) (c_client_opt c) (Some m) rid (c_resp_opt c) None (c_from_udp c) (c_client_addr c)
  end.
Definition clear_response (c : ctx) : ctx :=
  Ctx (c_query c) (c_client_opt c) None 0 (c_resp_opt c) None (c_from_udp c) (c_client_addr c).

(** QOpt(): the last OPT of the query ("query opt is missing" panics: [None]) *)
Definition q_opt (c : ctx) : option opt := find_opt (m_extra (c_query c)).

(** ** EntryHandler.Handle *)

(** basic query check *)
Definition valid_query (q : msg) : bool :=
  negb (m_qr q || negb (length (m_question q) =? 1)%nat
        || (0 <? length (m_answer q) + length (m_ns q))%nat
        || (1 <? length (m_extra q))%nat).

(** getValidUDPSize: the client's advertised size, at least dns.MinMsgSize *)
Definition min_msg_size : N := 512.
Definition valid_udp_size (o : option opt) : N :=
  let s := match o with Some x => o_udp x | None => 0 end in
  if s <? min_msg_size then min_msg_size else s.

(** What the entry executable left behind. *)
Inductive chain_result :=
| ChainErr                  (* Entry.Exec returned an error *)
| ChainNone                 (* no error, R() == nil *)
| ChainAnswer (r : msg).    (* no error, R() == r *)

Definition chain_result_of (c : ctx) (err : option N) : chain_result :=
  match err with
  | Some _ => ChainErr
  | None => match c_resp c with Some r => ChainAnswer r | None => ChainNone end
  end.

Section Handle.
  Variable truncate : N -> msg -> msg.     (* Msg.Truncate(size) *)
  Variable packs : msg -> bool.            (* packMsgPayload(m) returns no error *)

  (** Handle, from the point where Entry.Exec has returned with context [c]
      and error [err]: the message handed to [packMsgPayload]. *)
  Definition reply_msg (c : ctx) (err : option N) : msg :=
    let q := c_query c in           (* the pointer handed to Handle: NewContext took ownership *)
    let resp :=
      match chain_result_of c err with
      | ChainErr => with_rcode (set_reply q) rcode_servfail
      | ChainAnswer r => r
      | ChainNone => with_rcode (set_reply q) rcode_refused
      end in
    (* We assume that our server is a forwarder. *)
    let resp := with_ra resp true in
    (* add respOpt back to resp *)
    let resp := match c_resp_opt c with
                | Some o => with_extra resp (m_extra resp ++ [OPT o])
                | None => resp
                end in
    if c_from_udp c then truncate (valid_udp_size (c_client_opt c)) resp else resp.

  (** The whole of Handle. [W] is whatever state the plugins keep between
      queries; [entry] is [opts.Entry.Exec]. [None]: no reply. *)
  Definition handle {W : Type} (entry : ctx * W -> (ctx * W) * option N)
             (w : W) (q : msg) (udp : bool) (ca : option addr) : W * option msg :=
    if valid_query q then
      let '((c, w'), err) := entry (new_context q udp ca, w) in
      let r := reply_msg c err in
      (w', if packs r then Some r else None)
    else (w, None).
End Handle.

(** ** The contract of Msg.Truncate, as a decidable relation between the
    message before and after (checked on every observed reply, assumed of the
    Section variable in the proofs).

    Truncate never touches header (except TC), question; it pops the last OPT,
    keeps a prefix of every section and puts the OPT back at the end; TC is set
    when something was dropped (and never cleared). When nothing has to be
    dropped the message is unchanged. *)
Fixpoint is_prefix_rr (a b : list rr) : bool :=
  match a, b with
  | [], _ => true
  | x :: a', y :: b' => rr_eqb x y && is_prefix_rr a' b'
  | _ :: _, [] => false
  end.

Definition dropped (m m' : msg) : bool :=
  (length (m_answer m') <? length (m_answer m))%nat
  || (length (m_ns m') <? length (m_ns m))%nat
  || (length (m_extra m') <? length (m_extra m))%nat.

Definition ends_with_opt (ex : list rr) : bool :=
  match rev ex with OPT _ :: _ => true | _ => false end.

Definition extra_rel (ex ex' : list rr) : bool :=
  list_eqb rr_eqb ex ex'
  || match pop_opt ex with
     | Some (rest, o) =>
       match pop_opt ex' with
       | Some (rest', o') => opt_eqb o o' && is_prefix_rr rest' rest && ends_with_opt ex'
       | None => false
       end
     | None => is_prefix_rr ex' ex
     end.

Definition trunc_rel (m m' : msg) : bool :=
  msg_eqb (with_sections (with_tc m false) [] [] []) (with_sections (with_tc m' false) [] [] [])
  && is_prefix_rr (m_answer m') (m_answer m)
  && is_prefix_rr (m_ns m') (m_ns m)
  && extra_rel (m_extra m) (m_extra m')
  && Bool.eqb (m_tc m') (m_tc m || dropped m m').
