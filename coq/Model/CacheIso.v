(** C10 — aliasing model of the cache plugin's store and hit paths:
    plugin/executable/cache/utils.go (copyNoOpt, saveRespToCache, getRespFromCache),
    plugin/executable/cache/cache.go (Exec: "cachedResp.Id = q.Id", the store after
    the rest of the chain, doLazyUpdate), pkg/dnsutils/msg.go (SubtractTTL, SetTTL,
    GetMinimalTTL) and miekg/dns (Msg.Copy, dns.Copy).

    Messages are object graphs with identities:
      message object -> three section arrays -> record objects -> rdata buffers.
    Every object carries a ghost label [own]: the region that allocated it
    (0 = the cache's private copies, S c = client/query c).  The labels are never
    read by the operations; the proofs use them to state who may reach what.

    Executable model only; the proofs are in Proofs/CacheIso.v. *)
From Verif Require Import Base.Prelude Gen.Constants.
Open Scope N_scope.

(** * Pools of objects: total function, allocation counter, ghost owner *)

Definition upd {A} (f : nat -> A) (k : nat) (v : A) : nat -> A :=
  fun x => if Nat.eqb x k then v else f x.

Record pool (A : Type) := mkpool { dat : nat -> A; nxt : nat; own : nat -> nat }.
Arguments mkpool {A}. Arguments dat {A}. Arguments nxt {A}. Arguments own {A}.

(** [new(T)] / [make]: the next unused identity. *)
Definition alloc {A} (o : nat) (v : A) (p : pool A) : pool A * nat :=
  (mkpool (upd (dat p) (nxt p) v) (S (nxt p)) (upd (own p) (nxt p) o), nxt p).
(** An in-place write. *)
Definition put {A} (k : nat) (v : A) (p : pool A) : pool A :=
  mkpool (upd (dat p) k v) (nxt p) (own p).

(** * Objects *)

(** A resource record (dns.A, dns.TXT, ... behind their pointers): the RR_Header scalars (owner name
    as a tag for the immutable Go string, Rrtype, Ttl) and a reference to the
    rdata buffer (the bytes behind net.IP, the elements of Txt []string, the
    options of an OPT: what an in-place write can reach without touching the
    record struct). *)
Record reco := mkrec { r_name : N; r_type : N; r_ttl : N; r_data : nat }.

(** dns.Msg: Id, the header bits as the 16 bit flags word of the wire format
    (QR, Opcode, AA, TC, RD, RA, Z, AD, CD, Rcode), the question section (a slice
    of plain values: tags), and the three RR sections: one array object per
    section. Appends and truncations are modelled in place on that array object. *)
Record msgo := mkmsg { m_id : N; m_hdr : N; m_q : list N; m_an : nat; m_ns : nat; m_ex : nat }.

Record heap := mkheap {
  hm : pool msgo; ha : pool (list nat); hr : pool reco; hb : pool (list N) }.

Definition with_hm (H : heap) p := mkheap p (ha H) (hr H) (hb H).
Definition with_ha (H : heap) p := mkheap (hm H) p (hr H) (hb H).
Definition with_hr (H : heap) p := mkheap (hm H) (ha H) p (hb H).
Definition with_hb (H : heap) p := mkheap (hm H) (ha H) (hr H) p.

Definition alloc_m o v H := let '(p, i) := alloc o v (hm H) in (with_hm H p, i).
Definition alloc_a o v H := let '(p, i) := alloc o v (ha H) in (with_ha H p, i).
Definition alloc_r o v H := let '(p, i) := alloc o v (hr H) in (with_hr H p, i).
Definition alloc_b o v H := let '(p, i) := alloc o v (hb H) in (with_hb H p, i).
Definition put_m k v H := with_hm H (put k v (hm H)).
Definition put_a k v H := with_ha H (put k v (ha H)).
Definition put_r k v H := with_hr H (put k v (hr H)).
Definition put_b k v H := with_hb H (put k v (hb H)).

Definition empty_heap : heap :=
  mkheap (mkpool (fun _ => mkmsg 0 0 [] O O O) O (fun _ => O))
         (mkpool (fun _ => []) O (fun _ => O))
         (mkpool (fun _ => mkrec 0 0 0 O) O (fun _ => O))
         (mkpool (fun _ => []) O (fun _ => O)).

Inductive sec := An | Ns | Ex.
Definition sec_arr (mo : msgo) (s : sec) : nat :=
  match s with An => m_an mo | Ns => m_ns mo | Ex => m_ex mo end.

(** * Values: what a message looks like to whoever packs it *)

Record rval := mkrv { v_name : N; v_type : N; v_ttl : N; v_data : list N }.
Record mval := mkmv { mv_id : N; mv_hdr : N; mv_q : list N;
                      mv_an : list rval; mv_ns : list rval; mv_ex : list rval }.

Definition rec_val (H : heap) (r : nat) : rval :=
  let ro := dat (hr H) r in
  mkrv (r_name ro) (r_type ro) (r_ttl ro) (dat (hb H) (r_data ro)).
Definition arr_val (H : heap) (a : nat) : list rval := map (rec_val H) (dat (ha H) a).
Definition value (H : heap) (m : nat) : mval :=
  let mo := dat (hm H) m in
  mkmv (m_id mo) (m_hdr mo) (m_q mo) (arr_val H (m_an mo)) (arr_val H (m_ns mo)) (arr_val H (m_ex mo)).

(** Everything reachable from a message, per kind of object. *)
Definition reach_arrs (H : heap) (m : nat) : list nat :=
  let mo := dat (hm H) m in [m_an mo; m_ns mo; m_ex mo].
Definition reach_recs (H : heap) (m : nat) : list nat :=
  flat_map (dat (ha H)) (reach_arrs H m).
Definition reach_bufs (H : heap) (m : nat) : list nat :=
  map (fun r => r_data (dat (hr H) r)) (reach_recs H m).

(** * Building a message (what the code that produces a response does) *)

Definition new_rec (o : nat) (H : heap) (v : rval) : heap * nat :=
  let '(H1, b) := alloc_b o (v_data v) H in
  alloc_r o (mkrec (v_name v) (v_type v) (v_ttl v) b) H1.

Fixpoint new_list (o : nat) (H : heap) (l : list rval) : heap * list nat :=
  match l with
  | [] => (H, [])
  | v :: t =>
    let '(H1, r) := new_rec o H v in
    let '(H2, rs) := new_list o H1 t in
    (H2, r :: rs)
  end.

Definition new_arr (o : nat) (H : heap) (l : list rval) : heap * nat :=
  let '(H1, rs) := new_list o H l in alloc_a o rs H1.

Definition new_msg (o : nat) (H : heap) (v : mval) : heap * nat :=
  let '(H1, an) := new_arr o H (mv_an v) in
  let '(H2, ns) := new_arr o H1 (mv_ns v) in
  let '(H3, ex) := new_arr o H2 (mv_ex v) in
  alloc_m o (mkmsg (mv_id v) (mv_hdr v) (mv_q v) an ns ex) H3.

(** * miekg/dns copies (contract: what dns.Copy / Msg.Copy allocate) *)

Definition type_opt : N := 41.      (* dns.TypeOPT *)

(** dns.Copy(r): a fresh record struct with the header copied by value and a
    fresh rdata buffer (cloneSlice of net.IP / []string / []EDNS0). *)
Definition copy_rec (o : nat) (H : heap) (r : nat) : heap * nat :=
  let ro := dat (hr H) r in
  let '(H1, b) := alloc_b o (dat (hb H) (r_data ro)) H in
  alloc_r o (mkrec (r_name ro) (r_type ro) (r_ttl ro) b) H1.

(** "for _, r := range section { if skip(r) { continue }; dst = append(dst, dns.Copy(r)) }" *)
Fixpoint copy_list (o : nat) (skip_opt : bool) (H : heap) (l : list nat) : heap * list nat :=
  match l with
  | [] => (H, [])
  | r :: t =>
    if skip_opt && (r_type (dat (hr H) r) =? type_opt) then copy_list o skip_opt H t
    else
      let '(H1, r') := copy_rec o H r in
      let '(H2, rs) := copy_list o skip_opt H1 t in
      (H2, r' :: rs)
  end.

(** A section of the copy: a fresh array (the three-index slices of the one
    backing array have exact capacities, so no two sections and no later append
    can share cells). *)
Definition copy_arr (o : nat) (skip_opt : bool) (H : heap) (a : nat) : heap * nat :=
  let '(H1, rs) := copy_list o skip_opt H (dat (ha H) a) in alloc_a o rs H1.

(** Msg.Copy (no_opt = false) and copyNoOpt (no_opt = true: OPT records of the
    additional section are left out): new(dns.Msg), MsgHdr and Question copied by
    value, every record copied. *)
Definition copy_msg_gen (o : nat) (no_opt : bool) (H : heap) (m : nat) : heap * nat :=
  let mo := dat (hm H) m in
  let '(H1, an) := copy_arr o false H (m_an mo) in
  let '(H2, ns) := copy_arr o false H1 (m_ns mo) in
  let '(H3, ex) := copy_arr o no_opt H2 (m_ex mo) in
  alloc_m o (mkmsg (m_id mo) (m_hdr mo) (m_q mo) an ns ex) H3.

Definition copy_msg (o : nat) := copy_msg_gen o false.
Definition copy_no_opt := copy_msg_gen O true.

(** * TTL rewriting on a hit: in place, on the records of the copy *)

Inductive ttl_adj :=
| ASub (delta : N)   (* dnsutils.SubtractTTL(r, delta): the not-expired path *)
| ASet (t : N).      (* dnsutils.SetTTL(r, t): the lazy path *)

Definition adj_ttl (a : ttl_adj) (ttl : N) : N :=
  match a with
  | ASub d => if d <? ttl then ttl - d else 1
  | ASet t => t
  end.

Definition adjust_rec (a : ttl_adj) (H : heap) (r : nat) : heap :=
  let ro := dat (hr H) r in
  if r_type ro =? type_opt then H     (* "opt record ttl is not ttl" *)
  else put_r r (mkrec (r_name ro) (r_type ro) (adj_ttl a (r_ttl ro)) (r_data ro)) H.

Definition adjust_list (a : ttl_adj) (H : heap) (l : list nat) : heap :=
  fold_left (adjust_rec a) l H.

(** for _, section := range [...]{m.Answer, m.Ns, m.Extra} *)
Definition adjust_msg (a : ttl_adj) (H : heap) (m : nat) : heap :=
  let mo := dat (hm H) m in
  let H1 := adjust_list a H (dat (ha H) (m_an mo)) in
  let H2 := adjust_list a H1 (dat (ha H1) (m_ns mo)) in
  adjust_list a H2 (dat (ha H2) (m_ex mo)).

(** The same on values. *)
Definition adjust_rv (a : ttl_adj) (v : rval) : rval :=
  if v_type v =? type_opt then v else mkrv (v_name v) (v_type v) (adj_ttl a (v_ttl v)) (v_data v).
Definition adjust_val (a : ttl_adj) (v : mval) : mval :=
  mkmv (mv_id v) (mv_hdr v) (mv_q v)
       (map (adjust_rv a) (mv_an v)) (map (adjust_rv a) (mv_ns v)) (map (adjust_rv a) (mv_ex v)).
Definition set_id (q : N) (v : mval) : mval :=
  mkmv q (mv_hdr v) (mv_q v) (mv_an v) (mv_ns v) (mv_ex v).
Definition is_opt (v : rval) : bool := v_type v =? type_opt.
Definition strip_opt (v : mval) : mval :=
  mkmv (mv_id v) (mv_hdr v) (mv_q v) (mv_an v) (mv_ns v) (filter (fun r => negb (is_opt r)) (mv_ex v)).

(** * Admission, as far as it decides whether a copy is made *)

Definition tc_bit (hdr : N) : bool := N.testbit hdr 9.     (* MsgHdr.Truncated *)
Definition rcode_of (hdr : N) : N := N.land hdr 15.        (* MsgHdr.Rcode *)

(** dnsutils.GetMinimalTTL *)
Definition min_ttl_step (acc : N * bool) (r : rval) : N * bool :=
  if is_opt r then acc
  else ((if v_ttl r <? fst acc then v_ttl r else fst acc), true).
Definition min_ttl (v : mval) : N :=
  let '(mn, has) := fold_left min_ttl_step (mv_an v ++ mv_ns v ++ mv_ex v) (4294967295, false) in
  if has then mn else 0.

(** saveRespToCache: msgTtl in seconds (cacheTtl is positive whenever msgTtl is). *)
Definition msg_ttl (v : mval) : N :=
  match rcode_of (mv_hdr v) with
  | 3 => 30                                   (* RcodeNameError *)
  | 2 => 5                                    (* RcodeServerFailure *)
  | 0 => match mv_an v with                   (* RcodeSuccess *)
         | [] => N.min (min_ttl v) cache_max_empty_answer_ttl
         | _ => min_ttl v
         end
  | _ => 0
  end.
Definition admissible (v : mval) : bool := negb (tc_bit (mv_hdr v)) && (0 <? msg_ttl v).

(** answersQuestion(r, q) for a query whose (single) question has the tag [k];
    the tag also serves as the cache key (key derivation is property C04). *)
Definition answers (v : mval) (k : N) : bool :=
  match mv_q v with [x] => x =? k | _ => false end.

(** * In-place mutations by the holders of a message *)

Fixpoint del_nth {A} (i : nat) (l : list A) : list A :=
  match l, i with
  | [], _ => []
  | _ :: t, O => t
  | x :: t, S i' => x :: del_nth i' t
  end.

Fixpoint set_nth {A} (i : nat) (v : A) (l : list A) : list A :=
  match l, i with
  | [], _ => []
  | _ :: t, O => v :: t
  | x :: t, S i' => x :: set_nth i' v t
  end.

(** [h'] in the link mutations is an index into the list of handles. *)
Inductive mutation :=
| MSetId (v : N)                                   (* m.Id = v *)
| MSetHdr (v : N)                                  (* any of the header bits / Rcode *)
| MSetQ (q : list N)                               (* m.Question[...] = ..., append, truncate *)
| MSetTtl (s : sec) (i : nat) (v : N)              (* m.s[i].Header().Ttl = v *)
| MSetName (s : sec) (i : nat) (v : N)             (* m.s[i].Header().Name = v *)
| MSetType (s : sec) (i : nat) (v : N)             (* m.s[i].Header().Rrtype = v *)
| MSetByte (s : sec) (i j : nat) (b : N)           (* rdata[j] = b, in place *)
| MNewData (s : sec) (i : nat) (d : list N)        (* rdata = a new slice *)
| MAppend (s : sec) (v : rval)                     (* m.s = append(m.s, new record); an OPT when v_type = 41 *)
| MTrunc (s : sec) (n : nat)                       (* m.s = m.s[:n] *)
| MDelete (s : sec) (i : nat)                      (* m.s = append(m.s[:i], m.s[i+1:]...) (popOpt) *)
| MLinkRec (s : sec) (i : nat) (h' : nat) (s' : sec) (j : nat)    (* m.s[i] = m'.s'[j] (same pointer) *)
| MLinkData (s : sec) (i : nat) (h' : nat) (s' : sec) (j : nat).  (* m.s[i].rdata = m'.s'[j].rdata (same backing array) *)

Definition rec_at (H : heap) (m : nat) (s : sec) (i : nat) : option nat :=
  nth_error (dat (ha H) (sec_arr (dat (hm H) m) s)) i.

Definition link_src (mu : mutation) : option nat :=
  match mu with
  | MLinkRec _ _ h' _ _ | MLinkData _ _ h' _ _ => Some h'
  | _ => None
  end.

(** [m]: the mutated message; [m']: the message a link mutation takes its
    reference from (ignored by the others). New objects belong to the region of [m]. *)
Definition mutate (H : heap) (m m' : nat) (mu : mutation) : heap :=
  let mo := dat (hm H) m in
  let o := own (hm H) m in
  match mu with
  | MSetId v => put_m m (mkmsg v (m_hdr mo) (m_q mo) (m_an mo) (m_ns mo) (m_ex mo)) H
  | MSetHdr v => put_m m (mkmsg (m_id mo) v (m_q mo) (m_an mo) (m_ns mo) (m_ex mo)) H
  | MSetQ q => put_m m (mkmsg (m_id mo) (m_hdr mo) q (m_an mo) (m_ns mo) (m_ex mo)) H
  | MSetTtl s i v =>
    match rec_at H m s i with
    | Some r => let ro := dat (hr H) r in put_r r (mkrec (r_name ro) (r_type ro) v (r_data ro)) H
    | None => H
    end
  | MSetName s i v =>
    match rec_at H m s i with
    | Some r => let ro := dat (hr H) r in put_r r (mkrec v (r_type ro) (r_ttl ro) (r_data ro)) H
    | None => H
    end
  | MSetType s i v =>
    match rec_at H m s i with
    | Some r => let ro := dat (hr H) r in put_r r (mkrec (r_name ro) v (r_ttl ro) (r_data ro)) H
    | None => H
    end
  | MSetByte s i j b =>
    match rec_at H m s i with
    | Some r => let bid := r_data (dat (hr H) r) in put_b bid (set_nth j b (dat (hb H) bid)) H
    | None => H
    end
  | MNewData s i d =>
    match rec_at H m s i with
    | Some r =>
      let '(H1, b) := alloc_b o d H in
      let ro := dat (hr H) r in put_r r (mkrec (r_name ro) (r_type ro) (r_ttl ro) b) H1
    | None => H
    end
  | MAppend s v =>
    let a := sec_arr mo s in
    let '(H1, r) := new_rec o H v in
    put_a a (dat (ha H) a ++ [r]) H1
  | MTrunc s n =>
    let a := sec_arr mo s in put_a a (firstn n (dat (ha H) a)) H
  | MDelete s i =>
    let a := sec_arr mo s in put_a a (del_nth i (dat (ha H) a)) H
  | MLinkRec s i _ s' j =>
    match rec_at H m' s' j with
    | Some r' => let a := sec_arr mo s in put_a a (set_nth i r' (dat (ha H) a)) H
    | None => H
    end
  | MLinkData s i _ s' j =>
    match rec_at H m s i, rec_at H m' s' j with
    | Some r, Some r' =>
      let ro := dat (hr H) r in
      put_r r (mkrec (r_name ro) (r_type ro) (r_ttl ro) (r_data (dat (hr H) r'))) H
    | _, _ => H
    end
  end.

(** * The cache and the histories *)

(** [cache]: key -> the cache's private message (newest binding first; the
    backend compares keys by equality, sharding is invisible here).
    [handles]: every message a caller ever passed in or was handed, in order.
    [served]: per lookup, what it returned, as the value it had when returned. *)
Record state := mkst {
  hp : heap; cache : list (N * nat); handles : list nat; served : list (option mval) }.

Definition init : state := mkst empty_heap [] [] [].

Fixpoint lookup (k : N) (c : list (N * nat)) : option nat :=
  match c with
  | [] => None
  | (k', v) :: t => if k =? k' then Some v else lookup k t
  end.
Fixpoint remove (k : N) (c : list (N * nat)) : list (N * nat) :=
  match c with
  | [] => []
  | (k', v) :: t => if k =? k' then remove k t else (k', v) :: remove k t
  end.

(** The tail of Cache.Exec / doLazyUpdate for a response [m] to a query with key
    [k]: "answersQuestion(r, q)", then saveRespToCache: refused responses leave
    the cache alone, otherwise "item{resp: copyNoOpt(r)}" replaces the entry.
    The caller's [m] itself is not kept. *)
Definition save (k : N) (m : nat) (s : state) : state :=
  let v := value (hp s) m in
  if answers v k && admissible v then
    let '(H1, c) := copy_no_opt (hp s) m in
    mkst H1 ((k, c) :: cache s) (handles s) (served s)
  else s.

Inductive op :=
  (** the rest of the chain, working for client [c], builds a response with the
      value [v], keeps it (it is what the client is sent), and the cache is
      offered it under the key [k] *)
| Store (c : nat) (k : N) (v : mval)
  (** the cache is offered a message somebody already holds (handle index [h]) *)
| Restore (k : N) (h : nat)
  (** getRespFromCache + "cachedResp.Id = q.Id" for client [c], query id [q];
      [a] says which TTL rewriting the lookup applied (how much time had
      passed, or the lazy path: timing is property C05) *)
| Hit (c : nat) (k : N) (q : N) (a : ttl_adj)
  (** the holder of handle [h] writes to it *)
| Mutate (h : nat) (mu : mutation)
  (** the entry under [k] disappears (expiry, eviction) *)
| Drop (k : N)
| Flush
  (** writeDump (GET /dump, Close, the periodic dump): every stored message is
      read (packed); nothing the cache keeps may change *)
| Dump
  (** readDump (dump_file at start-up, POST /load_dump): for every entry of the
      dump, in order, "resp := new(dns.Msg); resp.Unpack(...)" builds a message
      of its own and the backend stores it under the entry's key. [l] is the
      list of (key, value of the unpacked message). Dumps are written from
      stored messages, which carry no OPT in the additional section
      (cached_has_no_opt): [strip_opt] is the identity on them. *)
| Load (l : list (N * mval)).

(** One entry of a dump: a new message in the cache's region, stored under its key. *)
Definition load_one (s : state) (e : N * mval) : state :=
  let '(H1, c) := new_msg O (hp s) (strip_opt (snd e)) in
  mkst H1 ((fst e, c) :: cache s) (handles s) (served s).

Definition step (s : state) (o : op) : state :=
  match o with
  | Store c k v =>
    let '(H1, m) := new_msg (S c) (hp s) v in
    save k m (mkst H1 (cache s) (handles s ++ [m]) (served s))
  | Restore k h =>
    match nth_error (handles s) h with
    | Some m => save k m s
    | None => s
    end
  | Hit c k q a =>
    match lookup k (cache s) with
    | None => mkst (hp s) (cache s) (handles s) (served s ++ [None])
    | Some item =>
      let '(H1, m) := copy_msg (S c) (hp s) item in        (* r := v.resp.Copy() *)
      let H2 := adjust_msg a H1 m in                       (* SubtractTTL / SetTTL on r *)
      let mo := dat (hm H2) m in
      let H3 := put_m m (mkmsg q (m_hdr mo) (m_q mo) (m_an mo) (m_ns mo) (m_ex mo)) H2 in  (* r.Id = q.Id *)
      mkst H3 (cache s) (handles s ++ [m]) (served s ++ [Some (value H3 m)])
    end
  | Mutate h mu =>
    match nth_error (handles s) h with
    | None => s
    | Some m =>
      match link_src mu with
      | None => mkst (mutate (hp s) m m mu) (cache s) (handles s) (served s)
      | Some h' =>
        (* a holder can only store references it can reach: the source is a
           message of the same client *)
        match nth_error (handles s) h' with
        | Some m' =>
          if Nat.eqb (own (hm (hp s)) m') (own (hm (hp s)) m)
          then mkst (mutate (hp s) m m' mu) (cache s) (handles s) (served s)
          else s
        | None => s
        end
      end
    end
  | Drop k => mkst (hp s) (remove k (cache s)) (handles s) (served s)
  | Flush => mkst (hp s) [] (handles s) (served s)
  | Dump => s
  | Load l => fold_left load_one l s
  end.

Definition run_from (s : state) (ops : list op) : state := fold_left step ops s.
Definition run (ops : list op) : state := run_from init ops.

(** What the cache would serve for [k], as a value. *)
Definition cache_val (s : state) (k : N) : option mval :=
  option_map (value (hp s)) (lookup k (cache s)).

(** What a dump taken now holds for the keys [keys]. *)
Definition dump_of (s : state) (keys : list N) : list (N * mval) :=
  flat_map (fun k => match cache_val s k with Some v => [(k, v)] | None => [] end) keys.

(** What a key maps to after loading [l] over [old]: the last entry for it wins. *)
Definition loaded (k : N) (l : list (N * mval)) (old : option mval) : option mval :=
  fold_left (fun acc e => if k =? fst e then Some (strip_opt (snd e)) else acc) l old.

(** The region (client) an operation acts for; 0 for the cache's own steps. *)
Definition owner (s : state) (m : nat) : nat := own (hm (hp s)) m.
Definition actor (s : state) (o : op) : nat :=
  match o with
  | Store c _ _ => S c
  | Hit c _ _ _ => S c
  | Mutate h _ => match nth_error (handles s) h with Some m => owner s m | None => O end
  | _ => O
  end.

Definition is_mutate (o : op) : bool := match o with Mutate _ _ => true | _ => false end.
Definition is_restore (o : op) : bool := match o with Restore _ _ => true | _ => false end.
Definition erase_mutations (ops : list op) : list op := filter (fun o => negb (is_mutate o)) ops.

(** * Cache.Exec as a sequence of the steps above *)

(** What the rest of the chain leaves in the context. *)
Inductive down :=
| DKeep                 (* nothing new: the cached response, or none *)
| DNew (v : mval)       (* a response it built *)
| DOld (h : nat).       (* a message somebody already holds *)

(** Exec for client [c]: lookup (a hit is handed to the rest of the chain), then
    "r := qCtx.R(); r != nil && cachedResp != r && answersQuestion(r, q)" -> save.
    With [DKeep] either r is nil or r is cachedResp. *)
Definition exec_ops (c : nat) (k q : N) (a : ttl_adj) (d : down) : list op :=
  Hit c k q a ::
  match d with
  | DKeep => []
  | DNew v => [Store c k v]
  | DOld h => [Restore k h]
  end.
