(** The ID-multiplexed connection pkg/upstream/transport/conn_traditional.go
    (TraditionalDnsConn: plain UDP, pipelined TCP/DoT) as a labelled transition
    system. One label per shared-state access of the Go code (mutex-protected
    block, channel operation, atomic flag access). The scheduler, the server,
    faults and cancellation are the choice of the label list.

    Executable model only; proofs are in Proofs/Tdc.v. Serves C01, C02, C09, C07. *)
From Verif Require Import Base.Prelude Gen.Constants.
Open Scope N_scope.

Definition wrap16 (x : N) : N := x mod 65536.

(** Error classes a call can return. *)
Inductive err := EClosed | ECtx | EWrite | ERead | ETooMany.

(** A reply frame as the reader sees it. [rwid]: the 16-bit id on the wire;
    [rid]: the id field of the buffer (rewritten to the caller's id on return);
    [rtag]: the payload; [rfor] (ghost): which call's query the server answered
    ([None] = a stray the server made up). *)
Record reply := mkReply { rwid : N; rid : N; rtag : N; rfor : option nat }.

Inductive result :=
| ROk (r : reply)
| RErr (e : err)
| RRefused (conn_closed : bool)   (* ReserveNewQuery returned no exchanger *)
| RWithdrawn.

Inductive pc :=
| PIdle                (* not started *)
| PReserved            (* holds a reservation *)
| PChecked             (* exchange: passed the closeNotify poll *)
| PRegistered          (* addQueueC done: entry in the waiter table *)
| PWriting             (* inside c.Write: the server can already see the query *)
| PWritten             (* Write returned nil *)
| PWaiting             (* in the final select *)
| PResending           (* UDP: inside the resend Write *)
| PExiting (e : err)   (* an error exit was chosen; takeResp comes next *)
| PDone.

Record call := mkCall {
  cpc : pc;
  cwid : N;                 (* assigned wire id *)
  corig : N;                (* caller's message id *)
  cbuf : option reply;      (* the 1-slot reply channel *)
  cctx : bool;              (* context done *)
  cres : option result;
  cgot : option reply;      (* ghost: first reply handed to this call *)
  csent : bool              (* ghost: the query has reached the wire *)
}.

Definition call0 : call := mkCall PIdle 0 0 None false None None false.

Inductive arm := ArmIdle | ArmWaiting.

Record st := mkSt {
  closed : bool;
  close_err : err;
  queue : N -> option nat;      (* waiter table: wire id -> call *)
  next_qid : N;
  reserved : N;                 (* reservedQuery *)
  qlen : N;                     (* len(queue) *)
  max_cq : N;
  is_tcp : bool;
  calls : nat -> call;
  live : list nat;              (* calls between a successful Reserve and their return *)
  hold : option reply;          (* reader: frame read, not yet dispatched *)
  htarget : option (option nat);(* reader: result of the waiter lookup *)
  reader_dead : bool;
  waiting_resp : bool;
  arms : list arm               (* read-deadline arming history, newest first *)
}.

Definition init (maxcq : N) (tcp : bool) (nq : N) : st :=
  mkSt false EClosed (fun _ => None) nq 0 0 maxcq tcp (fun _ => call0) [] None None false false [ArmIdle].

Definition upd {A} (f : nat -> A) (k : nat) (v : A) : nat -> A :=
  fun x => if Nat.eqb x k then v else f x.
Definition updN {A} (f : N -> A) (k : N) (v : A) : N -> A :=
  fun x => if N.eqb x k then v else f x.

Fixpoint remove_nat (c : nat) (l : list nat) : list nat :=
  match l with
  | [] => []
  | x :: t => if Nat.eqb x c then remove_nat c t else x :: remove_nat c t
  end.
Fixpoint mem_nat (c : nat) (l : list nat) : bool :=
  match l with
  | [] => false
  | x :: t => Nat.eqb x c || mem_nat c t
  end.

(** addQueueC's loop: up to [fuel] candidates next_qid, next_qid+1, … (mod
    2^16), skipping ids still in the waiter table. Returns the id (if any) and
    the new next_qid. *)
Fixpoint alloc (fuel : nat) (q : N -> option nat) (nq : N) : option N * N :=
  match fuel with
  | O => (None, nq)
  | S f =>
    match q nq with
    | None => (Some nq, wrap16 (nq + 1))
    | Some _ => alloc f q (wrap16 (nq + 1))
    end
  end.
Arguments alloc : simpl never.

Inductive sel := SelReply | SelCtx | SelClose | SelResend.

Inductive label :=
| LReserve (c : nat) (orig : N)
| LWithdraw (c : nat)
| LCheck (c : nat)
| LAdd (c : nat)
| LWriteBegin (c : nat)
| LWriteEnd (c : nat) (ok : bool)
| LArm (c : nat)
| LSelect (c : nat) (k : sel)
| LResendEnd (c : nat) (ok : bool)
| LTake (c : nat)
| LCtx (c : nat)
| LRecv (r : reply)
| LLookup
| LHandoff
| LRecvErr
| LClose.

(** Record updates. *)
Definition set_calls (s : st) (f : nat -> call) : st :=
  mkSt (closed s) (close_err s) (queue s) (next_qid s) (reserved s) (qlen s) (max_cq s) (is_tcp s)
       f (live s) (hold s) (htarget s) (reader_dead s) (waiting_resp s) (arms s).
Definition set_call (s : st) (c : nat) (v : call) : st := set_calls s (upd (calls s) c v).

Definition with_pc (k : call) (p : pc) : call :=
  mkCall p (cwid k) (corig k) (cbuf k) (cctx k) (cres k) (cgot k) (csent k).

Definition close_with (e : err) (s : st) : st :=
  if closed s then s else
  mkSt true e (queue s) (next_qid s) (reserved s) (qlen s) (max_cq s) (is_tcp s)
       (calls s) (live s) (hold s) (htarget s) (reader_dead s) (waiting_resp s) (arms s).

Definition restore (k : call) (r : reply) : reply := mkReply (rwid r) (corig k) (rtag r) (rfor r).

(** A call that never got a waiter entry ends: the reservation is released. *)
Definition end_unregistered (s : st) (c : nat) (res : result) : st :=
  let k := calls s c in
  mkSt (closed s) (close_err s) (queue s) (next_qid s) (reserved s - 1) (qlen s) (max_cq s) (is_tcp s)
       (upd (calls s) c (mkCall PDone (cwid k) (corig k) None (cctx k) (Some res) (cgot k) (csent k)))
       (remove_nat c (live s)) (hold s) (htarget s) (reader_dead s) (waiting_resp s) (arms s).

(** A registered call returns: the deferred deleteQueueC runs. *)
Definition finish (s : st) (c : nat) (res : result) : st :=
  let k := calls s c in
  mkSt (closed s) (close_err s) (updN (queue s) (cwid k) None) (next_qid s) (reserved s) (qlen s - 1)
       (max_cq s) (is_tcp s)
       (upd (calls s) c (mkCall PDone (cwid k) (corig k) None (cctx k) (Some res) (cgot k) (csent k)))
       (remove_nat c (live s)) (hold s) (htarget s) (reader_dead s) (waiting_resp s) (arms s).

Definition pc_eqb (a b : pc) : bool :=
  match a, b with
  | PIdle, PIdle | PReserved, PReserved | PChecked, PChecked | PRegistered, PRegistered
  | PWriting, PWriting | PWritten, PWritten | PWaiting, PWaiting | PResending, PResending
  | PDone, PDone => true
  | _, _ => false
  end.

Definition step (s : st) (l : label) : option st :=
  match l with
  | LReserve c orig =>
    let k := calls s c in
    if pc_eqb (cpc k) PIdle && negb (mem_nat c (live s)) then
      if closed s then
        Some (set_call s c (mkCall PDone 0 orig None (cctx k) (Some (RRefused true)) None false))
      else if max_cq s <=? qlen s + reserved s then
        Some (set_call s c (mkCall PDone 0 orig None (cctx k) (Some (RRefused false)) None false))
      else
        Some (mkSt (closed s) (close_err s) (queue s) (next_qid s) (reserved s + 1) (qlen s) (max_cq s)
                   (is_tcp s) (upd (calls s) c (mkCall PReserved 0 orig None (cctx k) None None false))
                   (c :: live s) (hold s) (htarget s) (reader_dead s) (waiting_resp s) (arms s))
    else None
  | LWithdraw c =>
    if pc_eqb (cpc (calls s c)) PReserved then Some (end_unregistered s c RWithdrawn) else None
  | LCheck c =>
    let k := calls s c in
    if pc_eqb (cpc k) PReserved then
      if closed s then Some (end_unregistered s c (RErr EClosed))
      else Some (set_call s c (with_pc k PChecked))
    else None
  | LAdd c =>
    let k := calls s c in
    if pc_eqb (cpc k) PChecked then
      match alloc (N.to_nat qid_tries) (queue s) (next_qid s) with
      | (Some w, nq) =>
        Some (mkSt (closed s) (close_err s) (updN (queue s) w (Some c)) nq (reserved s - 1) (qlen s + 1)
                   (max_cq s) (is_tcp s)
                   (upd (calls s) c (mkCall PRegistered w (corig k) None (cctx k) None None false))
                   (live s) (hold s) (htarget s) (reader_dead s) (waiting_resp s) (arms s))
      | (None, nq) =>
        let s' := end_unregistered s c (RErr ETooMany) in
        Some (mkSt (closed s') (close_err s') (queue s') nq (reserved s') (qlen s') (max_cq s') (is_tcp s')
                   (calls s') (live s') (hold s') (htarget s') (reader_dead s') (waiting_resp s') (arms s'))
      end
    else None
  | LWriteBegin c =>
    let k := calls s c in
    if pc_eqb (cpc k) PRegistered then
      Some (set_call s c (mkCall PWriting (cwid k) (corig k) (cbuf k) (cctx k) (cres k) (cgot k) true))
    else None
  | LWriteEnd c ok =>
    let k := calls s c in
    if pc_eqb (cpc k) PWriting then
      if ok then Some (set_call s c (with_pc k PWritten))
      else let s' := close_with EWrite s in Some (set_call s' c (with_pc k (PExiting EWrite)))
    else None
  | LArm c =>
    let k := calls s c in
    if pc_eqb (cpc k) PWritten then
      let f := upd (calls s) c (with_pc k PWaiting) in
      if waiting_resp s then Some (set_calls s f)
      else Some (mkSt (closed s) (close_err s) (queue s) (next_qid s) (reserved s) (qlen s) (max_cq s)
                      (is_tcp s) f (live s) (hold s) (htarget s) (reader_dead s) true (ArmWaiting :: arms s))
    else None
  | LSelect c sl =>
    let k := calls s c in
    if pc_eqb (cpc k) PWaiting then
      match sl with
      | SelReply => match cbuf k with Some r => Some (finish s c (ROk (restore k r))) | None => None end
      | SelCtx => if cctx k then Some (set_call s c (with_pc k (PExiting ECtx))) else None
      | SelClose => if closed s then Some (set_call s c (with_pc k (PExiting (close_err s)))) else None
      | SelResend => if is_tcp s then None else Some (set_call s c (with_pc k PResending))
      end
    else None
  | LResendEnd c ok =>
    let k := calls s c in
    if pc_eqb (cpc k) PResending then
      if ok then Some (set_call s c (with_pc k PWaiting))
      else let s' := close_with EWrite s in Some (set_call s' c (with_pc k (PExiting EWrite)))
    else None
  | LTake c =>
    let k := calls s c in
    match cpc k with
    | PExiting e =>
      Some (finish s c (match cbuf k with Some r => ROk (restore k r) | None => RErr e end))
    | _ => None
    end
  | LCtx c =>
    let k := calls s c in
    Some (set_call s c (mkCall (cpc k) (cwid k) (corig k) (cbuf k) true (cres k) (cgot k) (csent k)))
  | LRecv r =>
    if negb (reader_dead s) then
      match hold s with
      | None => Some (mkSt (closed s) (close_err s) (queue s) (next_qid s) (reserved s) (qlen s) (max_cq s)
                           (is_tcp s) (calls s) (live s) (Some r) None (reader_dead s) false (arms s))
      | Some _ => None
      end
    else None
  | LLookup =>
    match hold s, htarget s with
    | Some r, None =>
      Some (mkSt (closed s) (close_err s) (queue s) (next_qid s) (reserved s) (qlen s) (max_cq s)
                 (is_tcp s) (calls s) (live s) (hold s) (Some (queue s (rwid r))) (reader_dead s)
                 (waiting_resp s) (arms s))
    | _, _ => None
    end
  | LHandoff =>
    match hold s, htarget s with
    | Some r, Some t =>
      let f :=
        match t with
        | Some c =>
          let k := calls s c in
          match cbuf k, cres k with
          | None, None =>
            upd (calls s) c (mkCall (cpc k) (cwid k) (corig k) (Some r) (cctx k) (cres k)
                                    (match cgot k with None => Some r | g => g end) (csent k))
          | _, _ => calls s      (* channel full, or the call has returned: released *)
          end
        | None => calls s        (* unknown id: released *)
        end in
      Some (mkSt (closed s) (close_err s) (queue s) (next_qid s) (reserved s) (qlen s) (max_cq s)
                 (is_tcp s) f (live s) None None (reader_dead s) (waiting_resp s) (ArmIdle :: arms s))
    | _, _ => None
    end
  | LRecvErr =>
    if negb (reader_dead s) then
      match hold s with
      | None =>
        let s' := close_with ERead s in
        Some (mkSt (closed s') (close_err s') (queue s') (next_qid s') (reserved s') (qlen s') (max_cq s')
                   (is_tcp s') (calls s') (live s') None None true (waiting_resp s') (arms s'))
      | Some _ => None
      end
    else None
  | LClose => Some (close_with EClosed s)
  end.

Fixpoint run (s : st) (ls : list label) : option st :=
  match ls with
  | [] => Some s
  | l :: t => match step s l with Some s' => run s' t | None => None end
  end.

(** What the property assumes about the peer (checked along a run, never
    about the code): a reply the server produced for call [c] carries the wire
    id under which [c]'s query was written and exists only after that write
    began; when the reader looks a frame up, its wire id has not been
    re-assigned to a different call (the scope clause of C01: a late reply
    arrives before 65536 further queries reuse its id); a stray frame's id
    matches no outstanding query. *)
Definition env_ok_step (s : st) (l : label) : Prop :=
  match l with
  | LRecv r =>
    match rfor r with
    | Some c => csent (calls s c) = true /\ rwid r = cwid (calls s c)
    | None => True
    end
  | LLookup =>
    match hold s with
    | Some r =>
      match rfor r with
      | Some c => forall c', queue s (rwid r) = Some c' -> c' = c
      | None => queue s (rwid r) = None
      end
    | None => True
    end
  | _ => True
  end.

Fixpoint env_ok (s : st) (ls : list label) : Prop :=
  match ls with
  | [] => True
  | l :: t => env_ok_step s l /\ match step s l with Some s' => env_ok s' t | None => True end
  end.
