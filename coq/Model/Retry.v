(** The retry loops of PipelineTransport.ExchangeContext and
    ReuseConnTransport.ExchangeContext (pkg/upstream/transport/pipeline.go,
    reuse.go) as a function of what the environment (pool, dialer, server,
    caller's context) hands to each attempt. The shape of the retry condition
    and the constants are regenerated from the source (Gen.RetryFacts,
    Gen.Constants). Executable model only. *)
From Verif Require Import Base.Prelude Gen.Constants Gen.RetryFacts.
Open Scope N_scope.

Record cfg := mkCfg {
  max_retry : N;        (* maxRetry *)
  strict : bool;        (* retry < maxRetry (true) or retry <= maxRetry (false) *)
  checks_ctx : bool;    (* the condition also requires ctx.Err() == nil *)
  only_reused : bool    (* the condition requires !isNewConn *)
}.

Definition pipeline_cfg : cfg :=
  mkCfg pipeline_max_retry pipeline_retry_strict pipeline_retry_checks_ctx pipeline_retry_only_reused.
Definition reuse_cfg : cfg :=
  mkCfg reuse_max_retry reuse_retry_strict reuse_retry_checks_ctx reuse_retry_only_reused.

(** One pass through the loop body. [Acquire failed]: no connection could be
    obtained (transport closed, dial failed, context ended while dialing, the
    new connection refused the reservation). Otherwise one exchange on a
    connection that was opened for this call ([a_new]) or taken from the pool. *)
Record attempt := mkAtt {
  a_new : bool;       (* the connection was opened for this call *)
  a_ok : bool;        (* the exchange returned a reply *)
  a_ctx_dead : bool   (* the caller's context had ended when the exchange failed *)
}.
Inductive pass := AcqFail | Exch (a : attempt).

Inductive final := FOk | FErr | FAcq | FMore.

(** Number of retries the condition allows. *)
Definition allowed (c : cfg) : N := if strict c then max_retry c else max_retry c + 1.

Definition may_retry (c : cfg) (retry : N) (a : attempt) : bool :=
  (negb (only_reused c) || negb (a_new a))
  && (if strict c then retry <? max_retry c else retry <=? max_retry c)
  && (negb (checks_ctx c) || negb (a_ctx_dead a)).

(** Result and number of passes consumed. [FMore]: the script ended while
    the loop would go on (the call is still running). *)
Fixpoint loop (c : cfg) (retry : N) (sc : list pass) : final * nat :=
  match sc with
  | [] => (FMore, 0%nat)
  | AcqFail :: _ => (FAcq, 1%nat)
  | Exch a :: rest =>
    if a_ok a then (FOk, 1%nat)
    else if may_retry c retry a then
      let '(f, n) := loop c (retry + 1) rest in (f, S n)
    else (FErr, 1%nat)
  end.

Definition exchanges (sc : list pass) : nat :=
  length (filter (fun p => match p with Exch _ => true | AcqFail => false end) sc).
