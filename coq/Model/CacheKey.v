(** C04 — the cache key and the keyed store of the cache plugin, as implemented by
    plugin/executable/cache/utils.go (getMsgKey, answersQuestion),
    plugin/executable/cache/cache.go (Cache.Exec),
    pkg/cache/cache.go + pkg/concurrent_map/map.go (the store behind it) and
    pkg/query_context/context.go (NewContext: what the cache sees as "the query").

    Executable model only; the proofs are in Proofs/CacheKey.v. *)
From Verif Require Import Base.Prelude Gen.Constants.
Open Scope N_scope.

(** * Messages, as far as the cache key looks at them *)

(** dns.Question: the name is the Go string miekg/dns holds (presentation
    format, any bytes, any length — an escaped name can be far longer than the
    255 octets of the wire format); Qtype and Qclass are uint16. *)
Record question := mkqu { qname : bytes; qtype : N; qclass : N }.

(** One record of the additional section: an OPT pseudo record with the value
    of its Hdr.Ttl field (which carries the DO bit), or anything else. *)
Inductive extra_rr := XOpt (ttl : N) | XOther.

Record qmsg := mkq {
  q_qr : bool;                  (* MsgHdr.Response *)
  q_opcode : N;                 (* MsgHdr.Opcode *)
  q_ad : bool;                  (* MsgHdr.AuthenticatedData *)
  q_cd : bool;                  (* MsgHdr.CheckingDisabled *)
  q_question : list question;   (* Msg.Question *)
  q_extra : list extra_rr       (* Msg.Extra *)
}.

Definition question_eqb (a b : question) : bool :=
  list_eqb N.eqb (qname a) (qname b) && (qtype a =? qtype b) && (qclass a =? qclass b).

(** dns.Msg.IsEdns0: scans Extra from the LAST record backwards and returns the
    first OPT it meets, i.e. the last OPT of the section. *)
Fixpoint is_edns0 (ex : list extra_rr) : option N :=
  match ex with
  | [] => None
  | x :: t =>
    match is_edns0 t with
    | Some o => Some o
    | None => match x with XOpt ttl => Some ttl | XOther => None end
    end
  end.

(** dns.OPT.Do: Hdr.Ttl & (1<<15) == 1<<15 *)
Definition opt_do (ttl : N) : bool := N.land ttl 32768 =? 32768.

Definition msg_do (q : qmsg) : bool :=
  match is_edns0 (q_extra q) with Some ttl => opt_do ttl | None => false end.

(** * getMsgKey *)

Definition opcode_query : N := 0.          (* dns.OpcodeQuery *)
Definition u8 (n : N) : N := n mod 256.    (* Go's byte(x) conversion *)

(** b := 0; if AD { b |= adBit }; if CD { b |= cdBit }; if DO { b |= doBit } *)
Definition flag_byte (ad cd do : bool) : N :=
  let b := 0 in
  let b := if ad then N.lor b cache_key_ad_bit else b in
  let b := if cd then N.lor b cache_key_cd_bit else b in
  let b := if do then N.lor b cache_key_do_bit else b in
  u8 b.

(** The six fixed bytes in front of the name: flags, qtype (big endian),
    qclass (big endian), byte(len(name)) — the length byte wraps at 256. *)
Definition key_prefix_len : nat := 6.
Definition key_of (ad cd do : bool) (qu : question) : bytes :=
  flag_byte ad cd do
  :: u8 (qtype qu / 256) :: u8 (qtype qu)
  :: u8 (qclass qu / 256) :: u8 (qclass qu)
  :: u8 (len (qname qu))
  :: qname qu.

(** getMsgKey: [[]] stands for the empty string "do not cache". *)
Definition get_msg_key (q : qmsg) : bytes :=
  if q_qr q || negb (q_opcode q =? opcode_query) || negb (length (q_question q) =? 1)%nat then []
  else
    match q_question q with
    | qu :: _ => key_of (q_ad q) (q_cd q) (msg_do q) qu
    | [] => []
    end.

(** The key as Cache.Exec uses it: [len(msgKey) == 0] skips the cache. *)
Definition msg_key (q : qmsg) : option bytes :=
  match get_msg_key q with
  | [] => None
  | k => Some k
  end.

(** * The bypass rule as the property states it *)

(** Queries that never touch the cache: QR set, opcode other than QUERY, or a
    number of questions other than one. *)
Definition bypasses (q : qmsg) : bool :=
  q_qr q || negb (q_opcode q =? 0) ||
  match q_question q with [_] => false | _ => true end.

(** * query_context.NewContext *)

(** addNewAndSwapOldOpt: the last OPT of the additional section is replaced in
    place by a fresh OPT (newOpt: Hdr.Ttl = 0), or a fresh OPT is appended when
    there is none. Returns the new section and the client's OPT. *)
Fixpoint swap_last_opt (ex : list extra_rr) : option (list extra_rr * N) :=
  match ex with
  | [] => None
  | x :: t =>
    match swap_last_opt t with
    | Some (t', o) => Some (x :: t', o)
    | None => match x with XOpt ttl => Some (XOpt 0 :: t, ttl) | XOther => None end
    end
  end.

Definition ctx_extra (ex : list extra_rr) : list extra_rr :=
  match swap_last_opt ex with
  | Some (ex', _) => ex'
  | None => ex ++ [XOpt 0]
  end.

(** The message [qCtx.Q()] returns for a client message [q]. *)
Definition ctx_query (q : qmsg) : qmsg :=
  mkq (q_qr q) (q_opcode q) (q_ad q) (q_cd q) (q_question q) (ctx_extra (q_extra q)).

(** * Responses and the store *)

(** A response as far as the store path of Cache.Exec looks at it: its question
    section (answersQuestion), whether saveRespToCache accepts it ([r_ok]: not
    truncated, an rcode and TTL that give a positive lifetime — the details are
    property C05's), and an identity so that a served answer can be traced to
    the execution that stored it. *)
Record resp := mkr { r_question : list question; r_ok : bool; r_id : N }.

(** answersQuestion(r, q) *)
Definition answers_question (r : resp) (q : qmsg) : bool :=
  match r_question r, q_question q with
  | [a], [b] => question_eqb a b
  | _, _ => false
  end.

(** concurrent_map keyed by the key string: an association list, newest
    binding first. Shards are selected by a hash of the key and compared by
    string equality, so sharding is invisible here. *)
Definition store := list (bytes * resp).

Fixpoint lookup (k : bytes) (st : store) : option resp :=
  match st with
  | [] => None
  | (k', v) :: t => if list_eqb N.eqb k k' then Some v else lookup k t
  end.

Definition set (k : bytes) (v : resp) (st : store) : store := (k, v) :: st.

Fixpoint remove (k : bytes) (st : store) : store :=
  match st with
  | [] => []
  | (k', v) :: t => if list_eqb N.eqb k k' then remove k t else (k', v) :: remove k t
  end.

Inductive outcome :=
| Bypass            (* the key is empty: the cache is skipped *)
| Miss              (* nothing under the key: the rest of the chain runs without a response *)
| Hit (v : resp).   (* the stored response is handed to the client / the rest of the chain *)

(** One step of the cache's life.
    [Query q on_miss on_hit] — Cache.Exec on the message [q] (= qCtx.Q());
    [on_miss] / [on_hit] is the NEW response the rest of the chain leaves in the
    context when it was entered without / with a cached response ([None]: it
    leaves the context's response alone, or clears it).
    [Drop k] — the entry under [k] disappears: expiry (Get deletes an expired
    entry, the gc loop), or eviction because a shard is full (shard.set deletes
    arbitrary entries).
    [Flush] — the /flush API. *)
Inductive op :=
| Query (q : qmsg) (on_miss on_hit : option resp)
| Drop (k : bytes)
| Flush.

(** Cache.Exec (lazy cache off; time-dependent behaviour is [Drop]). *)
Definition exec_query (st : store) (q : qmsg) (on_miss on_hit : option resp) : store * outcome :=
  match msg_key q with
  | None => (st, Bypass)
  | Some k =>
    let cached := lookup k st in
    let down := match cached with Some _ => on_hit | None => on_miss end in
    (* r := qCtx.R(); r != nil && cachedResp != r && answersQuestion(r, q) -> saveRespToCache *)
    let st' := match down with
               | Some r => if answers_question r q && r_ok r then set k r st else st
               | None => st
               end in
    (st', match cached with Some v => Hit v | None => Miss end)
  end.

Definition step (st : store) (o : op) : store * outcome :=
  match o with
  | Query q on_miss on_hit => exec_query st q on_miss on_hit
  | Drop k => (remove k st, Bypass)
  | Flush => ([], Bypass)
  end.

(** Run a history from the empty cache: final store and the outcome of every step. *)
Fixpoint run_from (st : store) (h : list op) : store * list outcome :=
  match h with
  | [] => (st, [])
  | o :: t =>
    let '(st1, out) := step st o in
    let '(st2, outs) := run_from st1 t in
    (st2, out :: outs)
  end.
Definition run (h : list op) : store * list outcome := run_from [] h.
Definition final (h : list op) : store := fst (run h).

(** What a query [q] is served after the history [h]. *)
Definition served (h : list op) (q : qmsg) : outcome :=
  snd (exec_query (final h) q None None).

(** writeDump / readDump: a dump is the content of the store (packed and
    unpacked again); loading it stores every dumped entry under its key — into a
    new cache ([fresh]) or on top of what the cache holds. *)
Definition reload (fresh : bool) (dump st : store) : store :=
  if fresh then dump else dump ++ st.

(** * The key derivation before commit 70156c0 (defect F3), kept only for the
    refutation examples: [byte(Qtype << 8)] is always 0 and the class is absent. *)
Definition legacy_key_of (ad cd do : bool) (qu : question) : bytes :=
  flag_byte ad cd do
  :: u8 ((qtype qu * 256) mod 65536) :: u8 (qtype qu)
  :: u8 (len (qname qu))
  :: qname qu.
