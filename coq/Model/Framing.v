(** C16 — RFC 1035 stream framing, as implemented by
    pkg/dnsutils/net_io.go (ReadRawMsgFromTCP, WriteRawMsgToTCP),
    pkg/pool/msg_buf.go (PackTCPBuffer) and
    pkg/upstream/transport/utils.go (copyMsgWithLenHdr).

    Executable model only; the proofs are in Proofs/Framing.v. *)
From Verif Require Import Base.Prelude Gen.Constants.
Open Scope N_scope.

(** Writers: a two byte big-endian length, then the message. All three Go
    writers refuse a message longer than [max_msg_size] (dns.MaxMsgSize). *)
Definition enc_len (n : N) : bytes := [n / 256; n mod 256].
Definition dec_len (h : bytes) : N := nth 0 h 0 * 256 + nth 1 h 0.

Definition frame (m : bytes) : option bytes :=
  if len m <=? max_msg_size then Some (enc_len (len m) ++ m) else None.

(** The byte stream as the reader sees it: what successive [Read] calls hand
    out. [Chunk c] — a read offers the bytes [c] (a read with a smaller buffer
    takes a prefix and leaves the rest; [Chunk []] is a zero-byte read);
    [Fail] — the read returns a non-EOF error; end of list — EOF. *)
Inductive rd := Chunk (c : bytes) | Fail.
Definition stream := list rd.

Inductive rerr := EEOF | EUnexpectedEOF | EIO | ETooSmall.
Inductive res (A : Type) := Ok (a : A) | Er (e : rerr).
Arguments Ok {A} a.
Arguments Er {A} e.

(** io.ReadFull(c, buf) with len(buf) = n. [got] = some byte was already read
    (decides between EOF and ErrUnexpectedEOF). *)
Fixpoint read_full_aux (got : bool) (n : nat) (s : stream) {struct s} : res bytes * stream :=
  match n with
  | O => (Ok [], s)
  | S _ =>
    match s with
    | [] => (Er (if got then EUnexpectedEOF else EEOF), [])
    | Fail :: t => (Er EIO, t)
    | Chunk c :: t =>
      if (length c <=? n)%nat then
        match read_full_aux (got || negb (length c =? 0)%nat) (n - length c) t with
        | (Ok r, s') => (Ok (c ++ r), s')
        | (Er e, s') => (Er e, s')
        end
      else (Ok (firstn n c), Chunk (skipn n c) :: t)
    end
  end.
Definition read_full (n : nat) (s : stream) := read_full_aux false n s.

(** dnsutils.ReadRawMsgFromTCP *)
Definition read_frame (s : stream) : res bytes * stream :=
  match read_full 2 s with
  | (Er e, s') => (Er e, s')
  | (Ok h, s') =>
    let l := dec_len h in
    if l <? min_frame_len then (Er ETooSmall, s')
    else read_full (N.to_nat l) s'
  end.

(** Read frames until the first error; [fuel] bounds the number of frames. *)
Fixpoint read_frames (fuel : nat) (s : stream) : list bytes * rerr :=
  match fuel with
  | O => ([], EIO)
  | S f =>
    match read_frame s with
    | (Ok m, s') => let '(ms, e) := read_frames f s' in (m :: ms, e)
    | (Er e, _) => ([], e)
    end
  end.

(** All the bytes the stream will ever deliver (up to the first failing read). *)
Fixpoint flat (s : stream) : bytes :=
  match s with
  | [] => []
  | Fail :: _ => []
  | Chunk c :: t => c ++ flat t
  end.
Fixpoint nofail (s : stream) : bool :=
  match s with
  | [] => true
  | Fail :: _ => false
  | Chunk _ :: t => nofail t
  end.

(** Cut a byte string into chunks of the given sizes (cyclically; a size of 0
    yields an empty chunk, i.e. a zero-byte read). Fuel = an upper bound on the
    number of chunks. *)
Fixpoint chunk_by (fuel : nat) (sizes cur : list nat) (b : bytes) : stream :=
  match fuel with
  | O => [Chunk b]
  | S f =>
    match b with
    | [] => []
    | _ =>
      match cur with
      | [] => match sizes with
              | [] => [Chunk b]
              | _ => chunk_by f sizes sizes b
              end
      | k :: cur' => Chunk (firstn k b) :: chunk_by f sizes cur' (skipn k b)
      end
    end
  end.
