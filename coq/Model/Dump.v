(** C19 — cache dumps, as implemented by plugin/executable/cache/cache.go
    (writeDump, readDump, dumpCache, loadDump, the /dump and /load_dump
    handlers), dump.proto (CachedEntry, CacheDumpBlock), pkg/cache/cache.go
    (Range, Store, Get) and plugin/executable/cache/utils.go
    (getRespFromCache).

    Executable model only; the proofs are in Proofs/Dump.v.

    Times are [Z]: nanoseconds since the epoch for in-memory [time.Time]
    values, whole seconds for the int64 fields of a dumped entry. gzip,
    protobuf and miekg Pack/Unpack are Section variables; their contracts are
    hypotheses of the theorems (Proofs/Dump.v), never assumed globally. *)
From Verif Require Import Base.Prelude Gen.Constants.
Open Scope N_scope.

Definition llen {A} (l : list A) : N := N.of_nat (length l).

(** ** Time conversions *)
Definition ns_per_s : Z := 1000000000%Z.
(** time.Time.Unix(): whole seconds, rounding towards minus infinity *)
Definition unix_s (t : Z) : Z := (t / ns_per_s)%Z.
(** time.Unix(s, 0) *)
Definition of_unix (s : Z) : Z := (s * ns_per_s)%Z.
(** what a time becomes by being dumped and loaded again *)
Definition trunc_s (t : Z) : Z := of_unix (unix_s t).

(** gzip header name, cache.go dumpHeader = "mosdns_cache_v2" *)
Definition dump_header : bytes :=
  [109; 111; 115; 100; 110; 115; 95; 99; 97; 99; 104; 101; 95; 118; 50].

(** dump.proto CachedEntry (field order of the .proto file) *)
Record entry := mkEntry {
  e_key : bytes;
  e_msg : bytes;
  e_cexp : Z;     (* cache_expiration_time, seconds *)
  e_mexp : Z;     (* msg_expiration_time, seconds *)
  e_stored : Z    (* msg_stored_time, seconds *)
}.

(** ** Block layer: binary.BigEndian.PutUint64 / Uint64 *)
Fixpoint be_enc (k : nat) (n : N) : bytes :=
  match k with
  | O => []
  | S k' => be_enc k' (n / 256) ++ [n mod 256]
  end.
Definition be_dec (b : bytes) : N := fold_left (fun acc x => acc * 256 + x) b 0.
Definition u64be (n : N) : bytes := be_enc 8 n.

(** writeBlock: 8 byte length, then the marshalled block *)
Definition enc_block (p : bytes) : bytes := u64be (len p) ++ p.
(** everything writeDump hands to the gzip writer *)
Definition plaintext (payloads : list bytes) : bytes := concat (map enc_block payloads).

(** The decompressed stream as readDump's [gr] delivers it: the bytes [p], and
    then either a clean io.EOF ([clean = true]) or some other error
    (io.ErrUnexpectedEOF of a truncated stream, a checksum or format error). *)
Inductive bstatus := BEof | BHdr | BBig | BBody | BFuel.

Inductive rb :=
| RbEof                                   (* errReadHeaderEOF: no more blocks *)
| RbErr (s : bstatus) (alloc : option N)  (* error; [alloc] = body buffer requested before it *)
| RbOk (payload rest : bytes) (u : N).

(** One call of readBlock, up to and including the second io.ReadFull.
    io.ReadFull(gr, 8 bytes): nothing delivered and clean end = io.EOF; nothing
    delivered and unclean end, or 1..7 bytes = an error that is not io.EOF.
    Then the size check, BEFORE pool.GetBuf(int(u)); then io.ReadFull of u
    bytes (u = 0 reads nothing and succeeds). *)
Definition read_block (p : bytes) (clean : bool) : rb :=
  if len p <? 8 then
    (if (len p =? 0) && clean then RbEof else RbErr BHdr None)
  else
    let u := be_dec (firstn 8 p) in
    let r := skipn 8 p in
    if cache_dump_max_block_len <? u then RbErr BBig None
    else if len r <? u then RbErr BBody (Some u)
    else RbOk (firstn (N.to_nat u) r) (skipn (N.to_nat u) r) u.

(** The read loop: payloads of the blocks read, sizes of the body buffers
    requested, and how the loop ended. [fuel] bounds the number of blocks;
    [BFuel] is excluded for fuel > length p (Proofs.Dump.read_blocks_fuel). *)
Fixpoint read_blocks (fuel : nat) (p : bytes) (clean : bool) : list bytes * list N * bstatus :=
  match fuel with
  | O => ([], [], BFuel)
  | S f =>
    match read_block p clean with
    | RbEof => ([], [], BEof)
    | RbErr s a => ([], match a with Some u => [u] | None => [] end, s)
    | RbOk pl rest u =>
      let '(ps, al, st) := read_blocks f rest clean in (pl :: ps, u :: al, st)
    end
  end.

Inductive lerr := EGzip | EName | EHdr | EBig | EBody | EDecode | EMsg | EFuel.
Inductive lres := LOk | LErr (e : lerr).

Definition status_res (st : bstatus) : lres :=
  match st with
  | BEof => LOk          (* err = nil; gr.Close() after a clean end is nil *)
  | BHdr => LErr EHdr
  | BBig => LErr EBig
  | BBody => LErr EBody
  | BFuel => LErr EFuel
  end.

(** gzip.NewReader + the reads: [GzErr] = NewReader failed; otherwise the
    header name, the plaintext delivered and how the stream ended. *)
Inductive gz_result := GzErr | GzOpen (name : bytes) (plain : bytes) (clean : bool).

Section Dump.
  (** in-memory DNS message; miekg Pack / Unpack *)
  Variable M : Type.
  Variable pack : M -> option bytes.
  Variable unpack : bytes -> option M.
  (** proto.Marshal / proto.Unmarshal on CacheDumpBlock *)
  Variable marshal : list entry -> bytes.
  Variable unmarshal : bytes -> option (list entry).
  (** proto.Size of one CachedEntry *)
  Variable esz : entry -> N.
  (** gzip writer (header name, plaintext -> file) and reader *)
  Variable gz : bytes -> bytes -> bytes.
  Variable gunzip : bytes -> gz_result.

  (** cache key, item{resp, storedTime, expirationTime} and the backend's
      expiration time of the element; all times in ns *)
  Record item := mkItem {
    i_key : bytes;
    i_msg : M;
    i_stored : Z;
    i_mexp : Z;
    i_cexp : Z
  }.
  (** the backend map in Range order *)
  Definition cache := list item.

  (** *** writeDump *)
  (** rangeFunc on one element: [Some None] = skipped (cacheExpirationTime.Before(now)),
      [None] = Pack failed (writeDump returns the error). *)
  Definition dump_entry (now : Z) (it : item) : option (option entry) :=
    if (i_cexp it <? now)%Z then Some None
    else match pack (i_msg it) with
         | None => None
         | Some b => Some (Some (mkEntry (i_key it) b (unix_s (i_cexp it))
                                         (unix_s (i_mexp it)) (unix_s (i_stored it))))
         end.

  (** blockBytes: the writer's upper bound of the marshalled size of a block *)
  Definition sum_sz (b : list entry) : N := fold_right (fun e a => esz e + 16 + a) 0 b.

  (** The Range loop. [cur] = block.Entries so far, [bb] = blockBytes. A block
      is written BEFORE appending when it is non-empty and the entry would take
      the size bound past dumpMaximumBlockLength, and AFTER appending when it
      holds dumpBlockSize entries. Result: the blocks written and whether
      writeDump got to gw.Close() (false: a Pack error aborted it, the open
      block is lost and the gzip stream is left unfinished). *)
  Fixpoint dump_loop (now : Z) (c : cache) (cur : list entry) (bb : N) : list (list entry) * bool :=
    match c with
    | [] => (match cur with [] => [] | _ => [cur] end, true)
    | it :: t =>
      match dump_entry now it with
      | None => ([], false)
      | Some None => dump_loop now t cur bb
      | Some (Some e) =>
        let es := esz e + 16 in
        let early := match cur with [] => false | _ => cache_dump_max_block_len <? bb + es end in
        let pre := if early then [cur] else [] in
        let cur' := (if early then [] else cur) ++ [e] in
        let bb' := (if early then 0 else bb) + es in
        let '(bs, ok) := if cache_dump_block_size <=? llen cur'
                         then let '(bs, ok) := dump_loop now t [] 0 in (cur' :: bs, ok)
                         else dump_loop now t cur' bb' in
        (pre ++ bs, ok)
      end
    end.

  Definition dump (now : Z) (c : cache) : list (list entry) * bool := dump_loop now c [] 0.

  (** The grouping before repair 435e2d0 (finding F11): by entry count only.
      Kept for the refutation lemma; nothing else uses it. *)
  Fixpoint dump_loop_count_only (now : Z) (c : cache) (cur : list entry) : list (list entry) * bool :=
    match c with
    | [] => (match cur with [] => [] | _ => [cur] end, true)
    | it :: t =>
      match dump_entry now it with
      | None => ([], false)
      | Some None => dump_loop_count_only now t cur
      | Some (Some e) =>
        let cur' := cur ++ [e] in
        if cache_dump_block_size <=? llen cur'
        then let '(bs, ok) := dump_loop_count_only now t [] in (cur' :: bs, ok)
        else dump_loop_count_only now t cur'
      end
    end.

  (** the file written by a writeDump that returned nil *)
  Definition write_dump (now : Z) (c : cache) : option bytes :=
    match dump now c with
    | (bs, true) => Some (gz dump_header (plaintext (map marshal bs)))
    | (_, false) => None
    end.

  (** the entries a dump is supposed to hold, in Range order *)
  Fixpoint live_entries (now : Z) (c : cache) : list entry :=
    match c with
    | [] => []
    | it :: t =>
      match dump_entry now it with
      | Some (Some e) => e :: live_entries now t
      | _ => live_entries now t
      end
    end.

  (** *** readDump *)
  Definition entry_item (e : entry) (m : M) : item :=
    mkItem (e_key e) m (of_unix (e_stored e)) (of_unix (e_mexp e)) (of_unix (e_cexp e)).

  (** The loop over one decoded block: the items handed to backend.Store that
      Store keeps (it is a no-op when now.After(expirationTime)), and false when
      a message failed to unpack (readBlock returns; the rest is not looked at). *)
  Fixpoint store_entries (now : Z) (es : list entry) : list item * bool :=
    match es with
    | [] => ([], true)
    | e :: t =>
      match unpack (e_msg e) with
      | None => ([], false)
      | Some m =>
        let '(r, ok) := store_entries now t in
        ((if (of_unix (e_cexp e) <? now)%Z then r else entry_item e m :: r), ok)
      end
    end.

  (** decode and store block after block: items stored (in order), [en], error *)
  Fixpoint apply_blocks (now : Z) (ps : list bytes) : list item * N * option lerr :=
    match ps with
    | [] => ([], 0, None)
    | p :: t =>
      match unmarshal p with
      | None => ([], 0, Some EDecode)
      | Some es =>
        let '(its, ok) := store_entries now es in
        if ok then let '(r, en, e) := apply_blocks now t in (its ++ r, llen es + en, e)
        else (its, llen es, Some EMsg)
      end
    end.

  (** readDump after the header check. Reading a block has no effect on the
      cache, so "read all blocks, then decode until the first failure" is the
      same function as the interleaved loop of the code. *)
  Definition load_plain (now : Z) (p : bytes) (clean : bool) : list item * N * lres :=
    let '(ps, _, st) := read_blocks (S (length p)) p clean in
    let '(its, en, e) := apply_blocks now ps in
    (its, en, match e with Some x => LErr x | None => status_res st end).

  Definition read_gz (now : Z) (g : gz_result) : list item * N * lres :=
    match g with
    | GzErr => ([], 0, LErr EGzip)
    | GzOpen name p clean =>
      if bytes_eqb name dump_header then load_plain now p clean else ([], 0, LErr EName)
    end.

  Definition read_dump (now : Z) (z : bytes) : list item * N * lres := read_gz now (gunzip z).

  (** *** the backend map and what is served from it *)
  Definition key_eqb (a b : bytes) : bool := bytes_eqb a b.

  (** concurrent_map Set: replace or add (capacity / eviction is C11's subject) *)
  Fixpoint store_item (c : cache) (it : item) : cache :=
    match c with
    | [] => [it]
    | x :: t => if key_eqb (i_key x) (i_key it) then it :: t else x :: store_item t it
    end.
  Definition store_all (c : cache) (its : list item) : cache := fold_left store_item its c.

  Definition lookup (k : bytes) (c : cache) : option item :=
    find (fun it => key_eqb (i_key it) k) c.

  (** the cache after loading the file [z] into [c] *)
  Definition load_into (c : cache) (now : Z) (z : bytes) : cache * lres :=
    let '(its, _, r) := read_dump now z in (store_all c its, r).

  (** uint32(now.Sub(storedTime).Seconds()), for stored <= now *)
  Definition age_s (now stored : Z) : Z := ((now - stored) / ns_per_s)%Z.

  (** backend.Get + getRespFromCache: [Some (m, Some d)] = fresh hit, TTLs are
      reduced by d; [Some (m, None)] = lazy hit (fixed TTL); [None] = miss. *)
  Definition serve (lazy : bool) (now : Z) (c : cache) (k : bytes) : option (M * option Z) :=
    match lookup k c with
    | None => None
    | Some it =>
      if (i_cexp it <? now)%Z then None
      else if (now <? i_mexp it)%Z then Some (i_msg it, Some (age_s now (i_stored it)))
      else if lazy then Some (i_msg it, None) else None
    end.

  (** what dump + load make of an item *)
  Definition reload_item (it : item) : item :=
    mkItem (i_key it) (i_msg it) (trunc_s (i_stored it)) (trunc_s (i_mexp it)) (trunc_s (i_cexp it)).

  (** kept by the dump at [now1] and by Store at [now2] *)
  Definition survives (now1 now2 : Z) (it : item) : bool :=
    negb (i_cexp it <? now1)%Z && negb (trunc_s (i_cexp it) <? now2)%Z.
End Dump.

Arguments dump_entry {M}.
Arguments dump_loop {M}.
Arguments dump {M}.
Arguments dump_loop_count_only {M}.
Arguments write_dump {M}.
Arguments live_entries {M}.
Arguments entry_item {M}.
Arguments store_entries {M}.
Arguments apply_blocks {M}.
Arguments load_plain {M}.
Arguments read_gz {M}.
Arguments read_dump {M}.
Arguments store_item {M}.
Arguments store_all {M}.
Arguments lookup {M}.
Arguments load_into {M}.
Arguments serve {M}.
Arguments reload_item {M}.
Arguments survives {M}.
Arguments mkItem {M}.
Arguments i_key {M}.
Arguments i_msg {M}.
Arguments i_stored {M}.
Arguments i_mexp {M}.
Arguments i_cexp {M}.

(** dnsutils.SubtractTTL on one record *)
Definition sub_ttl (ttl : N) (delta : Z) : N :=
  if (delta <? Z.of_N ttl)%Z then Z.to_N (Z.of_N ttl - delta) else 1.
