(** Executable model of pkg/matcher/netlist (List: Append, Sort, Contains), of the
    entry glue of load_helper.go / ip_set.go (bare address = full-length prefix)
    and of ip_set.MatcherGroup. No proofs here.

    Addresses are numbers: an IPv4 address is [A4 a] with a < 2^32, an IPv6
    address [A6 a] with a < 2^128 (netip.Addr: uint128 + family tag). Inside a
    List everything is IPv6 (to6): a stored prefix is (base, bits), 0 <= bits <= 128. *)
From Verif Require Import Base.Prelude.
Open Scope N_scope.

Inductive raddr := A4 (a : N) | A6 (a : N).

Definition is4 (x : raddr) : bool := match x with A4 _ => true | A6 _ => false end.

(** ::ffff:0:0 — netip.AddrFrom16(addr.As16()) puts an IPv4 address here. *)
Definition v4_base : N := 65535 * 2 ^ 32.

(** list.go:to6 *)
Definition to6 (x : raddr) : N :=
  match x with A4 a => v4_base + a | A6 a => a end.

(** A prefix as stored in List.e: (IPv6 base address, prefix length). *)
Definition pfx := (N * N)%type.
Definition base (p : pfx) : N := fst p.
Definition bits (p : pfx) : N := snd p.
Definition hostbits (p : pfx) : N := 128 - bits p.
Definition size (p : pfx) : N := 2 ^ hostbits p.

(** netip.Prefix.Masked on an IPv6 prefix: addr AND mask6(bits), i.e. the low
    (128 - bits) bits are cleared. *)
Definition masked (p : pfx) : pfx := (base p / size p * size p, bits p).

(** netip.Prefix.Contains for an IPv6 prefix and a zone-less IPv6 address:
    (addr XOR base) AND mask6(bits) == 0, i.e. the top [bits] bits agree. *)
Definition covers (p : pfx) (a : N) : bool := a / size p =? base p / size p.

(** A prefix as the caller hands it to Append: address of either family and a
    length (0..32 for IPv4, 0..128 for IPv6), host bits possibly set. *)
Definition rpfx := (raddr * N)%type.

(** list.go:Append, one element: to6, +96 for IPv4, Masked. *)
Definition norm (r : rpfx) : pfx :=
  let (x, b) := r in
  masked (to6 x, if is4 x then b + 96 else b).

(** What the loaders accept: a CIDR or a bare address. load_helper.go:LoadFromText
    and ip_set.go:parseNetipPrefix turn a bare address into /32 resp. /128. *)
Inductive entry := EPfx (x : raddr) (b : N) | EAddr (x : raddr).

Definition entry_pfx (e : entry) : rpfx :=
  match e with
  | EPfx x b => (x, b)
  | EAddr x => (x, if is4 x then 32 else 128)
  end.

Definition load (es : list entry) : list pfx := map (fun e => norm (entry_pfx e)) es.

(** list.go:Sort, the loop after sort.Sort. [acc] is [out] REVERSED (its head is
    out[len(out)-1]); "i == 0" in the code is exactly "out is empty". *)
Definition merge_step (acc : list pfx) (n : pfx) : list pfx :=
  match acc with
  | [] => [n]
  | lv :: rest =>
    if base n =? base lv then
      (if bits n <? bits lv then n :: rest else acc)
    else if negb (covers lv (base n)) then n :: acc
    else acc
  end.

Definition merge (sorted : list pfx) : list pfx := rev (fold_left merge_step sorted []).

(** list.go:Less compares the addresses only. Go's sort.Sort is not stable, so
    the theorems quantify over EVERY permutation sorted by base address. For
    running the model a concrete sort is needed: insertion sort. *)
Fixpoint ins (p : pfx) (l : list pfx) : list pfx :=
  match l with
  | [] => [p]
  | q :: t => if base p <=? base q then p :: l else q :: ins p t
  end.
Definition isort (l : list pfx) : list pfx := fold_right ins [] l.

(** list.go:Sort with the sorting step as a parameter. *)
Definition sort_with (srt : list pfx -> list pfx) (e : list pfx) : list pfx := merge (srt e).

(** list.go:Contains, the search loop: i, j, h as in the code. [None] = out of
    fuel (the theorems show it never happens with fuel = len + 1). The sum i+j
    cannot overflow for slice lengths. *)
Definition dflt : pfx := (0, 0).   (* never read: every index used is < len *)

Fixpoint bsearch (fuel : nat) (e : list pfx) (a : N) (i j : nat) : option nat :=
  match fuel with
  | O => None
  | S f =>
    if (i <? j)%nat then
      let h := ((i + j) / 2)%nat in
      if base (nth h e dflt) <=? a then bsearch f e a (S h) j else bsearch f e a i h
    else Some i
  end.

(** list.go:Contains after to6. [zoned]: the address carries an IPv6 zone —
    Addr.Compare then orders it right after the zone-less address (same search
    result) and Prefix.Contains answers false. *)
Definition contains (e : list pfx) (a : N) (zoned : bool) : option bool :=
  match bsearch (S (length e)) e a 0 (length e) with
  | None => None
  | Some O => Some false
  | Some (S k) => Some (negb zoned && covers (nth k e dflt) a)
  end.

(** What a caller can ask. *)
Inductive query := Q4 (a : N) | Q6 (a : N) | Q6z (a : N) | QInvalid.

Definition lookup (e : list pfx) (q : query) : option bool :=
  match q with
  | Q4 a => contains e (to6 (A4 a)) false
  | Q6 a => contains e (to6 (A6 a)) false
  | Q6z a => contains e (to6 (A6 a)) true
  | QInvalid => Some false
  end.

(** ip_set.go:MatcherGroup.Match — first matcher that says yes. *)
Fixpoint group_lookup (g : list (list pfx)) (q : query) : option bool :=
  match g with
  | [] => Some false
  | e :: t =>
    match lookup e q with
    | None => None
    | Some true => Some true
    | Some false => group_lookup t q
    end
  end.

(** ip_set.go:NewIPSet — own list (ips then files) sorted, kept only when
    non-empty, followed by the referenced sets in order. A referenced set is
    itself a MatcherGroup; asking it is asking its lists in order, so the nesting
    is flattened. *)
Definition ipset_build (srt : list pfx -> list pfx) (own : list entry)
  (sets : list (list (list pfx))) : list (list pfx) :=
  let l := sort_with srt (load own) in
  (match l with [] => [] | _ => [l] end) ++ concat sets.

(** The reference the property talks about: some loaded prefix covers the address. *)
Definition cov (l : list pfx) (a : N) : bool := existsb (fun p => covers p a) l.

(** The same for a query as the caller states it: a zoned or invalid address is
    in no prefix (netip.Prefix.Contains), an IPv4 address is looked at in its
    mapped form. *)
Definition qcov (l : list pfx) (q : query) : bool :=
  match q with
  | Q4 a => cov l (to6 (A4 a))
  | Q6 a => cov l (to6 (A6 a))
  | Q6z _ => false
  | QInvalid => false
  end.

(** A configuration of ip_set plugins: a set has own entries (ips then files)
    and references other sets, which may reference further sets. *)
Inductive setdef := SetDef (own : list entry) (refs : list setdef).

(** ip_set.go:NewIPSet applied bottom-up: the matcher of a set. *)
Fixpoint build_set (srt : list pfx -> list pfx) (s : setdef) : list (list pfx) :=
  match s with
  | SetDef own refs => ipset_build srt own (map (build_set srt) refs)
  end.

(** Every entry loaded anywhere below a set. *)
Fixpoint all_entries (s : setdef) : list entry :=
  match s with
  | SetDef own refs => own ++ flat_map all_entries refs
  end.
