(** Executable model of the in-memory cache store (property C11):
      pkg/concurrent_map/map.go   shard get/set/del/len/flush/rangeDo, NewMapCache
      pkg/cache/cache.go          Opts.init, New, Get, Store, Range, gc, Len, Flush
    Three layers:
      1. one shard as an association list; [sset] evicts ARBITRARY keys (the Go map
         iteration order is supplied from outside as a list of indices);
      2. the sequential cache ([exec]);
      3. the concurrent cache as a labelled transition system whose atomic steps are
         the shard methods (each runs under the shard's lock, see [check_locks] and
         Gen/LockFacts.v) and the reads of the clock; histories are label lists.
    Also here: the predicate on histories the property states ([history_ok_b]) and
    the lock-discipline checker with its small semantics of RWMutex sections.
    No proofs in this file. *)
From Verif Require Import Base.Prelude Gen.Constants.
From Coq Require String.
Open Scope N_scope.

Definition key := N.
Definition val := N.

(** A stored element: value, expiration time, and a GHOST (the position in the history
    and the thread of the Store invocation that wrote it; never read by any operation). *)
Inductive entry := E (v : val) (e : Z) (gp gt : nat).
Definition e_val (x : entry) := let 'E v _ _ _ := x in v.
Definition e_exp (x : entry) := let 'E _ e _ _ := x in e.

(** * 1. One shard (map.go: type shard; every function below is one locked method) *)
Definition shard := list (key * entry).

Fixpoint sget (k : key) (m : shard) : option entry :=
  match m with
  | [] => None
  | (k', x) :: t => if k' =? k then Some x else sget k t
  end.

Fixpoint sdel (k : key) (m : shard) : shard :=
  match m with
  | [] => []
  | (k', x) :: t => if k' =? k then sdel k t else (k', x) :: sdel k t
  end.

Fixpoint remove_nth {A} (n : nat) (l : list A) : list A :=
  match l, n with
  | [], _ => []
  | _ :: t, O => t
  | x :: t, S n' => x :: remove_nth n' t
  end.

(** The eviction loop of [set]: "for k := range m.m { delete(m.m, k); if len(m.m)+1 <= m.max
    { break } }". Which key the range yields is Go's choice: [ch] supplies it (index modulo
    the current length). Fuel = number of entries: the loop ends when the map is exhausted. *)
Fixpoint evict (fuel : nat) (max : Z) (ch : list nat) (m : shard) : shard :=
  match fuel with
  | O => m
  | S f =>
    match m with
    | [] => m
    | _ :: _ =>
      let m' := remove_nth (Nat.modulo (hd O ch) (length m)) m in
      if (Z.of_nat (length m') + 1 <=? max)%Z then m' else evict f max (tl ch) m'
    end
  end.

(** set: "if m.max > 0 && len(m.m)+1 > m.max { evict }; m.m[key] = v" *)
Definition sset (max : Z) (ch : list nat) (k : key) (x : entry) (m : shard) : shard :=
  let m1 := if ((0 <? max) && (max <? Z.of_nat (length m) + 1))%Z
            then evict (length m) max ch m else m in
  (k, x) :: sdel k m1.

Definition slen (m : shard) : N := N.of_nat (length m).

(** gc's rangeDo callback deletes exactly the entries with now.After(expirationTime) *)
Definition sgc (now : Z) (m : shard) : shard :=
  filter (fun kx => negb (e_exp (snd kx) <? now)%Z) m.

Definition srange (m : shard) : list (key * val * Z) :=
  map (fun kx => (fst kx, e_val (snd kx), e_exp (snd kx))) m.

(** * 2. The cache *)
Record cache := Cache { c_max : Z; c_sh : N -> shard }.

(** cache.Opts.init: "if opts.Size < minSize { opts.Size = minSize }" *)
Definition eff_size (size : Z) : Z :=
  if (size <? Z.of_N cache_min_size)%Z then Z.of_N cache_min_size else size.
(** NewMapCache: "sizePreShard := size / MapShardSize" (Go's / truncates towards zero) *)
Definition per_shard (size : Z) : Z := Z.quot size (Z.of_N map_shard_size).
Definition new_map (size : Z) : cache := Cache (per_shard size) (fun _ => []).
Definition new (size : Z) : cache := new_map (eff_size size).
(** what the documentation of NewMapCache promises: MapShardSize*(size/MapShardSize) *)
Definition capacity (size : Z) : Z := (Z.of_N map_shard_size * per_shard (eff_size size))%Z.

Definition upd {A} (f : N -> A) (i : N) (x : A) : N -> A := fun j => if j =? i then x else f j.
Definition updn {A} (f : nat -> A) (i : nat) (x : A) : nat -> A :=
  fun j => if Nat.eqb j i then x else f j.

(** lazy conjunction: under vm_compute (call by value) [a && b] evaluates both sides *)
Notation "a &&& b" := (if a then b else false) (at level 40, left associativity).

Definition shard_ids : list N := map N.of_nat (seq 0 (N.to_nat map_shard_size)).

Section Hashed.
(** key.Sum(): only selects the shard ("key.Sum() % MapShardSize") *)
Variable hash : key -> N.
Definition ix (k : key) : N := hash k mod map_shard_size.

Definition c_get (c : cache) (k : key) : option entry := sget k (c_sh c (ix k)).
Definition c_del (c : cache) (k : key) : cache :=
  Cache (c_max c) (upd (c_sh c) (ix k) (sdel k (c_sh c (ix k)))).
Definition c_set (c : cache) (ch : list nat) (k : key) (x : entry) : cache :=
  Cache (c_max c) (upd (c_sh c) (ix k) (sset (c_max c) ch k x (c_sh c (ix k)))).
Definition c_flush1 (c : cache) (i : N) : cache := Cache (c_max c) (upd (c_sh c) i []).
Definition c_gc1 (now : Z) (c : cache) (i : N) : cache :=
  Cache (c_max c) (upd (c_sh c) i (sgc now (c_sh c i))).
Definition c_len (c : cache) : N := fold_left (fun a i => a + slen (c_sh c i)) shard_ids 0.
Definition c_range (c : cache) : list (key * val * Z) :=
  flat_map (fun i => srange (c_sh c i)) shard_ids.

Inductive op :=
| OGet (k : key) | OStore (k : key) (v : val) (e : Z) | OFlush | OLen | ORange | OGc (now : Z).
Inductive result :=
| RGet (r : option (val * Z)) | RUnit | RLen (n : N) | RRange (l : list (key * val * Z)).

(** One operation run alone at clock reading [now]; [ch] = eviction choices (Store only). *)
Definition exec (c : cache) (now : Z) (ch : list nat) (o : op) : cache * result :=
  match o with
  | OGet k =>
    match c_get c k with
    | Some (E v e _ _) =>
      if (e <? now)%Z then (c_del c k, RGet None)      (* expirationTime.Before(time.Now()) *)
      else (c, RGet (Some (v, e)))
    | None => (c, RGet None)
    end
  | OStore k v e =>
    if (e <? now)%Z then (c, RUnit)                     (* now.After(expirationTime) *)
    else (c_set c ch k (E v e O O), RUnit)
  | OFlush => (fold_left c_flush1 shard_ids c, RUnit)
  | OLen => (c, RLen (c_len c))
  | ORange => (c, RRange (c_range c))
  | OGc now' => (fold_left (c_gc1 now') shard_ids c, RUnit)
  end.

Definition sop := (op * Z * list nat)%type.
Fixpoint run (c : cache) (ops : list sop) : cache * list result :=
  match ops with
  | [] => (c, [])
  | (o, now, ch) :: t =>
    let '(c1, r) := exec c now ch o in
    let '(c2, rs) := run c1 t in (c2, r :: rs)
  end.

(** * 3. The concurrent cache *)
(** Where a running call stands. [PShard i n l]: the per-shard loop of Flush/Len/Range/gc is
    about to visit shard [i] ([n], [l] accumulate Len / Range). [PDone w r]: finished with
    result [r]; [w] = a Store that really wrote. *)
Inductive pc :=
| PStart
| PGetFound (v : val) (e : Z) (gp gt : nat)   (* c.m.Get returned an element; clock not yet read *)
| PGetDel                                      (* it was expired: c.m.Del(key) comes next *)
| PStoreReady                                  (* clock read, not expired: c.m.Set comes next *)
| PShard (i : N) (n : N) (l : list (key * val * Z))
| PDone (w : bool) (r : result).

Inductive tstate := Idle | Run (p : nat) (o : op) (c : pc).

Inductive label :=
| Inv (t : nat) (o : op)          (* thread t calls o *)
| Atomic (t : nat) (ch : list nat) (* t performs its next shard method / clock read *)
| Res (t : nat) (r : result)      (* t's call returns r *)
| Tick (d : N).                   (* the clock advances by d *)

Record state := St { s_cache : cache; s_clock : Z; s_thr : nat -> tstate; s_pos : nat }.

Definition init (size : Z) : state := St (new size) 0%Z (fun _ => Idle) O.

Definition init_pc (o : op) : pc :=
  match o with OGet _ | OStore _ _ _ => PStart | _ => PShard 0 0 [] end.

Definition next_shard (i n : N) (l : list (key * val * Z)) (fin : result) : pc :=
  if i + 1 <? map_shard_size then PShard (i + 1) n l else PDone false fin.

(** one atomic step of thread [t] whose call was invoked at history position [p] *)
Definition tstep (c : cache) (clock : Z) (t p : nat) (o : op) (q : pc) (ch : list nat)
  : option (cache * pc) :=
  match o, q with
  | OGet k, PStart =>
    match c_get c k with
    | Some (E v e gp gt) => Some (c, PGetFound v e gp gt)
    | None => Some (c, PDone false (RGet None))
    end
  | OGet k, PGetFound v e gp gt =>
    if (e <? clock)%Z then Some (c, PGetDel) else Some (c, PDone false (RGet (Some (v, e))))
  | OGet k, PGetDel => Some (c_del c k, PDone false (RGet None))
  | OStore k v e, PStart =>
    if (e <? clock)%Z then Some (c, PDone false RUnit) else Some (c, PStoreReady)
  | OStore k v e, PStoreReady => Some (c_set c ch k (E v e p t), PDone true RUnit)
  | OFlush, PShard i n l => Some (c_flush1 c i, next_shard i n l RUnit)
  | OLen, PShard i n l =>
    let n' := n + slen (c_sh c i) in Some (c, next_shard i n' l (RLen n'))
  | ORange, PShard i n l =>
    let l' := l ++ srange (c_sh c i) in Some (c, next_shard i n l' (RRange l'))
  | OGc now, PShard i n l => Some (c_gc1 now c i, next_shard i n l RUnit)
  | _, _ => None
  end.

Definition triple_eqb (a b : key * val * Z) : bool :=
  (fst (fst a) =? fst (fst b)) && (snd (fst a) =? snd (fst b)) && (snd a =? snd b)%Z.
Definition result_eqb (a b : result) : bool :=
  match a, b with
  | RGet None, RGet None => true
  | RGet (Some (v, e)), RGet (Some (v', e')) => (v =? v') && (e =? e')%Z
  | RUnit, RUnit => true
  | RLen n, RLen n' => n =? n'
  | RRange l, RRange l' => list_eqb triple_eqb l l'
  | _, _ => false
  end.

Definition step (s : state) (l : label) : option state :=
  let 'St c clock thr pos := s in
  match l with
  | Inv t o =>
    match thr t with
    | Idle => Some (St c clock (updn thr t (Run pos o (init_pc o))) (S pos))
    | _ => None
    end
  | Atomic t ch =>
    match thr t with
    | Run p o q =>
      match tstep c clock t p o q ch with
      | Some (c', q') => Some (St c' clock (updn thr t (Run p o q')) (S pos))
      | None => None
      end
    | Idle => None
    end
  | Res t r =>
    match thr t with
    | Run p o (PDone w r') =>
      if result_eqb r r' then Some (St c clock (updn thr t Idle) (S pos)) else None
    | _ => None
    end
  | Tick d => Some (St c (clock + Z.of_N d)%Z thr (S pos))
  end.

Fixpoint lrun (s : state) (ls : list label) : option state :=
  match ls with
  | [] => Some s
  | l :: t => match step s l with Some s' => lrun s' t | None => None end
  end.

(** * The property's predicate on a history (a label list; positions are timestamps) *)
Fixpoint clock_at (ls : list label) (p : nat) : Z :=
  match p, ls with
  | S p', Tick d :: t => (Z.of_N d + clock_at t p')%Z
  | S p', _ :: t => clock_at t p'
  | _, _ => 0%Z
  end.

Fixpoint indexed_from {A} (i : nat) (l : list A) : list (nat * A) :=
  match l with [] => [] | x :: t => (i, x) :: indexed_from (S i) t end.
Definition allp (ls : list label) (f : nat -> label -> bool) : bool :=
  forallb (fun pl => f (fst pl) (snd pl)) (indexed_from O ls).
Definition anyp (ls : list label) (f : nat -> label -> bool) : bool :=
  existsb (fun pl => f (fst pl) (snd pl)) (indexed_from O ls).

(** thread [t] has no response strictly between positions [a] and [b] *)
Definition no_res (ls : list label) (t a b : nat) : bool :=
  allp ls (fun q l => match l with
                      | Res t' _ => negb (Nat.eqb t' t && Nat.ltb a q && Nat.ltb q b)
                      | _ => true end).

(** the call [o], whose response is at position [qw], certainly overwrote or removed key [k]:
    a Store to [k] that was not expired even at its response, or a Flush *)
Definition overwrites (ls : list label) (k : key) (o : op) (qw : nat) : bool :=
  match o with
  | OStore k' _ e' => (k' =? k) && (clock_at ls qw <=? e')%Z
  | OFlush => true
  | _ => false
  end.

(** [qw] is the response of the call thread [tw] made at [pw], it came before [pg], the call
    certainly overwrote [k] -- then the store invoked at [ps] by [ts] had NOT returned before
    that call began *)
Definition no_completed_overwrite (ls : list label) (k : key) (ps ts pg : nat) : bool :=
  allp ls (fun pw lw => match lw with
    | Inv tw ow =>
      allp ls (fun qw lq => match lq with
        | Res tw' _ =>
          if Nat.eqb tw' tw &&& Nat.ltb pw qw &&& Nat.ltb qw pg &&& overwrites ls k ow qw
             &&& no_res ls tw pw qw
          then no_res ls ts ps pw else true
        | _ => true end)
    | _ => true end).

Definition history_ok_b (ls : list label) : bool :=
  allp ls (fun qg lg => match lg with
    | Res t (RGet (Some (v, e))) =>
      allp ls (fun pg li => match li with
        | Inv t' (OGet k) =>
          if Nat.eqb t' t &&& Nat.ltb pg qg &&& no_res ls t pg qg then
            (clock_at ls pg <=? e)%Z &&&
            anyp ls (fun ps lst => match lst with
              | Inv ts (OStore k' v' e') =>
                (k' =? k) &&& (v' =? v) &&& (e' =? e)%Z &&& Nat.ltb ps qg
                &&& no_completed_overwrite ls k ps ts pg
              | _ => false end)
          else true
        | _ => true end)
    | _ => true end).

(** every Len result in the history is within the capacity *)
Definition lens_ok_b (size : Z) (ls : list label) : bool :=
  allp ls (fun _ l => match l with Res _ (RLen n) => (Z.of_N n <=? capacity size)%Z | _ => true end).
End Hashed.

(** * Lock discipline (Gen/LockFacts.v) *)
Definition lock_row := (String.string * N * bool * bool * bool * bool)%type.
Definition lr_name (r : lock_row) := let '(n, _, _, _, _, _) := r in n.
Definition lr_open (r : lock_row) := let '(_, o, _, _, _, _) := r in o.
Definition lr_released (r : lock_row) := let '(_, _, x, _, _, _) := r in x.
Definition lr_writes (r : lock_row) := let '(_, _, _, w, _, _) := r in w.
Definition lr_reads (r : lock_row) := let '(_, _, _, _, x, _) := r in x.
Definition lr_clean (r : lock_row) := let '(_, _, _, _, _, x) := r in x.

(** every write of the protected map happens in a section opened by Lock, every read in one
    opened by RLock or Lock, the section spans all accesses and is closed on every path *)
Definition row_ok (r : lock_row) : bool :=
  (if lr_writes r then lr_open r =? 2 else true)
  && (if lr_reads r then (lr_open r =? 1) || (lr_open r =? 2) else true)
  && (if lr_writes r || lr_reads r then lr_released r && lr_clean r else true).

Definition has_method (t : list lock_row) (n : String.string) : bool :=
  existsb (fun r => String.eqb (lr_name r) n) t.

(** the methods the cache model treats as atomic must be in the table *)
Module MethodNames.
  Import String.
  Definition required_methods : list string :=
    ["shard.get"; "shard.set"; "shard.del"; "shard.len"; "shard.flush"; "shard.rangeDo"]%string.
  Definition required_callers : list string :=
    ["Map.Get"; "Map.Set"; "Map.Del"; "Map.RangeDo"; "Map.Len"; "Map.Flush"]%string.
End MethodNames.
Definition required_methods := MethodNames.required_methods.
Definition required_callers := MethodNames.required_callers.

Definition check_locks (t : list lock_row) : bool :=
  forallb row_ok t && forallb (has_method t) required_methods.

(** The functions above the shards (Map.Set -> shard.set, ...): the cache model treats each
    of them as ONE atomic step per shard, so each must take a shard's lock at most once on any
    path (no "check under one acquisition, act under another") and never touch the protected
    map itself. *)
Definition caller_row := (String.string * N * bool)%type.
Definition caller_ok (r : caller_row) : bool :=
  let '(_, acq, direct) := r in (acq <=? 1) && negb direct.
Definition check_callers (c : list caller_row) : bool :=
  forallb caller_ok c
  && forallb (fun n => existsb (fun r => String.eqb (fst (fst r)) n) c) required_callers.
Definition check_lock_facts (t : list lock_row) (c : list caller_row) : bool :=
  check_locks t && check_callers c.

(** Semantics of the sections: a thread is inside at most one method of one shard; [Enter]
    takes the shard's RWMutex in the row's mode (writers exclusive, readers shared, mode 0
    takes nothing), [Leave] releases it. *)
Inductive lk_label := Enter (t : nat) (r : lock_row) | Leave (t : nat).
Definition lk_state := list (nat * lock_row).       (* who is inside which method *)

Definition holds_w (x : nat * lock_row) : bool := lr_open (snd x) =? 2.
Definition holds_r (x : nat * lock_row) : bool := lr_open (snd x) =? 1.
Definition writers (s : lk_state) : nat := length (filter holds_w s).
Definition readers (s : lk_state) : nat := length (filter holds_r s).

Definition lk_step (s : lk_state) (l : lk_label) : option lk_state :=
  match l with
  | Enter t r =>
    if existsb (fun x => Nat.eqb (fst x) t) s then None
    else if lr_open r =? 2 then                                 (* Lock *)
      if Nat.eqb (writers s) 0 && Nat.eqb (readers s) 0 then Some ((t, r) :: s) else None
    else if lr_open r =? 1 then                                 (* RLock *)
      if Nat.eqb (writers s) 0 then Some ((t, r) :: s) else None
    else Some ((t, r) :: s)
  | Leave t => Some (filter (fun x => negb (Nat.eqb (fst x) t)) s)
  end.

Fixpoint lk_run (s : lk_state) (ls : list lk_label) : option lk_state :=
  match ls with
  | [] => Some s
  | l :: t => match lk_step s l with Some s' => lk_run s' t | None => None end
  end.

(** two methods conflict when one writes the map and the other touches it *)
Definition conflict (a b : lock_row) : bool :=
  (lr_writes a && (lr_writes b || lr_reads b)) || (lr_writes b && (lr_writes a || lr_reads a)).

(** * pkg/lru + pkg/concurrent_lru: a sharded map with recency and a per-shard capacity *)
(** One LRU: association list, OLDEST FIRST (list.List front = oldest). *)
Definition lru := list (key * val).
Fixpoint lfind (k : key) (l : lru) : option val :=
  match l with [] => None | (k', v) :: t => if k' =? k then Some v else lfind k t end.
Definition lremove (k : key) (l : lru) : lru := filter (fun kx => negb (fst kx =? k)) l.

Inductive lop :=
| LAdd (k : key) (v : val) | LGet (k : key) | LDel (k : key)
| LClean (m r : N)            (* Clean(f) with f(key, v) = ((key + v) mod m = r) *)
| LLen | LFlush.
(** result and the (key, value) pairs handed to onEvict, in order *)
Inductive lres := LRGet (r : option val) | LRUnit | LRNum (n : N).

Definition clean_pred (m r : N) (kx : key * val) : bool := (fst kx + snd kx) mod m =? r.

(** LRU.Add: update value and move to the back; else pop the oldest
    "o := Len - maxSize + 1" times (onEvict each) and push back *)
Definition ladd (max : N) (k : key) (v : val) (l : lru) : lru * list (key * val) :=
  match lfind k l with
  | Some _ => (lremove k l ++ [(k, v)], [])
  | None =>
    let o := (S (length l) - N.to_nat max)%nat in
    (skipn o l ++ [(k, v)], firstn o l)
  end.
(** LRU.Get: move to the back *)
Definition lget (k : key) (l : lru) : lru * option val :=
  match lfind k l with
  | Some v => (lremove k l ++ [(k, v)], Some v)
  | None => (l, None)
  end.
(** LRU.Del: remove, onEvict *)
Definition ldel (k : key) (l : lru) : lru * list (key * val) :=
  match lfind k l with Some v => (lremove k l, [(k, v)]) | None => (l, []) end.
(** LRU.Clean: oldest to newest, remove where f says so, onEvict each *)
Definition lclean (m r : N) (l : lru) : lru * list (key * val) :=
  (filter (fun kx => negb (clean_pred m r kx)) l, filter (clean_pred m r) l).

(** ShardedLRU: shard = Sum mod shardNum *)
Record slru := SLru { sl_n : N; sl_max : N; sl_sh : N -> lru }.
Definition slru_new (n max : N) : slru := SLru n max (fun _ => []).
Definition sl_ids (s : slru) : list N := map N.of_nat (seq 0 (N.to_nat (sl_n s))).

Section LruHashed.
Variable hash : key -> N.
Definition lix (s : slru) (k : key) : N := hash k mod sl_n s.
Definition sl_set (s : slru) (i : N) (l : lru) : slru := SLru (sl_n s) (sl_max s) (upd (sl_sh s) i l).

Definition lexec (s : slru) (o : lop) : slru * (lres * list (key * val)) :=
  match o with
  | LAdd k v =>
    let '(l, ev) := ladd (sl_max s) k v (sl_sh s (lix s k)) in (sl_set s (lix s k) l, (LRUnit, ev))
  | LGet k =>
    let '(l, r) := lget k (sl_sh s (lix s k)) in (sl_set s (lix s k) l, (LRGet r, []))
  | LDel k =>
    let '(l, ev) := ldel k (sl_sh s (lix s k)) in (sl_set s (lix s k) l, (LRUnit, ev))
  | LClean m r =>
    let s' := fold_left (fun a i => sl_set a i (fst (lclean m r (sl_sh a i)))) (sl_ids s) s in
    let ev := flat_map (fun i => snd (lclean m r (sl_sh s i))) (sl_ids s) in
    (s', (LRNum (N.of_nat (length ev)), ev))
  | LLen => (s, (LRNum (fold_left (fun a i => a + N.of_nat (length (sl_sh s i))) (sl_ids s) 0), []))
  | LFlush => (fold_left (fun a i => sl_set a i []) (sl_ids s) s, (LRUnit, []))
  end.

Fixpoint lrun_ops (s : slru) (ops : list lop) : slru * list (lres * list (key * val)) :=
  match ops with
  | [] => (s, [])
  | o :: t => let '(s1, r) := lexec s o in let '(s2, rs) := lrun_ops s1 t in (s2, r :: rs)
  end.
End LruHashed.
