(** Threads taking and releasing locks (Go mutexes, and sync.Once seen as a
    lock held while its function runs), and the lock-order discipline that
    excludes deadlock. Executable model only.

    A thread is its remaining program plus the locks it holds; a state is a
    list of threads. [Acq l] is enabled only when nobody holds [l]; [Rel l]
    is always enabled. The discipline: a thread acquires [l] only while every
    lock it holds has a strictly smaller rank, and it has released everything
    when its program ends. Ranks are given per lock; in the instance used for
    mosdns the rank of a lock is the rank of its class (the struct field it
    is), so two locks of one class are never nested either. *)
From Coq Require Import List Arith Bool String.
Import ListNotations.

Inductive lop := Acq (l : nat) | Rel (l : nat).
Definition prog := list lop.
Definition thread := (prog * list nat)%type.       (* remaining program, locks held *)
Definition lstate := list thread.

Definition memb (l : nat) (h : list nat) : bool := existsb (Nat.eqb l) h.
Fixpoint removeb (l : nat) (h : list nat) : list nat :=
  match h with [] => [] | x :: t => if Nat.eqb l x then t else x :: removeb l t end.

Definition free (l : nat) (s : lstate) : bool := forallb (fun t : thread => negb (memb l (snd t))) s.

Fixpoint set_nth {A} (i : nat) (x : A) (l : list A) : list A :=
  match l, i with
  | [], _ => []
  | _ :: t, O => x :: t
  | y :: t, S j => y :: set_nth j x t
  end.

(** Thread [i] performs its next operation. *)
Definition lstep (s : lstate) (i : nat) : option lstate :=
  match nth_error s i with
  | Some (Acq l :: r, h) => if free l s then Some (set_nth i (r, l :: h) s) else None
  | Some (Rel l :: r, h) => Some (set_nth i (r, removeb l h) s)
  | _ => None
  end.

Fixpoint lrun (s : lstate) (sched : list nat) : lstate :=
  match sched with
  | [] => s
  | i :: t => match lstep s i with Some s1 => lrun s1 t | None => lrun s t end
  end.

Section Rank.
  Variable rank : nat -> nat.

  (** [ordered h p]: program [p], started holding [h], takes locks in strictly
      increasing rank, releases only what it holds, and ends holding nothing. *)
  Fixpoint ordered (h : list nat) (p : prog) : bool :=
    match p with
    | [] => match h with [] => true | _ => false end
    | Acq l :: r => forallb (fun x => rank x <? rank l) h && ordered (l :: h) r
    | Rel l :: r => memb l h && ordered (removeb l h) r
    end.

  Definition disciplined (s : lstate) : bool := forallb (fun t : thread => ordered (snd t) (fst t)) s.
End Rank.

Definition finished (s : lstate) : bool := forallb (fun t : thread => match fst t with [] => true | _ => false end) s.
Definition init_of (ps : list prog) : lstate := map (fun p => (p, [])) ps.

(** * The class-level check on the table regenerated from the Go source *)

(** [edges]: (outer, inner) — a lock of class [inner] may be acquired while one
    of class [outer] is held. The table is consistent with a ranking when every
    class is ranked and every edge goes strictly upwards. *)
Definition str_eqb (a b : string) : bool := if string_dec a b then true else false.

(** [exempt]: nestings the table lists only because calls through an interface
    are resolved by method names (all implementers); each exemption is an
    assumption about the code and is listed in the trusted base. *)
Definition edges_ok (rank_of : string -> option nat) (exempt : list (string * string))
           (classes : list string) (edges : list (string * string * string)) : bool :=
  forallb (fun c => match rank_of c with Some _ => true | None => false end) classes
  && forallb (fun e => match e with (a, b, _) =>
                existsb (fun x => str_eqb (fst x) a && str_eqb (snd x) b) exempt
                || match rank_of a, rank_of b with Some x, Some y => x <? y | _, _ => false end end) edges.

(** * The ranking chosen for pkg/upstream/transport

    Transport mutexes first, then the per-connection wrappers, then the
    pipelined connection's own locks. Two classes of one rank must never be
    nested (if the regenerated table ever nests them, the check fails and the
    ranking has to be revisited). *)
Open Scope string_scope.
Definition transport_rank (c : string) : option nat :=
  if str_eqb c "PipelineTransport.m" then Some 0
  else if str_eqb c "ReuseConnTransport.m" then Some 0
  else if str_eqb c "lazyDnsConn.mu" then Some 1
  else if str_eqb c "reusableConn.closeOnce" then Some 1
  else if str_eqb c "reusableConn.m" then Some 1
  else if str_eqb c "TraditionalDnsConn.closeOnce" then Some 2
  else if str_eqb c "TraditionalDnsConn.queueMu" then Some 2
  else None.

(** A lazily dialled connection never wraps another lazily dialled connection:
    its dial function returns a TraditionalDnsConn or a QUIC connection
    (pkg/upstream/upstream.go). The table lists the nesting because
    [lc.c.Close()] is a call through the DnsConn interface. *)
Definition transport_exempt : list (string * string) := [("lazyDnsConn.mu", "lazyDnsConn.mu")].
