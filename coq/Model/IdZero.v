(** DoH (pkg/upstream/doh/upstream.go ExchangeContext) and DoQ
    (pkg/upstream/transport/conn_quic.go ExchangeReserved): the query goes on
    the wire with message id 0 and the caller's id is written back into the
    reply; request/response pairing is the HTTP request resp. the QUIC stream.
    Executable model only. *)
From Verif Require Import Base.Prelude.
Open Scope N_scope.

Definition get_id (m : bytes) : N := nth 0 m 0 * 256 + nth 1 m 0.
Definition set_id (id : N) (m : bytes) : bytes :=
  match m with
  | _ :: _ :: t => (id / 256) :: (id mod 256) :: t
  | _ => m
  end.

(** What is sent: the caller's message with id 0. *)
Definition wire_query (q : bytes) : bytes := set_id 0 q.
(** What the caller gets: the server's reply with the caller's id. *)
Definition returned_reply (q r : bytes) : bytes := set_id (get_id q) r.
