(** The connection pool of PipelineTransport (pkg/upstream/transport/pipeline.go,
    getReservedExchanger / Close) as a transition system. Executable model only.

    A pooled connection is a black box here: what its ReserveNewQuery answers
    ([RAdmit] a reservation, [RFull] no capacity, [RClosed] it is dead) is the
    environment's business (the connection models Tdc / Lazy prove that an
    answer [RAdmit] is only given below the limit). The pool's own logic is:
    walk the connection map in the iteration order Go happens to choose, drop
    the connections that report closed, take the first one that admits the
    query, give up after more than [pipeline_max_reserve_attempt] refusals,
    and otherwise open a new connection, reserve on it and mark the attempt as
    "on a new connection" (which is what forbids a retry, Model.Retry). *)
From Verif Require Import Base.Prelude Base.Count Gen.Constants.
Open Scope N_scope.

Inductive rres := RAdmit | RFull | RClosed.

Record pst := mkPS {
  pt_closed : bool;          (* t.closed *)
  pt_next : nat;             (* connections are numbered in the order they are created *)
  pt_pool : list nat         (* t.conns *)
}.

Definition pinit : pst := mkPS false 0 [].

Inductive pout :=
| PoConn (n : nat) (isnew : bool)    (* a reservation on connection n *)
| PoErrClosed                        (* ErrClosedTransport *)
| PoErrNew.                          (* the new connection refused its first reservation *)

(** One visit of the scan: connection [n] answered [r]. *)
Definition visit := (nat * rres)%type.

(** The scan over the visits the iteration made, in order. Returns the pool
    after the deletions, the connection that admitted the query (if any) and
    whether the scan was cut short by the attempt bound. [att] counts the
    refusals so far. Visits of connections that are not pooled (or pooled no
    more) make the label inadmissible. *)
Fixpoint scan (pool : list nat) (vs : list visit) (att : N) : option (list nat * option nat * bool) :=
  match vs with
  | [] => Some (pool, None, false)
  | (n, r) :: t =>
    if negb (gmem n pool) then None else
    match r with
    | RAdmit => match t with [] => Some (pool, Some n, false) | _ => None end     (* the loop breaks here *)
    | RFull | RClosed =>
      let pool1 := match r with RClosed => gremove n pool | _ => pool end in
      let att1 := att + 1 in
      if pipeline_max_reserve_attempt <? att1
      then match t with [] => Some (pool1, None, true) | _ => None end            (* reserveAttempt > max: break *)
      else scan pool1 t att1
    end
  end.

Fixpoint nodupb (l : list nat) : bool :=
  match l with [] => true | x :: t => negb (gmem x t) && nodupb t end.

(** The iteration covers the whole map unless it breaks: when no visit admitted
    and the bound did not cut it short, every pooled connection was visited. *)
Definition covers (pool : list nat) (vs : list visit) : bool :=
  forallb (fun n => gmem n (map fst vs)) pool.

Inductive plabel :=
| PGet (vs : list visit) (first_ok : bool)   (* getReservedExchanger; [first_ok]: a new connection admits its first query *)
| PTClose.                                   (* Close() *)

Definition pstep (s : pst) (l : plabel) : option (pst * option pout) :=
  match l with
  | PGet vs first_ok =>
    if pt_closed s then
      match vs with [] => Some (s, Some PoErrClosed) | _ => None end
    else if negb (nodupb (map fst vs)) then None
    else
      match scan (pt_pool s) vs 0 with
      | None => None
      | Some (pool1, Some n, _) => Some (mkPS false (pt_next s) pool1, Some (PoConn n false))
      | Some (pool1, None, cut) =>
        if negb cut && negb (covers (pt_pool s) vs) then None      (* the range loop visits every entry *)
        else
          let n := pt_next s in
          Some (mkPS false (S n) (n :: pool1), Some (if first_ok then PoConn n true else PoErrNew))
      end
  | PTClose => Some (mkPS true (pt_next s) (pt_pool s), None)     (* the map is kept; every connection in it is closed *)
  end.

Fixpoint prun (s : pst) (ls : list plabel) : option pst :=
  match ls with
  | [] => Some s
  | l :: t => match pstep s l with Some (s1, _) => prun s1 t | None => None end
  end.
