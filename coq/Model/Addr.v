(** C18 — upstream address parsing, as implemented by
    pkg/upstream/utils.go (tryTrimIpv6Brackets, trySplitHostPort, tryRemovePort,
    parseDialAddr) and pkg/upstream/upstream.go (NewUpstream: "udp://" prefix,
    helper schemes, scheme switch with the default ports, dial_addr override,
    TLS server name), on ASCII strings = [list N].

    Library functions the code calls are transcribed from the Go 1.23 sources:
    net.SplitHostPort (net/ipsock.go), strconv.ParseUint(s, 10, 16),
    netip.ParseAddr (net/netip/netip.go) and the part of net/url.Parse that
    decides Scheme and Host for strings over a restricted alphabet
    ([url_safe]); every one of them is compared with the real function on every
    generated string by the driver (harness/cmd/c18).

    Executable model only; the proofs are in Proofs/Addr.v. *)
From Coq Require Import Ascii String.
From Verif Require Import Base.Prelude.   (* after String: [length], [++] are the list ones *)
Open Scope N_scope.

Definition str := list N.

(** [lit "udp"]: a string literal as a list of character codes. *)
Definition lit (s : String.string) : str := map Ascii.N_of_ascii (String.list_ascii_of_string s).
Arguments lit s%string.

Definition c_colon : N := 58.   (* ':' *)
Definition c_lbr : N := 91.     (* '[' *)
Definition c_rbr : N := 93.     (* ']' *)
Definition c_slash : N := 47.   (* '/' *)
Definition c_dot : N := 46.     (* '.' *)
Definition c_pct : N := 37.     (* '%' *)

Definition is_digit (c : N) : bool := (48 <=? c) && (c <=? 57).
Definition is_lower (c : N) : bool := (97 <=? c) && (c <=? 122).
Definition is_upper (c : N) : bool := (65 <=? c) && (c <=? 90).
Definition is_alpha (c : N) : bool := is_lower c || is_upper c.
Definition to_lower (c : N) : N := if is_upper c then c + 32 else c.

Definition str_eqb (a b : str) : bool := list_eqb N.eqb a b.

(** strings.IndexByte / strings.LastIndexByte / strings.Contains on one byte *)
Fixpoint index_byte (c : N) (s : str) : option nat :=
  match s with
  | [] => None
  | x :: t => if x =? c then Some O else option_map S (index_byte c t)
  end.

Fixpoint last_index_byte (c : N) (s : str) : option nat :=
  match s with
  | [] => None
  | x :: t =>
    match last_index_byte c t with
    | Some i => Some (S i)
    | None => if x =? c then Some O else None
    end
  end.

Definition has (c : N) (s : str) : bool := existsb (N.eqb c) s.

Fixpoint has_prefix (p s : str) : bool :=
  match p, s with
  | [], _ => true
  | a :: p', b :: s' => (a =? b) && has_prefix p' s'
  | _ :: _, [] => false
  end.

Fixpoint contains (p s : str) : bool :=
  has_prefix p s || match s with [] => false | _ :: t => contains p t end.

(** strings.Count(s, ":") *)
Definition count_colon (s : str) : nat := length (filter (N.eqb c_colon) s).

Definition is_nil (s : str) : bool := match s with [] => true | _ => false end.

(** s[i:j] *)
Definition slice (i j : nat) (s : str) : str := firstn (j - i) (skipn i s).

(** ** net.SplitHostPort (Go 1.23 net/ipsock.go), branch for branch *)

Inductive shp_err := EMissingPort | ETooManyColons | EMissingRbr | EUnexpLbr | EUnexpRbr.
Inductive shp_res := ShpOk (host port : str) | ShpErr (e : shp_err).

(** the two trailing checks and the result; j, k = first positions where a
    '[' resp. ']' is no longer allowed *)
Definition shp_finish (hp host : str) (j k i : nat) : shp_res :=
  if has c_lbr (skipn j hp) then ShpErr EUnexpLbr
  else if has c_rbr (skipn k hp) then ShpErr EUnexpRbr
  else ShpOk host (skipn (S i) hp).

Definition split_host_port (hp : str) : shp_res :=
  match last_index_byte c_colon hp with
  | None => ShpErr EMissingPort
  | Some i =>
    if nth 0 hp 0 =? c_lbr then
      match index_byte c_rbr hp with
      | None => ShpErr EMissingRbr
      | Some e =>
        if (S e =? length hp)%nat then ShpErr EMissingPort
        else if (S e =? i)%nat then shp_finish hp (slice 1 e hp) 1 (S e) i
        else if nth (S e) hp 0 =? c_colon then ShpErr ETooManyColons
        else ShpErr EMissingPort
      end
    else
      let host := firstn i hp in
      if has c_colon host then ShpErr ETooManyColons
      else shp_finish hp host 0 0 i
  end.

(** ** strconv.ParseUint(s, 10, 16): [None] = any error *)
Definition pu_cutoff : N := 1844674407370955162.   (* maxUint64/10 + 1 *)
Definition two64 : N := 18446744073709551616.

Fixpoint pu_loop (n : N) (s : str) : option N :=
  match s with
  | [] => Some n
  | c :: t =>
    if is_digit c then
      if pu_cutoff <=? n then None
      else
        let n10 := n * 10 in
        let n1 := (n10 + (c - 48)) mod two64 in
        if (n1 <? n10) || (65535 <? n1) then None else pu_loop n1 t
    else None
  end.

Definition parse_uint16 (s : str) : option N :=
  match s with [] => None | _ => pu_loop 0 s end.

(** ** pkg/upstream/utils.go *)

(** trySplitHostPort: [None] = "invalid port" error *)
Definition try_split_host_port (s : str) : option (str * N) :=
  match split_host_port s with
  | ShpOk host port_s =>
    match parse_uint16 port_s with
    | Some n => Some (host, n)
    | None => None
    end
  | ShpErr _ => Some (s, 0)
  end.

Definition parse_dial_addr (url_host dial_addr : str) (default_port : N) : option (str * N) :=
  let addr := if (0 <? length dial_addr)%nat then dial_addr else url_host in
  match try_split_host_port addr with
  | None => None
  | Some (host, port) => Some (host, if port =? 0 then default_port else port)
  end.

Definition try_remove_port (s : str) : str :=
  match split_host_port s with
  | ShpOk host _ => host
  | ShpErr _ => s
  end.

Definition trim_v6_brackets (s : str) : str :=
  if (length s <? 2)%nat then s
  else if (nth 0 s 0 =? c_lbr) && (nth (length s - 1) s 0 =? c_rbr)
       then slice 1 (length s - 1) s
       else s.

(** ** netip.ParseAddr: the 4 or 16 address bytes (the zone is dropped) *)

Fixpoint v4_loop (s : str) (first prev_dot : bool) (val diglen : N) (fields : list N) : option (list N) :=
  match s with
  | [] => if (length fields <? 3)%nat then None else Some (fields ++ [val])
  | c :: t =>
    if is_digit c then
      if (diglen =? 1) && (val =? 0) then None
      else
        let v := val * 10 + (c - 48) in
        if 255 <? v then None else v4_loop t false false v (diglen + 1) fields
    else if c =? c_dot then
      if first || is_nil t || prev_dot then None
      else if (length fields =? 3)%nat then None
      else v4_loop t false true 0 0 (fields ++ [val])
    else None
  end.

Definition parse_ipv4 (s : str) : option (list N) := v4_loop s true false 0 0 [].

Definition hexval (c : N) : option N :=
  if is_digit c then Some (c - 48)
  else if (97 <=? c) && (c <=? 102) then Some (c - 87)
  else if (65 <=? c) && (c <=? 70) then Some (c - 55)
  else None.

(** maximal hex prefix: value, number of digits, rest *)
Fixpoint hex_prefix (s : str) (acc : N) (n : nat) : N * nat * str :=
  match s with
  | [] => (acc, n, [])
  | c :: t =>
    match hexval c with
    | Some d => hex_prefix t (acc * 16 + d) (S n)
    | None => (acc, n, s)
    end
  end.

(** the "for i < 16" loop of parseIPv6; i = length ip; result = (unconsumed
    text, bytes so far, position of the ellipsis) *)
Fixpoint v6_loop (fuel : nat) (s : str) (ip : list N) (ell : option nat)
  : option (str * list N * option nat) :=
  if (16 <=? length ip)%nat then Some (s, ip, ell) else
  match fuel with
  | O => None
  | S f =>
    let '(acc, off, rest) := hex_prefix s 0 0 in
    if (4 <? off)%nat then None
    else if (off =? 0)%nat then None
    else if match rest with c :: _ => c =? c_dot | [] => false end then
      if (match ell with None => true | Some _ => false end) && negb (length ip =? 12)%nat then None
      else if (16 <? length ip + 4)%nat then None
      else match parse_ipv4 s with
           | None => None
           | Some f4 => Some ([], ip ++ f4, ell)
           end
    else
      let ip' := ip ++ [acc / 256; acc mod 256] in
      match rest with
      | [] => Some ([], ip', ell)
      | c :: r1 =>
        if negb (c =? c_colon) then None
        else match r1 with
             | [] => None
             | c2 :: r2 =>
               if c2 =? c_colon then
                 match ell with
                 | Some _ => None
                 | None =>
                   match r2 with
                   | [] => Some ([], ip', Some (length ip'))
                   | _ => v6_loop f r2 ip' (Some (length ip'))
                   end
                 end
               else v6_loop f r1 ip' ell
             end
      end
  end.

Definition parse_ipv6_nozone (s : str) : option (list N) :=
  let lead := has_prefix [c_colon; c_colon] s in
  let s1 := if lead then skipn 2 s else s in
  if lead && is_nil s1 then Some (repeat 0 16)
  else
    match v6_loop 9 s1 [] (if lead then Some O else None) with
    | None => None
    | Some (rest, ip, ell) =>
      if negb (is_nil rest) then None
      else if (length ip <? 16)%nat then
        match ell with
        | None => None
        | Some e => Some (firstn e ip ++ repeat 0 (16 - length ip) ++ skipn e ip)
        end
      else match ell with Some _ => None | None => Some ip end
    end.

Definition parse_ipv6 (s : str) : option (list N) :=
  match index_byte c_pct s with
  | Some i => if is_nil (skipn (S i) s) then None else parse_ipv6_nozone (firstn i s)
  | None => parse_ipv6_nozone s
  end.

(** ParseAddr: the first of '.', ':', '%' decides *)
Fixpoint parse_ip_scan (whole s : str) : option (list N) :=
  match s with
  | [] => None
  | c :: t =>
    if c =? c_dot then parse_ipv4 whole
    else if c =? c_colon then parse_ipv6 whole
    else if c =? c_pct then None
    else parse_ip_scan whole t
  end.
Definition parse_ip (s : str) : option (list N) := parse_ip_scan s s.
Definition ip_literal (s : str) : bool := match parse_ip s with Some _ => true | None => false end.

(** ** net/url.Parse: Scheme and Host, for strings over [url_safe] *)

(** letters, digits and  . - _ + : [ ] /   — no userinfo, query, fragment,
    escapes, spaces or control characters; outside this alphabet the model
    declines ([UrlOut]) *)
Definition url_safe (c : N) : bool :=
  is_alpha c || is_digit c ||
  existsb (N.eqb c) [c_dot; 45; 95; 43; c_colon; c_lbr; c_rbr; c_slash].

Inductive gs_res := GsErr | GsNone | GsAt (n : nat).

(** getScheme: position of the ':' that ends the scheme *)
Fixpoint get_scheme (first : bool) (s : str) : gs_res :=
  match s with
  | [] => GsNone
  | c :: t =>
    if is_alpha c then
      match get_scheme false t with GsAt n => GsAt (S n) | r => r end
    else if is_digit c || (c =? 43) || (c =? 45) || (c =? c_dot) then
      if first then GsNone
      else match get_scheme false t with GsAt n => GsAt (S n) | r => r end
    else if c =? c_colon then
      if first then GsErr else GsAt O
    else GsNone
  end.

Definition valid_optional_port (p : str) : bool :=
  match p with
  | [] => true
  | c :: t => (c =? c_colon) && forallb is_digit t
  end.

(** parseHost (no '%' in the alphabet, so no zone and no unescaping) *)
Definition parse_host (h : str) : option str :=
  if has_prefix [c_lbr] h then
    match last_index_byte c_rbr h with
    | None => None
    | Some i => if valid_optional_port (skipn (S i) h) then Some h else None
    end
  else
    match last_index_byte c_colon h with
    | Some i => if valid_optional_port (skipn i h) then Some h else None
    | None => Some h
    end.

(** text before the first [c] *)
Fixpoint take_until (c : N) (s : str) : str :=
  match s with
  | [] => []
  | x :: t => if x =? c then [] else x :: take_until c t
  end.

Inductive url_res := UrlOk (scheme host : str) | UrlErr | UrlOut.

Definition url_parse (raw : str) : url_res :=
  if negb (forallb url_safe raw) then UrlOut else
  match get_scheme true raw with
  | GsErr => UrlErr
  | r =>
    let '(scheme, rest) :=
      match r with
      | GsAt n => (map to_lower (firstn n raw), skipn (S n) raw)
      | _ => ([], raw)
      end in
    if negb (has_prefix [c_slash] rest) then
      if negb (is_nil scheme) then UrlOk scheme []            (* opaque *)
      else if has c_colon (take_until c_slash rest) then UrlErr (* first path segment cannot contain colon *)
      else UrlOk scheme []
    else if (negb (is_nil scheme) || negb (has_prefix [c_slash; c_slash; c_slash] rest))
            && has_prefix [c_slash; c_slash] rest then
      match parse_host (take_until c_slash (skipn 2 rest)) with
      | Some h => UrlOk scheme h
      | None => UrlErr
      end
    else UrlOk scheme []
  end.

(** ** NewUpstream: which host and port will be dialled, and the TLS name *)

Inductive transport := TUdp | TTcp | TTls | THttps | TH3 | TQuic.

Record target := mk_target {
  t_transport : transport;
  t_host : str;
  t_port : N;
  t_tls_name : option str;  (* tls.Config.ServerName when the option leaves it empty *)
  t_http_host : option str  (* host of the URL handed to net/http (https, h3) *)
}.

(** "Apply helper protocol" *)
Definition apply_helper (scheme : str) : str * bool :=
  if str_eqb scheme (lit "tcp+pipeline") || str_eqb scheme (lit "tls+pipeline")
  then (firstn 3 scheme, false)
  else if str_eqb scheme (lit "h3") then (lit "https", true)
  else (scheme, false).

(** The scheme switch of NewUpstream on the parsed URL. [is_ip]:
    netip.ParseAddr accepts; [socks]: Opt.Socks5 is set. Bootstrap is not
    configured, TLSConfig.ServerName is empty. *)
Definition upstream_of_url (is_ip : str -> bool) (scheme0 url_host dial_addr : str) (socks : bool)
  : option target :=
  let '(scheme, http3) := apply_helper scheme0 in
  let addr_url_host := trim_v6_brackets url_host in
  (* newUdpAddrResolveFunc *)
  let udp_resolve (tr : transport) (name hh : option str) (default_port : N) :=
    match parse_dial_addr addr_url_host dial_addr default_port with
    | None => None
    | Some (host, port) => Some (mk_target tr host port name hh)
    end in
  (* newTcpDialer *)
  let tcp_dialer (tr : transport) (name hh : option str) (must_be_ip : bool) (default_port : N) :=
    match parse_dial_addr addr_url_host dial_addr default_port with
    | None => None
    | Some (host, port) =>
      if socks then Some (mk_target tr host port name hh)
      else if is_ip host then Some (mk_target tr host port name hh)
      else if must_be_ip then None
      else Some (mk_target tr host port name hh)
    end in
  if is_nil scheme || str_eqb scheme (lit "udp") then
    match parse_dial_addr addr_url_host dial_addr 53 with
    | None => None
    | Some (host, port) => if is_ip host then Some (mk_target TUdp host port None None) else None
    end
  else if str_eqb scheme (lit "tcp") then tcp_dialer TTcp None None true 53
  else if str_eqb scheme (lit "tls") then
    tcp_dialer TTls (Some (try_remove_port addr_url_host)) None false 853
  else if str_eqb scheme (lit "https") then
    (* a bare IPv6 url host gets the brackets net/http needs *)
    let http_host :=
      if negb (has_prefix [c_lbr] url_host) && (2 <=? count_colon url_host)%nat
      then [c_lbr] ++ url_host ++ [c_rbr] else url_host in
    if http3 then udp_resolve TH3 (Some (try_remove_port addr_url_host)) (Some http_host) 443
    else tcp_dialer THttps (Some (try_remove_port addr_url_host)) (Some http_host) false 443
  else if str_eqb scheme (lit "quic") || str_eqb scheme (lit "doq") then
    udp_resolve TQuic (Some (try_remove_port addr_url_host)) None 853
  else None.

Definition new_upstream (is_ip : str -> bool) (addr dial_addr : str) (socks : bool) : option target :=
  let addr := if contains (lit "://") addr then addr else lit "udp://" ++ addr in
  match url_parse addr with
  | UrlOk scheme0 url_host => upstream_of_url is_ip scheme0 url_host dial_addr socks
  | _ => None
  end.

(** ** Several upstreams created one after another

    NewUpstream keeps no state and does not write to its options (it clones
    Opt.TLSConfig before defaulting the server name): the upstreams of a
    sequence of calls are the upstreams of the single calls. *)
Definition new_upstreams (is_ip : str -> bool) (calls : list (str * str * bool)) : list (option target) :=
  map (fun c => new_upstream is_ip (fst (fst c)) (snd (fst c)) (snd c)) calls.

(** tls.Config.ServerName an upstream ends up with: the caller's if set, else derived from the URL *)
Definition effective_tls_name (preset : str) (t : target) : option str :=
  match t_tls_name t with
  | Some name => Some (if is_nil preset then name else preset)
  | None => None
  end.

(** ** Every place where the created upstream dials

    The plain udp upstream has two: dialUdpPipeline (the UDP socket) and
    dialTcpNetConn (the TCP connection used to repeat a query whose UDP reply
    was truncated); both dial the same joinPort(host, port). The other
    transports have one. *)
Inductive netw := NetUdp | NetTcp.

Definition dial_sites (t : target) : list (netw * str * N) :=
  match t_transport t with
  | TUdp => [(NetUdp, t_host t, t_port t); (NetTcp, t_host t, t_port t)]
  | TTcp | TTls | THttps => [(NetTcp, t_host t, t_port t)]
  | TH3 | TQuic => [(NetUdp, t_host t, t_port t)]
  end.

(** ** Opt.Bootstrap: a plain DNS server that resolves the host *)

(** parseBootstrapAp accepts: an IP literal with an optional port *)
Definition bootstrap_ok (is_ip : str -> bool) (s : str) : bool :=
  match try_split_host_port s with
  | None => false
  | Some (h, _) => is_ip h
  end.

(** how a connection is opened once host and port are known *)
Inductive dial_plan :=
| DialLiteral (host : str) (port : N)     (* net.JoinHostPort(host, port): proxy, IP literal or system resolver *)
| DialBootstrap (host : str) (port : N).  (* bootstrap.New(host, port): the address host resolves to, this port *)

Definition dial_plan_of (is_ip : str -> bool) (t : target) (socks bootstrap_set : bool) : dial_plan :=
  let lit_plan := DialLiteral (t_host t) (t_port t) in
  let resolve := if is_ip (t_host t) then lit_plan
                 else if bootstrap_set then DialBootstrap (t_host t) (t_port t)
                 else lit_plan in
  match t_transport t with
  | TUdp => lit_plan
  | TTcp | TTls | THttps => if socks then lit_plan else resolve   (* newTcpDialer *)
  | TH3 | TQuic => resolve                                         (* newUdpAddrResolveFunc *)
  end.

Definition new_upstream_bs (is_ip : str -> bool) (addr dial_addr : str) (socks : bool) (bootstrap : str)
  : option (target * dial_plan) :=
  let bs_set := (0 <? length bootstrap)%nat in
  if bs_set && negb (bootstrap_ok is_ip bootstrap) then None
  else match new_upstream is_ip addr dial_addr socks with
       | None => None
       | Some t => Some (t, dial_plan_of is_ip t socks bs_set)
       end.

(** ** The grammar of the property's quantifier *)

(** what the user wrote as an endpoint: [EName h p] = h or h:p (hostname or
    IPv4), [EV6 v br p] = v, [v] or [v]:p *)
Inductive ep :=
| EName (h : str) (port : option str)
| EV6 (v : str) (br : bool) (port : option str).

Definition ep_host (e : ep) : str := match e with EName h _ => h | EV6 v _ _ => v end.
Definition ep_port (e : ep) : option str := match e with EName _ p => p | EV6 _ _ p => p end.

Definition render_port (p : option str) : str :=
  match p with Some d => c_colon :: d | None => [] end.
Definition render_ep (e : ep) : str :=
  match e with
  | EName h p => h ++ render_port p
  | EV6 v br p => (if br then [c_lbr] ++ v ++ [c_rbr] else v) ++ render_port p
  end.

(** value of a decimal digit string *)
Definition dec_value (d : str) : N := fold_left (fun a c => a * 10 + (c - 48)) d 0.

Definition wf_port (d : str) : bool :=
  negb (is_nil d) && forallb is_digit d && (1 <=? dec_value d) && (dec_value d <=? 65535).
Definition wf_port_opt (p : option str) : bool :=
  match p with Some d => wf_port d | None => true end.

(** characters of a hostname / IPv4 token, and of the text inside brackets *)
Definition name_char (c : N) : bool :=
  url_safe c && negb (c =? c_colon) && negb (c =? c_lbr) && negb (c =? c_rbr) && negb (c =? c_slash).
Definition inner_char (c : N) : bool := name_char c || (c =? c_colon).

(** text after the last colon *)
Definition after_last_colon (s : str) : str :=
  match last_index_byte c_colon s with Some i => skipn (S i) s | None => s end.

(** well-formed endpoint: a non-empty colon-free name, or IPv6 text with at
    least two colons; a port needs brackets around IPv6 text *)
Definition wf_ep (e : ep) : bool :=
  match e with
  | EName h p => negb (is_nil h) && forallb name_char h && wf_port_opt p
  | EV6 v br p =>
    forallb inner_char v && (2 <=? count_colon v)%nat && wf_port_opt p
    && (br || match p with None => true | Some _ => false end)
  end.

(** in the URL a bare IPv6 text must end in a (possibly empty) decimal group,
    otherwise net/url refuses it as an invalid port *)
Definition url_ok_ep (e : ep) : bool :=
  match e with
  | EV6 v false _ => forallb is_digit (after_last_colon v)
  | _ => true
  end.

(** dial_addr: "[v6]" without a port is not a form the option supports *)
Definition dial_ok_ep (e : ep) : bool :=
  match e with
  | EV6 _ true None => false
  | _ => true
  end.

Definition wf_path (p : str) : bool :=
  forallb url_safe p && (is_nil p || has_prefix [c_slash] p).

Definition port_or (p : option str) (default_port : N) : N :=
  match p with Some d => dec_value d | None => default_port end.

(** scheme -> transport and default port, the table the property states *)
Definition scheme_table : list (String.string * transport * N) :=
  [ ("udp", TUdp, 53); ("tcp", TTcp, 53); ("tcp+pipeline", TTcp, 53);
    ("tls", TTls, 853); ("tls+pipeline", TTls, 853);
    ("https", THttps, 443); ("h3", TH3, 443); ("quic", TQuic, 853); ("doq", TQuic, 853) ]%string.

Definition transport_eqb (a b : transport) : bool :=
  match a, b with
  | TUdp, TUdp | TTcp, TTcp | TTls, TTls | THttps, THttps | TH3, TH3 | TQuic, TQuic => true
  | _, _ => false
  end.

(** the host must be an IP literal at creation time *)
Definition needs_ip (tr : transport) (socks : bool) : bool :=
  match tr with TUdp => true | TTcp => negb socks | _ => false end.
Definition has_tls_name (tr : transport) : bool :=
  match tr with TUdp | TTcp => false | _ => true end.
