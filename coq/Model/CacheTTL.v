(** C05 — TTL ageing, expiry, admission and lazy refresh of the cache plugin:
    plugin/executable/cache/utils.go (getRespFromCache, saveRespToCache, copyNoOpt),
    plugin/executable/cache/cache.go (Exec, doLazyUpdate, readDump, writeDump),
    pkg/dnsutils/msg.go (GetMinimalTTL, SubtractTTL, SetTTL),
    pkg/cache/cache.go (Get, Store, gc) and x/sync/singleflight (DoChan, doCall, Forget).

    Executable model only; the proofs are in Proofs/CacheTTL.v.
    TTLs, rcodes and keys are [N]; instants and durations are [Z] nanoseconds
    on one clock (monotonic-clock subtleties of time.Time are not modelled). *)
From Verif Require Import Base.Prelude Gen.Constants.
From Coq Require Import SpecFloat.
Open Scope N_scope.

(** * Messages: only what the TTL logic reads *)

(** One resource record: section (0 answer, 1 authority, 2 additional),
    "Rrtype == TypeOPT", and the 32 bit TTL field. *)
Record rr := RR { rr_sec : N; rr_opt : bool; rr_ttl : N }.
Record msg := Msg { m_rcode : N; m_tc : bool; m_rrs : list rr }.

Definition max_u32 : N := 4294967295.

(** dnsutils.GetMinimalTTL: minTTL starts at ^uint32(0); OPT is skipped;
    a message without any other record yields 0. *)
Fixpoint min_ttl_aux (mn : N) (has : bool) (l : list rr) : N * bool :=
  match l with
  | [] => (mn, has)
  | r :: t =>
    if rr_opt r then min_ttl_aux mn has t
    else min_ttl_aux (if rr_ttl r <? mn then rr_ttl r else mn) true t
  end.
Definition min_ttl (m : msg) : N :=
  let '(mn, has) := min_ttl_aux max_u32 false (m_rrs m) in
  if has then mn else 0.

(** dnsutils.SubtractTTL: "if ttl > delta then ttl - delta else 1", OPT skipped. *)
Definition sub_rr (delta : N) (r : rr) : rr :=
  if rr_opt r then r
  else RR (rr_sec r) false (if delta <? rr_ttl r then rr_ttl r - delta else 1).
Definition subtract_ttl (delta : N) (m : msg) : msg :=
  Msg (m_rcode m) (m_tc m) (map (sub_rr delta) (m_rrs m)).

(** dnsutils.SetTTL, OPT skipped. *)
Definition set_rr (ttl : N) (r : rr) : rr :=
  if rr_opt r then r else RR (rr_sec r) false ttl.
Definition set_ttl (ttl : N) (m : msg) : msg :=
  Msg (m_rcode m) (m_tc m) (map (set_rr ttl) (m_rrs m)).

(** copyNoOpt: OPT records are dropped from the additional section only. *)
Definition copy_no_opt (m : msg) : msg :=
  Msg (m_rcode m) (m_tc m) (filter (fun r => negb (rr_opt r && (rr_sec r =? 2))) (m_rrs m)).

(** len(r.Answer) != 0 *)
Definition has_answer (m : msg) : bool := existsb (fun r => rr_sec r =? 0) (m_rrs m).

(** * Time *)
Open Scope Z_scope.

Definition second : Z := 1000000000.
Definition min_dur : Z := - 9223372036854775808.
Definition max_dur : Z := 9223372036854775807.

(** time.Time.Sub saturates at the int64 range of time.Duration. *)
Definition dur_sub (t u : Z) : Z := Z.max min_dur (Z.min max_dur (t - u)).

(** int64 wrap-around of a product ("time.Duration(x) * time.Second"). *)
Definition wrap64 (z : Z) : Z := (z + 9223372036854775808) mod 18446744073709551616 - 9223372036854775808.

(** Whole seconds of a duration, rounded toward zero (Go's "/" on int64). *)
Definition secs_floor (d : Z) : Z := Z.quot d second.

(** time.Duration.Seconds() is float64(d / Second) + float64(d % Second) / 1e9
    in IEEE binary64, and the Go conversion to an integer truncates toward
    zero. [secs_go] computes exactly that (SpecFloat is the executable
    binary64 specification of the Coq standard library). It equals
    [secs_floor] except that from 2^24 s (194 days) on it can be one larger
    in the last 0.5 microsecond before a whole second. *)
Definition f64 (z : Z) : spec_float := binary_normalize 53 1024 z 0 false.
Definition sf_trunc (f : spec_float) : Z :=
  match f with
  | S754_finite s m e =>
    let a := match e with
             | Z0 => Zpos m
             | Zpos p => Z.shiftl (Zpos m) (Zpos p)
             | Zneg p => Z.shiftr (Zpos m) (Zpos p)
             end in
    if s then - a else a
  | _ => 0
  end.
Definition secs_go (d : Z) : Z :=
  sf_trunc (SFadd 53 1024 (f64 (Z.quot d second))
                          (SFdiv 53 1024 (f64 (Z.rem d second)) (f64 second))).

(** "uint32(x)" of a float whose truncation is [z]: on amd64 the conversion
    goes through int64 and keeps the low 32 bits (|z| < 2^63 always holds
    here because |d| <= 2^63 ns). *)
Definition u32_of_Z (z : Z) : N := Z.to_N (z mod 4294967296).

(** uint32(now.Sub(storedTime).Seconds()); [secs] is [secs_go] for the code
    as it runs, [secs_floor] for the idealised reading. *)
Definition elapsed_with (secs : Z -> Z) (now stored : Z) : N :=
  u32_of_Z (secs (dur_sub now stored)).

(** * Cache entries *)

(** plugin item + the backend's own expiry (pkg/cache elem.expirationTime). *)
Record entry := Entry { e_msg : msg; e_stored : Z; e_msg_exp : Z; e_cache_exp : Z }.

(** saveRespToCache: the two lifetimes, before the "<= 0" test. NXDOMAIN and
    SERVFAIL lifetimes are literals in the Go source (time.Second * 30, * 5);
    the empty-answer cap is the generated constant. *)
Definition save_ttls (r : msg) (lazy_ttl : Z) : Z * Z :=
  if (m_rcode r =? 3)%N then (30 * second, 30 * second)
  else if (m_rcode r =? 2)%N then (5 * second, 5 * second)
  else if (m_rcode r =? 0)%N then
    let mt := min_ttl r in
    if has_answer r then
      let msg_ttl := Z.of_N mt * second in
      (msg_ttl, if 0 <? lazy_ttl then wrap64 (lazy_ttl * second) else msg_ttl)
    else
      let msg_ttl := Z.of_N (if (mt <? cache_max_empty_answer_ttl)%N then mt else cache_max_empty_answer_ttl) * second in
      (msg_ttl, msg_ttl)
  else (0, 0).

(** [Some (msgTtl, cacheTtl)] when the reply is accepted. *)
Definition save_decision (r : msg) (lazy_ttl : Z) : option (Z * Z) :=
  if m_tc r then None
  else
    let '(msg_ttl, cache_ttl) := save_ttls r lazy_ttl in
    if (msg_ttl <=? 0) || (cache_ttl <=? 0) then None else Some (msg_ttl, cache_ttl).

Definition save (r : msg) (lazy_ttl now : Z) : option entry :=
  match save_decision r lazy_ttl with
  | Some (msg_ttl, cache_ttl) => Some (Entry (copy_no_opt r) now (now + msg_ttl) (now + cache_ttl))
  | None => None
  end.

(** pkg/cache Store: a no-op iff now.After(expirationTime). *)
Definition store_ignored (now cache_exp : Z) : bool := cache_exp <? now.
(** pkg/cache Get: the entry is hidden (and deleted) iff expirationTime.Before(now). *)
Definition get_hidden (now cache_exp : Z) : bool := cache_exp <? now.

(** getRespFromCache. [now1] is the time.Now() inside backend.Get, [now2] the
    later time.Now() inside getRespFromCache. Result: the reply and whether it
    is a lazy (stale) hit. *)
Definition get_resp_with (secs : Z -> Z) (lazy_on : bool) (now1 now2 : Z) (en : option entry)
  : option (msg * bool) :=
  match en with
  | None => None
  | Some e =>
    if get_hidden now1 (e_cache_exp e) then None
    else if now2 <? e_msg_exp e then
      Some (subtract_ttl (elapsed_with secs now2 (e_stored e)) (e_msg e), false)
    else if lazy_on then Some (set_ttl cache_expired_msg_ttl (e_msg e), true)
    else None
  end.
Definition get_resp := get_resp_with secs_go.

(** Cache.Exec passes "c.args.LazyCacheTTL > 0". *)
Definition lazy_enabled (lazy_ttl : Z) : bool := 0 <? lazy_ttl.

(** * Histories of one cache instance *)

(** The backend map as a total function; [c_keys] lists the keys ever
    written (sorted, without repetition) so that a dump can enumerate them. *)
Definition store := N -> option entry.
Definition st_empty : store := fun _ => None.
Definition st_del (k : N) (st : store) : store := fun x => if (x =? k)%N then None else st x.
Definition st_set (k : N) (e : entry) (st : store) : store := fun x => if (x =? k)%N then Some e else st x.
(** pkg/cache gc(now): delete iff now.After(expirationTime) *)
Definition st_gc (now : Z) (st : store) : store :=
  fun x => match st x with
           | Some e => if e_cache_exp e <? now then None else Some e
           | None => None
           end.

(** What the driver (and the theorems' histories) can do to a cache. All
    dump times are whole seconds, as in the dump format. *)
Inductive op :=
| OLoad (k : N) (age msg_life cache_life : Z) (m : msg)
  (** POST /load_dump of one entry: stored = (this second) - age,
      msg expiry = stored + msg_life, cache expiry = stored + cache_life *)
| OExec (k : N) (resp : option msg)
  (** Cache.Exec for question k; the rest of the chain sets the reply [resp]
      (as the plugin sees it) or leaves the context alone *)
| ODump            (** GET /dump *)
| OWait (s : Z)    (** s seconds pass *)
| OGc              (** the backend's sweep *)
| OEvict (k : N)   (** the size-bounded map drops an entry *)
| OExecR (k : N) (bg : option msg).
  (** Cache.Exec for question k where the rest of the chain leaves the context
      alone; if the hit is stale, the background refresh (doLazyUpdate) is
      answered with [bg] (or gets no reply) and has finished before the next
      operation *)

Inductive obs :=
| BExec (served : option (list rr)) (lazy_hit : bool)
| BDump (entries : list (N * (Z * Z * Z) * list rr)) (** key, (age, msg life, cache life) in s, records *)
| BNone.

Record cstate := CState { c_now : Z; c_st : store; c_keys : list N }.

Definition tick : Z := 1000.

(** time.Time.Unix() *)
Definition unix (t : Z) : Z := t / second.

Fixpoint ins_key (k : N) (l : list N) : list N :=
  match l with
  | [] => [k]
  | y :: t => if (k =? y)%N then l else if (k <? y)%N then k :: l else y :: ins_key k t
  end.

(** writeDump skips entries whose cache expiry is Before(now). *)
Definition dump_of (now : Z) (st : store) (keys : list N) : list (N * (Z * Z * Z) * list rr) :=
  flat_map (fun k =>
    match st k with
    | Some e =>
      if e_cache_exp e <? now then []
      else [(k, (unix now - unix (e_stored e),
                 unix (e_msg_exp e) - unix (e_stored e),
                 unix (e_cache_exp e) - unix (e_stored e)), m_rrs (e_msg e))]
    | None => []
    end) keys.

(** Both callers of saveRespToCache (Exec and the refresh in doLazyUpdate):
    the reply, if there is one, goes through [save] and pkg/cache Store. *)
Definition apply_reply (resp : option msg) (lazy_ttl now : Z) (k : N) (st : store) : store :=
  match resp with
  | Some m => match save m lazy_ttl now with
              | Some e => if store_ignored now (e_cache_exp e) then st else st_set k e st
              | None => st
              end
  | None => st
  end.

(** [drop = true] is the code; [drop = false] is the reference in which
    nothing is ever removed from the map (see Proofs: the two cannot be told
    apart by look-ups). *)
Definition step_gen (drop : bool) (secs : Z -> Z) (lazy_ttl : Z) (c : cstate) (o : op) : cstate * obs :=
  let now := c_now c + tick in
  let st := c_st c in
  let keys := c_keys c in
  match o with
  | OLoad k age ml cl m =>
    let stored := (unix now - age) * second in
    let e := Entry m stored (stored + ml * second) (stored + cl * second) in
    (CState now (if store_ignored now (e_cache_exp e) then st else st_set k e st) (ins_key k keys), BNone)
  | OExec k resp =>
    let en := st k in
    let st1 := match en with
               | Some e => if drop && get_hidden now (e_cache_exp e) then st_del k st else st
               | None => st
               end in
    let r := get_resp_with secs (lazy_enabled lazy_ttl) now now en in
    let st2 := apply_reply resp lazy_ttl now k st1 in
    (CState now st2 (ins_key k keys),
     match r with
     | Some (m, lz) => BExec (Some (m_rrs m)) lz
     | None => BExec None false
     end)
  | ODump => (CState now st keys, BDump (dump_of now st keys))
  | OWait s => (CState (now + Z.max 0 s * second) st keys, BNone)
  | OGc => (CState now (if drop then st_gc now st else st) keys, BNone)
  | OEvict k => (CState now (if drop then st_del k st else st) keys, BNone)
  | OExecR k bg =>
    let en := st k in
    let st1 := match en with
               | Some e => if drop && get_hidden now (e_cache_exp e) then st_del k st else st
               | None => st
               end in
    let r := get_resp_with secs (lazy_enabled lazy_ttl) now now en in
    let stale := match r with Some (_, lz) => lz | None => false end in
    (* only a stale hit starts the refresh; its reply is stored by the same function *)
    let st2 := if stale then apply_reply bg lazy_ttl now k st1 else st1 in
    (CState now st2 (ins_key k keys),
     match r with
     | Some (m, lz) => BExec (Some (m_rrs m)) lz
     | None => BExec None false
     end)
  end.
Definition step_with := step_gen true.

Fixpoint run_gen (drop : bool) (secs : Z -> Z) (lazy_ttl : Z) (c : cstate) (ops : list op) : cstate * list obs :=
  match ops with
  | [] => (c, [])
  | o :: t =>
    let '(c1, b) := step_gen drop secs lazy_ttl c o in
    let '(c2, bs) := run_gen drop secs lazy_ttl c1 t in
    (c2, b :: bs)
  end.
Definition run_with := run_gen true.

(** * Lazy refresh: singleflight.Group as used by doLazyUpdate *)
Open Scope N_scope.

(** [sf_map]: Group.m (key -> call identity); [sf_bodies]: calls whose
    function (next.ExecNext + saveRespToCache) has been started by DoChan and
    has not returned yet — the refreshes in flight; [sf_finishing]: calls whose
    function has returned (its deferred Forget has run) but whose doCall clean-up
    has not. *)
Record sfstate := SF {
  sf_map : N -> option N;
  sf_next : N;
  sf_bodies : list (N * N);
  sf_finishing : list (N * N)
}.

Inductive sflabel :=
| StaleHit (k : N)            (** Exec sees a stale entry: DoChan(k, refresh) *)
| FnReturn (k id : N)         (** the refresh of call id returns; deferred Forget(k) *)
| Cleanup (k id : N).         (** doCall's deferred "if g.m[key] == c { delete }" *)

Definition pair_eqb (a b : N * N) : bool := (fst a =? fst b) && (snd a =? snd b).
Definition mem_pair (p : N * N) (l : list (N * N)) : bool := existsb (pair_eqb p) l.
Definition remove_pair (p : N * N) (l : list (N * N)) : list (N * N) :=
  filter (fun q => negb (pair_eqb p q)) l.
Definition upd (f : N -> option N) (k : N) (v : option N) : N -> option N :=
  fun x => if x =? k then v else f x.

Definition sf_init : sfstate := SF (fun _ => None) 0 [] [].

(** A label that is not enabled leaves the state alone, so every label list is a schedule. *)
Definition sf_step (s : sfstate) (l : sflabel) : sfstate :=
  match l with
  | StaleHit k =>
    match sf_map s k with
    | Some _ => s
    | None => SF (upd (sf_map s) k (Some (sf_next s))) (sf_next s + 1)
                 ((k, sf_next s) :: sf_bodies s) (sf_finishing s)
    end
  | FnReturn k id =>
    if mem_pair (k, id) (sf_bodies s)
    then SF (upd (sf_map s) k None) (sf_next s)
            (remove_pair (k, id) (sf_bodies s)) ((k, id) :: sf_finishing s)
    else s
  | Cleanup k id =>
    if mem_pair (k, id) (sf_finishing s)
    then SF (match sf_map s k with
             | Some id' => if id' =? id then upd (sf_map s) k None else sf_map s
             | None => sf_map s
             end)
            (sf_next s) (sf_bodies s) (remove_pair (k, id) (sf_finishing s))
    else s
  end.

Definition sf_run (s : sfstate) (tr : list sflabel) : sfstate := fold_left sf_step tr s.

(** Number of refreshes in flight for question k. *)
Definition in_flight (k : N) (s : sfstate) : N :=
  N.of_nat (length (filter (fun p => fst p =? k) (sf_bodies s))).
