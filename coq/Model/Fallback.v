(** C20 — the fallback plugin's coordination protocol,
    plugin/executable/sequence/fallback/fallback.go [doFallback].

    Finite labelled transition system of the three goroutines of one call
    (primary worker, secondary worker, collecting caller), the 2-slot result
    channel, the two "closed" signals, the threshold timer, the secondary's
    own deadline context and the caller's context. [step] returns ALL
    successors of a state: every interleaving of the goroutines and of the
    environment events (timer fires / deadline expires / caller's context
    ends) is a path of [step].

    The state space is genuinely finite: two workers, one collector, a
    channel of capacity two, five monotone flags.

    Granularity: one transition per statement that touches shared state
    (send, close, select, receive). A goroutine-local action ([Exec]
    returning, reading [alwaysStandby] or [r]) is merged with the shared
    statement that follows it, which loses no interleaving. An executable's
    outcome is a configuration value; when it returns is free.

    Executable model only; the proofs are in Proofs/Fallback.v. *)
From Verif Require Import Base.Prelude Gen.Constants Gen.FallbackFacts.
From Coq Require Import FMapPositive.
Open Scope N_scope.

(** ** Configuration of one call *)

(** What an executable does when it is run: sets a response, returns without
    one, or returns an error. *)
Inductive outcome := OAns | ONone | OErr.

Record params := mkP {
  po : outcome;           (* primary's outcome *)
  so : outcome;           (* secondary's outcome *)
  standby : bool;         (* Args.AlwaysStandby *)
  sbd : bool;             (* source order of the primary's success branch:
                             true  = respChan <- r ; close(primDone)   (repaired)
                             false = close(primDone) ; respChan <- r   (original) *)
  timer_may : bool;       (* the threshold timer may fire during the call *)
  ddl_may : bool;         (* the secondary's deadline context (makeDdlCtx) may expire during the call *)
  ctx_may : bool          (* the caller's context may end during the call *)
}.

(** The parameters of a call of the code as it is in the source tree: the
    statement order is the one tools/gofacts found in doFallback. *)
Definition source_params (po so : outcome) (standby timer_may ddl_may ctx_may : bool) : params :=
  mkP po so standby fallback_send_before_done timer_may ddl_may ctx_may.

(** ** Configuration path (newFallbackPlugin)
<<
   threshold := time.Duration(args.Threshold) * time.Millisecond
   if threshold <= 0 { threshold = defaultFallbackThreshold }
>>
    [effective_threshold cfg] is the duration (ns) the threshold timer of
    [doFallback] is armed with when [threshold: cfg] (ms) is configured; an
    unset value is 0. [alwaysStandby] is the configured flag itself. *)
Definition ns_per_ms : Z := 1000000.
Definition effective_threshold (cfg : Z) : Z :=
  if (cfg * ns_per_ms <=? 0)%Z then fallback_default_threshold else (cfg * ns_per_ms)%Z.

(** ** State *)

Inductive who := WP | WS.
(** What travels on [respChan]: nil, or an answer tagged with its producer. *)
Inductive item := INil | IAns (w : who).
Inductive result := RAns (w : who) | RFail | RCtx.

(** Primary goroutine: still inside [primary.Exec]; between its two
    statements (schedule point "fallback.primary.mid"); finished. *)
Inductive ppc := P_run | P_mid | P_end.

(** Secondary goroutine:
    [S_wait]  first select (only without always_standby)
    [S_run]   inside [secondary.Exec] (or about to enter it)
    [S_ready] Exec returned without error (schedule point "fallback.secondary.ready")
    [S_hold]  standby select: a finished secondary waits
    [S_send]  about to queue its result (schedule point "fallback.secondary.send")
    [S_done]  queued its result and returned
    [S_done_err] Exec returned an error: queued nil and returned
    [S_skip]  saw primDone in the first select and returned without running *)
Inductive spc := S_wait | S_run | S_ready | S_hold | S_send | S_done | S_done_err | S_skip.

(** Collector loop: two / one results still to take, or returned. *)
Inductive cpc := C_wait2 | C_wait1 | C_ret (r : result).

(** Ghost: had the threshold timer (or the secondary's deadline) fired when
    the primary executed its first signalling statement? *)
Inductive psig := PSnone | PSintime | PSlate.

Record st := mkS {
  p_pc : ppc;
  s_pc : spc;
  chan : list item;       (* respChan, FIFO, capacity 2 *)
  prim_done : bool;       (* primDone closed *)
  prim_failed : bool;     (* primFailed closed *)
  timer_fired : bool;     (* timer.C has a value *)
  sdl_fired : bool;       (* the secondary's ctx.Done() is closed *)
  ctx_done : bool;        (* the caller's ctx.Done() is closed *)
  col : cpc;
  first_ans : option who; (* ghost: producer of the first non-nil item ever queued *)
  p_sig : psig            (* ghost, see [psig] *)
}.

(** The collection loop runs [fallback_collect_rounds] (= 2, regenerated from
    the source) rounds; any other value is not what this model describes and
    makes the proofs fail. *)
Definition init_col : cpc :=
  if fallback_collect_rounds =? 2 then C_wait2
  else if fallback_collect_rounds =? 1 then C_wait1
  else C_ret RFail.

Definition init (p : params) : st :=
  mkS P_run (if standby p then S_run else S_wait) [] false false false false false init_col None PSnone.

(** ** Sequences of calls on one plugin instance
    A call keeps all its state in locals of [doFallback] (the channels, the
    two copies of the query context); the only thing it shares with other
    calls is pkg/pool's timer pool. [timer_private] (regenerated from the
    source): the threshold timer is taken from the pool by the secondary
    goroutine itself and given back by a defer of that same goroutine, and
    [doFallback] touches the pool nowhere else -- so no goroutine can still
    be waiting on a timer that is back in the pool. Then every call of a
    sequence, whatever the earlier calls did and however they ended, is
    described by the single-call model started in [init]. *)
Definition timer_private : bool := fallback_timer_owned_by_secondary.

Definition call_model (earlier : list params) (p : params) : option st :=
  if timer_private then Some (init p) else None.

(** ** Updates *)
Definition set_ppc (s : st) v := mkS v (s_pc s) (chan s) (prim_done s) (prim_failed s) (timer_fired s) (sdl_fired s) (ctx_done s) (col s) (first_ans s) (p_sig s).
Definition set_spc (s : st) v := mkS (p_pc s) v (chan s) (prim_done s) (prim_failed s) (timer_fired s) (sdl_fired s) (ctx_done s) (col s) (first_ans s) (p_sig s).
Definition set_pdone (s : st) := mkS (p_pc s) (s_pc s) (chan s) true (prim_failed s) (timer_fired s) (sdl_fired s) (ctx_done s) (col s) (first_ans s) (p_sig s).
Definition set_pfailed (s : st) := mkS (p_pc s) (s_pc s) (chan s) (prim_done s) true (timer_fired s) (sdl_fired s) (ctx_done s) (col s) (first_ans s) (p_sig s).
Definition set_timer (s : st) := mkS (p_pc s) (s_pc s) (chan s) (prim_done s) (prim_failed s) true (sdl_fired s) (ctx_done s) (col s) (first_ans s) (p_sig s).
Definition set_sdl (s : st) := mkS (p_pc s) (s_pc s) (chan s) (prim_done s) (prim_failed s) (timer_fired s) true (ctx_done s) (col s) (first_ans s) (p_sig s).
Definition set_ctx (s : st) := mkS (p_pc s) (s_pc s) (chan s) (prim_done s) (prim_failed s) (timer_fired s) (sdl_fired s) true (col s) (first_ans s) (p_sig s).
Definition set_psig (s : st) v := mkS (p_pc s) (s_pc s) (chan s) (prim_done s) (prim_failed s) (timer_fired s) (sdl_fired s) (ctx_done s) (col s) (first_ans s) v.
Definition set_col (s : st) (c : cpc) (ch : list item) := mkS (p_pc s) (s_pc s) ch (prim_done s) (prim_failed s) (timer_fired s) (sdl_fired s) (ctx_done s) c (first_ans s) (p_sig s).

(** [respChan <- it] *)
Definition send (s : st) (it : item) : st :=
  mkS (p_pc s) (s_pc s) (chan s ++ [it]) (prim_done s) (prim_failed s) (timer_fired s) (sdl_fired s) (ctx_done s) (col s)
      (match first_ans s, it with
       | None, IAns w => Some w
       | f, _ => f
       end) (p_sig s).

(** A send on the buffered channel is enabled only while fewer than
    [fallback_chan_cap] (= 2, regenerated from the source) items are queued. *)
Definition can_send (s : st) : bool := N.of_nat (length (chan s)) <? fallback_chan_cap.

(** ** Observable events (what the harness can see; monotone in every run) *)
Definition ev_s_started (s : st) : bool :=
  match s_pc s with S_wait | S_skip => false | _ => true end.
Definition ev_s_ready (s : st) : bool :=
  match s_pc s with S_ready | S_hold | S_send | S_done => true | _ => false end.
Definition ev_s_sendhook (s : st) : bool :=
  match s_pc s with S_send | S_done => true | _ => false end.
Definition ev_p_mid (s : st) : bool :=
  match p_pc s with P_run => false | _ => true end.
Definition returned (s : st) : bool :=
  match col s with C_ret _ => true | _ => false end.

(** ** Gates: the points at which a scheduler (the harness) can hold a
    goroutine, each with the event it waits for. [open_gates] holds nothing:
    the theorems are about [step := gstep open_gates]. *)
(** [CDelay] is [CTrue] for the model; the harness waits a moment there to give
    a goroutine that should stay blocked the chance to show that it does not. *)
Inductive cond := CTrue | CDelay | CNever | CSstarted | CSready | CSsendhook | CPmid | CRet.

Definition evalc (c : cond) (s : st) : bool :=
  match c with
  | CTrue | CDelay => true
  | CNever => false
  | CSstarted => ev_s_started s
  | CSready => ev_s_ready s
  | CSsendhook => ev_s_sendhook s
  | CPmid => ev_p_mid s
  | CRet => returned s
  end.

Record gates := mkG {
  g_pexec : cond;    (* primary.Exec returns *)
  g_pmid : cond;     (* primary leaves "fallback.primary.mid" *)
  g_sexec : cond;    (* secondary.Exec returns *)
  g_sready : cond;   (* secondary leaves "fallback.secondary.ready" *)
  g_ssend : cond;    (* secondary leaves "fallback.secondary.send" *)
  g_ctx : cond       (* the caller's context ends *)
}.
Definition open_gates : gates := mkG CTrue CTrue CTrue CTrue CTrue CTrue.

(** ** The primary goroutine
<<
   err := f.primary.Exec(ctx, qCtx) ; r := qCtx.R()
   if err != nil || r == nil { close(primFailed); Point("mid"); respChan <- nil }
   else                      { respChan <- r;     Point("mid"); close(primDone) }     (sbd = true)
>> *)
Definition prim_steps (p : params) (s : st) : list st :=
  match p_pc s with
  | P_run =>
    let s1 := set_psig s (if timer_fired s || sdl_fired s then PSlate else PSintime) in
    match po p with
    | OAns =>
      if sbd p then (if can_send s then [set_ppc (send s1 (IAns WP)) P_mid] else [])
      else [set_ppc (set_pdone s1) P_mid]
    | _ => [set_ppc (set_pfailed s1) P_mid]
    end
  | P_mid =>
    match po p with
    | OAns =>
      if sbd p then [set_ppc (set_pdone s) P_end]
      else (if can_send s then [set_ppc (send s (IAns WP)) P_end] else [])
    | _ => if can_send s then [set_ppc (send s INil) P_end] else []
    end
  | P_end => []
  end.

Definition pgate (g : gates) (s : st) : bool :=
  match p_pc s with
  | P_run => evalc (g_pexec g) s
  | P_mid => evalc (g_pmid g) s
  | P_end => true
  end.

(** ** The secondary goroutine
<<
   if !alwaysStandby { select { <-primDone: return ; <-primFailed: ; <-timer.C: } }
   err := f.secondary.Exec(ctx, qCtx)
   if err != nil { respChan <- nil; return }
   r := qCtx.R() ; Point("ready")
   if alwaysStandby && r != nil { select { <-ctx.Done(): ; <-primDone: ; <-primFailed: ; <-timer.C: } }
   Point("send") ; respChan <- r
>>
    A select with several ready cases takes any of them. *)
Definition sec_steps (p : params) (s : st) : list st :=
  match s_pc s with
  | S_wait =>
    (if prim_done s then [set_spc s S_skip] else [])
    ++ (if prim_failed s || timer_fired s then [set_spc s S_run] else [])
  | S_run =>
    match so p with
    | OErr => if can_send s then [set_spc (send s INil) S_done_err] else []
    | _ => [set_spc s S_ready]
    end
  | S_ready =>
    match standby p, so p with
    | true, OAns => [set_spc s S_hold]
    | _, _ => [set_spc s S_send]
    end
  | S_hold =>
    if sdl_fired s || prim_done s || prim_failed s || timer_fired s then [set_spc s S_send] else []
  | S_send =>
    if can_send s
    then [set_spc (send s (match so p with OAns => IAns WS | _ => INil end)) S_done]
    else []
  | S_done | S_done_err | S_skip => []
  end.

Definition sgate (g : gates) (s : st) : bool :=
  match s_pc s with
  | S_run => evalc (g_sexec g) s
  | S_ready => evalc (g_sready g) s
  | S_send => evalc (g_ssend g) s
  | _ => true
  end.

(** ** The collector
<<
   for i := 0; i < 2; i++ {
     select { case <-ctx.Done(): return context.Cause(ctx)
              case r := <-respChan: if r == nil { continue } ; qCtx.SetResponse(r); return nil } }
   return ErrFailed
>> *)
Definition col_steps (s : st) : list st :=
  match col s with
  | C_ret _ => []
  | c =>
    (if ctx_done s then [set_col s (C_ret RCtx) (chan s)] else [])
    ++ match chan s with
       | [] => []
       | IAns w :: t => [set_col s (C_ret (RAns w)) t]
       | INil :: t => [set_col s (match c with C_wait2 => C_wait1 | _ => C_ret RFail end) t]
       end
  end.

(** ** Environment: timer, the secondary's deadline, the caller's context *)
Definition env_steps (g : gates) (p : params) (s : st) : list st :=
  (if timer_may p && negb (timer_fired s) then [set_timer s] else [])
  ++ (if ddl_may p && negb (sdl_fired s) then [set_sdl s] else [])
  ++ (if ctx_may p && negb (ctx_done s) && evalc (g_ctx g) s then [set_ctx s] else []).

(** Worker and collector steps only (no environment event). *)
Definition gsys (g : gates) (p : params) (s : st) : list st :=
  (if pgate g s then prim_steps p s else [])
  ++ (if sgate g s then sec_steps p s else [])
  ++ col_steps s.

Definition gstep (g : gates) (p : params) (s : st) : list st :=
  gsys g p s ++ env_steps g p s.

Definition sys_step (p : params) : st -> list st := gsys open_gates p.
Definition step (p : params) : st -> list st := gstep open_gates p.

(** ** Decidable equality and a numeric code for states *)
Definition ppc_n (x : ppc) : N := match x with P_run => 0 | P_mid => 1 | P_end => 2 end.
Definition spc_n (x : spc) : N :=
  match x with S_wait => 0 | S_run => 1 | S_ready => 2 | S_hold => 3 | S_send => 4
             | S_done => 5 | S_done_err => 6 | S_skip => 7 end.
Definition who_n (w : who) : N := match w with WP => 0 | WS => 1 end.
Definition item_n (i : item) : N := match i with INil => 0 | IAns w => 1 + who_n w end.
Definition res_n (r : result) : N := match r with RAns w => who_n w | RFail => 2 | RCtx => 3 end.
Definition cpc_n (c : cpc) : N := match c with C_wait2 => 0 | C_wait1 => 1 | C_ret r => 2 + res_n r end.
Definition psig_n (x : psig) : N := match x with PSnone => 0 | PSintime => 1 | PSlate => 2 end.
Definition ow_n (o : option who) : N := match o with None => 0 | Some w => 1 + who_n w end.
Definition b_n (b : bool) : N := if b then 1 else 0.
Definition chan_n (c : list item) : N := fold_left (fun acc i => acc * 4 + 1 + item_n i) c 0.

Definition who_eqb (a b : who) := who_n a =? who_n b.
Definition item_eqb (a b : item) := item_n a =? item_n b.
Definition result_eqb (a b : result) := res_n a =? res_n b.
Definition outcome_eqb (a b : outcome) : bool :=
  match a, b with OAns, OAns | ONone, ONone | OErr, OErr => true | _, _ => false end.

Definition st_eqb (a b : st) : bool :=
  (ppc_n (p_pc a) =? ppc_n (p_pc b)) && (spc_n (s_pc a) =? spc_n (s_pc b))
  && list_eqb item_eqb (chan a) (chan b)
  && Bool.eqb (prim_done a) (prim_done b) && Bool.eqb (prim_failed a) (prim_failed b)
  && Bool.eqb (timer_fired a) (timer_fired b) && Bool.eqb (sdl_fired a) (sdl_fired b)
  && Bool.eqb (ctx_done a) (ctx_done b)
  && (cpc_n (col a) =? cpc_n (col b)) && (ow_n (first_ans a) =? ow_n (first_ans b))
  && (psig_n (p_sig a) =? psig_n (p_sig b)).

(** Key for the visited table. Collisions would only make the exploration
    fail (membership compares the stored state with [st_eqb]), never unsound. *)
Definition code (s : st) : positive :=
  let c := ppc_n (p_pc s) in
  let c := c * 8 + spc_n (s_pc s) in
  let c := c * 64 + chan_n (chan s) in
  let c := c * 2 + b_n (prim_done s) in
  let c := c * 2 + b_n (prim_failed s) in
  let c := c * 2 + b_n (timer_fired s) in
  let c := c * 2 + b_n (sdl_fired s) in
  let c := c * 2 + b_n (ctx_done s) in
  let c := c * 8 + cpc_n (col s) in
  let c := c * 4 + ow_n (first_ans s) in
  let c := c * 4 + psig_n (p_sig s) in
  N.succ_pos c.

(** ** Exhaustive exploration (breadth first) into a table *)
Module PM := PositiveMap.
Definition table := PM.t st.

Definition tmem (s : st) (m : table) : bool :=
  match PM.find (code s) m with
  | Some z => st_eqb z s
  | None => false
  end.

(** add the not yet visited states of [l]; returns the table and the new states *)
Fixpoint add_new (l : list st) (m : table) (acc : list st) : table * list st :=
  match l with
  | [] => (m, acc)
  | x :: t => if tmem x m then add_new t m acc else add_new t (PM.add (code x) x m) (x :: acc)
  end.

Fixpoint explore (stepf : st -> list st) (fuel : nat) (frontier : list st) (m : table) : table :=
  match fuel with
  | O => m
  | S f =>
    match frontier with
    | [] => m
    | _ =>
      let '(m', new) := add_new (flat_map stepf frontier) m [] in
      explore stepf f new m'
    end
  end.

(** Every path has at most 3 + 5 + 3 + 3 steps (each goroutine only moves
    forward, each flag is set once); 64 levels are ample — and if they were
    not, the closure check in the proofs would fail. *)
Definition depth : nat := 64.

Definition reach_table (stepf : st -> list st) (i : st) : table :=
  explore stepf depth [i] (PM.add (code i) i (PM.empty st)).

Definition states (m : table) : list st := map snd (PM.elements m).

(** The table is closed under [stepf] and contains [i]. *)
Definition closed (stepf : st -> list st) (i : st) (m : table) : bool :=
  tmem i m && forallb (fun x => forallb (fun y => tmem y m) (stepf x)) (states m).

(** Reachable states of the gated system (the Judge uses this). *)
Definition reach_states (g : gates) (p : params) : list st :=
  states (reach_table (gstep g p) (init p)).

(** ** Terminal states and enumeration of parameters *)
Definition terminal (p : params) (s : st) : bool :=
  match step p s with [] => true | _ => false end.

Definition outcomes := [OAns; ONone; OErr].
Definition bools := [true; false].
Definition all_params_sbd (b : bool) : list params :=
  flat_map (fun a => flat_map (fun c => flat_map (fun sb => flat_map (fun tm => flat_map (fun dm =>
    map (fun cm => mkP a c sb b tm dm cm) bools) bools) bools) bools) outcomes) outcomes.
