(** C06 — sequence programs, as implemented by plugin/executable/sequence:
    chain.go (ChainWalker.ExecNext, reverseMatch, buildChain/newNode/newMatcher/
    newExec), built_in.go (accept / reject / return / jump / goto),
    sequence.go (NewSequence, Sequence.Exec), config.go (parseMatch/parseExec).

    Executable model only; the proofs are in Proofs/Sequence.v.

    Programs are finite trees. setupJump/setupGoto capture [target.chain] when
    the rule is built, and the target must already be registered, so a rule
    can only name a sequence that was built before its own; the model makes
    that structural: a jump/goto carries the target's rule list. The rule list
    type lives inside the mutual inductive so that both interpreters below are
    plain structural fixpoints. *)
From Verif Require Import Base.Prelude.
Open Scope N_scope.

Inductive rules := RNil | RCons (r : rule) (rs : rules)
with rule := Rule (ms : list (bool * N)) (a : act)        (* matchers: ('!' flag, matcher id) *)
with act :=
  | Exec (e : N)          (* plain Executable *)
  | Wrap (w : N)          (* user RecursiveExecutable: receives the rest of the chain *)
  | Accept
  | Reject (rc : N)
  | Return
  | Jump (tgt : rules)
  | Goto (tgt : rules)
  | Call (tgt : rules).   (* another sequence used as a plain Executable ([exec: $seq]) *)

(** What a matcher plugin answers: (true,nil) / (false,nil) / (_, err c). *)
Inductive mres := MTrue | MFalse | MErr (c : N).

(** The ordered trace of plugin invocations: matcher [m] was evaluated and
    answered [r]; executable [e] ran; wrapper [w] reports [info]. The built-in
    actions are not plugins and leave no event; [reject] is seen in the state. *)
Inductive event := EMatch (m : N) (r : mres) | EExec (e : N) | EWrap (w info : N).
Definition trace := list event.

(** Outcome of matching one rule. *)
Inductive verdict := VTrue | VFalse | VErr (c : N).

(** Result of the big-step specification for one rule list. *)
Inductive res := Continue | Stop | Ret | Err (c : N).

Section Sem.
  (** The query context as far as plugins can see and change it. *)
  Variable State : Type.

  (** trace, final context, returned error ([None] = nil) *)
  Definition outcome := (trace * State * option N)%type.
  Definition sres := (trace * State * res)%type.

  (** The plugins are oracles. A wrapper gets its continuation as a function
      it may run any number of times on any contexts. *)
  Record env := Env {
    match_o : N -> State -> mres;
    exec_o : N -> State -> State * option N;
    reject_o : N -> State -> State;
    wrap_o : N -> (State -> outcome) -> State -> outcome
  }.

  Definition pre {R : Type} (t : trace) (o : trace * State * R) : trace * State * R :=
    let '(t', s, r) := o in (t ++ t', s, r).

  (** ExecNext on a walker with an empty chain and a nil jumpBack. *)
  Definition done (st : State) : outcome := ([], st, None).

  Variable E : env.

  (** ** The machine: ChainWalker.ExecNext *)

  (** Matcher.Match as (ok, err) *)
  Definition raw (r : mres) : bool * option N :=
    match r with MTrue => (true, None) | MFalse => (false, None) | MErr c => (false, Some c) end.

  (** newMatcher: [reverseMatcher m] when the '!' flag is set.
      reverseMatch.Match: err -> (false, err), else !ok. *)
  Definition match_one (x : bool * N) (st : State) : bool * option N :=
    let (ok, err) := raw (match_o E (snd x) st) in
    if fst x then
      match err with
      | Some c => (false, Some c)
      | None => (negb ok, None)
      end
    else (ok, err).

  (** for _, match := range n.Matches *)
  Fixpoint match_loop (ms : list (bool * N)) (st : State) : trace * verdict :=
    match ms with
    | [] => ([], VTrue)
    | x :: ms' =>
      let ev := EMatch (snd x) (match_o E (snd x) st) in
      match match_one x st with
      | (_, Some c) => ([ev], VErr c)                    (* if err != nil { return err } *)
      | (false, None) => ([ev], VFalse)                  (* if !ok { p++; continue checkMatchesLoop } *)
      | (true, None) => let (t, v) := match_loop ms' st in (ev :: t, v)
      end
    end.

  (** [machine rs k] is ExecNext on the walker {chain suffix [rs], jumpBack}
      where [k] is what [jumpBack.ExecNext] does ([done] when jumpBack is nil). *)
  Fixpoint machine (rs : rules) (k : State -> outcome) (st : State) {struct rs} : outcome :=
    match rs with
    | RNil => k st                                        (* end of chain: jump back, or EoC *)
    | RCons (Rule ms a) rest =>
      match match_loop ms st with
      | (tm, VErr c) => (tm, st, Some c)
      | (tm, VFalse) => pre tm (machine rest k st)
      | (tm, VTrue) =>
        match a with
        | Exec e =>                                       (* case n.E != nil *)
          let (st', err) := exec_o E e st in
          match err with
          | Some c => (tm ++ [EExec e], st', Some c)
          | None => pre (tm ++ [EExec e]) (machine rest k st')
          end
        (* case n.RE != nil: next = {p+1, chain, jumpBack}; return n.RE.Exec(ctx, qCtx, next) *)
        | Wrap w => pre tm (wrap_o E w (machine rest k) st)
        | Accept => (tm, st, None)
        | Reject rc => (tm, reject_o E rc st, None)
        | Return => pre tm (k st)                         (* next.jumpBack.ExecNext, or nil *)
        | Jump tgt => pre tm (machine tgt (machine rest k) st)   (* NewChainWalker(To, &next) *)
        | Goto tgt => pre tm (machine tgt done st)               (* NewChainWalker(To, nil) *)
        (* case n.E != nil with E = *Sequence: Sequence.Exec = a fresh walker, jumpBack nil *)
        | Call tgt =>
          let '(t, st', err) := machine tgt done st in
          match err with
          | Some c => (tm ++ t, st', Some c)
          | None => pre (tm ++ t) (machine rest k st')
          end
        end
      end
    end.

  (** Sequence.Exec *)
  Definition run_seq (prog : rules) (st : State) : outcome := machine prog done st.

  (** The walker as data: the current chain suffix and the jumpBack chain as a
      stack of suffixes. The equations ExecNext satisfies on this reading are
      proved in Proofs/Sequence.v ([walker_*]). *)
  Fixpoint run_stack (stack : list rules) : State -> outcome :=
    match stack with
    | [] => done
    | r :: s => machine r (run_stack s)
    end.
  Definition exec_walker (w : rules * list rules) : State -> outcome :=
    machine (fst w) (run_stack (snd w)).

  (** ** The specification: the property's sentence as a big-step interpreter *)

  (** Does matcher [x] hold, after applying '!'? *)
  Definition holds (x : bool * N) (st : State) : verdict :=
    match match_o E (snd x) st with
    | MErr c => VErr c
    | MTrue => if fst x then VFalse else VTrue
    | MFalse => if fst x then VTrue else VFalse
    end.

  (** left to right, stopping at the first that does not hold *)
  Fixpoint spec_matchers (ms : list (bool * N)) (st : State) : trace * verdict :=
    match ms with
    | [] => ([], VTrue)
    | x :: ms' =>
      let ev := EMatch (snd x) (match_o E (snd x) st) in
      match holds x st with
      | VTrue => let (t, v) := spec_matchers ms' st in (ev :: t, v)
      | v => ([ev], v)
      end
    end.

  (** What happens once a rule list has produced its result, given what is
      pending behind it. *)
  Definition glue (o : sres) (after : State -> outcome) : outcome :=
    match o with
    | (t, s, Continue) | (t, s, Ret) => pre t (after s)
    | (t, s, Stop) => (t, s, None)
    | (t, s, Err c) => (t, s, Some c)
    end.

  (** [spec_rules rs after st]: run the rule list [rs] on its own.
      [Continue] = fell off the end, [Ret] = a return was executed, [Stop] =
      all processing ended, [Err] = aborted. [after] (the pending jump
      returns) is used for one purpose only: it is part of the continuation a
      wrapping plugin receives. *)
  Fixpoint spec_rules (rs : rules) (after : State -> outcome) (st : State) {struct rs} : sres :=
    match rs with
    | RNil => ([], st, Continue)
    | RCons (Rule ms a) rest =>
      match spec_matchers ms st with
      | (tm, VErr c) => (tm, st, Err c)
      | (tm, VFalse) => pre tm (spec_rules rest after st)
      | (tm, VTrue) =>
        match a with
        | Exec e =>
          match exec_o E e st with
          | (st', Some c) => (tm ++ [EExec e], st', Err c)
          | (st', None) => pre (tm ++ [EExec e]) (spec_rules rest after st')
          end
        | Wrap w =>
          (* the wrapper owns the rest: remaining rules, then what is pending *)
          let '(t, s, r) := wrap_o E w (fun s => glue (spec_rules rest after s) after) st in
          (tm ++ t, s, match r with None => Stop | Some c => Err c end)
        | Accept => (tm, st, Stop)
        | Reject rc => (tm, reject_o E rc st, Stop)
        | Return => (tm, st, Ret)
        | Jump tgt =>
          match spec_rules tgt (fun s => glue (spec_rules rest after s) after) st with
          | (t, s, Continue) | (t, s, Ret) => pre (tm ++ t) (spec_rules rest after s)
          | (t, s, Stop) => (tm ++ t, s, Stop)
          | (t, s, Err c) => (tm ++ t, s, Err c)
          end
        | Goto tgt =>
          match spec_rules tgt done st with
          | (t, s, Err c) => (tm ++ t, s, Err c)
          | (t, s, _) => (tm ++ t, s, Stop)
          end
        | Call tgt =>
          (* a sequence as a plain action: it fails, or it is done (however it ended) *)
          match spec_rules tgt done st with
          | (t, s, Err c) => (tm ++ t, s, Err c)
          | (t, s, _) => pre (tm ++ t) (spec_rules rest after s)
          end
        end
      end
    end.

  Definition spec_seq (prog : rules) (st : State) : outcome := glue (spec_rules prog done st) done.

  (** ** A family of wrapping plugins (the ones the driver registers)

      [rep_wrapper w calls copy fail code]: report 0, run the continuation
      [calls] times — on the query context itself, or each time on a fresh
      copy of it — reporting after every run what the context used looks like
      ([2 + code]); a failing run ends the wrapper with that error; otherwise
      report 1 and return [fail]. *)
  Variable code : State -> N.

  Fixpoint rep_same (w : N) (n : nat) (k : State -> outcome) (st : State) : outcome :=
    match n with
    | O => ([], st, None)
    | S n' =>
      let '(t, s, r) := k st in
      match r with
      | Some c => (t ++ [EWrap w (2 + code s)], s, Some c)
      | None => pre (t ++ [EWrap w (2 + code s)]) (rep_same w n' k s)
      end
    end.

  Fixpoint rep_copy (w : N) (n : nat) (k : State -> outcome) (st : State) : outcome :=
    match n with
    | O => ([], st, None)
    | S n' =>
      let '(t, s, r) := k st in
      match r with
      | Some c => (t ++ [EWrap w (2 + code s)], st, Some c)
      | None => pre (t ++ [EWrap w (2 + code s)]) (rep_copy w n' k st)
      end
    end.

  Definition rep_wrapper (w : N) (calls : nat) (copy : bool) (fail : option N)
             (k : State -> outcome) (st : State) : outcome :=
    let '(t, s, r) := (if copy then rep_copy else rep_same) w calls k st in
    match r with
    | Some c => (EWrap w 0 :: t, s, Some c)
    | None => (EWrap w 0 :: t ++ [EWrap w 1], s, fail)
    end.

  (** [keep_wrapper w n copy]: a wrapper that KEEPS its continuation together
      with a snapshot (copy) of the context, passes the query on in place, and
      runs the kept continuation [n] more times LATER — after the whole
      execution has returned and other sequences have been executed in
      between — each time on a fresh copy of the snapshot ([copy]) or on the
      snapshot itself, one run after the other. A late run reports the context
      it left ([2 + code]) and its error ([3000 + c], 3000 = nil); it aborts
      nothing. Since the continuation is a value, what the late runs do is
      known when it is kept; the log shows them right after the report 0. *)
  Definition errc (r : option N) : N := match r with None => 0 | Some c => c end.

  Fixpoint late_runs (copy : bool) (w : N) (n : nat) (k : State -> outcome) (st : State) : trace :=
    match n with
    | O => []
    | S n' =>
      let '(t, s, r) := k st in
      t ++ [EWrap w (2 + code s); EWrap w (3000 + errc r)]
        ++ late_runs copy w n' k (if copy then st else s)
    end.

  Definition keep_wrapper (w : N) (n : nat) (copy : bool)
             (k : State -> outcome) (st : State) : outcome :=
    let '(t, s, r) := k st in
    (EWrap w 0 :: late_runs copy w n k st ++ t ++ match r with None => [EWrap w 1] | Some _ => [] end, s, r).
End Sem.

Arguments pre {State R} t o.
Arguments done {State} st.
Arguments match_o {State} e _ _.
Arguments exec_o {State} e _ _.
Arguments reject_o {State} e _ _.
Arguments wrap_o {State} e _ _ _.
Arguments match_one {State} E x st.
Arguments match_loop {State} E ms st.
Arguments machine {State} E rs k st.
Arguments run_seq {State} E prog st.
Arguments run_stack {State} E stack _.
Arguments exec_walker {State} E w _.
Arguments holds {State} E x st.
Arguments spec_matchers {State} E ms st.
Arguments glue {State} o after.
Arguments spec_rules {State} E rs after st.
Arguments spec_seq {State} E prog st.
Arguments rep_same {State} code w n k st.
Arguments rep_copy {State} code w n k st.
Arguments rep_wrapper {State} code w calls copy fail k st.
Arguments errc r : simpl never.
Arguments late_runs {State} code copy w n k st.
Arguments keep_wrapper {State} code w n copy k st.

(** ** The plugins of the driver (harness/cmd/c06)

    The context is observed through its response: [None] = no response,
    [Some rc] = a response with that rcode. Behaviour is decoded from the id:
    - matcher m: 100 = the built-in [_true], 101 = [_false]; otherwise
      m mod 4 = 0 true, 1 false, 2 error 500+m, 3 "has a response";
    - executable e: e mod 4 = 0 nothing, 1 error 600+e, 2 drop the response,
      3 set a response with rcode e/4;
    - wrapper w: w mod 3 runs of the continuation; (w/3) mod 3 = 0 on the
      context itself, 1 on copies one after the other, 2 on copies
      concurrently (the same function of the context: every copy starts from
      the same context); (w/9) mod 2 = 1 returns error 700+w at the end;
      w = 18..21 keep their continuation and run it later ([keep_wrapper]):
      18 once and 19 twice on copies of the snapshot, 20 once and 21 twice on
      the snapshot itself.
    Error codes are opaque here: the sequence must hand whatever error value a
    plugin returns to its caller. In the driver the VALUE behind a code is
    drawn per run from a menu (own marker type, errors.New, context.Canceled,
    context.DeadlineExceeded, io.EOF, %w-wrappings of these, a custom type
    with Is/Unwrap, errors.Join) and the error that comes back is mapped to
    the code of the plugin that made it. *)
Definition hstate := option N.
Definition hcode (st : hstate) : N := match st with None => 0 | Some rc => 1 + rc end.

Definition h_match (m : N) (st : hstate) : mres :=
  if m =? 100 then MTrue else if m =? 101 then MFalse else
  match m mod 4 with
  | 0 => MTrue
  | 1 => MFalse
  | 2 => MErr (500 + m)
  | _ => match st with Some _ => MTrue | None => MFalse end
  end.

Definition h_exec (e : N) (st : hstate) : hstate * option N :=
  match e mod 4 with
  | 0 => (st, None)
  | 1 => (st, Some (600 + e))
  | 2 => (None, None)
  | _ => (Some (e / 4), None)
  end.

(** ActionReject.Exec: SetResponse(reply with Rcode) *)
Definition h_reject (rc : N) (st : hstate) : hstate := Some rc.

Definition h_wrap (w : N) : (hstate -> outcome hstate) -> hstate -> outcome hstate :=
  if 18 <=? w then keep_wrapper hcode w (N.to_nat (1 + w mod 2)) (w <? 20) else
  rep_wrapper hcode w (N.to_nat (w mod 3)) (negb ((w / 3) mod 3 =? 0))
              (if (w / 9) mod 2 =? 1 then Some (700 + w) else None).

Definition harness_env : env hstate := Env hstate h_match h_exec h_reject h_wrap.

(** ** Building: rule configuration -> chain (NewSequence / buildChain)

    A sequence is configured as rules that name plugins and other sequences.
    Sequences are built one after the other; each is registered under its name
    when built (a later one with the same name replaces it for later
    look-ups, earlier captures keep the old chain). *)
Inductive taction :=
  | TExec (e : N) | TWrap (w : N) | TAccept | TReject (rc : option N) | TReturn
  | TJump (name : N) | TGoto (name : N) | TCall (name : N).
Definition trule := (list (bool * N) * taction)%type.
Definition tseq := (N * list trule)%type.          (* name, rules *)
Definition registry := list (N * rules).           (* latest first *)

(** what the plugin registry of the run knows *)
Record known := Known { known_m : N -> bool; known_e : N -> bool; known_w : N -> bool }.

Fixpoint lookup (reg : registry) (name : N) : option rules :=
  match reg with
  | [] => None
  | (n, rs) :: t => if n =? name then Some rs else lookup t name
  end.

(** setupReject: default REFUSED (dns.RcodeRefused = 5); n > 0xFFF is refused. *)
Definition rcode_refused : N := 5.
Definition max_rcode : N := 4095.

(** newExec + quick setups *)
Definition resolve_action (K : known) (reg : registry) (a : taction) : option act :=
  match a with
  | TExec e => if known_e K e then Some (Exec e) else None
  | TWrap w => if known_w K w then Some (Wrap w) else None
  | TAccept => Some Accept
  | TReject None => Some (Reject rcode_refused)
  | TReject (Some n) => if n <=? max_rcode then Some (Reject n) else None
  | TReturn => Some Return
  | TJump name => match lookup reg name with Some rs => Some (Jump rs) | None => None end
  | TGoto name => match lookup reg name with Some rs => Some (Goto rs) | None => None end
  (* [$s<name>]: the registered *Sequence is an Executable *)
  | TCall name => match lookup reg name with Some rs => Some (Call rs) | None => None end
  end.

(** newNode: all matchers first, then the action; buildChain: rules in order *)
Fixpoint resolve_rules (K : known) (reg : registry) (rs : list trule) : option rules :=
  match rs with
  | [] => Some RNil
  | (ms, a) :: t =>
    if forallb (fun x => known_m K (snd x)) ms then
      match resolve_action K reg a with
      | None => None
      | Some a' =>
        match resolve_rules K reg t with
        | None => None
        | Some t' => Some (RCons (Rule ms a') t')
        end
      end
    else None
  end.

(** Build all sequences in order. [inl reg]: all built; [inr i]: sequence
    number i (from 0) failed to build. *)
Fixpoint build_from (K : known) (i : N) (reg : registry) (ss : list tseq) : registry + N :=
  match ss with
  | [] => inl reg
  | (name, rs) :: t =>
    match resolve_rules K reg rs with
    | None => inr i
    | Some c => build_from K (i + 1) ((name, c) :: reg) t
    end
  end.
Definition build_all (K : known) (ss : list tseq) : registry + N := build_from K 0 [] ss.

Definition harness_known : known :=
  Known (fun m => (m <? 16) || (m =? 100) || (m =? 101)) (fun e => e <? 16) (fun w => w <? 22).

(** ** Rule text: config.go parseMatch / parseExec on ASCII strings *)
Definition str := list N.

(** unicode.IsSpace restricted to ASCII: \t \n \v \f \r and ' ' *)
Definition is_space (c : N) : bool := (c =? 32) || ((9 <=? c) && (c <=? 13)).

Fixpoint trim_left (s : str) : str :=
  match s with
  | c :: t => if is_space c then trim_left t else s
  | [] => []
  end.
Definition trim_space (s : str) : str := rev (trim_left (rev (trim_left s))).

(** trimPrefixField(s, p) for a one byte prefix *)
Definition trim_prefix_field (s : str) (p : N) : str * bool :=
  match s with
  | c :: t => if c =? p then (trim_space t, true) else (s, false)
  | [] => (s, false)
  end.

(** strings.Cut(s, " ") *)
Fixpoint cut_space (s : str) : str * str :=
  match s with
  | [] => ([], [])
  | c :: t => if c =? 32 then ([], t) else let (a, b) := cut_space t in (c :: a, b)
  end.

Record match_config := MatchConfig { mc_tag : str; mc_type : str; mc_args : str; mc_reverse : bool }.

Definition parse_match (s : str) : match_config :=
  let s := trim_space s in
  let (s, reverse) := trim_prefix_field s 33 in             (* "!" *)
  let (p, args) := cut_space s in
  let args := trim_space args in
  match trim_prefix_field p 36 with                        (* "$" *)
  | (tag, true) => MatchConfig tag [] args reverse
  | (_, false) => MatchConfig [] p args reverse
  end.

(** (tag, typ, args) *)
Definition parse_exec (s : str) : str * str * str :=
  let s := trim_space s in
  let (p, args) := cut_space s in
  let args := trim_space args in
  match trim_prefix_field p 36 with
  | (tag, true) => (tag, [], args)
  | (_, false) => ([], p, args)
  end.

(** Rendering a reference with optional blanks: [l] blanks in front, [a]
    after the '!', [b >= 1] between name and arguments, [r] at the end. *)
Definition blanks (n : nat) : str := repeat 32 n.
Definition argpart (b : nat) (args : str) : str :=
  match args with [] => [] | _ => blanks (S b) ++ args end.
Definition render_match (l a b r : nat) (reverse is_tag : bool) (name args : str) : str :=
  blanks l ++ (if reverse then 33 :: blanks a else []) ++ (if is_tag then [36] else []) ++ name
  ++ argpart b args ++ blanks r.
Definition render_exec (l b r : nat) (is_tag : bool) (name args : str) : str :=
  blanks l ++ (if is_tag then [36] else []) ++ name
  ++ argpart b args ++ blanks r.
