(** C12 — domain rule matching, as implemented by
    pkg/matcher/domain/utils.go   (TrimDot, NormalizeDomain, ReverseDomainScanner, labelNode),
    pkg/matcher/domain/matcher.go (SubDomainMatcher, FullMatcher, KeywordMatcher, RegexMatcher,
                                   MixMatcher.Add / Match / Len / splitTypeAndPattern),
    pkg/matcher/domain/load_helper.go (Load, LoadFromTextReader, patternOnly),
    pkg/utils/strings.go (RemoveComment, SplitString2).

    Strings are ASCII byte lists ([list N], every byte < 128: for such strings Go's
    strings.ToLower / TrimSpace / Fields take their byte-wise fast paths).
    Executable model only; the proofs are in Proofs/Domain.v. *)
From Verif Require Import Base.Prelude.
Open Scope N_scope.

Definition str := list N.
Definition str_eqb : str -> str -> bool := list_eqb N.eqb.

Definition c_dot : N := 46.    (* '.' *)
Definition c_colon : N := 58.  (* ':' *)
Definition c_hash : N := 35.   (* '#' *)

(** ** utils.go: TrimDot, NormalizeDomain *)

(** strings.ToLower on ASCII: 'A'..'Z' -> 'a'..'z'. *)
Definition lower_byte (b : N) : N := if (65 <=? b) && (b <=? 90) then b + 32 else b.
Definition to_lower (s : str) : str := map lower_byte s.

(** TrimDot: [if len(s) >= 1 && s[len(s)-1] == '.' { s = s[:len(s)-1] }] — one dot only. *)
Fixpoint trim_dot (s : str) : str :=
  match s with
  | [] => []
  | c :: t =>
    match t with
    | [] => if c =? c_dot then [] else [c]
    | _ :: _ => c :: trim_dot t
    end
  end.

(** NormalizeDomain: [strings.ToLower(TrimDot(s))]. *)
Definition normalize (s : str) : str := to_lower (trim_dot s).

(** ** utils.go: ReverseDomainScanner, at index level *)

(** strings.LastIndexByte(s, c): index of the last [c] in [s], -1 if there is none. *)
Fixpoint last_index_from (c : N) (i acc : Z) (s : str) : Z :=
  match s with
  | [] => acc
  | x :: t => last_index_from c (i + 1)%Z (if x =? c then i else acc) t
  end.
Definition last_index_byte (s : str) (c : N) : Z := last_index_from c 0%Z (-1)%Z s.

(** Go slice expression [s[lo:hi]] for 0 <= lo <= hi <= len(s). *)
Definition slice (s : str) (lo hi : Z) : str :=
  firstn (Z.to_nat (hi - lo)) (skipn (Z.to_nat lo) s).

Record scanner := mk_scanner { sc_s : str; sc_p : Z; sc_t : Z }.

(** NewReverseDomainScanner: trims one (more) dot, p = t = len(s). *)
Definition new_scanner (s : str) : scanner :=
  let s' := trim_dot s in
  mk_scanner s' (Z.of_nat (length s')) (Z.of_nat (length s')).

(** Scan: [if p <= 0 {return false}; t = p; p = LastIndexByte(s[:p], '.'); return true].
    [None] = Scan returned false. *)
Definition scan (sc : scanner) : option scanner :=
  if (sc_p sc <=? 0)%Z then None
  else Some (mk_scanner (sc_s sc)
                        (last_index_byte (slice (sc_s sc) 0%Z (sc_p sc)) c_dot)
                        (sc_p sc)).

(** NextLabel: [s[p+1 : t]]. *)
Definition next_label (sc : scanner) : str := slice (sc_s sc) (sc_p sc + 1)%Z (sc_t sc).

(** [for ds.Scan() { label := ds.NextLabel(); ... }] — all labels, right to left.
    Every Scan strictly decreases p, so [length s + 1] rounds of fuel always
    suffice (Proofs.Domain.scan_all_general shows the result for every [s]). *)
Fixpoint scan_loop (fuel : nat) (sc : scanner) : list str :=
  match fuel with
  | O => []
  | S f =>
    match scan sc with
    | None => []
    | Some sc' => next_label sc' :: scan_loop f sc'
    end
  end.
Definition scan_all (s : str) : list str := scan_loop (S (length s)) (new_scanner s).

(** The labels the matchers see for a rule or a query name: normalise, then scan
    right to left (top-level label first). *)
Definition labels (s : str) : list str := scan_all (normalize s).

(** Reference splitting at dots, left to right ("a.b" -> ["a";"b"], "" -> [""]). *)
Fixpoint split_dots (s : str) : list str :=
  match s with
  | [] => [[]]
  | c :: t =>
    if c =? c_dot then [] :: split_dots t
    else match split_dots t with
         | l :: ls => (c :: l) :: ls
         | [] => [[c]]
         end
  end.

(** ** Go maps as association lists without duplicate keys, in insertion order *)
Section AssocMap.
  Context {V : Type}.
  Definition amap := list (str * V).

  Fixpoint map_get (k : str) (m : amap) : option V :=
    match m with
    | [] => None
    | (k', v) :: t => if str_eqb k k' then Some v else map_get k t
    end.

  (** [m[k] = v]: overwrite in place, or append. *)
  Fixpoint map_set (k : str) (v : V) (m : amap) : amap :=
    match m with
    | [] => [(k, v)]
    | (k', v') :: t => if str_eqb k k' then (k, v) :: t else (k', v') :: map_set k v t
    end.
End AssocMap.
Arguments amap V : clear implicits.

(** A sequence of Add calls on one matcher, in list order. *)
Definition add_all {S V : Type} (addf : str -> V -> S -> S) (rs : list (str * V)) (s0 : S) : S :=
  fold_left (fun s r => addf (fst r) (snd r) s) rs s0.

(** ** utils.go: labelNode; matcher.go: SubDomainMatcher *)

Inductive trie (V : Type) := Node (v : option V) (ch : list (str * trie V)).
Arguments Node {V} v ch.

Section Trie.
  Context {V : Type}.
  Definition value (t : trie V) : option V := match t with Node v _ => v end.
  Definition children (t : trie V) : amap (trie V) := match t with Node _ ch => ch end.
  Definition empty_trie : trie V := Node None [].

  (** SubDomainMatcher.Add after scanning: walk down, creating missing children,
      then storeValue. Recursion on the label list. *)
  Fixpoint add (ls : list str) (v : V) (t : trie V) : trie V :=
    match ls with
    | [] => Node (Some v) (children t)
    | l :: ls' =>
      match map_get l (children t) with
      | Some c => Node (value t) (map_set l (add ls' v c) (children t))
      | None => Node (value t) (map_set l (add ls' v empty_trie) (children t))
      end
    end.

  (** SubDomainMatcher.Match after scanning: [cur] is the (v, ok) pair carried
      through the loop; a node with a value overwrites it; a missing child breaks. *)
  Fixpoint walk (ls : list str) (t : trie V) (cur : option V) : option V :=
    match ls with
    | [] => cur
    | l :: ls' =>
      match map_get l (children t) with
      | Some n => walk ls' n (match value n with Some v => Some v | None => cur end)
      | None => cur
      end
    end.

  Definition sub_add (s : str) (v : V) (t : trie V) : trie V := add (labels s) v t.
  Definition sub_match (t : trie V) (s : str) : option V := walk (labels s) t (value t).

  (** labelNode.len: number of values stored below (not at) the node. *)
  Fixpoint trie_len (t : trie V) : N :=
    match t with
    | Node _ ch =>
      fold_right (fun p acc =>
                    match p with
                    | (_, c) => trie_len c + (match value c with Some _ => 1 | None => 0 end) + acc
                    end) 0 ch
    end.
End Trie.

(** ** matcher.go: FullMatcher, KeywordMatcher, RegexMatcher *)

Fixpoint is_prefix (k s : str) : bool :=
  match k, s with
  | [], _ => true
  | x :: k', y :: s' => (x =? y) && is_prefix k' s'
  | _ :: _, [] => false
  end.

(** strings.Contains(s, k) *)
Fixpoint contains (s k : str) : bool :=
  is_prefix k s || match s with [] => false | _ :: s' => contains s' k end.

Section Matchers.
  Context {V : Type}.
  (** Go's regexp package: [re_valid e] = regexp.Compile(e) succeeds,
      [re_match e s] = the compiled expression's MatchString(s). *)
  Variable re_valid : str -> bool.
  Variable re_match : str -> str -> bool.

  Definition full_add (s : str) (v : V) (m : amap V) : amap V := map_set (normalize s) v m.
  Definition full_match (m : amap V) (s : str) : option V := map_get (normalize s) m.

  Definition kw_add (s : str) (v : V) (m : amap V) : amap V := map_set (normalize s) v m.
  (** KeywordMatcher.Match ranges over a Go map and returns the first hit: any
      entry whose key is a substring may be the one returned. [kw_allowed] lists
      the values of all of them; empty = no match. *)
  Definition kw_allowed (m : amap V) (s : str) : list V :=
    map snd (filter (fun kv => contains (normalize s) (fst kv)) m).

  (** RegexMatcher.Add: keyed by the expression text as given (not normalised);
      a known expression only gets its value replaced; a new one is compiled
      first and refused when that fails. [None] = error. *)
  Definition re_add (e : str) (v : V) (m : amap V) : option (amap V) :=
    match map_get e m with
    | Some _ => Some (map_set e v m)
    | None => if re_valid e then Some (map_set e v m) else None
    end.
  (** Add whose error is ignored by the caller: the matcher stays as it was. *)
  Definition re_add_skip (e : str) (v : V) (m : amap V) : amap V :=
    match re_add e v m with Some m' => m' | None => m end.
  Definition re_allowed (m : amap V) (s : str) : list V :=
    map snd (filter (fun kv => re_match (fst kv) (normalize s)) m).

  (** ** matcher.go: MixMatcher *)

  Record mix := mk_mix {
    m_full : amap V;
    m_dom : trie V;
    m_re : amap V;
    m_kw : amap V
  }.
  Definition empty_mix : mix := mk_mix [] empty_trie [] [].

  (** utils.SplitString2(s, ":") as used by splitTypeAndPattern: split at the
      first ':'; without one, type "" and the whole string as pattern. *)
  Fixpoint split_colon (s : str) : option (str * str) :=
    match s with
    | [] => None
    | c :: t =>
      if c =? c_colon then Some ([], t)
      else match split_colon t with
           | Some (a, b) => Some (c :: a, b)
           | None => None
           end
    end.
  Definition split_type_pattern (s : str) : str * str :=
    match split_colon s with
    | Some (typ, pat) => (typ, pat)
    | None => ([], s)
    end.

  Definition s_full : str := [102; 117; 108; 108].
  Definition s_domain : str := [100; 111; 109; 97; 105; 110].
  Definition s_regexp : str := [114; 101; 103; 101; 120; 112].
  Definition s_keyword : str := [107; 101; 121; 119; 111; 114; 100].

  Inductive rtype := TFull | TDomain | TRegexp | TKeyword.

  (** GetSubMatcher *)
  Definition type_of_name (typ : str) : option rtype :=
    if str_eqb typ s_full then Some TFull
    else if str_eqb typ s_domain then Some TDomain
    else if str_eqb typ s_regexp then Some TRegexp
    else if str_eqb typ s_keyword then Some TKeyword
    else None.

  (** Error classes of MixMatcher.Add / Load. *)
  Definition e_nodefault : N := 1.   (* ErrNodefaultMatcher *)
  Definition e_unsupported : N := 2. (* unsupported match type *)
  Definition e_regexp : N := 3.      (* regexp.Compile failed *)
  Definition e_parse : N := 4.       (* the ParseStringFunc refused the line *)

  Inductive res (A : Type) := Ok (a : A) | Er (e : N).
  Arguments Ok {A} a.
  Arguments Er {A} e.

  (** The type and pattern MixMatcher.Add dispatches on ([dflt] = defaultMatcher). *)
  Definition parse_rule (dflt s : str) : res (rtype * str) :=
    let '(typ, pat) := split_type_pattern s in
    let typ' := match typ with [] => dflt | _ :: _ => typ end in
    match typ' with
    | [] => Er e_nodefault
    | _ :: _ =>
      match type_of_name typ' with
      | Some ty => Ok (ty, pat)
      | None => Er e_unsupported
      end
    end.

  Definition typed_add (ty : rtype) (pat : str) (v : V) (m : mix) : res mix :=
    match ty with
    | TFull => Ok (mk_mix (full_add pat v (m_full m)) (m_dom m) (m_re m) (m_kw m))
    | TDomain => Ok (mk_mix (m_full m) (sub_add pat v (m_dom m)) (m_re m) (m_kw m))
    | TRegexp =>
      match re_add pat v (m_re m) with
      | Some r => Ok (mk_mix (m_full m) (m_dom m) r (m_kw m))
      | None => Er e_regexp
      end
    | TKeyword => Ok (mk_mix (m_full m) (m_dom m) (m_re m) (kw_add pat v (m_kw m)))
    end.

  (** MixMatcher.Add *)
  Definition mix_add (dflt : str) (s : str) (v : V) (m : mix) : res mix :=
    match parse_rule dflt s with
    | Ok (ty, pat) => typed_add ty pat v m
    | Er e => Er e
    end.

  (** A sequence of Adds; a failing Add leaves the matcher unchanged. Returns
      the matcher and the error class (0 = nil) of every Add. *)
  Fixpoint mix_add_all (dflt : str) (rs : list (str * V)) (m : mix) : mix * list N :=
    match rs with
    | [] => (m, [])
    | (s, v) :: t =>
      match mix_add dflt s v m with
      | Ok m' => let '(mf, es) := mix_add_all dflt t m' in (mf, 0 :: es)
      | Er e => let '(mf, es) := mix_add_all dflt t m in (mf, e :: es)
      end
    end.

  (** MixMatcher.Match: full, then domain, then regexp, then keyword; the first
      matcher that matches decides. Result = the values Match may return
      (exactly one for full and domain; for the map-iterating matchers any hit);
      [[]] = no match. *)
  Definition mix_allowed (m : mix) (s : str) : list V :=
    match full_match (m_full m) s with
    | Some v => [v]
    | None =>
      match sub_match (m_dom m) s with
      | Some v => [v]
      | None =>
        match re_allowed (m_re m) s with
        | (_ :: _) as vs => vs
        | [] => kw_allowed (m_kw m) s
        end
      end
    end.

  (** MixMatcher.Len *)
  Definition mix_len (m : mix) : N :=
    N.of_nat (length (m_full m)) + trie_len (m_dom m)
    + N.of_nat (length (m_re m)) + N.of_nat (length (m_kw m)).

  (** ** plugin/data_provider/domain_set: sets assembled from several members *)

  (** MatcherGroup.Match: the first member that matches decides; the members are
      value-less, so all that counts is whether SOME member matches. *)
  Definition group_matches (g : list mix) (s : str) : bool :=
    existsb (fun m => match mix_allowed m s with [] => false | _ :: _ => true end) g.

  (** NewDomainSet: the set's own matcher, kept only [if m.Len() > 0], followed by
      the GetDomainMatcher() of every referenced set (each a group again). The
      anonymous set of base_domain.NewMatcher is assembled the same way. *)
  Definition set_members (own : mix) (refs : list (list mix)) : list mix :=
    (if mix_len own =? 0 then [] else [own]) ++ concat refs.

  (** ** load_helper.go *)

  (** asciiSpace: \t \n \v \f \r ' ' *)
  Definition is_space (b : N) : bool :=
    (b =? 9) || (b =? 10) || (b =? 11) || (b =? 12) || (b =? 13) || (b =? 32).

  Fixpoint trim_left (s : str) : str :=
    match s with
    | [] => []
    | c :: t => if is_space c then trim_left t else s
    end.
  (** strings.TrimSpace *)
  (** list reversal in linear time (the lines of a rule file can be 64 KiB long) *)
  Definition frev (s : str) : str := rev_append s [].
  Definition trim_space (s : str) : str := frev (trim_left (frev (trim_left s))).

  (** utils.RemoveComment(s, "#") *)
  Fixpoint remove_comment (s : str) : str :=
    match s with
    | [] => []
    | c :: t => if c =? c_hash then [] else c :: remove_comment t
    end.

  (** bufio.ScanLines: lines end at '\n', one '\r' before it is dropped, a last
      line without '\n' counts when it is not empty. [cur] = the current line, reversed. *)
  Definition drop_cr_rev (cur : str) : str :=
    match cur with
    | c :: t => if c =? 13 then frev t else frev cur
    | [] => []
    end.
  Fixpoint split_lines_aux (cur : str) (s : str) : list str :=
    match s with
    | [] => match cur with [] => [] | _ :: _ => [drop_cr_rev cur] end
    | c :: t => if c =? 10 then drop_cr_rev cur :: split_lines_aux [] t
                else split_lines_aux (c :: cur) t
    end.
  Definition split_lines (s : str) : list str := split_lines_aux [] s.

  (** bufio.Scanner with its default buffer: Scan gives up with ErrTooLong as soon
      as a line reaches bufio.MaxScanTokenSize = 64 KiB without its newline (the
      buffer is full and holds no complete token). [scan_lines] = the lines
      delivered before that, and whether the scanner gave up. [n] = length cur. *)
  Definition max_scan_token : N := 65536.
  Fixpoint scan_lines_aux (cur : str) (n : N) (s : str) : list str * bool :=
    match s with
    | [] => (match cur with [] => [] | _ :: _ => [drop_cr_rev cur] end, false)
    | c :: t =>
      if c =? 10 then let '(ls, e) := scan_lines_aux [] 0 t in (drop_cr_rev cur :: ls, e)
      else if max_scan_token <=? n + 1 then ([], true)
      else scan_lines_aux (c :: cur) (n + 1) t
    end.
  Definition scan_lines (s : str) : list str * bool := scan_lines_aux [] 0 s.

  (** strings.Fields *)
  Fixpoint fields_aux (cur : str) (s : str) : list str :=
    match s with
    | [] => match cur with [] => [] | _ :: _ => [frev cur] end
    | c :: t =>
      if is_space c then
        match cur with [] => fields_aux [] t | _ :: _ => frev cur :: fields_aux [] t end
      else fields_aux (c :: cur) t
    end.
  Definition fields (s : str) : list str := fields_aux [] s.

  (** A ParseStringFunc: line -> (pattern, value) or an error. *)
  Definition parse_fn := str -> option (str * V).

  (** patternOnly: the whole string is the pattern unless it contains white space. *)
  Definition pattern_only (zero : V) : parse_fn :=
    fun s => if existsb is_space s then None else Some (s, zero).

  (** Load *)
  Definition load (parse : parse_fn) (dflt : str) (s : str) (m : mix) : res mix :=
    match parse s with
    | None => Er e_parse
    | Some (pat, v) => mix_add dflt pat v m
    end.

  (** The rule text of a line: comment removed, then trimmed. *)
  Definition clean_line (l : str) : str := trim_space (remove_comment l).

  (** LoadFromTextReader: returns the matcher and the 1-based number of the line
      that failed (0 = no error; rules of earlier lines stay loaded). *)
  Fixpoint load_lines (parse : parse_fn) (dflt : str) (lineno : N) (ls : list str) (m : mix) : mix * N :=
    match ls with
    | [] => (m, 0)
    | l :: rest =>
      match clean_line l with
      | [] => load_lines parse dflt (lineno + 1) rest m
      | (_ :: _) as s =>
        match load parse dflt s m with
        | Ok m' => load_lines parse dflt (lineno + 1) rest m'
        | Er _ => (m, lineno + 1)
        end
      end
    end.
  Definition load_text (parse : parse_fn) (dflt : str) (text : str) (m : mix) : mix * N :=
    let '(ls, gave_up) := scan_lines text in
    let '(m', e) := load_lines parse dflt 0 ls m in
    if negb (e =? 0) then (m', e)
    else if gave_up then (m', N.of_nat (length ls) + 1)   (* [return scanner.Err()] *)
    else (m', 0).

  (** A sequence of Load calls that stops at the first error (how the plugins
      load their in-line rules); 1-based index of the failing one, 0 = none. *)
  Fixpoint load_list (parse : parse_fn) (dflt : str) (idx : N) (ss : list str) (m : mix) : mix * N :=
    match ss with
    | [] => (m, 0)
    | s :: rest =>
      match load parse dflt s m with
      | Ok m' => load_list parse dflt (idx + 1) rest m'
      | Er _ => (m, idx + 1)
      end
    end.
End Matchers.

Arguments Ok {A} a.
Arguments Er {A} e.
