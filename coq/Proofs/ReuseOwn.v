(** Ownership of connections in the non-pipelined transport (Model.Reuse):
    a connection is held by at most one "holder" at a time — a call that has
    it and has not yet begun its exchange ([UHave]), or a finished dial whose
    result nobody has taken yet ([DDone (Some n) _]) — and a held connection
    exists, has no exchange installed, and is not in the idle pool; idle
    connections have no exchange installed either. Consequence: the panic
    "bug: reusableConn: concurrent exchange calls" is unreachable
    ([reuse_install_enabled]). For every label list. *)
From Verif Require Import Base.Prelude Gen.Constants Gen.RetryFacts Model.Reuse Proofs.Reuse.
Open Scope N_scope.

(** The connection a call holds, by kind of holding:
    [true]  — the call is at [UHave] with that connection;
    [false] — the call's dial produced it and the result is not yet taken. *)
Definition holdk (k : xcall) (b : bool) : option nat :=
  if b then match upc k with UHave => Some (uconn k) | _ => None end
  else match udial k with DDone (Some n) _ => Some n | _ => None end.

Record OInv (s : xst) : Prop := {
  o_ok : forall c b n, holdk (xcalls s c) b = Some n ->
         xexists (conns s n) = true /\ xwaiting (conns s n) = None /\ ~ In n (idle s);
  o_uniq : forall c b c' b' n, holdk (xcalls s c) b = Some n -> holdk (xcalls s c') b' = Some n ->
           c = c' /\ b = b';
  o_idle : forall n, In n (idle s) -> xwaiting (conns s n) = None
}.

Lemma oinv_init : OInv xinit.
Proof.
  constructor; simpl.
  - intros c [|] n; simpl; discriminate.
  - intros c [|] c' b' n; simpl; discriminate.
  - intros n [].
Qed.

(** ** One lemma per update shape *)

(** Call [c] changes; what it holds afterwards it either held before (in some
    kind) or is "free": existing, without waiter, not idle, held by nobody.
    Connections keep existing and keep an empty waiter slot; the idle list
    does not grow. *)
Lemma oinv_upd s c v tc nc cse idl cs :
  OInv s ->
  (forall n, xexists (conns s n) = true -> xexists (cs n) = true) ->
  (forall n, xwaiting (conns s n) = None -> xwaiting (cs n) = None) ->
  (forall n, In n idl -> In n (idle s)) ->
  (forall b n, holdk v b = Some n ->
     (exists b', holdk (xcalls s c) b' = Some n) \/
     (xexists (cs n) = true /\ xwaiting (cs n) = None /\ ~ In n idl /\
      forall x b', holdk (xcalls s x) b' <> Some n)) ->
  (forall n, holdk v true = Some n -> holdk v false = Some n -> False) ->
  OInv (mkXS tc nc cse idl cs (gupd (xcalls s) c v)).
Proof.
  intros H He Hw Hi Hv Hx. destruct H as [O1 O2 O3]. constructor; simpl.
  - intros x b n Hh. destruct (Nat.eq_dec x c) as [->|Nx].
    + rewrite gupd_same in Hh. destruct (Hv b n Hh) as [[b' Hb]|(A & B & C & _)].
      * destruct (O1 c b' n Hb) as (A & B & C). repeat split; auto.
      * repeat split; auto.
    + rewrite gupd_other in Hh by assumption. destruct (O1 x b n Hh) as (A & B & C). repeat split; auto.
  - intros x b x' b' n Hh Hh'.
    destruct (Nat.eq_dec x c) as [->|Nx]; destruct (Nat.eq_dec x' c) as [->|Nx'];
      rewrite ?gupd_same in *; rewrite ?(gupd_other _ _ _ _ Nx) in *; rewrite ?(gupd_other _ _ _ _ Nx') in *.
    + split; [reflexivity|]. destruct b, b'; try reflexivity; exfalso; eapply Hx; eauto.
    + exfalso. destruct (Hv b n Hh) as [[b'' Hb]|(_ & _ & _ & F)].
      * destruct (O2 _ _ _ _ _ Hb Hh') as [X _]. congruence.
      * apply (F x' b' Hh').
    + exfalso. destruct (Hv b' n Hh') as [[b'' Hb]|(_ & _ & _ & F)].
      * destruct (O2 _ _ _ _ _ Hb Hh) as [X _]. congruence.
      * apply (F x b Hh).
    + apply (O2 _ _ _ _ _ Hh Hh').
  - intros n I. apply Hw. apply O3. apply Hi. exact I.
Qed.

(** Call [c] changes, the pool does not; everything [c] holds it held before. *)
Lemma oinv_call s c v tc nc cse :
  OInv s ->
  (forall b n, holdk v b = Some n -> exists b', holdk (xcalls s c) b' = Some n) ->
  (forall n, holdk v true = Some n -> holdk v false = Some n -> False) ->
  OInv (mkXS tc nc cse (idle s) (conns s) (gupd (xcalls s) c v)).
Proof. intros H Hv Hx. apply oinv_upd; auto. intros b n Hh. left. apply (Hv b n Hh). Qed.

(** ... and in the same kind. *)
Lemma oinv_sub s c v tc nc cse :
  OInv s ->
  (forall b n, holdk v b = Some n -> holdk (xcalls s c) b = Some n) ->
  OInv (mkXS tc nc cse (idle s) (conns s) (gupd (xcalls s) c v)).
Proof.
  intros H Hv. apply oinv_call; auto.
  - intros b n Hh. exists b. auto.
  - intros n A B. apply Hv in A. apply Hv in B. destruct (o_uniq s H _ _ _ _ _ A B) as [_ X]. discriminate.
Qed.

Lemma oinv_pc s c k p :
  OInv s -> k = xcalls s c -> p <> UHave -> OInv (set_xcall s c (with_upc k p)).
Proof.
  intros H -> P. unfold set_xcall. apply oinv_sub; auto.
  intros [|] n; simpl; [|auto]. destruct p; try discriminate; contradiction.
Qed.

(** The calls stay; connections keep existing and keep an empty waiter slot; idle does not grow. *)
Lemma oinv_pool s tc nc cse idl cs :
  OInv s ->
  (forall n, xexists (conns s n) = true -> xexists (cs n) = true) ->
  (forall n, xwaiting (conns s n) = None -> xwaiting (cs n) = None) ->
  (forall n, In n idl -> In n (idle s)) ->
  OInv (mkXS tc nc cse idl cs (xcalls s)).
Proof.
  intros [O1 O2 O3] He Hw Hi. constructor; simpl.
  - intros x b n Hh. destruct (O1 x b n Hh) as (A & B & C). repeat split; auto.
  - exact O2.
  - intros n I. auto.
Qed.

(** A connection that nobody holds and that is not idle may change at will. *)
Lemma oinv_conn_free s n q tc nc cse :
  OInv s -> ~ In n (idle s) -> (forall x b, holdk (xcalls s x) b <> Some n) ->
  OInv (mkXS tc nc cse (idle s) (gupd (conns s) n q) (xcalls s)).
Proof.
  intros [O1 O2 O3] Ni Nh. constructor; simpl.
  - intros x b m Hh. assert (m <> n) by (intros ->; apply (Nh x b Hh)).
    rewrite gupd_other by assumption. apply (O1 x b m Hh).
  - exact O2.
  - intros m I. assert (m <> n) by (intros ->; contradiction).
    rewrite gupd_other by assumption. auto.
Qed.

(** setIdle of a connection without waiter that nobody holds. *)
Lemma oinv_set_idle s n :
  OInv s -> xwaiting (conns s n) = None -> (forall x b, holdk (xcalls s x) b <> Some n) ->
  OInv (set_idle s n).
Proof.
  intros H Hw Nh. unfold set_idle. destruct (tclosed s); [exact H|].
  destruct (gmem n (cset s)); [|exact H]. destruct (gmem n (idle s)); [exact H|].
  destruct H as [O1 O2 O3]. constructor; simpl.
  - intros x b m Hh. destruct (O1 x b m Hh) as (A & B & C). repeat split; auto.
    intros [<-|I]; [apply (Nh x b Hh)|contradiction].
  - exact O2.
  - intros m [<-|I]; auto.
Qed.

Lemma oinv_close_conn s n e : OInv s -> OInv (close_conn s n e).
Proof.
  intros H. unfold close_conn. destruct (xclosed (conns s n)); [exact H|].
  apply (oinv_pool s); auto.
  - intros m. xsplitn m n; simpl; auto.
  - intros m. xsplitn m n; simpl; auto.
  - intros m. rewrite gremove_In. tauto.
Qed.

Ltac osame := intros [|] ?m; simpl; try discriminate; auto.

(** ** The step *)
Theorem oinv_step s l s' : PInv s -> KInv s -> OInv s -> xstep s l = Some s' -> OInv s'.
Proof.
  intros HP HK H Hs. destruct l; cbn [xstep] in Hs.
  - (* MBegin *)
    destruct (xpc_eqb (upc (xcalls s c)) U0); inversion Hs; subst. apply oinv_pc; auto; discriminate.
  - (* MGetIdle *)
    destruct (xpc_eqb (upc (xcalls s c)) ULoop) eqn:E; [|discriminate]. apply xpc_eqb_eq in E.
    destruct (tclosed s).
    { inversion Hs; subst. unfold set_xcall. apply oinv_sub; auto; osame. }
    destruct pick as [n|].
    + destruct (gmem n (idle s)) eqn:M; [|discriminate]. inversion Hs; subst. clear Hs. apply gmem_In in M.
      assert (Nh : forall x b', holdk (xcalls s x) b' <> Some n).
      { intros x b' Hh. destruct (o_ok s H _ _ _ Hh) as (_ & _ & Ni). contradiction. }
      apply oinv_upd; auto.
      * intros m. rewrite gremove_In. tauto.
      * intros [|] m; simpl; intros X.
        -- injection X as <-. right. repeat split.
           ++ apply (p_cset s HP). apply (p_idle_sub s HP). exact M.
           ++ apply (o_idle s H). exact M.
           ++ rewrite gremove_In. tauto.
           ++ exact Nh.
        -- left. exists false. exact X.
      * intros m; simpl; intros X Y. injection X as <-. apply (Nh c false Y).
    + destruct (idle s); [|discriminate]. inversion Hs; subst. unfold set_xcall. apply oinv_sub; auto; osame.
  - (* MDialDone *)
    destruct (udial (xcalls s c)) eqn:D; try discriminate.
    destruct ok; [|inversion Hs; subst; unfold set_xcall; apply oinv_sub; auto; osame].
    destruct (tclosed s); [inversion Hs; subst; unfold set_xcall; apply oinv_sub; auto; osame|].
    inversion Hs; subst. clear Hs.
    pose proof (k_fresh s HK (nconns s) (le_n _)) as Fw.
    assert (Nh : forall x b', holdk (xcalls s x) b' <> Some (nconns s)).
    { intros x b' Hh. destruct (o_ok s H _ _ _ Hh) as (Ex & _ & _). apply (p_bound s HP) in Ex. lia. }
    apply oinv_upd; auto.
    + intros m. xsplitn m (nconns s); simpl; auto.
    + intros m. xsplitn m (nconns s); simpl; auto.
    + intros [|] m; simpl; intros X.
      * left. exists true. exact X.
      * injection X as <-. right. rewrite gupd_same. simpl. repeat split; auto.
        intros I. apply (p_idle_sub s HP) in I. apply (p_cset s HP) in I. destruct I as [Ex _].
        apply (p_bound s HP) in Ex. lia.
    + intros m; simpl; intros X Y. injection Y as <-. apply (Nh c true X).
  - (* MDialRecv *)
    destruct (xpc_eqb (upc (xcalls s c)) UDialWait) eqn:E; [|discriminate]. apply xpc_eqb_eq in E.
    destruct (udial (xcalls s c)) as [| |[n|] e|] eqn:D; try discriminate; inversion Hs; subst; clear Hs; unfold set_xcall.
    + apply oinv_call; auto.
      * intros [|] m; simpl; [|discriminate]. intros X. exists false. simpl. rewrite D. exact X.
      * intros m; simpl; discriminate.
    + apply oinv_sub; auto; osame.
  - (* MDialAbandon *)
    destruct (xpc_eqb (upc (xcalls s c)) UDialWait && (uctx (xcalls s c) || tclosed s)); [|discriminate].
    inversion Hs; subst. unfold set_xcall. apply oinv_sub; auto; osame.
  - (* MDialOrphan *)
    destruct (upc (xcalls s c)) eqn:E; try discriminate. destruct (udial (xcalls s c)) as [| |r e|] eqn:D; try discriminate.
    inversion Hs; subst. clear Hs.
    match goal with |- OInv (match r with Some n => set_idle ?a n | None => _ end) =>
      set (s1 := a); assert (K1 : OInv s1) end.
    { unfold s1, set_xcall. apply oinv_sub; auto; osame. }
    destruct r as [n|]; [|exact K1].
    assert (Hc : holdk (xcalls s c) false = Some n) by (simpl; rewrite D; reflexivity).
    apply oinv_set_idle; [exact K1| |].
    + unfold s1, set_xcall; simpl. apply (o_ok s H _ _ _ Hc).
    + intros x b Hh. unfold s1, set_xcall in Hh; simpl in Hh.
      destruct (Nat.eq_dec x c) as [->|Nx].
      * rewrite gupd_same in Hh. destruct b; simpl in Hh; discriminate.
      * rewrite gupd_other in Hh by assumption. destruct (o_uniq s H _ _ _ _ _ Hh Hc) as [X _]. contradiction.
  - (* MInstall *)
    destruct (xpc_eqb (upc (xcalls s c)) UHave) eqn:E; [|discriminate]. apply xpc_eqb_eq in E.
    destruct (if xexists (conns s (uconn (xcalls s c))) then xwaiting (conns s (uconn (xcalls s c))) else Some (c, 0)); [discriminate|].
    inversion Hs; subst. clear Hs.
    assert (Hc : holdk (xcalls s c) true = Some (uconn (xcalls s c))) by (simpl; rewrite E; reflexivity).
    match goal with |- OInv (mkXS ?tc ?nc ?cse ?idl (gupd ?cs ?n ?q) (gupd ?f c ?v)) =>
      set (s1 := mkXS tc nc cse idl cs (gupd f c v)); assert (K1 : OInv s1);
      [|apply (oinv_conn_free s1 n q tc nc cse K1)] end.
    + unfold s1. apply oinv_sub; auto; osame.
    + simpl. apply (o_ok s H _ _ _ Hc).
    + intros x b Hh. simpl in Hh. destruct (Nat.eq_dec x c) as [->|Nx].
      * rewrite gupd_same in Hh. destruct b; simpl in Hh; [discriminate|].
        assert (Hf : holdk (xcalls s c) false = Some (uconn (xcalls s c))) by exact Hh.
        destruct (o_uniq s H _ _ _ _ _ Hf Hc) as [_ X]. discriminate.
      * rewrite gupd_other in Hh by assumption. destruct (o_uniq s H _ _ _ _ _ Hh Hc) as [X _]. contradiction.
  - (* MWriteBegin *)
    destruct (xpc_eqb (upc (xcalls s c)) UInstalled && xexists (conns s (uconn (xcalls s c)))) eqn:E; [|discriminate].
    inversion Hs; subst. clear Hs. apply oinv_upd; auto.
    + intros m. xsplitn m (uconn (xcalls s c)); simpl; auto.
    + intros m. xsplitn m (uconn (xcalls s c)); simpl; auto.
    + intros [|] m; simpl; [discriminate|]. intros X. left. exists false. exact X.
    + intros m; simpl; discriminate.
  - (* MWriteEnd *)
    destruct (xpc_eqb (upc (xcalls s c)) UWriting); [|discriminate]. destruct ok; inversion Hs; subst.
    + apply oinv_pc; auto; discriminate.
    + apply oinv_pc; [apply oinv_close_conn; exact H|rewrite calls_close_conn; reflexivity|discriminate].
  - (* MSelect *)
    destruct (xpc_eqb (upc (xcalls s c)) UWaiting) eqn:E; [|discriminate]. destruct k.
    + destruct (ubuf (xcalls s c)); inversion Hs; subst. unfold set_xcall. apply oinv_sub; auto; osame.
    + destruct (xclosed (conns s (uconn (xcalls s c)))); inversion Hs; subst. apply oinv_pc; auto; discriminate.
    + destruct (uctx (xcalls s c)); inversion Hs; subst. apply oinv_pc; auto; discriminate.
  - (* MTake *)
    destruct (upc (xcalls s c)) eqn:E; try discriminate.
    destruct (ubuf (xcalls s c)); inversion Hs; subst.
    + unfold set_xcall. apply oinv_sub; auto; osame.
    + apply oinv_pc; auto; discriminate.
  - (* MAfter *)
    destruct (upc (xcalls s c)) eqn:E; try discriminate.
    destruct (may_retry_reuse (xcalls s c)); inversion Hs; subst; unfold set_xcall; apply oinv_sub; auto; osame.
  - (* MCtx *)
    inversion Hs; subst. unfold set_xcall. apply oinv_sub; auto; osame.
  - (* MRecv *)
    destruct (xexists (conns s n) && negb (xrdead (conns s n))); [|discriminate].
    destruct (xhold (conns s n)); [discriminate|]. inversion Hs; subst.
    unfold set_xconn. apply (oinv_pool s); auto; intros m; xsplitn m n; simpl; auto.
  - (* MDispatch *)
    destruct (xexists (conns s n)) eqn:Ex; [|discriminate].
    destruct (xhold (conns s n)) as [r|]; [|discriminate].
    destruct (xwaiting (conns s n)) as [[c att]|] eqn:W.
    + (* a waiter is installed: nobody holds [n], and it is not idle *)
      assert (Nh : forall x b, holdk (xcalls s x) b <> Some n).
      { intros x b Hh. destruct (o_ok s H _ _ _ Hh) as (_ & Wn & _). congruence. }
      assert (Ni : ~ In n (idle s)).
      { intros I. apply (o_idle s H) in I. congruence. }
      set (q' := mkXC true (xclosed (conns s n)) (xcerr (conns s n)) None (xrdead (conns s n)) None (xout (conns s n) - 1)) in *.
      assert (K1 : OInv (set_xconn s n q')).
      { unfold set_xconn. apply oinv_conn_free; auto. }
      assert (K2 : OInv (set_idle (set_xconn s n q') n)).
      { apply oinv_set_idle; [exact K1| |exact Nh]. simpl. rewrite gupd_same. reflexivity. }
      match type of Hs with (if ?b then _ else _) = _ => destruct b end; inversion Hs; subst; [|exact K2].
      unfold set_xcall. apply oinv_sub; auto; osame.
    + inversion Hs; subst. apply oinv_close_conn. unfold set_xconn.
      apply (oinv_pool s); auto; intros m; xsplitn m n; simpl; auto.
  - (* MRecvErr *)
    destruct (xexists (conns s n) && negb (xrdead (conns s n))); [|discriminate].
    destruct (xhold (conns s n)); [discriminate|]. inversion Hs; subst.
    apply oinv_close_conn. unfold set_xconn. apply (oinv_pool s); auto; intros m; xsplitn m n; simpl; auto.
  - (* MTClose *)
    destruct (tclosed s); inversion Hs; subst; [exact H|].
    apply (oinv_pool s); auto.
    + intros n. destruct (close_all_spec (cset s) (conns s) n) as (_ & _ & X & _ & _). congruence.
    + intros n. destruct (close_all_spec (cset s) (conns s) n) as (_ & _ & _ & _ & W). congruence.
    + intros n [].
Qed.

Theorem oinv_run : forall ls s s', PInv s -> KInv s -> OInv s -> xrun s ls = Some s' -> OInv s'.
Proof.
  induction ls as [|l ls IH]; intros s s' HP HK H R; simpl in R; [inversion R; subst; exact H|].
  destruct (xstep s l) as [s1|] eqn:E; [|discriminate].
  eapply IH; [eapply pinv_step; eauto|eapply kinv_step; eauto|eapply oinv_step; eauto|exact R].
Qed.

Theorem oreach ls s : xrun xinit ls = Some s -> OInv s.
Proof. intros R. apply (oinv_run ls xinit s pinv_init kinv_init oinv_init R). Qed.

(** ** Consequences *)

(** A call that holds a connection can always begin its exchange: the panic
    "bug: reusableConn: concurrent exchange calls" is unreachable. *)
Theorem reuse_install_enabled ls s c :
  xrun xinit ls = Some s -> upc (xcalls s c) = UHave -> exists s', xstep s (MInstall c) = Some s'.
Proof.
  intros R P. pose proof (oreach ls s R) as H.
  assert (Hc : holdk (xcalls s c) true = Some (uconn (xcalls s c))) by (simpl; rewrite P; reflexivity).
  destruct (o_ok s H _ _ _ Hc) as (Ex & W & _).
  cbn [xstep]. rewrite P. cbn [xpc_eqb]. rewrite Ex, W. eexists. reflexivity.
Qed.

(** The ownership facts in plain words. *)
Theorem reuse_have_exclusive ls s c c' :
  xrun xinit ls = Some s -> upc (xcalls s c) = UHave -> upc (xcalls s c') = UHave ->
  uconn (xcalls s c) = uconn (xcalls s c') -> c = c'.
Proof.
  intros R P P' En. pose proof (oreach ls s R) as H.
  assert (Hc : holdk (xcalls s c) true = Some (uconn (xcalls s c))) by (simpl; rewrite P; reflexivity).
  assert (Hc' : holdk (xcalls s c') true = Some (uconn (xcalls s c))) by (simpl; rewrite P', En; reflexivity).
  apply (o_uniq s H _ _ _ _ _ Hc Hc').
Qed.

Theorem reuse_idle_no_waiter ls s n :
  xrun xinit ls = Some s -> In n (idle s) ->
  xwaiting (conns s n) = None /\ forall c, upc (xcalls s c) = UHave -> uconn (xcalls s c) <> n.
Proof.
  intros R I. pose proof (oreach ls s R) as H. split; [apply (o_idle s H n I)|].
  intros c P En.
  assert (Hc : holdk (xcalls s c) true = Some n) by (simpl; rewrite P, En; reflexivity).
  destruct (o_ok s H _ _ _ Hc) as (_ & _ & Ni). contradiction.
Qed.

(** Non-vacuity: a call reaches [UHave] with a freshly dialled connection, and installs. *)
Example reuse_install_nonvacuous_dial :
  match xrun xinit [MBegin 0; MGetIdle 0 None; MDialDone 0 true; MDialRecv 0] with
  | Some s =>
    upc (xcalls s 0) = UHave /\
    match xstep s (MInstall 0) with
    | Some s' => upc (xcalls s' 0) = UInstalled /\ xwaiting (conns s' 0) = Some (0%nat, 1)
    | None => False
    end
  | None => False
  end.
Proof. vm_compute. repeat split. Qed.

(** ... and with a connection taken from the idle pool after another call's exchange completed on it. *)
Example reuse_install_nonvacuous_idle :
  match xrun xinit [MBegin 0; MGetIdle 0 None; MDialDone 0 true; MDialRecv 0; MInstall 0; MWriteBegin 0;
                    MWriteEnd 0 true; MRecv 0 (mkXR 7 (Some 0%nat)); MDispatch 0;
                    MBegin 1; MGetIdle 1 (Some 0%nat)] with
  | Some s =>
    upc (xcalls s 1) = UHave /\ uconn (xcalls s 1) = 0%nat /\ upc (xcalls s 0) = UWaiting /\
    match xstep s (MInstall 1) with
    | Some s' => upc (xcalls s' 1) = UInstalled /\ xwaiting (conns s' 0) = Some (1%nat, 1)
    | None => False
    end
  | None => False
  end.
Proof. vm_compute. repeat split. Qed.

Print Assumptions reuse_install_enabled.
