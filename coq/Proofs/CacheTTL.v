(** C05 — proofs about Model/CacheTTL.v. *)
From Verif Require Import Base.Prelude Gen.Constants Model.CacheTTL.
From Coq Require Import ZifyN ZifyNat ZifyBool.
Open Scope N_scope.

(** * Record level: SubtractTTL / SetTTL *)

(** [aged e r r']: r' is r after "e whole seconds": same section, same kind,
    an OPT pseudo-record is untouched, any other TTL is ttl - e when that is
    positive and 1 otherwise. *)
Definition aged (e : N) (r r' : rr) : Prop :=
  rr_sec r' = rr_sec r /\ rr_opt r' = rr_opt r /\
  rr_ttl r' = (if rr_opt r then rr_ttl r
               else if e <? rr_ttl r then rr_ttl r - e else 1).

(** [fixed t r r']: r' is r with the TTL replaced by t unless r is an OPT. *)
Definition fixed (t : N) (r r' : rr) : Prop :=
  rr_sec r' = rr_sec r /\ rr_opt r' = rr_opt r /\
  rr_ttl r' = (if rr_opt r then rr_ttl r else t).

Lemma sub_rr_aged e r : aged e r (sub_rr e r).
Proof.
  unfold aged, sub_rr. destruct (rr_opt r) eqn:E; cbn [rr_sec rr_opt rr_ttl]; rewrite ?E; auto.
Qed.

Lemma set_rr_fixed t r : fixed t r (set_rr t r).
Proof.
  unfold fixed, set_rr. destruct (rr_opt r) eqn:E; cbn [rr_sec rr_opt rr_ttl]; rewrite ?E; auto.
Qed.

Lemma Forall2_map_r {A B} (P : A -> B -> Prop) (f : A -> B) l :
  (forall x, P x (f x)) -> Forall2 P l (map f l).
Proof. intro H. induction l; simpl; constructor; auto. Qed.

Lemma subtract_ttl_aged e m : Forall2 (aged e) (m_rrs m) (m_rrs (subtract_ttl e m)).
Proof. apply Forall2_map_r, sub_rr_aged. Qed.

Lemma set_ttl_fixed t m : Forall2 (fixed t) (m_rrs m) (m_rrs (set_ttl t m)).
Proof. apply Forall2_map_r, set_rr_fixed. Qed.

Lemma aged_bounds e r r' :
  aged e r r' -> rr_opt r = false ->
  1 <= rr_ttl r' /\ rr_ttl r' <= N.max 1 (rr_ttl r - e) /\ (e < rr_ttl r -> rr_ttl r' = rr_ttl r - e).
Proof.
  intros (_ & _ & H) O. rewrite O in H. destruct (e <? rr_ttl r) eqn:E; lia.
Qed.

Lemma aged_opt e r r' : aged e r r' -> rr_opt r = true -> r' = r.
Proof.
  intros (H1 & H2 & H3) O. rewrite O in H3. destruct r, r'; cbn in *. congruence.
Qed.

Lemma fixed_opt t r r' : fixed t r r' -> rr_opt r = true -> r' = r.
Proof.
  intros (H1 & H2 & H3) O. rewrite O in H3. destruct r, r'; cbn in *. congruence.
Qed.

(** * Elapsed seconds *)
Open Scope Z_scope.

Lemma elapsed_floor_exact now stored :
  0 <= now - stored < 4294967296 * second ->
  elapsed_with secs_floor now stored = Z.to_N ((now - stored) / second).
Proof.
  intros H. unfold elapsed_with, secs_floor, dur_sub, u32_of_Z, min_dur, max_dur, second in *.
  rewrite Z.max_r, Z.min_r by lia.
  rewrite Z.quot_div_nonneg by lia.
  f_equal. apply Z.mod_small.
  split; [apply Z.div_pos; lia | apply Z.div_lt_upper_bound; lia].
Qed.

(** * getRespFromCache *)

Lemma get_resp_cases secs lazy_on now1 now2 e :
  get_resp_with secs lazy_on now1 now2 (Some e) =
  if e_cache_exp e <? now1 then None
  else if now2 <? e_msg_exp e then
    Some (subtract_ttl (elapsed_with secs now2 (e_stored e)) (e_msg e), false)
  else if lazy_on then Some (set_ttl cache_expired_msg_ttl (e_msg e), true)
  else None.
Proof. reflexivity. Qed.

Lemma fresh_hit secs lazy_on now1 now2 e m :
  get_resp_with secs lazy_on now1 now2 (Some e) = Some (m, false) ->
  now1 <= e_cache_exp e /\ now2 < e_msg_exp e /\
  m = subtract_ttl (elapsed_with secs now2 (e_stored e)) (e_msg e).
Proof.
  rewrite get_resp_cases.
  destruct (e_cache_exp e <? now1) eqn:E1; [discriminate|].
  destruct (now2 <? e_msg_exp e) eqn:E2.
  - intro H; inversion H; subst. repeat split; lia.
  - destruct lazy_on; discriminate.
Qed.

Lemma aging secs lazy_on now1 now2 e m :
  get_resp_with secs lazy_on now1 now2 (Some e) = Some (m, false) ->
  Forall2 (aged (elapsed_with secs now2 (e_stored e))) (m_rrs (e_msg e)) (m_rrs m).
Proof.
  intro H. apply fresh_hit in H as (_ & _ & ->). apply subtract_ttl_aged.
Qed.

Lemma expiry_nonlazy secs now1 now2 e :
  get_resp_with secs false now1 now2 (Some e) <> None <->
  now2 < e_msg_exp e /\ now1 <= e_cache_exp e.
Proof.
  rewrite get_resp_cases.
  destruct (e_cache_exp e <? now1) eqn:E1; destruct (now2 <? e_msg_exp e) eqn:E2;
    split; intro H; try (exfalso; apply H; reflexivity); try discriminate; try lia.
Qed.

Lemma nonlazy_never_stale secs now1 now2 en r :
  get_resp_with secs false now1 now2 en = Some r -> snd r = false.
Proof.
  destruct en as [e|]; [|discriminate]. rewrite get_resp_cases.
  destruct (e_cache_exp e <? now1); [discriminate|].
  destruct (now2 <? e_msg_exp e); [|discriminate].
  intro H; inversion H; reflexivity.
Qed.

Lemma lazy_stale secs now1 now2 e :
  e_msg_exp e <= now2 -> now1 <= e_cache_exp e ->
  get_resp_with secs true now1 now2 (Some e) = Some (set_ttl cache_expired_msg_ttl (e_msg e), true).
Proof.
  intros H1 H2. rewrite get_resp_cases.
  destruct (e_cache_exp e <? now1) eqn:E1; [lia|].
  destruct (now2 <? e_msg_exp e) eqn:E2; [lia|]. reflexivity.
Qed.

Lemma lazy_stale_full secs now1 now2 e :
  e_msg_exp e <= now2 -> now1 <= e_cache_exp e ->
  exists m, get_resp_with secs true now1 now2 (Some e) = Some (m, true) /\
            Forall2 (fixed cache_expired_msg_ttl) (m_rrs (e_msg e)) (m_rrs m).
Proof.
  intros H1 H2. eexists. split; [apply lazy_stale; assumption | apply set_ttl_fixed].
Qed.

Lemma stale_hit secs lazy_on now1 now2 e m :
  get_resp_with secs lazy_on now1 now2 (Some e) = Some (m, true) ->
  lazy_on = true /\ e_msg_exp e <= now2 /\ now1 <= e_cache_exp e /\
  m = set_ttl cache_expired_msg_ttl (e_msg e).
Proof.
  rewrite get_resp_cases.
  destruct (e_cache_exp e <? now1) eqn:E1; [discriminate|].
  destruct (now2 <? e_msg_exp e) eqn:E2; [discriminate|].
  destruct lazy_on; [|discriminate].
  intro H; inversion H; subst. repeat split; lia.
Qed.

Lemma hidden_after_cache_expiry secs lazy_on now1 now2 e :
  e_cache_exp e < now1 -> get_resp_with secs lazy_on now1 now2 (Some e) = None.
Proof.
  intro H. rewrite get_resp_cases. destruct (e_cache_exp e <? now1) eqn:E1; [reflexivity|lia].
Qed.

(** * GetMinimalTTL *)
Open Scope N_scope.

Definition non_opt (r : rr) : bool := negb (rr_opt r).

Lemma min_ttl_aux_spec l : forall mn has,
  let '(mn', has') := min_ttl_aux mn has l in
  has' = (has || existsb non_opt l) /\
  mn' <= mn /\
  (forall r, In r l -> rr_opt r = false -> mn' <= rr_ttl r) /\
  (mn' = mn \/ exists r, In r l /\ rr_opt r = false /\ rr_ttl r = mn').
Proof.
  induction l as [|r l IH]; intros mn has; cbn [min_ttl_aux].
  - rewrite orb_false_r. repeat split; auto; try lia. intros r [].
  - assert (EX : existsb non_opt (r :: l) = negb (rr_opt r) || existsb non_opt l) by reflexivity.
    rewrite EX. clear EX. destruct (rr_opt r) eqn:O.
    + specialize (IH mn has). destruct (min_ttl_aux mn has l) as [mn' has'].
      destruct IH as (H1 & H2 & H3 & H4). cbn [negb orb].
      repeat split; auto.
      * intros r0 [<-|Hi] O0; [congruence | auto].
      * destruct H4 as [H4 | (r0 & Hi & O0 & T0)]; [auto | right; exists r0; cbn; auto].
    + set (mn1 := if rr_ttl r <? mn then rr_ttl r else mn).
      specialize (IH mn1 true). destruct (min_ttl_aux mn1 true l) as [mn' has'].
      destruct IH as (H1 & H2 & H3 & H4). cbn [negb].
      assert (Hm : mn1 <= mn /\ mn1 <= rr_ttl r) by (subst mn1; destruct (rr_ttl r <? mn) eqn:E; lia).
      repeat split.
      * rewrite H1. cbn. rewrite orb_true_r. reflexivity.
      * lia.
      * intros r0 [<-|Hi] O0; [lia | auto].
      * destruct H4 as [H4 | (r0 & Hi & O0 & T0)].
        -- subst mn1. destruct (rr_ttl r <? mn) eqn:E; [right; exists r; cbn; auto | left; auto].
        -- right; exists r0; cbn; auto.
Qed.

Lemma min_ttl_none m : existsb non_opt (m_rrs m) = false -> min_ttl m = 0.
Proof.
  intro H. unfold min_ttl. pose proof (min_ttl_aux_spec (m_rrs m) max_u32 false) as S.
  destruct (min_ttl_aux max_u32 false (m_rrs m)) as [mn has]. destruct S as (-> & _).
  rewrite H. reflexivity.
Qed.

Lemma min_ttl_le m r : In r (m_rrs m) -> rr_opt r = false -> min_ttl m <= rr_ttl r.
Proof.
  intros Hi O. unfold min_ttl. pose proof (min_ttl_aux_spec (m_rrs m) max_u32 false) as S.
  destruct (min_ttl_aux max_u32 false (m_rrs m)) as [mn has]. destruct S as (-> & _ & H & _).
  assert (E : existsb non_opt (m_rrs m) = true).
  { apply existsb_exists. exists r. split; auto. unfold non_opt. rewrite O. reflexivity. }
  rewrite E. cbn. auto.
Qed.

(** With 32 bit TTLs the minimum is attained by a real record. *)
Lemma min_ttl_attained m :
  Forall (fun r => rr_ttl r <= max_u32) (m_rrs m) -> existsb non_opt (m_rrs m) = true ->
  exists r, In r (m_rrs m) /\ rr_opt r = false /\ rr_ttl r = min_ttl m.
Proof.
  intros W E. unfold min_ttl. pose proof (min_ttl_aux_spec (m_rrs m) max_u32 false) as S.
  destruct (min_ttl_aux max_u32 false (m_rrs m)) as [mn has]. destruct S as (-> & _ & Hle & Hat).
  rewrite E. cbn. destruct Hat as [-> | (r & Hi & O & T)]; [|exists r; auto].
  apply existsb_exists in E as (r & Hi & O). unfold non_opt in O. apply negb_true_iff in O.
  exists r. repeat split; auto. specialize (Hle r Hi O).
  rewrite Forall_forall in W. specialize (W r Hi). lia.
Qed.

(** copyNoOpt keeps every record that is not an OPT, in order. *)
Lemma copy_no_opt_non_opt r :
  filter non_opt (m_rrs (copy_no_opt r)) = filter non_opt (m_rrs r).
Proof.
  unfold copy_no_opt. cbn [m_rrs]. induction (m_rrs r) as [|x l IH]; [reflexivity|].
  cbn [filter]. unfold non_opt at 2. destruct (rr_opt x) eqn:O; cbn [negb andb].
  - destruct (rr_sec x =? 2); cbn [negb filter]; [auto|]. unfold non_opt at 1. rewrite O. cbn. auto.
  - cbn [filter]. unfold non_opt at 1. rewrite O. cbn. f_equal. auto.
Qed.

Lemma copy_no_opt_no_extra_opt r x :
  In x (m_rrs (copy_no_opt r)) -> rr_opt x = true -> rr_sec x <> 2.
Proof.
  unfold copy_no_opt. cbn [m_rrs]. intros Hi O. apply filter_In in Hi as (_ & H).
  rewrite O in H. cbn in H. apply negb_true_iff in H. lia.
Qed.

(** * saveRespToCache *)
Open Scope Z_scope.

Lemma second_pos : 0 < second. Proof. reflexivity. Qed.

(** exact admission rule *)
Lemma admission_exact r lazy_ttl :
  save_decision r lazy_ttl <> None <->
  m_tc r = false /\
  (m_rcode r = 3%N \/ m_rcode r = 2%N \/
   (m_rcode r = 0%N /\ (0 < min_ttl r)%N /\
    (has_answer r = true -> 0 < lazy_ttl -> 0 < wrap64 (lazy_ttl * second)))).
Proof.
  unfold save_decision, save_ttls, cache_max_empty_answer_ttl.
  set (w := wrap64 (lazy_ttl * second)). unfold second. clearbody w.
  destruct (m_tc r) eqn:TC; [split; [congruence | intros (H & _); discriminate]|].
  destruct (m_rcode r =? 3)%N eqn:R3; [cbn; split; [intros _; split; [reflexivity|lia] | discriminate]|].
  destruct (m_rcode r =? 2)%N eqn:R2; [cbn; split; [intros _; split; [reflexivity|lia] | discriminate]|].
  destruct (m_rcode r =? 0)%N eqn:R0; [|cbn; split; [congruence | intros (_ & H); lia]].
  destruct (has_answer r) eqn:HA; destruct (0 <? lazy_ttl) eqn:L; destruct (min_ttl r <? 300)%N eqn:M;
    cbv iota beta;
    match goal with |- context[(?a <=? 0) || (?b <=? 0)] => destruct ((a <=? 0) || (b <=? 0)) eqn:C end;
    (split; [intro H; first [congruence | split; [reflexivity | right; right; repeat split; try lia; try discriminate]]
            | intros (_ & [H|[H|(_ & H1 & H2)]]); try discriminate; try lia; try (specialize (H2 eq_refl); lia)]).
Qed.

Lemma wrap64_small z : - 9223372036854775808 <= z < 9223372036854775808 -> wrap64 z = z.
Proof. intro H. unfold wrap64. rewrite Z.mod_small; lia. Qed.

(** for every lazy_cache_ttl that does not overflow an int64 of nanoseconds *)
Lemma admission r lazy_ttl :
  lazy_ttl <= 9223372036 ->
  (save_decision r lazy_ttl <> None <->
   m_tc r = false /\
   (m_rcode r = 3%N \/ m_rcode r = 2%N \/ (m_rcode r = 0%N /\ (0 < min_ttl r)%N))).
Proof.
  intro L. rewrite admission_exact.
  split; intros (H1 & H2); split; auto.
  - destruct H2 as [H|[H|(H & H' & _)]]; auto.
  - destruct H2 as [H|[H|(H & H')]]; auto. right; right. repeat split; auto.
    intros _ P. rewrite wrap64_small; unfold second; lia.
Qed.

Lemma save_some r lazy_ttl now e :
  save r lazy_ttl now = Some e ->
  exists msg_ttl cache_ttl,
    save_decision r lazy_ttl = Some (msg_ttl, cache_ttl) /\ 0 < msg_ttl /\ 0 < cache_ttl /\
    save_ttls r lazy_ttl = (msg_ttl, cache_ttl) /\
    e = Entry (copy_no_opt r) now (now + msg_ttl) (now + cache_ttl).
Proof.
  unfold save. destruct (save_decision r lazy_ttl) as [[mt ct]|] eqn:D; [|discriminate].
  intro H; inversion H; subst. exists mt, ct.
  unfold save_decision in D. destruct (m_tc r); [discriminate|].
  destruct (save_ttls r lazy_ttl) as [a b].
  destruct ((a <=? 0) || (b <=? 0)) eqn:C; [discriminate|]. inversion D; subst.
  repeat split; auto; lia.
Qed.

Definition nmin (a b : N) : N := if (a <? b)%N then a else b.

(** lifetimes per rcode, exactly as coded *)
Lemma lifetimes r lazy_ttl now e :
  save r lazy_ttl now = Some e ->
  e_stored e = now /\ e_msg e = copy_no_opt r /\ now < e_msg_exp e /\ now < e_cache_exp e /\
  (m_rcode r = 3%N -> e_msg_exp e = now + 30 * second /\ e_cache_exp e = now + 30 * second) /\
  (m_rcode r = 2%N -> e_msg_exp e = now + 5 * second /\ e_cache_exp e = now + 5 * second) /\
  (m_rcode r = 0%N -> has_answer r = false ->
     e_msg_exp e = now + Z.of_N (N.min cache_max_empty_answer_ttl (min_ttl r)) * second /\
     e_cache_exp e = e_msg_exp e) /\
  (m_rcode r = 0%N -> has_answer r = true ->
     e_msg_exp e = now + Z.of_N (min_ttl r) * second /\
     e_cache_exp e = (if 0 <? lazy_ttl then now + wrap64 (lazy_ttl * second) else e_msg_exp e)).
Proof.
  intro H. apply save_some in H as (mt & ct & _ & P1 & P2 & T & ->). cbn [e_stored e_msg e_msg_exp e_cache_exp].
  unfold save_ttls in T.
  split; [reflexivity|]. split; [reflexivity|]. split; [lia|]. split; [lia|].
  split; [intro R; rewrite R in T; cbn in T; inversion T; split; reflexivity|].
  split; [intro R; rewrite R in T; cbn in T; inversion T; split; reflexivity|].
  split.
  - intros R HA. rewrite R, HA in T. cbn [N.eqb] in T. inversion T. split; [|reflexivity].
    f_equal. f_equal. f_equal.
    destruct (min_ttl r <? cache_max_empty_answer_ttl)%N eqn:E; lia.
  - intros R HA. rewrite R, HA in T. cbn [N.eqb] in T. inversion T. split; [reflexivity|].
    destruct (0 <? lazy_ttl); reflexivity.
Qed.

(** the other rcodes, truncated and zero-TTL replies *)
Lemma never_stored r lazy_ttl :
  m_tc r = true \/ (m_rcode r <> 0%N /\ m_rcode r <> 2%N /\ m_rcode r <> 3%N) \/
  (m_rcode r = 0%N /\ min_ttl r = 0%N) ->
  save_decision r lazy_ttl = None.
Proof.
  intro H. destruct (save_decision r lazy_ttl) eqn:D; [|reflexivity].
  assert (N : save_decision r lazy_ttl <> None) by congruence.
  apply admission_exact in N as (T & C). destruct H as [H|[(H0 & H2 & H3)|(H0 & HM)]].
  - congruence.
  - destruct C as [C|[C|(C & _)]]; congruence.
  - destruct C as [C|[C|(_ & C & _)]]; try congruence; lia.
Qed.

Lemma save_ttls_nonlazy r lazy_ttl :
  lazy_ttl <= 0 -> fst (save_ttls r lazy_ttl) = snd (save_ttls r lazy_ttl).
Proof.
  intro L. unfold save_ttls.
  destruct (m_rcode r =? 3)%N; [reflexivity|]. destruct (m_rcode r =? 2)%N; [reflexivity|].
  destruct (m_rcode r =? 0)%N; [|reflexivity].
  destruct (has_answer r); [|reflexivity]. destruct (0 <? lazy_ttl) eqn:E; [lia|reflexivity].
Qed.

(** store, then look up without lazy caching: the entry made by saveRespToCache
    is served exactly until its message lifetime is over *)
Lemma stored_then_served secs r lazy_ttl now e now1 now2 :
  save r lazy_ttl now = Some e -> lazy_ttl <= 0 -> now1 <= now2 ->
  (get_resp_with secs false now1 now2 (Some e) <> None <-> now2 < e_msg_exp e).
Proof.
  intros S L T. rewrite expiry_nonlazy.
  apply save_some in S as (mt & ct & _ & _ & _ & TT & ->). cbn [e_msg_exp e_cache_exp].
  pose proof (save_ttls_nonlazy r lazy_ttl L) as E. rewrite TT in E. cbn in E. subst ct. lia.
Qed.

(** an ordinary answer is not served once its smallest TTL has run out *)
Lemma not_served_after_min_ttl secs r lazy_ttl now e now1 now2 :
  save r lazy_ttl now = Some e -> lazy_ttl <= 0 -> m_rcode r = 0%N -> has_answer r = true ->
  now1 <= now2 -> now + Z.of_N (min_ttl r) * second <= now2 ->
  get_resp_with secs false now1 now2 (Some e) = None.
Proof.
  intros S L R HA T X.
  destruct (get_resp_with secs false now1 now2 (Some e)) eqn:G; [|reflexivity]. exfalso.
  assert (N : get_resp_with secs false now1 now2 (Some e) <> None) by congruence.
  apply (stored_then_served secs r lazy_ttl now e now1 now2 S L T) in N.
  apply lifetimes in S as (_ & _ & _ & _ & _ & _ & _ & H). destruct (H R HA) as (H1 & _). lia.
Qed.

(** * Lazy refresh: one call in flight per key *)
Open Scope N_scope.

Definition count_k (k : N) (l : list (N * N)) : nat := length (filter (fun p => fst p =? k) l).

Record sf_inv (s : sfstate) : Prop := {
  inv_bodies_map : forall k id, In (k, id) (sf_bodies s) -> sf_map s k = Some id;
  inv_map_bodies : forall k id, sf_map s k = Some id -> In (k, id) (sf_bodies s);
  inv_one : forall k, (count_k k (sf_bodies s) <= 1)%nat;
  inv_fresh_b : forall k id, In (k, id) (sf_bodies s) -> id < sf_next s;
  inv_fresh_f : forall k id, In (k, id) (sf_finishing s) -> id < sf_next s;
  inv_disj : forall p, In p (sf_bodies s) -> In p (sf_finishing s) -> False
}.

Lemma mem_pair_In p l : mem_pair p l = true <-> In p l.
Proof.
  unfold mem_pair. rewrite existsb_exists. split.
  - intros (q & Hi & E). unfold pair_eqb in E. destruct p as [a b], q as [c d]; cbn in *.
    assert (a = c /\ b = d) as [-> ->] by lia. auto.
  - intro Hi. exists p. split; auto. unfold pair_eqb. destruct p; cbn. lia.
Qed.

Lemma remove_pair_In p q l : In q (remove_pair p l) <-> In q l /\ q <> p.
Proof.
  unfold remove_pair. rewrite filter_In. unfold pair_eqb. destruct p as [a b], q as [c d]; cbn.
  split; intros (H1 & H2); split; auto.
  - intro E; inversion E; subst. lia.
  - destruct ((a =? c) && (b =? d)) eqn:E; auto. exfalso. apply H2. f_equal; lia.
Qed.

Lemma count_k_zero k l : (forall id, ~ In (k, id) l) -> count_k k l = O.
Proof.
  unfold count_k. induction l as [|[k' id'] l IH]; intro H; [reflexivity|].
  cbn [filter fst]. destruct (k' =? k) eqn:E.
  - exfalso. apply (H id'). left. f_equal. lia.
  - apply IH. intros id Hi. apply (H id). right. auto.
Qed.

Lemma count_k_pos k id l : In (k, id) l -> (1 <= count_k k l)%nat.
Proof.
  unfold count_k. induction l as [|[k' id'] l IH]; intros H; [destruct H|]. cbn [filter fst].
  destruct H as [H|H].
  - inversion H; subst. rewrite N.eqb_refl. cbn. lia.
  - destruct (k' =? k); cbn [length]; [lia | auto].
Qed.

Lemma count_k_remove_le k p l : (count_k k (remove_pair p l) <= count_k k l)%nat.
Proof.
  unfold count_k, remove_pair. induction l as [|q l IH]; [cbn; lia|].
  cbn [filter]. destruct (negb (pair_eqb p q)); cbn [filter]; destruct (fst q =? k); cbn [length]; lia.
Qed.

Lemma count_k_one_unique k l id id' :
  (count_k k l <= 1)%nat -> In (k, id) l -> In (k, id') l -> id = id'.
Proof.
  unfold count_k. induction l as [|[k0 i0] l IH]; intros C H1 H2; [destruct H1|].
  cbn [filter fst] in C. destruct (k0 =? k) eqn:E.
  - cbn [length] in C.
    assert (Z : forall i, ~ In (k, i) l).
    { intros i Hi. apply count_k_pos in Hi. unfold count_k in Hi. lia. }
    destruct H1 as [H1|H1]; [|exfalso; eapply Z; eauto].
    destruct H2 as [H2|H2]; [|exfalso; eapply Z; eauto]. congruence.
  - destruct H1 as [H1|H1]; [inversion H1; lia|].
    destruct H2 as [H2|H2]; [inversion H2; lia|]. auto.
Qed.

Lemma sf_inv_init : sf_inv sf_init.
Proof. constructor; cbn; intros; try contradiction; try discriminate; lia. Qed.

Lemma sf_inv_step s l : sf_inv s -> sf_inv (sf_step s l).
Proof.
  intros [Ibm Imb Ione Ifb Iff Idj]. destruct l as [k | k id | k id]; cbn [sf_step].
  - (* StaleHit *)
    destruct (sf_map s k) as [id0|] eqn:M; [constructor; auto|].
    assert (Z : forall id, ~ In (k, id) (sf_bodies s)).
    { intros id Hi. apply Ibm in Hi. congruence. }
    constructor; cbn [sf_map sf_next sf_bodies sf_finishing]; unfold upd.
    + intros k' id' [E|Hi].
      * inversion E; subst. rewrite N.eqb_refl. reflexivity.
      * destruct (k' =? k) eqn:E; [exfalso; apply (Z id'); assert (k' = k) by lia; subst; auto | auto].
    + intros k' id'. destruct (k' =? k) eqn:E.
      * intro H; inversion H; subst. left. f_equal. lia.
      * intro H. right. auto.
    + intro k'. unfold count_k. cbn [filter fst]. destruct (k =? k') eqn:E.
      * cbn [length]. assert (k = k') by lia; subst. fold (count_k k' (sf_bodies s)).
        rewrite count_k_zero; auto.
      * apply Ione.
    + intros k' id' [E|Hi]; [inversion E; lia | apply Ifb in Hi; lia].
    + intros k' id' Hi. apply Iff in Hi. lia.
    + intros p [E|Hi] Hf; [subst p; apply Iff in Hf; lia | eauto].
  - (* FnReturn *)
    destruct (mem_pair (k, id) (sf_bodies s)) eqn:M; [|constructor; auto].
    apply mem_pair_In in M.
    assert (U : forall id', In (k, id') (sf_bodies s) -> id' = id).
    { intros id' Hi. eapply count_k_one_unique; eauto. }
    constructor; cbn [sf_map sf_next sf_bodies sf_finishing]; unfold upd.
    + intros k' id' Hi. apply remove_pair_In in Hi as (Hi & Ne).
      destruct (k' =? k) eqn:E; [|auto].
      assert (k' = k) by lia; subst. apply U in Hi. congruence.
    + intros k' id'. destruct (k' =? k) eqn:E; [discriminate|].
      intro H. apply remove_pair_In. split; auto. intro X; inversion X; lia.
    + intro k'. eapply Nat.le_trans; [apply count_k_remove_le | apply Ione].
    + intros k' id' Hi. apply remove_pair_In in Hi as (Hi & _). eauto.
    + intros k' id' [E|Hi]; [inversion E; subst; eauto | eauto].
    + intros p Hi [E|Hf]; apply remove_pair_In in Hi as (Hi & Ne); [congruence | eauto].
  - (* Cleanup *)
    destruct (mem_pair (k, id) (sf_finishing s)) eqn:M; [|constructor; auto].
    apply mem_pair_In in M.
    assert (E : (match sf_map s k with
                 | Some id' => if id' =? id then upd (sf_map s) k None else sf_map s
                 | None => sf_map s end) = sf_map s).
    { destruct (sf_map s k) as [id'|] eqn:Mk; [|reflexivity].
      destruct (id' =? id) eqn:Ei; [|reflexivity].
      assert (id' = id) by lia; subst. exfalso. eapply Idj; eauto. }
    rewrite E.
    constructor; cbn [sf_map sf_next sf_bodies sf_finishing]; auto.
    + intros k' id' Hi. apply remove_pair_In in Hi as (Hi & _). eauto.
    + intros p Hi Hf. apply remove_pair_In in Hf as (Hf & _). eauto.
Qed.

Lemma sf_inv_run tr : forall s, sf_inv s -> sf_inv (sf_run s tr).
Proof.
  unfold sf_run. induction tr as [|l tr IH]; intros s I; cbn [fold_left]; auto.
  apply IH, sf_inv_step, I.
Qed.

Lemma in_flight_count k s : in_flight k s = N.of_nat (count_k k (sf_bodies s)).
Proof. reflexivity. Qed.

(** every schedule: at most one refresh per question is in flight *)
Lemma one_refresh_in_flight tr k : in_flight k (sf_run sf_init tr) <= 1.
Proof.
  rewrite in_flight_count. pose proof (inv_one _ (sf_inv_run tr _ sf_inv_init) k). lia.
Qed.

Lemma sf_run_app s tr1 tr2 : sf_run s (tr1 ++ tr2) = sf_run (sf_run s tr1) tr2.
Proof. unfold sf_run. apply fold_left_app. Qed.

(** after any schedule, a stale hit leaves exactly one refresh for its
    question in flight (it starts one or joins the running one) *)
Lemma stale_hit_refresh tr k : in_flight k (sf_run sf_init (tr ++ [StaleHit k])) = 1.
Proof.
  rewrite sf_run_app. set (s := sf_run sf_init tr).
  assert (I : sf_inv s) by apply sf_inv_run, sf_inv_init.
  assert (I' : sf_inv (sf_run s [StaleHit k])) by apply sf_inv_run, I.
  pose proof (inv_one _ I' k) as U. rewrite in_flight_count.
  assert (P : (1 <= count_k k (sf_bodies (sf_run s [StaleHit k])))%nat).
  { cbn [sf_run fold_left sf_step]. destruct (sf_map s k) as [id|] eqn:M.
    - eapply count_k_pos. apply (inv_map_bodies _ I). eauto.
    - cbn [sf_bodies]. eapply count_k_pos. left. reflexivity. }
  lia.
Qed.

(** a burst of n >= 1 stale hits on a quiet cache starts exactly one refresh per question *)
Lemma burst_one_refresh tr k :
  (forall l, In l tr -> exists k', l = StaleHit k') -> In (StaleHit k) tr ->
  in_flight k (sf_run sf_init tr) = 1.
Proof.
  intros Hall Hin.
  assert (G : forall tr s, (forall l, In l tr -> exists k', l = StaleHit k') ->
              (1 <= count_k k (sf_bodies s))%nat -> (1 <= count_k k (sf_bodies (sf_run s tr)))%nat).
  { clear. induction tr as [|l tr IH]; intros s Hall P; [exact P|].
    cbn [sf_run fold_left]. apply IH; [intros; apply Hall; right; auto|].
    destruct (Hall l (or_introl eq_refl)) as (k' & ->). cbn [sf_step].
    destruct (sf_map s k'); [exact P|]. cbn [sf_bodies]. unfold count_k in *. cbn [filter fst].
    destruct (k' =? k); cbn [length]; lia. }
  apply in_split in Hin as (t1 & t2 & ->).
  pose proof (one_refresh_in_flight (t1 ++ StaleHit k :: t2) k) as U.
  rewrite in_flight_count in *.
  replace (t1 ++ StaleHit k :: t2) with ((t1 ++ [StaleHit k]) ++ t2) in * by (rewrite <- app_assoc; reflexivity).
  rewrite sf_run_app in *.
  assert (P := stale_hit_refresh t1 k). rewrite in_flight_count in P.
  assert (Q : (1 <= count_k k (sf_bodies (sf_run (sf_run sf_init (t1 ++ [StaleHit k])) t2)))%nat).
  { apply G; [|lia]. intros l Hl. apply Hall. apply in_or_app. right. exact Hl. }
  lia.
Qed.

(** once the refresh has returned, the next stale hit starts a new one
    (so a stale entry is refreshed again if the refresh did not replace it) *)
Lemma refresh_restarts tr k :
  in_flight k (sf_run sf_init tr) = 0 -> sf_map (sf_run sf_init tr) k = None.
Proof.
  intro H. set (s := sf_run sf_init tr) in *.
  assert (I : sf_inv s) by apply sf_inv_run, sf_inv_init.
  destruct (sf_map s k) as [id|] eqn:M; [|reflexivity].
  apply (inv_map_bodies _ I) in M. apply count_k_pos in M. rewrite in_flight_count in H. lia.
Qed.

(** * Histories: removal from the map is invisible *)
Open Scope Z_scope.

(** [sim ev now st g]: the map [st] of the code is the reference map [g]
    (nothing ever removed) minus entries that are past their cache expiry —
    or, when evictions are allowed ([ev = true]), minus anything. *)
Definition sim (ev : bool) (now : Z) (st g : store) : Prop :=
  forall k, st k = g k \/
            (st k = None /\ (ev = true \/ exists e, g k = Some e /\ e_cache_exp e < now)).

(** what the code may show compared with the reference: the same, or — only
    with evictions — a miss / a dump with entries missing *)
Definition obs_rel (ev : bool) (b b' : obs) : Prop :=
  b = b' \/
  (ev = true /\
   match b, b' with
   | BExec s l, BExec _ _ => s = None /\ l = false
   | BDump d, BDump d' => incl d d'
   | _, _ => False
   end).

Definition no_evict (o : op) : bool := match o with OEvict _ => false | _ => true end.

Lemma sim_mono ev now now' st g : now <= now' -> sim ev now st g -> sim ev now' st g.
Proof.
  intros L S k. destruct (S k) as [H|(H & [E|(e & G & X)])]; auto.
  right. split; auto. right. exists e. split; auto. lia.
Qed.

Lemma sim_set ev now st g k e : sim ev now st g -> sim ev now (st_set k e st) (st_set k e g).
Proof.
  intros S x. unfold st_set. destruct (x =? k)%N; auto.
Qed.

Lemma sim_apply_reply ev now st g resp lazy_ttl k :
  sim ev now st g -> sim ev now (apply_reply resp lazy_ttl now k st) (apply_reply resp lazy_ttl now k g).
Proof.
  intro S. unfold apply_reply. destruct resp as [m|]; [|exact S].
  destruct (save m lazy_ttl now) as [e|]; [|exact S].
  destruct (store_ignored now (e_cache_exp e)); [exact S | apply sim_set, S].
Qed.

Lemma flat_map_incl {A B} (f g : A -> list B) l :
  (forall a, f a = g a \/ f a = []) -> incl (flat_map f l) (flat_map g l).
Proof.
  intro H. induction l as [|a l IH]; cbn [flat_map]; [apply incl_refl|].
  apply incl_app.
  - destruct (H a) as [-> | ->]; [apply incl_appl, incl_refl | intros x []].
  - apply incl_appr, IH.
Qed.

Lemma tick_pos : 0 < tick. Proof. reflexivity. Qed.

Lemma step_sim ev secs lazy_ttl c g o :
  c_now c = c_now g -> c_keys c = c_keys g -> sim ev (c_now c) (c_st c) (c_st g) ->
  (ev = false -> no_evict o = true) ->
  let '(c', b) := step_gen true secs lazy_ttl c o in
  let '(g', b') := step_gen false secs lazy_ttl g o in
  c_now c' = c_now g' /\ c_keys c' = c_keys g' /\ c_now c <= c_now c' /\
  sim ev (c_now c') (c_st c') (c_st g') /\ obs_rel ev b b'.
Proof.
  destruct c as [now st keys], g as [now_ gst keys_]. cbn [c_now c_st c_keys].
  intros <- <- S NE. pose proof tick_pos as TP.
  assert (S' : sim ev (now + tick) st gst) by (eapply sim_mono; [|exact S]; lia).
  destruct o as [k age ml cl m | k resp | | s | | k | k bg]; cbn [step_gen c_now c_st c_keys andb].
  - (* OLoad *)
    repeat split; try lia; [|left; reflexivity].
    destruct (store_ignored _ _); [exact S' | apply sim_set, S'].
  - (* OExec *)
    set (n := now + tick) in *.
    assert (X : exists st1 b,
      (match st k with
       | Some e => if get_hidden n (e_cache_exp e) then st_del k st else st
       | None => st end) = st1 /\
      sim ev n st1 gst /\
      obs_rel ev
        (match get_resp_with secs (lazy_enabled lazy_ttl) n n (st k) with
         | Some (m, lz) => BExec (Some (m_rrs m)) lz | None => BExec None false end)
        (match get_resp_with secs (lazy_enabled lazy_ttl) n n (gst k) with
         | Some (m, lz) => BExec (Some (m_rrs m)) lz | None => BExec None false end) /\ b = tt).
    { destruct (S' k) as [E|(E & D)].
      - rewrite <- E. destruct (st k) as [e|] eqn:K.
        + unfold get_hidden. destruct (e_cache_exp e <? n) eqn:H.
          * eexists _, tt. repeat split; [|left; reflexivity].
            intros x. unfold st_del. destruct (x =? k)%N eqn:Ex; [|apply S'].
            assert (x = k) by lia; subst x. right. split; auto. right. exists e. split; [congruence|lia].
          * eexists _, tt. repeat split; [exact S'|left; reflexivity].
        + eexists _, tt. repeat split; [exact S'|left; reflexivity].
      - rewrite E. eexists _, tt. repeat split; [exact S'|].
        cbn [get_resp_with]. destruct D as [D|(e & G & D)].
        + right. split; auto.
          destruct (get_resp_with secs (lazy_enabled lazy_ttl) n n (gst k)) as [[m lz]|]; auto.
        + left. rewrite G. rewrite hidden_after_cache_expiry by lia. reflexivity. }
    destruct X as (st1 & _ & -> & S1 & OB & _).
    replace (match gst k with Some _ => gst | None => gst end) with gst by (destruct (gst k); reflexivity).
    repeat split; try lia; [|exact OB].
    apply sim_apply_reply, S1.
  - (* ODump *)
    repeat split; try lia; [exact S'|].
    set (n := now + tick) in *.
    assert (P : forall k,
      (match st k with
       | Some e => if e_cache_exp e <? n then []
                   else [(k, (unix n - unix (e_stored e), unix (e_msg_exp e) - unix (e_stored e),
                              unix (e_cache_exp e) - unix (e_stored e)), m_rrs (e_msg e))]
       | None => [] end) =
      (match gst k with
       | Some e => if e_cache_exp e <? n then []
                   else [(k, (unix n - unix (e_stored e), unix (e_msg_exp e) - unix (e_stored e),
                              unix (e_cache_exp e) - unix (e_stored e)), m_rrs (e_msg e))]
       | None => [] end) \/
      (match st k with
       | Some e => if e_cache_exp e <? n then []
                   else [(k, (unix n - unix (e_stored e), unix (e_msg_exp e) - unix (e_stored e),
                              unix (e_cache_exp e) - unix (e_stored e)), m_rrs (e_msg e))]
       | None => [] end) = [] /\ ev = true).
    { intro k. destruct (S' k) as [E|(E & [D|(e & G & D)])].
      - left. rewrite E. reflexivity.
      - right. rewrite E. auto.
      - left. rewrite E, G. destruct (e_cache_exp e <? n) eqn:H; [reflexivity|lia]. }
    unfold dump_of. destruct ev.
    + right. split; auto. apply flat_map_incl. intro k. destruct (P k) as [H|(H & _)]; auto.
    + left. f_equal. apply flat_map_ext. intro k. destruct (P k) as [H|(_ & H)]; [exact H|discriminate].
  - (* OWait *)
    unfold second. repeat split; try lia; [|left; reflexivity].
    eapply sim_mono; [|exact S']. lia.
  - (* OGc *)
    repeat split; try lia; [|left; reflexivity].
    intro k. unfold st_gc. destruct (S' k) as [E|(E & D)].
    + destruct (st k) as [e|] eqn:K; [|left; exact E].
      destruct (e_cache_exp e <? now + tick) eqn:H; [|left; exact E].
      right. split; auto. right. exists e. split; [congruence|lia].
    + rewrite E. right. auto.
  - (* OEvict *)
    destruct ev; [|specialize (NE eq_refl); discriminate].
    repeat split; try lia; [|left; reflexivity].
    intro x. unfold st_del. destruct (x =? k)%N; [right; auto | apply S'].
  - (* OExecR *)
    set (n := now + tick) in *.
    replace (match gst k with Some _ => gst | None => gst end) with gst by (destruct (gst k); reflexivity).
    destruct (S' k) as [E|(E & D)].
    + (* the code and the reference hold the same entry *)
      rewrite <- E.
      set (r := get_resp_with secs (lazy_enabled lazy_ttl) n n (st k)).
      assert (S1 : sim ev n (match st k with
                             | Some e => if get_hidden n (e_cache_exp e) then st_del k st else st
                             | None => st end) gst).
      { destruct (st k) as [e|] eqn:K; [|exact S'].
        unfold get_hidden. destruct (e_cache_exp e <? n) eqn:H; [|exact S'].
        intros x. unfold st_del. destruct (x =? k)%N eqn:Ex; [|apply S'].
        assert (x = k) by lia; subst x. right. split; auto. right. exists e. split; [congruence|lia]. }
      repeat split; try lia; [|left; reflexivity].
      destruct (match r with Some (_, lz) => lz | None => false end); [apply sim_apply_reply, S1 | exact S1].
    + (* the code has dropped it *)
      rewrite E. cbn [get_resp_with].
      destruct D as [D|(e & G & D)].
      * (* evicted: the code misses and starts no refresh; the reference may *)
        subst ev. repeat split; try lia.
        -- destruct (match get_resp_with secs (lazy_enabled lazy_ttl) n n (gst k) with
                     | Some (_, lz) => lz | None => false end); [|exact S'].
           unfold apply_reply. destruct bg as [m|]; [|exact S'].
           destruct (save m lazy_ttl n) as [e|]; [|exact S'].
           destruct (store_ignored n (e_cache_exp e)); [exact S'|].
           intro x. unfold st_set. destruct (x =? k)%N eqn:Ex; [|apply S'].
           assert (x = k) by lia; subst x. right. auto.
        -- right. split; auto.
           destruct (get_resp_with secs (lazy_enabled lazy_ttl) n n (gst k)) as [[m lz]|]; auto.
      * (* past its cache expiry: the reference hides it too *)
        rewrite G. rewrite hidden_after_cache_expiry by lia.
        repeat split; try lia; [exact S' | left; reflexivity].
Qed.

Lemma run_sim ev secs lazy_ttl ops : forall c g,
  c_now c = c_now g -> c_keys c = c_keys g -> sim ev (c_now c) (c_st c) (c_st g) ->
  (ev = false -> forallb no_evict ops = true) ->
  Forall2 (obs_rel ev) (snd (run_gen true secs lazy_ttl c ops)) (snd (run_gen false secs lazy_ttl g ops)).
Proof.
  induction ops as [|o ops IH]; intros c g Hn Hk S NE; cbn [run_gen]; [constructor|].
  pose proof (step_sim ev secs lazy_ttl c g o Hn Hk S) as P.
  destruct (step_gen true secs lazy_ttl c o) as [c1 b].
  destruct (step_gen false secs lazy_ttl g o) as [g1 b'].
  destruct P as (Hn1 & Hk1 & _ & S1 & OB).
  { intro E. specialize (NE E). cbn [forallb] in NE. apply andb_true_iff in NE. tauto. }
  specialize (IH c1 g1 Hn1 Hk1 S1).
  destruct (run_gen true secs lazy_ttl c1 ops) as [c2 bs].
  destruct (run_gen false secs lazy_ttl g1 ops) as [g2 bs'].
  cbn [snd] in *. constructor; [exact OB|]. apply IH.
  intro E. specialize (NE E). cbn [forallb] in NE. apply andb_true_iff in NE. tauto.
Qed.

Lemma sim_refl ev now st : sim ev now st st.
Proof. intro k. left. reflexivity. Qed.

(** Without evictions, every observation (look-ups and dumps) of any history
    is what the never-delete reference shows: expiry deletion in Get and the
    sweeper cannot be observed. *)
Lemma history_no_evict secs lazy_ttl c ops :
  forallb no_evict ops = true ->
  snd (run_gen true secs lazy_ttl c ops) = snd (run_gen false secs lazy_ttl c ops).
Proof.
  intro NE.
  pose proof (run_sim false secs lazy_ttl ops c c eq_refl eq_refl (sim_refl _ _ _) (fun _ => NE)) as F.
  induction F as [|b b' l l' R _ IH]; [reflexivity|].
  f_equal; [|exact IH]. destruct R as [R|(R & _)]; [exact R|discriminate].
Qed.

(** With evictions a look-up may additionally miss and a dump may lack
    entries; nothing else can differ (no resurrected or foreign answer). *)
Lemma history_evict secs lazy_ttl c ops :
  Forall2 (obs_rel true) (snd (run_gen true secs lazy_ttl c ops)) (snd (run_gen false secs lazy_ttl c ops)).
Proof.
  apply run_sim; auto using sim_refl. discriminate.
Qed.

(** The reference is "last accepted write wins": a look-up in the reference
    is getRespFromCache applied to whatever the map holds, and the map holds
    the last entry written for the key. *)
Lemma reference_exec secs lazy_ttl c k :
  snd (step_gen false secs lazy_ttl c (OExec k None)) =
  match get_resp_with secs (lazy_enabled lazy_ttl) (c_now c + tick) (c_now c + tick) (c_st c k) with
  | Some (m, lz) => BExec (Some (m_rrs m)) lz
  | None => BExec None false
  end.
Proof. reflexivity. Qed.

Lemma reference_store secs lazy_ttl c k m e :
  save m lazy_ttl (c_now c + tick) = Some e ->
  c_st (fst (step_gen false secs lazy_ttl c (OExec k (Some m)))) k = Some e.
Proof.
  intro S. cbn [step_gen fst c_st andb]. unfold apply_reply. rewrite S.
  assert (I : store_ignored (c_now c + tick) (e_cache_exp e) = false).
  { apply lifetimes in S as (_ & _ & _ & H & _). unfold store_ignored. lia. }
  rewrite I. unfold st_set. rewrite N.eqb_refl. reflexivity.
Qed.

Lemma reference_keeps secs lazy_ttl c o k :
  (forall k' r, o <> OExec k' (Some r)) -> (forall k' r, o <> OExecR k' (Some r)) ->
  (forall a b d m, o <> OLoad k a b d m) ->
  c_st (fst (step_gen false secs lazy_ttl c o)) k = c_st c k.
Proof.
  intros H1 H3 H2. destruct o as [k0 age ml cl m | k0 resp | | s | | k0 | k0 bg]; cbn [step_gen fst c_st andb]; try reflexivity.
  - destruct (store_ignored _ _); [reflexivity|]. unfold st_set.
    destruct (k =? k0)%N eqn:E; [|reflexivity]. assert (k = k0) by lia; subst. exfalso. eapply H2; reflexivity.
  - destruct resp as [r|]; [exfalso; eapply H1; reflexivity|].
    destruct (c_st c k0); reflexivity.
  - destruct bg as [r|]; [exfalso; eapply H3; reflexivity|]. unfold apply_reply.
    destruct (c_st c k0); destruct (match get_resp_with _ _ _ _ _ with Some (_, lz) => lz | None => false end); reflexivity.
Qed.

(** The reply of a refresh goes through the same decision as a foreground
    reply: whatever must not be stored (save_decision = None: truncated, zero
    TTL, other rcodes, ...) leaves no new entry — every entry in the map after
    the step was there before. *)
Lemma refresh_never_stores drop secs lazy_ttl c k m x e :
  save_decision m lazy_ttl = None ->
  c_st (fst (step_gen drop secs lazy_ttl c (OExecR k (Some m)))) x = Some e -> c_st c x = Some e.
Proof.
  intros D. cbn [step_gen fst c_st]. unfold apply_reply, save. rewrite D.
  set (st1 := match c_st c k with
              | Some e0 => if drop && get_hidden (c_now c + tick) (e_cache_exp e0) then st_del k (c_st c) else c_st c
              | None => c_st c end).
  assert (P : forall y v, st1 y = Some v -> c_st c y = Some v).
  { intros y v. subst st1. destruct (c_st c k) as [e0|]; [|auto].
    destruct (drop && get_hidden (c_now c + tick) (e_cache_exp e0)); [|auto].
    unfold st_del. destruct (y =? k)%N; [discriminate|auto]. }
  destruct (match get_resp_with _ _ _ _ _ with Some (_, lz) => lz | None => false end); apply P.
Qed.

(** and a reply that may be stored replaces the stale entry, on a stale hit only *)
Lemma refresh_stores secs lazy_ttl c k m e0 e :
  c_st c k = Some e0 -> lazy_enabled lazy_ttl = true ->
  e_msg_exp e0 <= c_now c + tick <= e_cache_exp e0 ->
  save m lazy_ttl (c_now c + tick) = Some e ->
  c_st (fst (step_gen true secs lazy_ttl c (OExecR k (Some m)))) k = Some e.
Proof.
  intros K L T S. cbn [step_gen fst c_st andb]. rewrite K, L.
  rewrite lazy_stale by lia. unfold apply_reply. rewrite S.
  assert (I : store_ignored (c_now c + tick) (e_cache_exp e) = false).
  { apply lifetimes in S as (_ & _ & _ & H & _). unfold store_ignored. lia. }
  rewrite I. unfold st_set. rewrite N.eqb_refl. reflexivity.
Qed.
