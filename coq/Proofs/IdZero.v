From Verif Require Import Base.Prelude Model.IdZero.
Open Scope N_scope.
Ltac Zify.zify_post_hook ::= Z.div_mod_to_equations.

Lemma get_set_id id m : (2 <= length m)%nat -> id < 65536 -> get_id (set_id id m) = id.
Proof.
  destruct m as [|a [|b t]]; simpl; try lia. intros _ H. unfold get_id. simpl. lia.
Qed.

Lemma set_id_rest id m : skipn 2 (set_id id m) = skipn 2 m.
Proof. destruct m as [|a [|b t]]; reflexivity. Qed.

Lemma set_id_length id m : length (set_id id m) = length m.
Proof. destruct m as [|a [|b t]]; reflexivity. Qed.

Lemma get_id_bound m : Forall (fun b => b < 256) m -> get_id m < 65536.
Proof.
  unfold get_id. intros H. destruct m as [|a [|b t]]; simpl; try lia.
  - inversion H; subst. lia.
  - inversion H as [|? ? Ha H']; subst. inversion H'; subst. lia.
Qed.

Theorem wire_id_zero q : (2 <= length q)%nat -> get_id (wire_query q) = 0 /\ skipn 2 (wire_query q) = skipn 2 q /\ length (wire_query q) = length q.
Proof. intros H. unfold wire_query. rewrite get_set_id, set_id_rest, set_id_length by (auto; lia). auto. Qed.

Theorem reply_id_restored q r :
  Forall (fun b => b < 256) q -> (2 <= length r)%nat ->
  get_id (returned_reply q r) = get_id q /\ skipn 2 (returned_reply q r) = skipn 2 r /\ length (returned_reply q r) = length r.
Proof.
  intros Hq Hr. unfold returned_reply. rewrite get_set_id, set_id_rest, set_id_length by (auto; apply get_id_bound; exact Hq). auto.
Qed.
