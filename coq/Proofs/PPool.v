(** Proofs about the pipeline transport's connection pool (Model.PPool), for all label lists. *)
From Coq Require Import Lia.
From Verif Require Import Base.Prelude Base.Count Gen.Constants Model.PPool.
Open Scope N_scope.

Lemma rres_eq_dec (a b : rres) : {a = b} + {a <> b}.
Proof. decide equality. Qed.

(** * The scan *)

(** Case analysis shared by the lemmas below: after [induction vs], the five ways one visit goes. *)
Ltac scan_step H Hm :=
  cbn [scan] in H;
  match type of H with
  | context [gmem ?n ?pool] => destruct (gmem n pool) eqn:Hm; cbn [negb] in H; [apply gmem_In in Hm|discriminate]
  end.

Lemma scan_pool vs : forall pool att pool1 res cut,
  scan pool vs att = Some (pool1, res, cut) ->
  forall m, In m pool1 <-> In m pool /\ ~ In (m, RClosed) vs.
Proof.
  induction vs as [|[n r] t IH]; intros pool att pool1 res cut H m.
  - cbn [scan] in H. injection H as <- _ _. simpl. tauto.
  - scan_step H Hm. destruct r.
    + destruct t; [|discriminate]. injection H as <- _ _. simpl. split; [intros Hi; split; [exact Hi|intros [E|[]]; discriminate]|tauto].
    + destruct (pipeline_max_reserve_attempt <? att + 1).
      * destruct t; [|discriminate]. injection H as <- _ _. simpl. split; [intros Hi; split; [exact Hi|intros [E|[]]; discriminate]|tauto].
      * rewrite (IH _ _ _ _ _ H m). simpl. split; [intros [Hi Hn]; split; [exact Hi|intros [E|Hc]; [discriminate|tauto]]|intros [Hi Hn]; split; [exact Hi|tauto]].
    + destruct (pipeline_max_reserve_attempt <? att + 1).
      * destruct t; [|discriminate]. injection H as <- _ _. rewrite gremove_In. simpl.
        split; [intros [Hi Hn]; split; [exact Hi|intros [E|[]]; injection E as ->; tauto]|intros [Hi Hn]; split; [exact Hi|intros ->; tauto]].
      * rewrite (IH _ _ _ _ _ H m), gremove_In. simpl.
        split; [intros [[Hi Hn] Hc]; split; [exact Hi|intros [E|Hc']; [injection E as ->; tauto|tauto]]
               |intros [Hi Hn]; split; [split; [exact Hi|intros ->; tauto]|tauto]].
Qed.

Lemma scan_visited vs : forall pool att pool1 res cut,
  scan pool vs att = Some (pool1, res, cut) -> forall m r, In (m, r) vs -> In m pool.
Proof.
  induction vs as [|[n r0] t IH]; intros pool att pool1 res cut H m r Hi; [destruct Hi|].
  scan_step H Hm. destruct Hi as [E|Hi]; [injection E as <- _; exact Hm|].
  destruct r0.
  - destruct t; [destruct Hi|discriminate].
  - destruct (pipeline_max_reserve_attempt <? att + 1); [destruct t; [destruct Hi|discriminate]|].
    eapply IH; eassumption.
  - destruct (pipeline_max_reserve_attempt <? att + 1); [destruct t; [destruct Hi|discriminate]|].
    pose proof (IH _ _ _ _ _ H m r Hi) as Hg. apply gremove_In in Hg. exact (proj1 Hg).
Qed.

Lemma scan_some vs : forall pool att pool1 n cut,
  scan pool vs att = Some (pool1, Some n, cut) -> In (n, RAdmit) vs /\ cut = false.
Proof.
  induction vs as [|[k r] t IH]; intros pool att pool1 n cut H; [cbn [scan] in H; discriminate|].
  scan_step H Hm. destruct r.
  - destruct t; [|discriminate]. injection H as _ <- <-. split; [left; reflexivity|reflexivity].
  - destruct (pipeline_max_reserve_attempt <? att + 1); [destruct t; discriminate|].
    destruct (IH _ _ _ _ _ H) as [A B]. split; [right; exact A|exact B].
  - destruct (pipeline_max_reserve_attempt <? att + 1); [destruct t; discriminate|].
    destruct (IH _ _ _ _ _ H) as [A B]. split; [right; exact A|exact B].
Qed.

Lemma scan_admit vs : forall pool att pool1 res cut,
  scan pool vs att = Some (pool1, res, cut) -> forall m, In (m, RAdmit) vs -> res = Some m.
Proof.
  induction vs as [|[k r] t IH]; intros pool att pool1 res cut H m Hi; [destruct Hi|].
  scan_step H Hm. destruct r.
  - destruct t; [|discriminate]. injection H as _ <- _. destruct Hi as [E|[]]. injection E as ->. reflexivity.
  - destruct Hi as [E|Hi]; [discriminate|].
    destruct (pipeline_max_reserve_attempt <? att + 1); [destruct t; [destruct Hi|discriminate]|].
    eapply IH; eassumption.
  - destruct Hi as [E|Hi]; [discriminate|].
    destruct (pipeline_max_reserve_attempt <? att + 1); [destruct t; [destruct Hi|discriminate]|].
    eapply IH; eassumption.
Qed.

Lemma scan_cut vs : forall pool att pool1 res,
  scan pool vs att = Some (pool1, res, true) -> pipeline_max_reserve_attempt < att + N.of_nat (length vs).
Proof.
  induction vs as [|[k r] t IH]; intros pool att pool1 res H; [cbn [scan] in H; discriminate|].
  scan_step H Hm. destruct r.
  - destruct t; discriminate.
  - destruct (pipeline_max_reserve_attempt <? att + 1) eqn:Hc.
    + apply N.ltb_lt in Hc. cbn [length]. lia.
    + pose proof (IH _ _ _ _ H). cbn [length]. lia.
  - destruct (pipeline_max_reserve_attempt <? att + 1) eqn:Hc.
    + apply N.ltb_lt in Hc. cbn [length]. lia.
    + pose proof (IH _ _ _ _ H). cbn [length]. lia.
Qed.

Lemma scan_spec vs pool att pool1 res cut :
  scan pool vs att = Some (pool1, res, cut) ->
  (forall m, In m pool1 <-> In m pool /\ ~ In (m, RClosed) vs)
  /\ (forall m r, In (m, r) vs -> In m pool)
  /\ (forall n, res = Some n -> In n pool /\ In (n, RAdmit) vs /\ In n pool1 /\ cut = false)
  /\ (res = None -> forall m r, In (m, r) vs -> r <> RAdmit)
  /\ (cut = true -> res = None /\ pipeline_max_reserve_attempt < att + N.of_nat (length vs))
  /\ (forall m r, In (m, r) vs -> r = RAdmit -> res = Some m).
Proof.
  intros H.
  pose proof (scan_pool vs _ _ _ _ _ H) as A.
  pose proof (scan_visited vs _ _ _ _ _ H) as B.
  split; [exact A|]. split; [exact B|]. split; [|split; [|split]].
  - intros n ->. destruct (scan_some vs _ _ _ _ _ H) as [Hi Hc].
    split; [eapply B; exact Hi|]. split; [exact Hi|]. split; [|exact Hc].
    apply A. split; [eapply B; exact Hi|]. intros Hcl.
    (* a connection visited once cannot have answered both: the admit is the last visit, a closed one makes the scan go on *)
    clear -H Hi Hcl. revert pool att pool1 cut H Hi Hcl.
    induction vs as [|[k r] t IH]; intros pool att pool1 cut H Hi Hcl; [destruct Hi|].
    scan_step H Hm. destruct r.
    + destruct t; [|discriminate]. destruct Hcl as [E|[]]. discriminate.
    + destruct Hi as [E|Hi]; [discriminate|]. destruct Hcl as [E|Hcl]; [discriminate|].
      destruct (pipeline_max_reserve_attempt <? att + 1); [destruct t; [destruct Hi|discriminate]|].
      eapply IH; eassumption.
    + destruct Hi as [E|Hi]; [discriminate|].
      destruct (pipeline_max_reserve_attempt <? att + 1); [destruct t; [destruct Hi|discriminate]|].
      destruct Hcl as [E|Hcl].
      * injection E as ->. pose proof (scan_visited t _ _ _ _ _ H _ _ Hi) as Hg. apply gremove_In in Hg. tauto.
      * eapply IH; eassumption.
  - intros -> m r Hi ->. pose proof (scan_admit vs _ _ _ _ _ H m Hi). discriminate.
  - intros ->. split; [|eapply scan_cut; exact H].
    destruct res as [n|]; [|reflexivity]. destruct (scan_some vs _ _ _ _ _ H). discriminate.
  - intros m r Hi ->. eapply scan_admit; eassumption.
Qed.

(** * Invariant: the pool holds distinct connections that were created *)
Record PoolInv (s : pst) : Prop := {
  pi_nodup : NoDup (pt_pool s);
  pi_bound : forall n, In n (pt_pool s) -> (n < pt_next s)%nat
}.

Lemma poolinv_init : PoolInv pinit.
Proof. constructor; simpl; [constructor | intros n []]. Qed.

Lemma scan_nodup vs : forall pool att pool1 res cut,
  scan pool vs att = Some (pool1, res, cut) -> NoDup pool -> NoDup pool1.
Proof.
  induction vs as [|[n r] t IH]; intros pool att pool1 res cut H ND; cbn [scan] in H.
  - injection H as <- _ _. exact ND.
  - destruct (gmem n pool); cbn [negb] in H; [|discriminate].
    destruct r.
    + destruct t; [|discriminate]. injection H as <- _ _. exact ND.
    + destruct (pipeline_max_reserve_attempt <? att + 1).
      * destruct t; [|discriminate]. injection H as <- _ _. exact ND.
      * eapply IH; eassumption.
    + destruct (pipeline_max_reserve_attempt <? att + 1).
      * destruct t; [|discriminate]. injection H as <- _ _. apply gremove_NoDup. exact ND.
      * eapply IH; [eassumption|]. apply gremove_NoDup. exact ND.
Qed.

Lemma poolinv_step s l s1 o : PoolInv s -> pstep s l = Some (s1, o) -> PoolInv s1.
Proof.
  intros [ND B] H. destruct l as [vs f|]; cbn [pstep] in H.
  - destruct (pt_closed s).
    + destruct vs; [|discriminate]. injection H as <- _. constructor; assumption.
    + destruct (nodupb (map fst vs)); cbn [negb] in H; [|discriminate].
      destruct (scan (pt_pool s) vs 0) as [[[pool1 res] cut]|] eqn:Hs; [|discriminate].
      pose proof (scan_spec vs _ _ _ _ _ Hs) as (A & _).
      pose proof (scan_nodup vs _ _ _ _ _ Hs ND) as ND1.
      destruct res as [n|].
      * injection H as <- _. constructor; cbn; [exact ND1|].
        intros m Hm. apply B. apply A in Hm. exact (proj1 Hm).
      * destruct (negb cut && negb (covers (pt_pool s) vs)); [discriminate|].
        injection H as <- _. constructor; cbn.
        -- constructor; [|exact ND1]. intros Hi. apply A in Hi. destruct Hi as [Hi _]. apply B in Hi. lia.
        -- intros m [<-|Hm]; [lia|]. apply A in Hm. destruct Hm as [Hm _]. apply B in Hm. lia.
  - injection H as <- _. constructor; cbn; assumption.
Qed.

Lemma poolinv_run ls : forall s s1, PoolInv s -> prun s ls = Some s1 -> PoolInv s1.
Proof.
  induction ls as [|l t IH]; intros s s1 I H; cbn [prun] in H.
  - injection H as <-. exact I.
  - destruct (pstep s l) as [[s2 o]|] eqn:Hs; [|discriminate].
    eapply IH; [|exact H]. eapply poolinv_step; eassumption.
Qed.

Lemma covers_spec pool vs : covers pool vs = true -> forall n, In n pool -> exists r, In (n, r) vs.
Proof.
  unfold covers. rewrite forallb_forall. intros H n Hn. specialize (H n Hn).
  apply gmem_In in H. apply in_map_iff in H as [[m r] [E Hi]]. simpl in E. subst m. exists r. exact Hi.
Qed.

(** * What getReservedExchanger returns *)

(** A reservation on a pooled connection: that connection was pooled, it admitted the query, it is
    the only one that did, and it stays pooled. *)
Theorem pool_get_reused s vs f s1 n :
  pstep s (PGet vs f) = Some (s1, Some (PoConn n false)) ->
  In n (pt_pool s) /\ In (n, RAdmit) vs /\ In n (pt_pool s1)
  /\ (forall m r, In (m, r) vs -> r = RAdmit -> m = n) /\ pt_next s1 = pt_next s.
Proof.
  cbn [pstep]. destruct (pt_closed s); [destruct vs; discriminate|].
  destruct (nodupb (map fst vs)); cbn [negb]; [|discriminate].
  destruct (scan (pt_pool s) vs 0) as [[[pool1 res] cut]|] eqn:Hs; [|discriminate].
  pose proof (scan_spec vs _ _ _ _ _ Hs) as (A & B & C & D & E & F).
  destruct res as [m|].
  - intros H. injection H as <- <-. destruct (C m eq_refl) as (c1 & c2 & c3 & _).
    repeat split; try assumption.
    intros m' r Hi Er. specialize (F m' r Hi Er). injection F as ->. reflexivity.
  - destruct (negb cut && negb (covers (pt_pool s) vs)); [discriminate|].
    intros H. injection H as _ H. destruct f; discriminate.
Qed.

(** A reservation on a new connection (the only case with isNew = true): the connection did not
    exist before, nobody that was asked admitted the query, and either every pooled connection was
    asked or more than the bound refused. The transport opens a connection instead of pushing a
    query onto one that has no room. *)
Theorem pool_get_new s vs f s1 n :
  PoolInv s ->
  pstep s (PGet vs f) = Some (s1, Some (PoConn n true)) ->
  n = pt_next s /\ ~ In n (pt_pool s) /\ In n (pt_pool s1)
  /\ (forall m r, In (m, r) vs -> r <> RAdmit)
  /\ ((forall m, In m (pt_pool s) -> exists r, In (m, r) vs /\ r <> RAdmit)
      \/ pipeline_max_reserve_attempt < N.of_nat (length vs)).
Proof.
  intros [ND B]. cbn [pstep]. destruct (pt_closed s); [destruct vs; discriminate|].
  destruct (nodupb (map fst vs)); cbn [negb]; [|discriminate].
  destruct (scan (pt_pool s) vs 0) as [[[pool1 res] cut]|] eqn:Hs; [|discriminate].
  pose proof (scan_spec vs _ _ _ _ _ Hs) as (A & B' & C & D & E & F).
  destruct res as [m|]; [intros H; injection H as _ H; discriminate|].
  destruct cut; cbn [negb andb].
  - intros H. injection H as <- H. destruct f; [|discriminate]. injection H as <-.
    repeat split.
    + intros Hi. apply B in Hi. lia.
    + left. reflexivity.
    + exact (D eq_refl).
    + right. destruct (E eq_refl) as [_ Hl]. lia.
  - destruct (covers (pt_pool s) vs) eqn:Hc; cbn [negb]; [|discriminate].
    intros H. injection H as <- H. destruct f; [|discriminate]. injection H as <-.
    repeat split.
    + intros Hi. apply B in Hi. lia.
    + left. reflexivity.
    + exact (D eq_refl).
    + left. intros m Hm. destruct (covers_spec _ _ Hc m Hm) as [r Hr]. exists r. split; [exact Hr|].
      eapply D; [reflexivity|exact Hr].
Qed.

(** Only connections that reported themselves closed leave the pool: capacity is never thrown away. *)
Theorem pool_only_closed_removed s vs f s1 o m :
  pstep s (PGet vs f) = Some (s1, o) -> In m (pt_pool s) -> ~ In (m, RClosed) vs -> In m (pt_pool s1).
Proof.
  cbn [pstep]. destruct (pt_closed s).
  - destruct vs; [|discriminate]. intros H. injection H as <- _. tauto.
  - destruct (nodupb (map fst vs)); cbn [negb]; [|discriminate].
    destruct (scan (pt_pool s) vs 0) as [[[pool1 res] cut]|] eqn:Hs; [|discriminate].
    pose proof (scan_spec vs _ _ _ _ _ Hs) as (A & _).
    destruct res as [k|].
    + intros H. injection H as <- _. cbn. intros Hi Hn. apply A. tauto.
    + destruct (negb cut && negb (covers (pt_pool s) vs)); [discriminate|].
      intros H. injection H as <- _. cbn. intros Hi Hn. right. apply A. tauto.
Qed.

(** ... and the ones that did report closed are dropped. *)
Theorem pool_closed_removed s vs f s1 o m :
  PoolInv s -> pstep s (PGet vs f) = Some (s1, o) -> In (m, RClosed) vs -> ~ In m (pt_pool s1).
Proof.
  intros [ND B]. cbn [pstep]. destruct (pt_closed s).
  - destruct vs; [|discriminate]. intros _ [].
  - destruct (nodupb (map fst vs)); cbn [negb]; [|discriminate].
    destruct (scan (pt_pool s) vs 0) as [[[pool1 res] cut]|] eqn:Hs; [|discriminate].
    pose proof (scan_spec vs _ _ _ _ _ Hs) as (A & B' & _).
    destruct res as [k|].
    + intros H. injection H as <- _. cbn. intros Hc Hi. apply A in Hi. tauto.
    + destruct (negb cut && negb (covers (pt_pool s) vs)); [discriminate|].
      intros H. injection H as <- _. cbn. intros Hc [E|Hi].
      * apply B' in Hc. apply B in Hc. lia.
      * apply A in Hi. tauto.
Qed.

(** After Close every call fails at once with "transport closed" and the pool does not change. *)
Theorem pool_after_close s vs f s1 o :
  pt_closed s = true -> pstep s (PGet vs f) = Some (s1, o) -> o = Some PoErrClosed /\ s1 = s.
Proof.
  intros Hc. cbn [pstep]. rewrite Hc. destruct vs; [|discriminate]. intros H. injection H as <- <-. tauto.
Qed.

Lemma pclosed_step s l s1 o : pstep s l = Some (s1, o) -> pt_closed s = true -> pt_closed s1 = true.
Proof.
  destruct l as [vs f|]; cbn [pstep]; intros H Hc.
  - rewrite Hc in H. destruct vs; [|discriminate]. injection H as <- _. exact Hc.
  - injection H as <- _. reflexivity.
Qed.

Theorem pool_closed_forever ls : forall s s1, prun s ls = Some s1 -> pt_closed s = true -> pt_closed s1 = true.
Proof.
  induction ls as [|l t IH]; intros s s1 H Hc; cbn [prun] in H.
  - injection H as <-. exact Hc.
  - destruct (pstep s l) as [[s2 o]|] eqn:Hs; [|discriminate].
    eapply IH; [exact H|]. eapply pclosed_step; eassumption.
Qed.
