(** Proofs about Model/Netlist.v (property C13). *)
From Verif Require Import Base.Prelude Model.Netlist.
From Coq Require Import Permutation Sorting.Sorted ZifyN ZifyNat ZifyBool.
Open Scope N_scope.

Arguments N.pow : simpl never.
Arguments N.div : simpl never.
Arguments N.mul : simpl never.
Arguments N.sub : simpl never.

(** * Arithmetic of masked prefixes *)

(** A stored prefix is well formed when its base is a multiple of its size
    (all host bits zero). *)
Definition wf (p : pfx) : Prop := exists k, base p = k * size p.

Lemma size_pos p : 0 < size p.
Proof. unfold size. apply N.neq_0_lt_0. apply N.pow_nonzero. discriminate. Qed.

Lemma masked_wf p : wf (masked p).
Proof. exists (base p / size p). reflexivity. Qed.

Lemma norm_wf r : wf (norm r).
Proof. destruct r as [x b]. apply masked_wf. Qed.

Lemma div_eq_iff a k s : 0 < s -> (a / s = k <-> k * s <= a /\ a < k * s + s).
Proof.
  intro Hs.
  pose proof (N.div_mod a s ltac:(lia)) as E.
  pose proof (N.mod_lt a s ltac:(lia)) as L.
  set (q := a / s) in *. set (r := a mod s) in *. clearbody q r.
  split.
  - intros <-. lia.
  - intros [H1 H2].
    destruct (N.lt_trichotomy q k) as [Hq | [Hq | Hq]]; [exfalso | assumption | exfalso].
    + assert (s * (q + 1) <= s * k) by (apply N.mul_le_mono_l; lia). lia.
    + assert (s * (k + 1) <= s * q) by (apply N.mul_le_mono_l; lia). lia.
Qed.

(** On a well formed prefix "the top bits agree" is "inside the interval". *)
Lemma covers_interval p a :
  wf p -> covers p a = (base p <=? a) && (a <? base p + size p).
Proof.
  intros [k Hk]. unfold covers. rewrite Hk.
  pose proof (size_pos p) as Hs.
  rewrite N.div_mul by lia.
  apply eq_true_iff_eq. rewrite N.eqb_eq, andb_true_iff, N.leb_le, N.ltb_lt.
  apply div_eq_iff. assumption.
Qed.

Lemma covers_true p a : wf p -> covers p a = true -> base p <= a /\ a < base p + size p.
Proof. intros W H. rewrite covers_interval in H by assumption. lia. Qed.

Lemma size_mono p q : bits p <= bits q -> size q <= size p.
Proof. intro H. unfold size, hostbits. apply N.pow_le_mono_r; lia. Qed.

Lemma size_divides p q : bits p <= bits q -> exists c, size p = c * size q.
Proof.
  intro H. exists (2 ^ (hostbits p - hostbits q)). unfold size.
  rewrite <- N.pow_add_r. f_equal. unfold hostbits. lia.
Qed.

(** Laminarity: a well formed prefix that starts strictly inside another one
    ends inside it. *)
Lemma laminar p q :
  wf p -> wf q -> base p < base q -> base q < base p + size p ->
  base q + size q <= base p + size p.
Proof.
  intros [k Hk] [m Hm] H1 H2.
  pose proof (size_pos p) as Pp. pose proof (size_pos q) as Pq.
  destruct (N.le_ge_cases (bits p) (bits q)) as [Hb | Hb].
  - destruct (size_divides p q Hb) as [c Hc].
    rewrite Hk, Hm, Hc in *. set (Q := size q) in *. clearbody Q.
    assert (E : k * (c * Q) + c * Q = (k * c + c) * Q) by lia.
    rewrite E in *.
    assert (m < k * c + c) by (apply (N.mul_lt_mono_pos_r Q); assumption).
    assert ((m + 1) * Q <= (k * c + c) * Q) by (apply N.mul_le_mono_r; lia).
    lia.
  - exfalso. destruct (size_divides q p Hb) as [c Hc].
    rewrite Hk, Hm, Hc in *. set (P := size p) in *. clearbody P.
    assert (E1 : m * (c * P) = (m * c) * P) by lia.
    assert (E2 : k * P + P = (k + 1) * P) by lia.
    rewrite E1, E2 in *.
    assert (k < m * c) by (apply (N.mul_lt_mono_pos_r P); assumption).
    assert (m * c < k + 1) by (apply (N.mul_lt_mono_pos_r P); assumption).
    lia.
Qed.

(** * The merge loop *)

(** [before x y]: x ends before y starts. *)
Definition before (x y : pfx) : Prop := base x + size x <= base y.
Definition after (x y : pfx) : Prop := before y x.

Lemma before_trans x y z : before x y -> before y z -> before x z.
Proof. unfold before. pose proof (size_pos y). lia. Qed.

(** Invariant of the accumulator (reversed [out]): well formed prefixes, every
    one ending before all later ones start. *)
Definition good (acc : list pfx) : Prop := Forall wf acc /\ StronglySorted after acc.

Definition hd_le (acc : list pfx) (n : pfx) : Prop :=
  match acc with [] => True | lv :: _ => base lv <= base n end.

Lemma cov_cons p l a : cov (p :: l) a = covers p a || cov l a.
Proof. reflexivity. Qed.

Lemma cov_app l1 l2 a : cov (l1 ++ l2) a = cov l1 a || cov l2 a.
Proof. apply existsb_app. Qed.

Lemma cov_rev l a : cov (rev l) a = cov l a.
Proof.
  induction l as [|p l IH]; [reflexivity|].
  cbn [rev]. rewrite cov_app, IH, cov_cons. cbn. rewrite orb_false_r. apply orb_comm.
Qed.

Lemma covers_same_base p q a :
  wf p -> wf q -> base p = base q -> bits p <= bits q -> covers q a = true -> covers p a = true.
Proof.
  intros Wp Wq E B H. apply covers_true in H; [|assumption].
  rewrite covers_interval by assumption. pose proof (size_mono p q B). lia.
Qed.

Lemma covers_nested p q a :
  wf p -> wf q -> base p < base q -> covers p (base q) = true ->
  covers q a = true -> covers p a = true.
Proof.
  intros Wp Wq L C H. apply covers_true in H; [|assumption].
  apply covers_true in C; [|assumption].
  pose proof (laminar p q Wp Wq L ltac:(lia)).
  rewrite covers_interval by assumption. lia.
Qed.

Lemma orb_replace (x y r : bool) : (y = true -> x = true) -> x || r = (y || r) || x.
Proof. destruct x, y, r; intuition. Qed.

Lemma orb_keep (x y r : bool) : (y = true -> x = true) -> x || r = (x || r) || y.
Proof. destruct x, y, r; intuition. Qed.

Lemma merge_step_inv acc n :
  good acc -> wf n -> hd_le acc n ->
  good (merge_step acc n)
  /\ (forall a, cov (merge_step acc n) a = cov acc a || covers n a)
  /\ (forall m, base n <= base m -> hd_le (merge_step acc n) m).
Proof.
  intros [Fw Ss] Wn Hd. destruct acc as [|lv rest]; cbn [merge_step].
  - split; [|split].
    + split; repeat constructor; assumption.
    + intro a. rewrite cov_cons. cbn. apply orb_false_r.
    + intros m Hm. exact Hm.
  - cbn [hd_le] in Hd.
    inversion Fw as [|? ? Wlv Fw']; subst.
    inversion Ss as [|? ? Ss' Fa]; subst.
    destruct (base n =? base lv) eqn:Eb.
    + apply N.eqb_eq in Eb.
      destruct (bits n <? bits lv) eqn:Lb.
      * apply N.ltb_lt in Lb. split; [|split].
        -- split; constructor; try assumption.
           eapply Forall_impl; [|exact Fa]. unfold after, before. intros y Hy. lia.
        -- intro a. rewrite !cov_cons.
           apply orb_replace.
           apply covers_same_base; try assumption; lia.
        -- intros m Hm. cbn. exact Hm.
      * apply N.ltb_ge in Lb. split; [|split].
        -- split; assumption.
        -- intro a. rewrite !cov_cons.
           apply orb_keep.
           apply covers_same_base; try assumption; lia.
        -- intros m Hm. cbn. lia.
    + apply N.eqb_neq in Eb.
      destruct (covers lv (base n)) eqn:C; cbn [negb].
      * split; [|split].
        -- split; assumption.
        -- intro a. rewrite !cov_cons.
           apply orb_keep.
           apply covers_nested; try assumption; lia.
        -- intros m Hm. cbn. lia.
      * rewrite covers_interval in C by assumption.
        assert (Hlv : after n lv) by (unfold after, before; lia).
        split; [|split].
        -- split; constructor; try assumption.
           constructor; [assumption|].
           eapply Forall_impl; [|exact Fa]. intros y Hy. unfold after in *.
           eapply before_trans; eassumption.
        -- intro a. rewrite (cov_cons n). apply orb_comm.
        -- intros m Hm. cbn. exact Hm.
Qed.

Definition base_le (p q : pfx) : Prop := base p <= base q.

Lemma merge_fold_inv l : forall acc,
  StronglySorted base_le l -> Forall wf l -> good acc ->
  (forall n, In n l -> hd_le acc n) ->
  good (fold_left merge_step l acc)
  /\ forall a, cov (fold_left merge_step l acc) a = cov acc a || cov l a.
Proof.
  induction l as [|n l IH]; intros acc Ss Fw G Hd; cbn [fold_left].
  - split; [assumption|]. intro a. cbn. symmetry. apply orb_false_r.
  - inversion Ss as [|? ? Ss' Fa]; subst. inversion Fw as [|? ? Wn Fw']; subst.
    destruct (merge_step_inv acc n G Wn (Hd n (or_introl eq_refl))) as (G' & C' & Hd').
    destruct (IH (merge_step acc n) Ss' Fw' G') as (G'' & C'').
    + intros m Hm. apply Hd'. rewrite Forall_forall in Fa. apply Fa. exact Hm.
    + split; [assumption|]. intro a. rewrite C'', C', cov_cons. symmetry. apply orb_assoc.
Qed.

Lemma SS_rev (R : pfx -> pfx -> Prop) l :
  StronglySorted (fun x y => R y x) l -> StronglySorted R (rev l).
Proof.
  induction l as [|x l IH]; intro S; cbn [rev]; [constructor|].
  inversion S as [|? ? S' F]; subst. specialize (IH S').
  assert (Happ : forall l1, StronglySorted R l1 -> Forall (fun y => R y x) l1 ->
                            StronglySorted R (l1 ++ [x])).
  { induction l1 as [|y l1 IH1]; intros S1 F1; cbn [app].
    - repeat constructor.
    - inversion S1; subst. inversion F1; subst. constructor; [auto|].
      apply Forall_app; split; [assumption | repeat constructor; assumption]. }
  apply Happ; [assumption|]. apply Forall_rev. exact F.
Qed.

(** The merged list: well formed, every element ends before the next starts
    (hence strictly increasing, pairwise disjoint), same coverage. *)
Definition asc (e : list pfx) : Prop := Forall wf e /\ StronglySorted before e.

Lemma base_le_trans : Relations_1.Transitive base_le.
Proof. intros x y z. unfold base_le. lia. Qed.

Lemma merge_asc_cov l :
  Sorted base_le l -> Forall wf l -> asc (merge l) /\ forall a, cov (merge l) a = cov l a.
Proof.
  intros S Fw. apply (Sorted_StronglySorted base_le_trans) in S.
  destruct (merge_fold_inv l [] S Fw) as ([Gw Gs] & C).
  - split; constructor.
  - intros; exact I.
  - unfold merge. split.
    + split; [apply Forall_rev; assumption | apply SS_rev; exact Gs].
    + intro a. rewrite cov_rev, C. reflexivity.
Qed.

(** * Binary search *)

Ltac Zify.zify_post_hook ::= Z.div_mod_to_equations.


Lemma SS_nth (R : pfx -> pfx -> Prop) (l : list pfx) :
  StronglySorted R l ->
  forall k1 k2, (k1 < k2 < length l)%nat -> R (nth k1 l dflt) (nth k2 l dflt).
Proof.
  induction 1 as [|x l S IH F]; intros k1 k2 Hk; cbn [length] in Hk; [lia|].
  destruct k2 as [|k2]; [lia|]. destruct k1 as [|k1]; cbn [nth].
  - rewrite Forall_forall in F. apply F. apply nth_In. lia.
  - apply IH. lia.
Qed.

Lemma asc_mono (e : list pfx) :
  asc e -> forall k1 k2, (k1 <= k2 < length e)%nat ->
  base (nth k1 e dflt) <= base (nth k2 e dflt).
Proof.
  intros [_ S] k1 k2 Hk. destruct (Nat.eq_dec k1 k2) as [-> | Hne]; [lia|].
  pose proof (SS_nth before e S k1 k2 ltac:(lia)) as B. unfold before in B. lia.
Qed.

Lemma bsearch_spec (e : list pfx) a :
  (forall k1 k2, (k1 <= k2 < length e)%nat -> base (nth k1 e dflt) <= base (nth k2 e dflt)) ->
  forall fuel i j,
  (j - i < fuel)%nat -> (i <= j <= length e)%nat ->
  (forall k, (k < i)%nat -> base (nth k e dflt) <= a) ->
  (forall k, (j <= k < length e)%nat -> a < base (nth k e dflt)) ->
  exists r, bsearch fuel e a i j = Some r /\ (r <= length e)%nat
    /\ (forall k, (k < r)%nat -> base (nth k e dflt) <= a)
    /\ (forall k, (r <= k < length e)%nat -> a < base (nth k e dflt)).
Proof.
  intro Mono. induction fuel as [|f IH]; intros i j Hf Hij Lo Hi; [lia|].
  cbn [bsearch]. destruct (i <? j)%nat eqn:Lt.
  - apply Nat.ltb_lt in Lt.
    set (h := ((i + j) / 2)%nat).
    assert (Hh : (i <= h < j)%nat) by (subst h; lia).
    destruct (base (nth h e dflt) <=? a) eqn:Cmp.
    + apply N.leb_le in Cmp. apply IH; try lia; try assumption.
      intros k Hk. pose proof (Mono k h ltac:(lia)). lia.
    + apply N.leb_gt in Cmp. apply IH; try lia; try assumption.
      intros k Hk. pose proof (Mono h k ltac:(lia)). lia.
  - apply Nat.ltb_ge in Lt. exists i. repeat split; try assumption; try lia.
    intros k Hk. apply Hi. lia.
Qed.

(** On a merged list the search loop terminates within its fuel and Contains
    answers exactly "some element covers the address" (and "no" for a zoned one). *)
Lemma contains_asc e a z :
  asc e -> contains e a z = Some (negb z && cov e a).
Proof.
  intro A. pose proof A as [Fw Sb].
  destruct (bsearch_spec e a (asc_mono e A) (S (length e)) 0 (length e))
    as (r & Hr & Hlen & Lo & Hi); try lia.
  unfold contains. rewrite Hr.
  assert (Wn : forall k, (k < length e)%nat -> wf (nth k e dflt)).
  { intros k Hk. rewrite Forall_forall in Fw. apply Fw. apply nth_In. exact Hk. }
  destruct r as [|k].
  - f_equal. symmetry. apply andb_false_intro2.
    unfold cov. apply not_true_is_false. intro E.
    apply existsb_exists in E as (p & Hin & Hc).
    destruct (In_nth e p dflt Hin) as (k & Hk & <-).
    apply covers_true in Hc; [|auto]. specialize (Hi k ltac:(lia)). lia.
  - f_equal. f_equal. apply eq_true_iff_eq. split; intro Hc.
    + unfold cov. apply existsb_exists. exists (nth k e dflt). split; [apply nth_In; lia | exact Hc].
    + unfold cov in Hc. apply existsb_exists in Hc as (p & Hin & Hc).
      destruct (In_nth e p dflt Hin) as (k' & Hk' & <-).
      pose proof Hc as Hc'. apply covers_true in Hc'; [|auto].
      destruct (lt_eq_lt_dec k' k) as [[Hlt | ->] | Hgt]; [exfalso | exact Hc | exfalso].
      * pose proof (SS_nth before e Sb k' k ltac:(lia)) as B. unfold before in B.
        specialize (Lo k ltac:(lia)). lia.
      * specialize (Hi k' ltac:(lia)). lia.
Qed.

(** * Sorting: any permutation sorted by base address *)

Lemma cov_perm l l' a : Permutation l l' -> cov l a = cov l' a.
Proof.
  induction 1 as [| x l l' _ IH | x y l | l l' l'' _ IH1 _ IH2]; cbn.
  - reflexivity.
  - unfold cov in IH. rewrite IH. reflexivity.
  - destruct (covers x a), (covers y a); reflexivity.
  - congruence.
Qed.

Lemma contains_sorted_merge l l' a z :
  Forall wf l -> Permutation l l' -> Sorted base_le l' ->
  contains (merge l') a z = Some (negb z && cov l a).
Proof.
  intros Fw P S.
  assert (Fw' : Forall wf l').
  { rewrite Forall_forall in *. intros x Hx. apply Fw. eapply Permutation_in; [symmetry|]; eassumption. }
  destruct (merge_asc_cov l' S Fw') as (A & C).
  rewrite (contains_asc _ a z A), C, (cov_perm l l' a P). reflexivity.
Qed.

Lemma load_wf es : Forall wf (load es).
Proof. unfold load. apply Forall_forall. intros p Hp. apply in_map_iff in Hp as (e & <- & _). apply norm_wf. Qed.

Lemma map_norm_wf ps : Forall wf (map norm ps).
Proof. apply Forall_forall. intros p Hp. apply in_map_iff in Hp as (e & <- & _). apply norm_wf. Qed.

(** Main theorem. *)
Theorem contains_iff (ps : list rpfx) (l' : list pfx) :
  Permutation (map norm ps) l' -> Sorted base_le l' ->
  forall a, contains (merge l') a false = Some (cov (map norm ps) a).
Proof.
  intros P S a. exact (contains_sorted_merge _ _ a false (map_norm_wf ps) P S).
Qed.

(** The insertion sort used to run the model is one such permutation. *)
Lemma ins_perm p l : Permutation (p :: l) (ins p l).
Proof.
  induction l as [|q t IH]; cbn [ins]; [reflexivity|].
  destruct (base p <=? base q); [reflexivity|].
  rewrite perm_swap. apply perm_skip. exact IH.
Qed.

Lemma isort_perm l : Permutation l (isort l).
Proof.
  induction l as [|p l IH]; cbn; [constructor|].
  rewrite <- ins_perm. apply perm_skip. exact IH.
Qed.

Lemma ins_sorted p l : Sorted base_le l -> Sorted base_le (ins p l).
Proof.
  induction l as [|q t IH]; intro S; cbn [ins]; [repeat constructor|].
  destruct (base p <=? base q) eqn:E.
  - apply N.leb_le in E. constructor; [assumption | constructor; exact E].
  - apply N.leb_gt in E. inversion S as [|? ? S' Hd]; subst.
    constructor; [apply IH; assumption|].
    destruct t as [|r t]; cbn [ins].
    + constructor. unfold base_le. lia.
    + destruct (base p <=? base r); constructor.
      * unfold base_le. lia.
      * inversion Hd; subst. assumption.
Qed.

Lemma isort_sorted l : Sorted base_le (isort l).
Proof. induction l as [|p l IH]; cbn; [constructor | apply ins_sorted; exact IH]. Qed.

(** * Corollaries at the level of the public operations *)

Lemma lookup_asc e q : asc e -> lookup e q = Some (qcov e q).
Proof.
  intro A. destruct q as [a | a | a |]; cbn [lookup qcov]; try reflexivity;
    rewrite (contains_asc _ _ _ A); reflexivity.
Qed.

Lemma merge_sorted_asc l l' :
  Forall wf l -> Permutation l l' -> Sorted base_le l' ->
  asc (merge l') /\ forall a, cov (merge l') a = cov l a.
Proof.
  intros Fw P S.
  assert (Fw' : Forall wf l').
  { rewrite Forall_forall in *. intros x Hx. apply Fw. eapply Permutation_in; [symmetry|]; eassumption. }
  destruct (merge_asc_cov l' S Fw') as (A & C). split; [exact A|].
  intro a. rewrite C. symmetry. apply cov_perm. exact P.
Qed.

Lemma qcov_ext l1 l2 q : (forall a, cov l1 a = cov l2 a) -> qcov l1 q = qcov l2 q.
Proof. intro H. destruct q; cbn [qcov]; auto. Qed.

Theorem lookup_iff (es : list entry) (l' : list pfx) :
  Permutation (load es) l' -> Sorted base_le l' ->
  forall q, lookup (merge l') q = Some (qcov (load es) q).
Proof.
  intros P S q. destruct (merge_sorted_asc _ _ (load_wf es) P S) as (A & C).
  rewrite (lookup_asc _ q A). f_equal. apply qcov_ext. exact C.
Qed.

(** Sorting again after appending more entries to an already sorted list. *)
Theorem resort_iff (es1 es2 : list entry) (l1 l2 : list pfx) :
  Permutation (load es1) l1 -> Sorted base_le l1 ->
  Permutation (merge l1 ++ load es2) l2 -> Sorted base_le l2 ->
  forall q, lookup (merge l2) q = Some (qcov (load (es1 ++ es2)) q).
Proof.
  intros P1 S1 P2 S2 q.
  destruct (merge_sorted_asc _ _ (load_wf es1) P1 S1) as ([W1 _] & C1).
  assert (Fw : Forall wf (merge l1 ++ load es2)) by (apply Forall_app; split; [exact W1 | apply load_wf]).
  destruct (merge_sorted_asc _ _ Fw P2 S2) as (A & C).
  rewrite (lookup_asc _ q A). f_equal. apply qcov_ext. intro a.
  rewrite C, cov_app, C1. unfold load. rewrite map_app. symmetry. apply cov_app.
Qed.

(** Coverage depends only on WHICH prefixes were loaded, not on their order or
    multiplicity. *)
Lemma cov_set_ext l1 l2 a : (forall p, In p l1 <-> In p l2) -> cov l1 a = cov l2 a.
Proof.
  intro H. apply eq_true_iff_eq. unfold cov. rewrite !existsb_exists.
  split; intros (p & Hin & Hc); exists p; (split; [apply H; exact Hin | exact Hc]).
Qed.

Theorem lookup_order_dup_indep (es1 es2 : list entry) (l1 l2 : list pfx) :
  (forall e, In e es1 <-> In e es2) ->
  Permutation (load es1) l1 -> Sorted base_le l1 ->
  Permutation (load es2) l2 -> Sorted base_le l2 ->
  forall q, lookup (merge l1) q = lookup (merge l2) q.
Proof.
  intros H P1 S1 P2 S2 q. rewrite (lookup_iff es1 l1 P1 S1), (lookup_iff es2 l2 P2 S2).
  f_equal. apply qcov_ext. intro a. apply cov_set_ext. intro p. unfold load.
  rewrite !in_map_iff. split; intros (e & E & Hin); exists e; (split; [exact E | apply H; exact Hin]).
Qed.

(** Induction over set configurations (the references are a nested list). *)
Section SetInd.
  Variable P : setdef -> Prop.
  Hypothesis Hstep : forall own refs, Forall P refs -> P (SetDef own refs).
  Fixpoint setdef_ind2 (s : setdef) : P s :=
    match s with
    | SetDef own refs =>
      Hstep own refs
        ((fix go (l : list setdef) : Forall P l :=
            match l with
            | [] => Forall_nil P
            | x :: t => Forall_cons x (setdef_ind2 x) (go t)
            end) refs)
    end.
End SetInd.

Lemma qcov_app l1 l2 q : qcov (l1 ++ l2) q = qcov l1 q || qcov l2 q.
Proof. destruct q; cbn [qcov]; try apply cov_app; reflexivity. Qed.

Lemma load_app es1 es2 : load (es1 ++ es2) = load es1 ++ load es2.
Proof. apply map_app. Qed.

(** sort.Sort as a contract. *)
Section SortContract.
  Variable srt : list pfx -> list pfx.
  Hypothesis srt_perm : forall l, Permutation l (srt l).
  Hypothesis srt_sorted : forall l, Sorted base_le (srt l).

  Lemma sort_with_asc l : Forall wf l -> asc (sort_with srt l) /\ forall a, cov (sort_with srt l) a = cov l a.
  Proof. intro Fw. exact (merge_sorted_asc l (srt l) Fw (srt_perm l) (srt_sorted l)). Qed.

  Theorem sort_with_iff es q : lookup (sort_with srt (load es)) q = Some (qcov (load es) q).
  Proof. exact (lookup_iff es (srt (load es)) (srt_perm _) (srt_sorted _) q). Qed.

  Lemma group_lookup_asc g q :
    Forall asc g -> group_lookup g q = Some (existsb (fun e => qcov e q) g).
  Proof.
    induction 1 as [|e g A _ IH]; cbn [group_lookup existsb]; [reflexivity|].
    rewrite (lookup_asc e q A). destruct (qcov e q); [reflexivity | exact IH].
  Qed.

  (** The ip_set plugin: own entries plus referenced sets (each a group of
      sorted lists) match exactly the union. *)
  Theorem ipset_iff own (sets : list (list (list pfx))) q :
    Forall (Forall asc) sets ->
    group_lookup (ipset_build srt own sets) q
    = Some (qcov (load own) q || existsb (fun g => existsb (fun e => qcov e q) g) sets).
  Proof.
    intro Hs. destruct (sort_with_asc (load own) (load_wf own)) as (A & C).
    assert (Hc : Forall asc (concat sets)).
    { induction Hs as [|g sets Hg _ IH]; cbn [concat]; [constructor | apply Forall_app; split; assumption]. }
    assert (Ec : existsb (fun e => qcov e q) (concat sets)
                 = existsb (fun g => existsb (fun e => qcov e q) g) sets).
    { clear. induction sets as [|g sets IH]; cbn [concat existsb]; [reflexivity|].
      rewrite existsb_app, IH. reflexivity. }
    unfold ipset_build. rewrite group_lookup_asc.
    - f_equal. rewrite existsb_app, Ec. f_equal.
      rewrite <- (qcov_ext _ _ q C).
      destruct (sort_with srt (load own)) as [|p t]; cbn [existsb].
      + destruct q; reflexivity.
      + apply orb_false_r.
    - apply Forall_app. split; [|exact Hc].
      destruct (sort_with srt (load own)); constructor; [exact A | constructor].
  Qed.

  Lemma ipset_build_asc own (sets : list (list (list pfx))) :
    Forall (Forall asc) sets -> Forall asc (ipset_build srt own sets).
  Proof.
    intro Hs. destruct (sort_with_asc (load own) (load_wf own)) as (A & _).
    unfold ipset_build. apply Forall_app. split.
    - destruct (sort_with srt (load own)); constructor; [exact A | constructor].
    - induction Hs as [|g sets Hg _ IH]; cbn [concat]; [constructor | apply Forall_app; split; assumption].
  Qed.

  Lemma ipset_build_cov own (sets : list (list (list pfx))) q :
    Forall (Forall asc) sets ->
    existsb (fun e => qcov e q) (ipset_build srt own sets)
    = qcov (load own) q || existsb (fun g => existsb (fun e => qcov e q) g) sets.
  Proof.
    intro Hs. pose proof (ipset_iff own sets q Hs) as H.
    rewrite (group_lookup_asc _ q (ipset_build_asc own sets Hs)) in H.
    injection H as H. exact H.
  Qed.

  (** Any configuration of sets referencing sets, to any depth: the matcher of
      a set answers exactly "some entry loaded anywhere below it covers". *)
  Lemma build_set_ok s :
    Forall asc (build_set srt s)
    /\ forall q, existsb (fun e => qcov e q) (build_set srt s) = qcov (load (all_entries s)) q.
  Proof.
    induction s as [own refs IH] using setdef_ind2. cbn [build_set all_entries].
    assert (Hs : Forall (Forall asc) (map (build_set srt) refs)).
    { induction IH as [|r refs [Hr _] _ IHr]; cbn [map]; constructor; assumption. }
    split; [apply ipset_build_asc; exact Hs|].
    intro q. rewrite (ipset_build_cov own _ q Hs), load_app, qcov_app. f_equal.
    clear Hs. induction IH as [|r refs [_ Hr] _ IHr]; cbn [map existsb flat_map].
    - destruct q; reflexivity.
    - rewrite load_app, qcov_app, Hr, IHr. reflexivity.
  Qed.

  Theorem set_tree_iff s q :
    group_lookup (build_set srt s) q = Some (qcov (load (all_entries s)) q).
  Proof.
    destruct (build_set_ok s) as (A & C). rewrite (group_lookup_asc _ q A), C. reflexivity.
  Qed.
End SortContract.

Theorem isort_lookup_iff es q : lookup (sort_with isort (load es)) q = Some (qcov (load es) q).
Proof. exact (sort_with_iff isort isort_perm isort_sorted es q). Qed.

(** * What "covers" means, family by family *)

(** Host bits in the rule do not matter: a loaded prefix covers exactly the
    addresses that agree with the given address on the first [bits] bits. *)
Lemma covers_norm x b a :
  let p := (to6 x, if is4 x then b + 96 else b) in
  covers (norm (x, b)) a = (a / size p =? to6 x / size p).
Proof.
  intro p. unfold norm. fold p. unfold covers, masked.
  change (size (base p / size p * size p, bits p)) with (size p).
  change (base (base p / size p * size p, bits p)) with (base p / size p * size p).
  rewrite N.div_mul; [reflexivity|]. pose proof (size_pos p). lia.
Qed.

Lemma covers_norm_v6 b n a :
  covers (norm (A6 b, n)) a = (a / 2 ^ (128 - n) =? b / 2 ^ (128 - n)).
Proof. exact (covers_norm (A6 b) n a). Qed.

(** An IPv4 rule against an IPv4 query is the IPv4 comparison of the first n of 32 bits. *)
Lemma covers_norm_v4 b n a :
  n <= 32 ->
  covers (norm (A4 b, n)) (to6 (A4 a)) = (a / 2 ^ (32 - n) =? b / 2 ^ (32 - n)).
Proof.
  intro Hn. rewrite covers_norm. cbn [is4 to6]. unfold size, hostbits, bits, snd.
  replace (128 - (n + 96)) with (32 - n) by lia.
  set (S := 2 ^ (32 - n)).
  assert (HS : S <> 0) by (apply N.pow_nonzero; discriminate).
  assert (E : v4_base = 65535 * 2 ^ n * S).
  { unfold v4_base, S. rewrite <- N.mul_assoc, <- N.pow_add_r. do 2 f_equal. lia. }
  rewrite E, !N.div_add_l by exact HS.
  apply eq_true_iff_eq. rewrite !N.eqb_eq. lia.
Qed.

(** An IPv4 rule covers only IPv4-mapped addresses. *)
Lemma covers_v4_only_mapped b n a :
  n <= 32 -> b < 2 ^ 32 -> covers (norm (A4 b, n)) a = true ->
  v4_base <= a < v4_base + 2 ^ 32.
Proof.
  intros Hn Hb H. rewrite covers_norm in H. cbn [is4 to6] in H.
  unfold size, hostbits, bits, snd in H.
  replace (128 - (n + 96)) with (32 - n) in H by lia.
  set (S := 2 ^ (32 - n)) in *.
  assert (HS : S <> 0) by (apply N.pow_nonzero; discriminate).
  assert (E32 : 2 ^ 32 = 2 ^ n * S).
  { unfold S. rewrite <- N.pow_add_r. f_equal. lia. }
  assert (E : v4_base = 65535 * 2 ^ n * S).
  { unfold v4_base. rewrite E32. lia. }
  rewrite E, N.div_add_l in H by exact HS. apply N.eqb_eq in H.
  rewrite E32 in *. clear E32. set (T := 2 ^ n) in *. clearbody T S.
  assert (b / S < T) by (apply N.div_lt_upper_bound; lia).
  apply div_eq_iff in H; [|lia].
  rewrite E. set (q := b / S) in *. clearbody q.
  assert (E1 : (65535 * T + q) * S = 65535 * T * S + q * S) by lia.
  assert (E2 : (q + 1) * S <= T * S) by (apply N.mul_le_mono_r; lia).
  lia.
Qed.

(** A bare address covers exactly itself. *)
Lemma covers_single x a : covers (norm (entry_pfx (EAddr x))) a = (a =? to6 x).
Proof.
  cbn [entry_pfx]. rewrite covers_norm.
  assert (E : size (to6 x, if is4 x then (if is4 x then 32 else 128) + 96 else (if is4 x then 32 else 128)) = 1)
    by (destruct x; reflexivity).
  rewrite E, !N.div_1_r. reflexivity.
Qed.

(** IPv4 and IPv4-mapped IPv6 are the same thing on both sides. *)
Lemma v4_mapped_rule b n : norm (A4 b, n) = norm (A6 (v4_base + b), n + 96).
Proof. reflexivity. Qed.

Lemma v4_mapped_query e a : lookup e (Q4 a) = lookup e (Q6 (v4_base + a)).
Proof. reflexivity. Qed.

Lemma v4_mapped_entry x :
  norm (entry_pfx (EAddr (A4 x))) = norm (entry_pfx (EAddr (A6 (v4_base + x)))).
Proof. reflexivity. Qed.

(** The merge loop only ever drops prefixes: what it keeps was loaded, in the
    order it was sorted in, and the result is never longer than its input. *)
Lemma merge_step_incl acc n p : In p (merge_step acc n) -> p = n \/ In p acc.
Proof.
  destruct acc as [|lv rest]; cbn [merge_step].
  - intros [H|[]]. left. symmetry. exact H.
  - destruct (base n =? base lv).
    + destruct (bits n <? bits lv).
      * intros [H|H]; [left; symmetry; exact H | right; right; exact H].
      * intro H. right. exact H.
    + destruct (negb (covers lv (base n))).
      * intros [H|H]; [left; symmetry; exact H | right; exact H].
      * intro H. right. exact H.
Qed.

Lemma merge_step_length acc n : (length (merge_step acc n) <= S (length acc))%nat.
Proof.
  destruct acc as [|lv rest]; cbn [merge_step]; [cbn; lia|].
  destruct (base n =? base lv); [destruct (bits n <? bits lv)|destruct (negb (covers lv (base n)))];
    cbn [length]; lia.
Qed.

Lemma merge_fold_incl l : forall acc p, In p (fold_left merge_step l acc) -> In p acc \/ In p l.
Proof.
  induction l as [|n l IH]; intros acc p H; cbn [fold_left] in H.
  - left. exact H.
  - destruct (IH _ _ H) as [H1|H1].
    + destruct (merge_step_incl _ _ _ H1) as [-> |H2]; [right; left; reflexivity | left; exact H2].
    + right. right. exact H1.
Qed.

Lemma merge_fold_length l : forall acc,
  (length (fold_left merge_step l acc) <= length acc + length l)%nat.
Proof.
  induction l as [|n l IH]; intro acc; cbn [fold_left length]; [lia|].
  specialize (IH (merge_step acc n)). pose proof (merge_step_length acc n). lia.
Qed.

Theorem merge_only_drops l :
  (forall p, In p (merge l) -> In p l) /\ (length (merge l) <= length l)%nat.
Proof.
  unfold merge. split.
  - intros p H. apply in_rev in H. destruct (merge_fold_incl _ _ _ H) as [[]|H']. exact H'.
  - rewrite rev_length. apply (merge_fold_length l []).
Qed.

(** Consequently every prefix held by a sorted list is the stored form of a
    prefix the caller loaded. *)
Theorem sorted_list_from_loaded (ps : list rpfx) (l' : list pfx) p :
  Permutation (map norm ps) l' -> In p (merge l') -> exists r, In r ps /\ p = norm r.
Proof.
  intros P H. apply (proj1 (merge_only_drops l')) in H.
  apply (Permutation_in _ (Permutation_sym P)) in H.
  apply in_map_iff in H. destruct H as (r & E & I). exists r. split; [exact I | symmetry; exact E].
Qed.
