(** Invariants of the lazy (still dialing) connection, for every label list. *)
From Verif Require Import Base.Prelude Gen.Constants Model.Lazy.
Open Scope N_scope.

Definition pending (p : lpc) : bool := match p with QEarly | QEarlyWait | QEarlyGo => true | _ => false end.
Definition is_inner (p : lpc) : bool := match p with QInner => true | _ => false end.
Definition active (p : lpc) : bool := pending p || is_inner p.
Definition kearly (k : lcall) : bool := qearly k.
Definition kpend (k : lcall) : bool := pending (qpc k).
Definition kinner (k : lcall) : bool := is_inner (qpc k).

Lemma lpc_eqb_eq a b : lpc_eqb a b = true -> a = b.
Proof. destruct a, b; simpl; congruence. Qed.

Record LInv (s : lst) : Prop := {
  z_nodup : NoDup (llive s);
  z_live : forall c, In c (llive s) <-> active (qpc (lcalls s c)) = true;
  z_early : forall c, pending (qpc (lcalls s c)) = true -> qearly (lcalls s c) = true;
  z_res : lreserved s = gcnt kearly (lcalls s) (llive s);
  z_icount : icount s = gcnt kinner (lcalls s) (llive s);
  z_wg : (ldial s = Dialing \/ ldial s = DialOk) -> lwg s = gcnt kpend (lcalls s) (llive s);
  z_cap : lreserved s <= lmaxq s;
  z_imax : icount s <= imax s;
  z_fast1 : lfast s = 1 -> lwg s = 0 /\ ldial s = DialOk;
  z_fast2 : lfast s = 2 -> ldial s = DialErr \/ ldial s = DialCancelled;
  z_fast : lfast s = 0 \/ lfast s = 1 \/ lfast s = 2;
  z_dialing : ldial s = Dialing -> lfast s = 0 /\ iexists s = false;
  z_late : lfast s <> 1 -> forall c, qpc (lcalls s c) = QInner -> qearly (lcalls s c) = true;
  z_go : forall c, qpc (lcalls s c) = QEarlyGo \/ qpc (lcalls s c) = QInner -> ldial s = DialOk;
  z_done : forall c, qres (lcalls s c) = None <-> qpc (lcalls s c) <> QDone
}.

Lemma linv_init maxq im : LInv (linit maxq im).
Proof.
  constructor; simpl; try (intros; discriminate); auto.
  - constructor.
  - intros c; split; [tauto|discriminate].
  - lia.
  - lia.
  - intros c [X|X]; discriminate.
  - intros c; split; [discriminate|reflexivity].
Qed.

Ltac lsplit x c :=
  destruct (Nat.eq_dec x c) as [->|?];
  [unfold lupd in *; rewrite ?gupd_same in * | unfold lupd in *; rewrite ?gupd_other in * by assumption].

Ltac cnt_in s c v Hnd Hin :=
  pose proof (gcnt_upd_in kearly (lcalls s) c v (llive s) Hnd Hin);
  pose proof (gcnt_upd_in kinner (lcalls s) c v (llive s) Hnd Hin);
  pose proof (gcnt_upd_in kpend (lcalls s) c v (llive s) Hnd Hin).
Ltac cnt_rm s c v Hnd Hin :=
  pose proof (gcnt_upd_remove kearly (lcalls s) c v (llive s) Hnd Hin);
  pose proof (gcnt_upd_remove kinner (lcalls s) c v (llive s) Hnd Hin);
  pose proof (gcnt_upd_remove kpend (lcalls s) c v (llive s) Hnd Hin).
Ltac cnt_out s c v Hnin :=
  pose proof (gcnt_upd_notin kearly (lcalls s) c v (llive s) Hnin);
  pose proof (gcnt_upd_notin kinner (lcalls s) c v (llive s) Hnin);
  pose proof (gcnt_upd_notin kpend (lcalls s) c v (llive s) Hnin).

(** A call that is not live is replaced by a finished one: nothing counted changes. *)
Lemma linv_finish_idle s c r fast :
  LInv s -> qpc (lcalls s c) = QIdle -> ~ In c (llive s) ->
  (fast = lfast s \/ (fast = 1 /\ lwg s = 0 /\ ldial s = DialOk) \/ (fast = 2 /\ (ldial s = DialErr \/ ldial s = DialCancelled))) ->
  LInv (mkLst (lclosed s) (ldial s) (lreserved s) (lmaxq s) (lwg s) fast (icount s) (imax s) (iclosed s) (iexists s)
              (lupd (lcalls s) c (fin (lcalls s c) r)) (llive s)).
Proof.
  intros H P Hnin Hf.
  destruct H as [Hnd Hlive Hearly Hres Hic Hwg Hcap Himax Hf1 Hf2 Hf0 Hdial Hlate Hgo Hdone].
  cnt_out s c (fin (lcalls s c) r) Hnin.
  constructor; simpl; unfold lupd.
  - assumption.
  - intros x. lsplit x c; simpl; [split; [intros I; contradiction|discriminate]|apply Hlive].
  - intros x Hx. lsplit x c; simpl in *; [discriminate|apply Hearly; assumption].
  - lia.
  - lia.
  - intros D. specialize (Hwg D). lia.
  - assumption.
  - assumption.
  - intros F. destruct Hf as [->|[(-> & W & D)|(-> & D)]]; [apply Hf1; assumption|auto|discriminate].
  - intros F. destruct Hf as [->|[(-> & W & D)|(-> & D)]]; [apply Hf2; assumption|discriminate|auto].
  - destruct Hf as [->|[(-> & _)|(-> & _)]]; auto.
  - intros D. destruct (Hdial D) as (F0 & E0).
    destruct Hf as [->|[(-> & W & D')|(-> & [D'|D'])]]; try congruence.
    split; assumption.
  - intros F x Hx. lsplit x c; simpl in *; [discriminate|].
    apply Hlate; [|assumption]. destruct Hf as [->|[(-> & _)|(-> & D)]]; [assumption|congruence|].
    intros E. destruct (Hf1 E) as [_ D']. destruct D; congruence.
  - intros x Hx. lsplit x c; simpl in *; [destruct Hx; discriminate|eapply Hgo; eauto].
  - intros x. lsplit x c; simpl; [split; [discriminate|congruence]|apply Hdone].
Qed.

(** A live call changes and stays live. *)
Lemma linv_stay s c v wg' ic' :
  LInv s -> In c (llive s) -> active (qpc v) = true ->
  qearly v = qearly (lcalls s c) ->
  (pending (qpc v) = true -> qearly v = true) ->
  wg' + b2n (kpend (lcalls s c)) = lwg s + b2n (kpend v) ->
  ic' + b2n (kinner (lcalls s c)) = icount s + b2n (kinner v) ->
  ic' <= imax s ->
  (qpc v = QInner \/ qpc v = QEarlyGo -> ldial s = DialOk) ->
  (lfast s <> 1 -> qpc v = QInner -> qearly v = true) ->
  (lfast s = 1 -> wg' = 0) ->
  qres v = None -> 
  LInv (mkLst (lclosed s) (ldial s) (lreserved s) (lmaxq s) wg' (lfast s) ic' (imax s) (iclosed s) (iexists s)
              (lupd (lcalls s) c v) (llive s)).
Proof.
  intros H Hin Hact He Hpe Hw Hi Him Hok Hl Hf Hr.
  destruct H as [Hnd Hlive Hearly Hres Hic Hwg Hcap Himax Hf1 Hf2 Hf0 Hdial Hlate Hgo Hdone].
  cnt_in s c v Hnd Hin.
  assert (He' : kearly v = kearly (lcalls s c)) by (unfold kearly; exact He). rewrite He' in H.
  assert (Hnd' : qpc v <> QDone) by (intros E; rewrite E in Hact; discriminate).
  constructor; simpl; unfold lupd.
  - assumption.
  - intros x. lsplit x c; [split; [intros _; exact Hact|intros _; exact Hin]|apply Hlive].
  - intros x Hx. lsplit x c; [apply Hpe; exact Hx|apply Hearly; exact Hx].
  - lia.
  - lia.
  - intros D. specialize (Hwg D). lia.
  - assumption.
  - assumption.
  - intros F. split; [apply Hf; exact F|apply Hf1; exact F].
  - assumption.
  - assumption.
  - assumption.
  - intros F x Hx. lsplit x c; [apply Hl; assumption|apply Hlate; assumption].
  - intros x Hx. lsplit x c; [apply Hok; tauto|eapply Hgo; eauto].
  - intros x. lsplit x c; [split; [intros _; exact Hnd'|intros _; exact Hr]|apply Hdone].
Qed.

(** A live call returns. *)
Lemma linv_leave s c r res' wg' ic' :
  LInv s -> In c (llive s) ->
  res' + b2n (kearly (lcalls s c)) = lreserved s ->
  ((ldial s = Dialing \/ ldial s = DialOk) -> wg' + b2n (kpend (lcalls s c)) = lwg s) ->
  ic' + b2n (kinner (lcalls s c)) = icount s ->
  (lfast s = 1 -> wg' = 0) ->
  LInv (mkLst (lclosed s) (ldial s) res' (lmaxq s) wg' (lfast s) ic' (imax s) (iclosed s) (iexists s)
              (lupd (lcalls s) c (fin (lcalls s c) r)) (lremove c (llive s))).
Proof.
  intros H Hin Hre Hw Hi Hf.
  destruct H as [Hnd Hlive Hearly Hres Hic Hwg Hcap Himax Hf1 Hf2 Hf0 Hdial Hlate Hgo Hdone].
  cnt_rm s c (fin (lcalls s c) r) Hnd Hin.
  constructor; simpl; unfold lupd, lremove.
  - apply gremove_NoDup; assumption.
  - intros x. rewrite gremove_In. lsplit x c; simpl; [split; [intros [_ E]; congruence|discriminate]|].
    rewrite <- Hlive. tauto.
  - intros x Hx. lsplit x c; simpl in *; [discriminate|apply Hearly; exact Hx].
  - lia.
  - lia.
  - intros D. specialize (Hwg D). specialize (Hw D). lia.
  - lia.
  - lia.
  - intros F. split; [apply Hf; exact F|apply Hf1; exact F].
  - assumption.
  - assumption.
  - assumption.
  - intros F x Hx. lsplit x c; simpl in *; [discriminate|apply Hlate; assumption].
  - intros x Hx. lsplit x c; simpl in *; [destruct Hx; discriminate|eapply Hgo; eauto].
  - intros x. lsplit x c; simpl; [split; [discriminate|congruence]|apply Hdone].
Qed.

(** An idle call obtains a reservation. *)
Lemma linv_join s c v res' wg' ic' fast' :
  LInv s -> qpc (lcalls s c) = QIdle -> ~ In c (llive s) -> active (qpc v) = true -> qres v = None ->
  (pending (qpc v) = true -> qearly v = true) ->
  res' = lreserved s + b2n (kearly v) -> res' <= lmaxq s ->
  ((ldial s = Dialing \/ ldial s = DialOk) -> wg' = lwg s + b2n (kpend v)) ->
  ic' = icount s + b2n (kinner v) -> ic' <= imax s ->
  (fast' = lfast s \/ (fast' = 1 /\ lwg s = 0 /\ ldial s = DialOk)) ->
  (fast' = 1 -> wg' = 0) ->
  (qpc v = QInner -> ldial s = DialOk) -> qpc v <> QEarlyGo ->
  (fast' <> 1 -> qpc v = QInner -> qearly v = true) ->
  LInv (mkLst (lclosed s) (ldial s) res' (lmaxq s) wg' fast' ic' (imax s) (iclosed s) (iexists s)
              (lupd (lcalls s) c v) (c :: llive s)).
Proof.
  intros H P Hnin Hact Hr Hpe Hre Hcap' Hw Hi Him Hfa Hf1' Hin Hng Hl.
  destruct H as [Hnd Hlive Hearly Hres Hic Hwg Hcap Himax Hf1 Hf2 Hf0 Hdial Hlate Hgo Hdone].
  cnt_out s c v Hnin.
  assert (Hnd' : qpc v <> QDone) by (intros E; rewrite E in Hact; discriminate).
  constructor; simpl; unfold lupd.
  - constructor; assumption.
  - intros x. lsplit x c; [split; auto|]. rewrite <- Hlive. split; [intros [E|I]; [congruence|exact I]|auto].
  - intros x Hx. lsplit x c; [apply Hpe; exact Hx|apply Hearly; exact Hx].
  - rewrite gcnt_cons, gupd_same. lia.
  - rewrite gcnt_cons, gupd_same. lia.
  - intros D. rewrite gcnt_cons, gupd_same. specialize (Hwg D). specialize (Hw D). lia.
  - assumption.
  - assumption.
  - intros F. split; [apply Hf1'; exact F|]. destruct Hfa as [E|(_ & _ & D)]; [apply Hf1; congruence|exact D].
  - intros F. destruct Hfa as [E|(E & _)]; [apply Hf2; congruence|congruence].
  - destruct Hfa as [->|(-> & _)]; auto.
  - intros D. destruct (Hdial D) as (F0 & E0).
    destruct Hfa as [->|(_ & _ & D')]; [|congruence]. split; assumption.
  - intros F x Hx. lsplit x c; [apply Hl; assumption|].
    apply Hlate; [|assumption]. destruct Hfa as [->|(-> & _)]; [assumption|congruence].
  - intros x Hx. lsplit x c; [destruct Hx as [X|X]; [congruence|apply Hin; exact X]|eapply Hgo; eauto].
  - intros x. lsplit x c; [split; [intros _; exact Hnd'|intros _; exact Hr]|apply Hdone].
Qed.

(** Changes that touch no call. *)
Lemma linv_frame s closed' dial' fast' iclosed' iexists' :
  LInv s ->
  (dial' = ldial s \/ (ldial s = Dialing /\ lfast s = 0 /\ dial' <> Dialing)) ->
  (dial' = DialOk -> ldial s = DialOk \/ lwg s = gcnt kpend (lcalls s) (llive s)) ->
  fast' = lfast s -> (dial' = Dialing -> iexists' = iexists s) ->
  LInv (mkLst closed' dial' (lreserved s) (lmaxq s) (lwg s) fast' (icount s) (imax s) iclosed' iexists'
              (lcalls s) (llive s)).
Proof.
  intros H Hd Hok -> Hie.
  destruct H as [Hnd Hlive Hearly Hres Hic Hwg Hcap Himax Hf1 Hf2 Hf0 Hdial Hlate Hgo Hdone].
  constructor; simpl; try assumption.
  - intros [D|D].
    + destruct Hd as [E|(E & _ & N)]; [apply Hwg; left; congruence|congruence].
    + destruct (Hok D) as [E|E]; [apply Hwg; right; exact E|exact E].
  - intros F. destruct (Hf1 F) as [W D]. split; [exact W|]. destruct Hd as [E|(E & F0 & _)]; congruence.
  - intros F. destruct Hd as [E|(E & F0 & _)]; [rewrite E; apply Hf2; exact F|congruence].
  - intros D. destruct Hd as [E|(_ & _ & N)]; [|congruence]. rewrite E in D. destruct (Hdial D) as (A & B).
    split; [exact A|]. rewrite Hie by congruence. exact B.
  - intros x Hx. specialize (Hgo x Hx). destruct Hd as [E|(E & _)]; congruence.
Qed.


(** A call that holds nothing changes a field that nobody counts. *)
Lemma linv_touch s c v :
  LInv s -> ~ In c (llive s) -> qpc v = qpc (lcalls s c) -> qres v = qres (lcalls s c) ->
  LInv (set_lcall s c v).
Proof.
  intros H Hnin Hp Hr.
  assert (Hna : active (qpc (lcalls s c)) = false).
  { destruct (active (qpc (lcalls s c))) eqn:A; [|reflexivity]. exfalso. apply Hnin. apply (z_live s H). exact A. }
  destruct H as [Hnd Hlive Hearly Hres Hic Hwg Hcap Himax Hf1 Hf2 Hf0 Hdial Hlate Hgo Hdone].
  cnt_out s c v Hnin.
  unfold set_lcall. constructor; simpl; unfold lupd.
  - assumption.
  - intros x. lsplit x c; [rewrite Hp, Hna; split; [intros I; contradiction|discriminate]|apply Hlive].
  - intros x Hx. lsplit x c; [|apply Hearly; exact Hx].
    rewrite Hp in Hx. unfold active in Hna. rewrite Hx in Hna. discriminate.
  - lia.
  - lia.
  - intros D. specialize (Hwg D). lia.
  - assumption.
  - assumption.
  - assumption.
  - assumption.
  - assumption.
  - assumption.
  - intros F x Hx. lsplit x c; [|apply Hlate; assumption].
    rewrite Hp in Hx. unfold active in Hna. rewrite Hx in Hna. rewrite orb_true_r in Hna. discriminate.
  - intros x Hx. lsplit x c; [|eapply Hgo; eauto].
    rewrite Hp in Hx. unfold active in Hna. destruct Hx as [X|X]; rewrite X in Hna; discriminate.
  - intros x. lsplit x c; [rewrite Hp, Hr; apply Hdone|apply Hdone].
Qed.

Ltac lpcs H := apply lpc_eqb_eq in H.

Lemma live_of s c : LInv s -> active (qpc (lcalls s c)) = true -> In c (llive s).
Proof. intros H A. apply (z_live s H). exact A. Qed.

Lemma wg_pos s c : LInv s -> (ldial s = Dialing \/ ldial s = DialOk) ->
  pending (qpc (lcalls s c)) = true -> 1 <= lwg s.
Proof.
  intros H D P. rewrite (z_wg s H D).
  apply (gcnt_pos kpend (lcalls s) (llive s) c); [|exact P].
  apply live_of; [exact H|]. unfold active. rewrite P. reflexivity.
Qed.
Lemma res_pos s c : LInv s -> active (qpc (lcalls s c)) = true -> qearly (lcalls s c) = true -> 1 <= lreserved s.
Proof.
  intros H A E. rewrite (z_res s H). apply (gcnt_pos kearly (lcalls s) (llive s) c); [|exact E].
  apply live_of; assumption.
Qed.
Lemma ic_pos s c : LInv s -> qpc (lcalls s c) = QInner -> 1 <= icount s.
Proof.
  intros H P. rewrite (z_icount s H). apply (gcnt_pos kinner (lcalls s) (llive s) c).
  - apply live_of; [exact H|]. rewrite P. reflexivity.
  - unfold kinner. rewrite P. reflexivity.
Qed.

(** Before the first late caller gets through (fastPath still 0) every
    reservation of the real connection belongs to an early caller, so
    reservations + early callers still to come = early reservations. *)
Lemma early_budget s : LInv s -> ldial s = DialOk -> lfast s <> 1 -> icount s + lwg s = lreserved s.
Proof.
  intros H D F. rewrite (z_icount s H), (z_res s H), (z_wg s H (or_intror D)).
  rewrite (gcnt_split kearly kinner kpend); [reflexivity|].
  intros c Hin. pose proof (proj1 (z_live s H c) Hin) as A. unfold kearly, kinner, kpend.
  destruct (qpc (lcalls s c)) eqn:P; try discriminate; simpl.
  - rewrite (z_early s H c) by (rewrite P; reflexivity). reflexivity.
  - rewrite (z_early s H c) by (rewrite P; reflexivity). reflexivity.
  - rewrite (z_early s H c) by (rewrite P; reflexivity). reflexivity.
  - rewrite (z_late s H F c P). reflexivity.
Qed.

Lemma linv_set_ic s b : LInv s ->
  LInv (mkLst (lclosed s) (ldial s) (lreserved s) (lmaxq s) (lwg s) (lfast s) (icount s) (imax s) b (iexists s)
              (lcalls s) (llive s)).
Proof. intros H. apply (linv_frame s (lclosed s) (ldial s) (lfast s) b (iexists s)); auto. Qed.

Ltac fix_ic s :=
  match goal with
  | |- LInv (mkLst ?a ?b ?c ?d ?e ?f ?g ?h _ ?j ?k ?l) =>
    apply (linv_set_ic (mkLst a b c d e f g h (iclosed s) j k l))
  end.

(** ReserveNewQuery of the real connection through the lazy wrapper. *)
Definition via (s : lst) (c : nat) (fast : N) : option lst :=
  let k := lcalls s c in
  if iclosed s then
    Some (mkLst (lclosed s) (ldial s) (lreserved s) (lmaxq s) (lwg s) fast (icount s) (imax s) (iclosed s) (iexists s)
                (lupd (lcalls s) c (fin k (LRRefused true))) (llive s))
  else if icount s <? imax s then
    Some (mkLst (lclosed s) (ldial s) (lreserved s) (lmaxq s) (lwg s) fast (icount s + 1) (imax s) (iclosed s) (iexists s)
                (lupd (lcalls s) c (mkLCall QInner (qctx k) None false)) (c :: llive s))
  else
    Some (mkLst (lclosed s) (ldial s) (lreserved s) (lmaxq s) (lwg s) fast (icount s) (imax s) (iclosed s) (iexists s)
                (lupd (lcalls s) c (fin k (LRRefused false))) (llive s)).

Lemma linv_via s c s1 :
  LInv s -> qpc (lcalls s c) = QIdle -> ~ In c (llive s) -> ldial s = DialOk -> lwg s = 0 ->
  via s c 1 = Some s1 -> LInv s1.
Proof.
  intros H E1 Hnin D W Hv. unfold via in Hv. destruct (iclosed s) eqn:Ic.
  - inversion Hv; subst. fix_ic s. apply linv_finish_idle; auto.
  - destruct (N.ltb_spec (icount s) (imax s)).
    + inversion Hv; subst. fix_ic s.
      apply linv_join; simpl; auto; try discriminate; try lia;
        try (pose proof (z_cap s H); lia); try (intros _; lia); try (intros X; discriminate).
    + inversion Hv; subst. fix_ic s. apply linv_finish_idle; auto.
Qed.

Theorem linv_step s l s' : LInv s -> lstep s l = Some s' -> LInv s'.
Proof.
  intros H Hs. destruct l; cbn [lstep] in Hs.
  - (* ZReserve *)
    destruct (lpc_eqb (qpc (lcalls s c)) QIdle && negb (lmem c (llive s))) eqn:E; [|discriminate].
    apply andb_true_iff in E as [E1 E2]. lpcs E1.
    assert (Hnin : ~ In c (llive s)).
    { apply gmem_false. unfold lmem in E2. destruct (gmem c (llive s)); [discriminate|reflexivity]. }
    destruct (N.eqb_spec (lfast s) 1) as [F1|F1].
    { destruct (z_fast1 s H F1) as [W D]. change (via s c 1 = Some s') in Hs. eapply linv_via; eauto. }
    destruct (N.eqb_spec (lfast s) 2) as [F2|F2].
    { inversion Hs; subst. apply (linv_finish_idle s c (LRRefused true) (lfast s)); auto. }
    destruct (ldial s) eqn:D.
    + destruct (N.leb_spec (lmaxq s) (lreserved s)).
      * inversion Hs; subst. apply (linv_finish_idle s c (LRRefused false) (lfast s)); auto.
      * inversion Hs; subst. rewrite <- D.
        apply linv_join; simpl; auto; try discriminate; try lia;
          try (intros X; discriminate); try (intros F; destruct (z_fast1 s H F) as [_ D']; congruence).
        apply (z_imax s H).
    + destruct (N.eqb_spec (lwg s) 0) as [W|W]; [|discriminate].
      rewrite <- D in Hs. change (via s c 1 = Some s') in Hs. eapply linv_via; eauto.
    + inversion Hs; subst. rewrite <- D. apply linv_finish_idle; auto.
    + inversion Hs; subst. rewrite <- D. apply linv_finish_idle; auto.
  - (* ZWithdraw *)
    destruct (lpc_eqb (qpc (lcalls s c)) QEarly) eqn:E; [|discriminate]. lpcs E.
    inversion Hs; subst.
    assert (A : active (qpc (lcalls s c)) = true) by (rewrite E; reflexivity).
    assert (P : pending (qpc (lcalls s c)) = true) by (rewrite E; reflexivity).
    pose proof (z_early s H c P) as Ey. pose proof (res_pos s c H A Ey).
    apply linv_leave; auto; unfold kearly, kpend, kinner; rewrite ?Ey, ?E; simpl; try lia.
    + apply live_of; assumption.
    + intros D. pose proof (wg_pos s c H D P). lia.
    + intros F. destruct (z_fast1 s H F) as [W _]. lia.
  - (* ZStart *)
    destruct (lpc_eqb (qpc (lcalls s c)) QEarly) eqn:E; [|discriminate]. lpcs E.
    inversion Hs; subst.
    assert (P : pending (qpc (lcalls s c)) = true) by (rewrite E; reflexivity).
    pose proof (z_early s H c P) as Ey.
    apply (linv_stay s c (mkLCall QEarlyWait (qctx (lcalls s c)) None true) (lwg s) (icount s)); simpl; auto;
      unfold kpend, kinner; rewrite ?E; simpl; try lia; try discriminate.
    + apply live_of; [exact H|rewrite E; reflexivity].
    + apply (z_imax s H).
    + intros [X|X]; discriminate.
    + intros F. apply (z_fast1 s H F).
  - (* ZCtx *)
    inversion Hs; subst.
    destruct (in_dec Nat.eq_dec c (llive s)) as [Hin|Hnin].
    + pose proof (proj1 (z_live s H c) Hin) as A.
      assert (R : qres (lcalls s c) = None).
      { apply (z_done s H). intros X. rewrite X in A. discriminate. }
      apply (linv_stay s c (mkLCall (qpc (lcalls s c)) true (qres (lcalls s c)) (qearly (lcalls s c))) (lwg s) (icount s));
        simpl; auto.
      * apply (z_early s H).
      * apply (z_imax s H).
      * intros X. apply (z_go s H c). tauto.
      * intros F X. apply (z_late s H F c X).
      * intros F. apply (z_fast1 s H F).
    + apply linv_touch; auto.
  - (* ZCtxExit *)
    destruct (lpc_eqb (qpc (lcalls s c)) QEarlyWait && qctx (lcalls s c)) eqn:E; [|discriminate].
    apply andb_true_iff in E as [E _]. lpcs E. inversion Hs; subst.
    assert (A : active (qpc (lcalls s c)) = true) by (rewrite E; reflexivity).
    assert (P : pending (qpc (lcalls s c)) = true) by (rewrite E; reflexivity).
    pose proof (z_early s H c P) as Ey. pose proof (res_pos s c H A Ey).
    apply linv_leave; auto; unfold kearly, kpend, kinner; rewrite ?Ey, ?E; simpl; try lia.
    + apply live_of; assumption.
    + intros D. pose proof (wg_pos s c H D P). lia.
    + intros F. destruct (z_fast1 s H F) as [W _]. lia.
  - (* ZDialDone *)
    destruct (ldial s) eqn:D; try discriminate.
    + inversion Hs; subst. destruct (z_dialing s H D) as [F0 E0].
      apply (linv_frame s (lclosed s) (if ok then DialOk else DialErr) (lfast s) (iclosed s) ok); auto;
        try (destruct ok; discriminate).
      * right. split; [exact D|]. split; [exact F0|]. destruct ok; discriminate.
      * intros _. right. apply (z_wg s H). left. exact D.
    + destruct (iexists s) eqn:Ex; [discriminate|]. inversion Hs; subst. rewrite <- D.
      apply (linv_frame s (lclosed s) (ldial s) (lfast s) ok ok); auto; intros X; congruence.
  - (* ZGo *)
    destruct (lpc_eqb (qpc (lcalls s c)) QEarlyWait) eqn:E; [|discriminate]. lpcs E.
    assert (A : active (qpc (lcalls s c)) = true) by (rewrite E; reflexivity).
    assert (P : pending (qpc (lcalls s c)) = true) by (rewrite E; reflexivity).
    pose proof (z_early s H c P) as Ey. pose proof (res_pos s c H A Ey).
    destruct (ldial s) eqn:D; [discriminate| | |].
    + inversion Hs; subst.
      assert (G : LInv (mkLst (lclosed s) (ldial s) (lreserved s) (lmaxq s) (lwg s) (lfast s) (icount s) (imax s) (iclosed s)
                              (iexists s) (lupd (lcalls s) c (mkLCall QEarlyGo (qctx (lcalls s c)) None true)) (llive s))).
      { apply linv_stay; simpl; auto; unfold kpend, kinner; rewrite ?E; simpl; try lia; try discriminate.
        - apply live_of; assumption.
        - apply (z_imax s H).
        - intros F. apply (z_fast1 s H F). }
      exact G.
    + inversion Hs; subst. rewrite <- D.
      apply linv_leave; auto; unfold kearly, kpend, kinner; rewrite ?Ey, ?E; simpl; try lia.
      * apply live_of; assumption.
      * intros [X|X]; congruence.
      * intros F. destruct (z_fast1 s H F) as [W _]. lia.
    + inversion Hs; subst. rewrite <- D.
      apply linv_leave; auto; unfold kearly, kpend, kinner; rewrite ?Ey, ?E; simpl; try lia.
      * apply live_of; assumption.
      * intros [X|X]; congruence.
      * intros F. destruct (z_fast1 s H F) as [W _]. lia.
  - (* ZReReserve *)
    destruct (lpc_eqb (qpc (lcalls s c)) QEarlyGo) eqn:E; [|discriminate]. lpcs E.
    assert (A : active (qpc (lcalls s c)) = true) by (rewrite E; reflexivity).
    assert (P : pending (qpc (lcalls s c)) = true) by (rewrite E; reflexivity).
    pose proof (z_early s H c P) as Ey. pose proof (res_pos s c H A Ey).
    assert (D : ldial s = DialOk) by (apply (z_go s H c); left; exact E).
    pose proof (wg_pos s c H (or_intror D) P) as Wp.
    assert (F1 : lfast s <> 1) by (intros F; destruct (z_fast1 s H F) as [W _]; lia).
    pose proof (live_of s c H A) as Hin. pose proof (z_imax s H) as Him.
    unfold inner_can in Hs. destruct (iclosed s) eqn:Ic; simpl in Hs.
    + inversion Hs; subst. fix_ic s.
      apply linv_leave; auto; unfold kearly, kpend, kinner; rewrite ?Ey, ?E; simpl; try lia;
        try (intros F; contradiction).
    + destruct (N.ltb_spec (icount s) (imax s)).
      * inversion Hs; subst. fix_ic s.
        apply linv_stay; simpl; auto; unfold kpend, kinner; rewrite ?E; simpl; try lia; try discriminate;
          try (intros F; contradiction).
      * inversion Hs; subst. fix_ic s.
        apply linv_leave; auto; unfold kearly, kpend, kinner; rewrite ?Ey, ?E; simpl; try lia;
          try (intros F; contradiction).
  - (* ZInnerDone *)
    destruct (lpc_eqb (qpc (lcalls s c)) QInner) eqn:E; [|discriminate]. lpcs E.
    assert (A : active (qpc (lcalls s c)) = true) by (rewrite E; reflexivity).
    pose proof (ic_pos s c H E) as Ip. pose proof (live_of s c H A) as Hin. inversion Hs; subst.
    destruct (qearly (lcalls s c)) eqn:Ey.
    + pose proof (res_pos s c H A Ey).
      apply linv_leave; auto; unfold kearly, kpend, kinner; rewrite ?Ey, ?E; simpl; try lia;
        try (intros F; apply (z_fast1 s H F)).
    + apply linv_leave; auto; unfold kearly, kpend, kinner; rewrite ?Ey, ?E; simpl; try lia;
        try (intros F; apply (z_fast1 s H F)).
  - (* ZInnerClose *)
    destruct (iexists s) eqn:Ex; [|discriminate]. inversion Hs; subst.
    apply (linv_frame s (lclosed s) (ldial s) (lfast s) true true); auto.
  - (* ZClose *)
    destruct (lclosed s); [inversion Hs; subst; exact H|].
    destruct (ldial s) eqn:D.
    + inversion Hs; subst. destruct (z_dialing s H D) as [F0 E0].
      apply (linv_frame s true DialCancelled (lfast s) (iclosed s) (iexists s)); auto; try discriminate.
      right. split; [exact D|]. split; [exact F0|discriminate].
    + inversion Hs; subst. rewrite <- D. apply linv_frame; auto.
    + inversion Hs; subst. rewrite <- D. apply linv_frame; auto.
    + inversion Hs; subst. rewrite <- D. apply linv_frame; auto.
Qed.

Theorem linv_run : forall ls s s', LInv s -> lrun s ls = Some s' -> LInv s'.
Proof.
  induction ls as [|l ls IH]; intros s s' H R; simpl in R; [inversion R; subst; exact H|].
  destruct (lstep s l) as [s1|] eqn:E; [|discriminate]. eapply IH; [eapply linv_step; eauto|exact R].
Qed.

Theorem linv_reachable maxq im ls s : lrun (linit maxq im) ls = Some s -> LInv s.
Proof. apply linv_run, linv_init. Qed.

Lemma lconst_step s l s' : lstep s l = Some s' -> lmaxq s' = lmaxq s /\ imax s' = imax s.
Proof.
  intros Hs. destruct l; cbn [lstep] in Hs;
    repeat match type of Hs with
           | context [if ?b then _ else _] => destruct b
           | context [match ?x with _ => _ end] => destruct x
           end; try discriminate; inversion Hs; subst; simpl; auto.
Qed.
Lemma lconst_run : forall ls s s', lrun s ls = Some s' -> lmaxq s' = lmaxq s /\ imax s' = imax s.
Proof.
  induction ls as [|l ls IH]; intros s s' R; simpl in R; [inversion R; auto|].
  destruct (lstep s l) as [s1|] eqn:E; [|discriminate].
  destruct (IH _ _ R) as [A B]. destruct (lconst_step _ _ _ E) as [C D]. split; congruence.
Qed.

(** * C09, dialing phase *)

(** The counters are exact and within their limits in every reachable state:
    early reservations = callers that entered while dialing and have not
    returned; never more than the queue limit; reservations of the real
    connection never more than its limit. *)
Theorem lazy_accounting maxq im ls s :
  lrun (linit maxq im) ls = Some s ->
  lreserved s = gcnt kearly (lcalls s) (llive s) /\ lreserved s <= maxq /\
  icount s = gcnt kinner (lcalls s) (llive s) /\ icount s <= im /\
  ((ldial s = Dialing \/ ldial s = DialOk) -> lwg s = gcnt kpend (lcalls s) (llive s)).
Proof.
  intros R. pose proof (linv_reachable _ _ _ _ R) as H. destruct (lconst_run _ _ _ R) as [A B]. simpl in A, B.
  destruct H. repeat split; auto; congruence.
Qed.

Theorem lazy_no_leak maxq im ls s :
  lrun (linit maxq im) ls = Some s -> llive s = [] ->
  lreserved s = 0 /\ icount s = 0 /\ ((ldial s = Dialing \/ ldial s = DialOk) -> lwg s = 0).
Proof.
  intros R L. pose proof (linv_reachable _ _ _ _ R) as H. destruct H.
  rewrite z_res0, z_icount0, L. repeat split; auto. intros D. rewrite (z_wg0 D), L. reflexivity.
Qed.

(** Queries queued while the connection was dialing are not refused once the
    dial succeeds with an equal (or larger) limit: every early caller's
    re-reservation on the real connection succeeds as long as that connection
    is alive. (Late callers cannot overtake them: they wait on the group.) *)
Theorem early_callers_served maxq im ls s c :
  lrun (linit maxq im) ls = Some s -> maxq <= im ->
  qpc (lcalls s c) = QEarlyGo -> iclosed s = false ->
  exists s', lstep s (ZReReserve c) = Some s' /\ qpc (lcalls s' c) = QInner /\ qres (lcalls s' c) = None.
Proof.
  intros R Hle P Ic. pose proof (linv_reachable _ _ _ _ R) as H. destruct (lconst_run _ _ _ R) as [A B]. simpl in A, B.
  assert (D : ldial s = DialOk) by (apply (z_go s H c); left; exact P).
  assert (Pe : pending (qpc (lcalls s c)) = true) by (rewrite P; reflexivity).
  pose proof (wg_pos s c H (or_intror D) Pe) as Wp.
  assert (F1 : lfast s <> 1) by (intros F; destruct (z_fast1 s H F) as [W _]; lia).
  pose proof (early_budget s H D F1) as Bud. pose proof (z_cap s H) as Cap.
  cbn [lstep]. rewrite P. simpl. unfold inner_can. rewrite Ic. simpl.
  destruct (N.ltb_spec (icount s) (imax s)) as [_|Hge]; [|lia].
  eexists. split; [reflexivity|]. simpl. unfold lupd. rewrite gupd_same. auto.
Qed.

(** While dialing, a connection below its queue limit admits, at the limit it refuses. *)
Theorem lazy_admits_while_dialing s c :
  ldial s = Dialing -> lfast s = 0 -> qpc (lcalls s c) = QIdle -> ~ In c (llive s) ->
  exists s', lstep s (ZReserve c) = Some s' /\
    (if lmaxq s <=? lreserved s then qres (lcalls s' c) = Some (LRRefused false) /\ lreserved s' = lreserved s
     else qpc (lcalls s' c) = QEarly /\ lreserved s' = lreserved s + 1).
Proof.
  intros D F P Hn. cbn [lstep]. rewrite P, F, D. simpl.
  assert (M : lmem c (llive s) = false) by (apply gmem_false; exact Hn). rewrite M. simpl.
  destruct (lmaxq s <=? lreserved s); eexists; (split; [reflexivity|]); simpl; unfold lupd; rewrite gupd_same; auto.
Qed.

(** * C07, dial faults and Close *)

(** An early caller waiting for the dial is woken by the dial finishing (with
    or without error), by Close (which cancels the dial), and by its context. *)
Theorem early_waiter_wakes s c :
  qpc (lcalls s c) = QEarlyWait ->
  (ldial s <> Dialing -> exists s', lstep s (ZGo c) = Some s') /\
  (qctx (lcalls s c) = true -> exists s', lstep s (ZCtxExit c) = Some s').
Proof.
  intros P. split.
  - intros D. cbn [lstep]. rewrite P. simpl. destruct (ldial s); [congruence| | |]; eauto.
  - intros C. cbn [lstep]. rewrite P, C. simpl. eauto.
Qed.

Record CInv (s : lst) : Prop := {
  k_ok : ldial s = DialOk -> iexists s = true;
  k_closed : lclosed s = true -> ldial s <> Dialing /\ (ldial s = DialOk -> iclosed s = true)
}.

Lemma cinv_step s l s' : CInv s -> lstep s l = Some s' -> CInv s'.
Proof.
  intros [K1 K2] Hs. destruct l; cbn [lstep] in Hs;
    repeat match type of Hs with
           | context [if ?b then _ else _] => destruct b eqn:?
           | context [match ?x with _ => _ end] => destruct x eqn:?
           end; try discriminate; inversion Hs; subst; constructor; simpl; auto;
    try (intros X; try discriminate; specialize (K2 X); destruct K2 as [Ka Kb]; split; [congruence|auto]);
    try (intros X; split; [discriminate|intros Y; try discriminate; auto]);
    try congruence.
Qed.

Lemma cinv_run : forall ls s s', CInv s -> lrun s ls = Some s' -> CInv s'.
Proof.
  induction ls as [|l ls IH]; intros s s' H R; simpl in R; [inversion R; subst; exact H|].
  destruct (lstep s l) as [s1|] eqn:E; [|discriminate]. eapply IH; [eapply cinv_step; eauto|exact R].
Qed.

(** After Close, later reservations are refused as closed (they never create anything). *)
Theorem lazy_after_close_refuses maxq im ls s c s' :
  lrun (linit maxq im) ls = Some s -> lclosed s = true ->
  lstep s (ZReserve c) = Some s' -> qres (lcalls s' c) = Some (LRRefused true).
Proof.
  intros R C Hs.
  assert (K : CInv s). { eapply cinv_run; [|exact R]. constructor; simpl; intros; discriminate. }
  pose proof (linv_reachable _ _ _ _ R) as H.
  destruct K as [K1 K2]. destruct (K2 C) as [Kd Ki].
  cbn [lstep] in Hs.
  destruct (lpc_eqb (qpc (lcalls s c)) QIdle && negb (lmem c (llive s))); [|discriminate].
  destruct (N.eqb_spec (lfast s) 1) as [F1|F1].
  { destruct (z_fast1 s H F1) as [_ D]. rewrite (Ki D) in Hs. inversion Hs; subst. simpl. unfold lupd. rewrite gupd_same. reflexivity. }
  destruct (N.eqb_spec (lfast s) 2) as [F2|F2].
  { inversion Hs; subst. simpl. unfold lupd. rewrite gupd_same. reflexivity. }
  destruct (ldial s) eqn:D; [congruence| | |].
  - destruct (lwg s =? 0); [|discriminate]. rewrite (Ki eq_refl) in Hs.
    inversion Hs; subst. simpl. unfold lupd. rewrite gupd_same. reflexivity.
  - inversion Hs; subst. simpl. unfold lupd. rewrite gupd_same. reflexivity.
  - inversion Hs; subst. simpl. unfold lupd. rewrite gupd_same. reflexivity.
Qed.
