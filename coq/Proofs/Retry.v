From Verif Require Import Base.Prelude Gen.Constants Gen.RetryFacts Model.Retry.
Open Scope N_scope.

Lemma loop_passes_le : forall c sc retry, (snd (loop c retry sc) <= length sc)%nat.
Proof.
  induction sc as [|p sc IH]; intros retry; simpl; [lia|].
  destruct p as [|a]; simpl; [lia|].
  destruct (a_ok a); simpl; [lia|].
  destruct (may_retry c retry a); simpl; [|lia].
  specialize (IH (retry + 1)). destruct (loop c (retry + 1) sc); simpl in *. lia.
Qed.

(** The loop never makes more than [allowed + 1] passes. *)
Lemma loop_bound_gen : forall c sc retry,
  retry <= allowed c -> (snd (loop c retry sc) <= N.to_nat (allowed c - retry) + 1)%nat.
Proof.
  induction sc as [|p sc IH]; intros retry Hr; simpl; [lia|].
  destruct p as [|a]; simpl; [lia|].
  destruct (a_ok a); simpl; [lia|].
  destruct (may_retry c retry a) eqn:M; simpl; [|lia].
  assert (Hlt : retry < allowed c).
  { unfold may_retry, allowed in *. apply andb_true_iff in M as [M _]. apply andb_true_iff in M as [_ M].
    destruct (strict c); [apply N.ltb_lt in M|apply N.leb_le in M]; lia. }
  specialize (IH (retry + 1) ltac:(lia)). destruct (loop c (retry + 1) sc); simpl in *. lia.
Qed.

Theorem attempts_bounded c sc : (snd (loop c 0 sc) <= N.to_nat (allowed c) + 1)%nat.
Proof. pose proof (loop_bound_gen c sc 0 ltac:(lia)) as H. rewrite N.sub_0_r in H. exact H. Qed.

Theorem pipeline_attempts_le_3 sc : (snd (loop pipeline_cfg 0 sc) <= 3)%nat.
Proof. pose proof (attempts_bounded pipeline_cfg sc) as H. vm_compute (N.to_nat (allowed pipeline_cfg) + 1)%nat in H. exact H. Qed.

(** The property's own number: at most 4 for both transports. *)
Theorem pipeline_attempts_le_4 sc : (snd (loop pipeline_cfg 0 sc) <= 4)%nat.
Proof.
  pose proof (attempts_bounded pipeline_cfg sc) as H.
  assert (N.to_nat (allowed pipeline_cfg) + 1 <= 4)%nat by (vm_compute; lia). lia.
Qed.

Theorem reuse_attempts_le_4 sc : (snd (loop reuse_cfg 0 sc) <= 4)%nat.
Proof.
  pose proof (attempts_bounded reuse_cfg sc) as H.
  assert (N.to_nat (allowed reuse_cfg) + 1 <= 4)%nat by (vm_compute; lia). lia.
Qed.

(** What the last pass of a failed call looks like. *)
Lemma failure_justified_gen : forall c sc retry n,
  loop c retry sc = (FErr, n) ->
  exists a, nth_error sc (n - 1) = Some (Exch a) /\ a_ok a = false /\ may_retry c (retry + N.of_nat (n - 1)) a = false.
Proof.
  induction sc as [|p sc IH]; intros retry n H; simpl in H; [discriminate|].
  destruct p as [|a]; [discriminate|].
  destruct (a_ok a) eqn:Ok; [discriminate|].
  destruct (may_retry c retry a) eqn:M.
  - destruct (loop c (retry + 1) sc) as [f m] eqn:L. inversion H; subst.
    destruct (IH _ _ L) as [a' [Hn [Hok Hm]]]. exists a'.
    assert (m <> 0)%nat.
    { intros ->. simpl in Hn. destruct sc; simpl in L; [discriminate|]. destruct p; [discriminate|].
      destruct (a_ok a0); [discriminate|]. destruct (may_retry c (retry + 1) a0); [|discriminate].
      match type of L with context [loop ?x ?y ?z] => destruct (loop x y z) end; discriminate. }
    replace (S m - 1)%nat with (S (m - 1)) by lia. cbn [nth_error]. split; [exact Hn|]. split; [exact Hok|].
    replace (retry + N.of_nat (S (m - 1))) with (retry + 1 + N.of_nat (m - 1)) by lia. exact Hm.
  - inversion H; subst. exists a. simpl. rewrite N.add_0_r. auto.
Qed.

(** A call reports an exchange failure only when the last attempt was on a
    connection opened for it, or the retry budget is used up, or (if the loop
    consults it) its context had ended. *)
Theorem failure_justified c sc n :
  only_reused c = true ->
  loop c 0 sc = (FErr, n) ->
  exists a, nth_error sc (n - 1) = Some (Exch a) /\ a_ok a = false /\
            (a_new a = true \/ N.of_nat n = allowed c + 1 \/ (checks_ctx c = true /\ a_ctx_dead a = true)).
Proof.
  intros Hr H. destruct (failure_justified_gen _ _ _ _ H) as [a [Hn [Hok Hm]]].
  exists a. split; [exact Hn|]. split; [exact Hok|].
  pose proof (attempts_bounded c sc) as B. rewrite H in B. simpl in B.
  assert (n <> 0)%nat.
  { intros ->. destruct sc; simpl in H; [discriminate|]. destruct p; [discriminate|].
    destruct (a_ok a0); [discriminate|]. destruct (may_retry c 0 a0); [|discriminate].
    match type of H with context [loop ?x ?y ?z] => destruct (loop x y z) end; discriminate. }
  unfold may_retry in Hm. rewrite Hr in Hm. cbn [negb orb] in Hm. rewrite ?N.add_0_l in Hm.
  destruct (a_new a); [left; reflexivity|]. simpl in Hm.
  destruct (checks_ctx c) eqn:Cc; destruct (a_ctx_dead a) eqn:Cd; simpl in Hm;
    try (right; right; split; reflexivity);
    rewrite ?andb_true_r, ?andb_false_r in Hm; right; left; unfold allowed in *;
    destruct (strict c); [apply N.ltb_ge in Hm|apply N.leb_gt in Hm|apply N.ltb_ge in Hm|apply N.leb_gt in Hm
                          |apply N.ltb_ge in Hm|apply N.leb_gt in Hm]; lia.
Qed.

(** Transparent retry: as long as the failed attempts were on pooled
    connections, the budget lasts and the context is alive, the next attempt
    is made; if it succeeds the call succeeds. *)
Theorem retry_succeeds c : forall pre a,
  Forall (fun p => exists b, p = Exch b /\ a_ok b = false /\ a_new b = false /\ a_ctx_dead b = false) pre ->
  N.of_nat (length pre) <= allowed c -> a_ok a = true ->
  forall rest, loop c 0 (pre ++ Exch a :: rest) = (FOk, S (length pre)).
Proof.
  intros pre a Hpre Hlen Hok rest.
  assert (G : forall retry, retry + N.of_nat (length pre) <= allowed c ->
              loop c retry (pre ++ Exch a :: rest) = (FOk, S (length pre))).
  { induction Hpre as [|p pre [b [-> [B1 [B2 B3]]]] Hpre IH]; intros retry Hr; simpl.
    - rewrite Hok. reflexivity.
    - rewrite B1. unfold may_retry. rewrite B2, B3. simpl. rewrite !orb_true_r, andb_true_r. simpl.
      assert (T : (if strict c then retry <? max_retry c else retry <=? max_retry c) = true).
      { unfold allowed in Hr. simpl length in Hr. destruct (strict c); [apply N.ltb_lt|apply N.leb_le]; lia. }
      rewrite T. rewrite IH by (simpl length in Hr; lia). reflexivity. }
  apply G. lia.
Qed.

(** Every pass before the last one is a failed exchange that the condition
    allowed to retry: with [only_reused] it was on a pooled connection. *)
Theorem passes_before_last_failed : forall c sc retry f n i p,
  loop c retry sc = (f, n) -> (S i < n)%nat -> nth_error sc i = Some p ->
  exists a, p = Exch a /\ a_ok a = false /\ (only_reused c = true -> a_new a = false).
Proof.
  induction sc as [|q sc IH]; intros retry f n i p H Hi Hn; simpl in H; [inversion H; subst; lia|].
  destruct q as [|a]; [inversion H; subst; lia|].
  destruct (a_ok a) eqn:Ok; [inversion H; subst; lia|].
  destruct (may_retry c retry a) eqn:M; [|inversion H; subst; lia].
  destruct (loop c (retry + 1) sc) as [f' m] eqn:L. inversion H; subst.
  destruct i as [|i].
  - simpl in Hn. inversion Hn; subst. unfold may_retry in M.
    apply andb_true_iff in M as [M _]. apply andb_true_iff in M as [M _].
    exists a. split; [reflexivity|]. split; [exact Ok|]. intros R. rewrite R in M. simpl in M.
    destruct (a_new a); [discriminate|reflexivity].
  - simpl in Hn. eapply IH; eauto. lia.
Qed.
