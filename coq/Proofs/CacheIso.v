(** C10 — proofs about the aliasing model Model/CacheIso.v. *)
From Verif Require Import Base.Prelude Gen.Constants Model.CacheIso.
From Coq Require Import Arith PeanoNat.
Local Open Scope nat_scope.

(** * Pools *)

Lemma upd_same {A} (f : nat -> A) k v : upd f k v k = v.
Proof. unfold upd. now rewrite Nat.eqb_refl. Qed.
Lemma upd_other {A} (f : nat -> A) k v x : x <> k -> upd f k v x = f x.
Proof. unfold upd. intro N. destruct (Nat.eqb_spec x k); [contradiction | reflexivity]. Qed.

(** [p'] has everything [p] had, with the same owners. *)
Definition pool_le {A} (p p' : pool A) : Prop :=
  nxt p <= nxt p' /\ forall x, x < nxt p -> own p' x = own p x.
(** ... and the same contents. *)
Definition pool_ext {A} (p p' : pool A) : Prop :=
  pool_le p p' /\ forall x, x < nxt p -> dat p' x = dat p x.
(** ... the same contents for the objects of region [o]. *)
Definition pool_frame {A} (o : nat) (p p' : pool A) : Prop :=
  pool_le p p' /\ forall x, x < nxt p -> own p x = o -> dat p' x = dat p x.

Lemma pool_le_refl {A} (p : pool A) : pool_le p p.
Proof. split; auto. Qed.
Lemma pool_le_trans {A} (p q r : pool A) : pool_le p q -> pool_le q r -> pool_le p r.
Proof.
  intros [L1 O1] [L2 O2]. split; [lia|]. intros x Hx. rewrite O2 by lia. auto.
Qed.
Lemma pool_ext_refl {A} (p : pool A) : pool_ext p p.
Proof. split; [apply pool_le_refl | auto]. Qed.
Lemma pool_ext_trans {A} (p q r : pool A) : pool_ext p q -> pool_ext q r -> pool_ext p r.
Proof.
  intros [L1 D1] [L2 D2]. split; [eapply pool_le_trans; eauto|].
  intros x Hx. destruct L1 as [L1 _]. rewrite D2 by lia. auto.
Qed.
Lemma pool_frame_trans {A} o (p q r : pool A) : pool_frame o p q -> pool_frame o q r -> pool_frame o p r.
Proof.
  intros [L1 D1] [L2 D2]. split; [eapply pool_le_trans; eauto|].
  intros x Hx Ho. destruct L1 as [L1 O1]. rewrite D2; [auto | lia | rewrite O1; auto].
Qed.
Lemma pool_ext_frame {A} o (p q : pool A) : pool_ext p q -> pool_frame o p q.
Proof. intros [L D]. split; auto. Qed.

Lemma pool_ext_alloc {A} o (v : A) p : pool_ext p (fst (alloc o v p)).
Proof.
  unfold alloc; simpl. split; [split|]; simpl; [lia| |]; intros x Hx; apply upd_other; lia.
Qed.
Lemma pool_frame_put {A} o k (v : A) p : own p k <> o -> pool_frame o p (put k v p).
Proof.
  intro N. unfold put. split; [split|]; simpl; auto.
  intros x Hx Ho. apply upd_other. intro; subst; contradiction.
Qed.
(** A write to an object that did not exist in [p0] keeps [p0]'s objects. *)
Lemma pool_ext_put_fresh {A} (p0 p : pool A) k v : pool_ext p0 p -> nxt p0 <= k -> pool_ext p0 (put k v p).
Proof.
  intros [[L O] D] Hk. unfold put. split; [split|]; simpl; auto.
  intros x Hx. rewrite upd_other by lia. auto.
Qed.

(** * Heaps *)

Definition ext (H H' : heap) : Prop :=
  pool_ext (hm H) (hm H') /\ pool_ext (ha H) (ha H') /\ pool_ext (hr H) (hr H') /\ pool_ext (hb H) (hb H').
Definition frame (o : nat) (H H' : heap) : Prop :=
  pool_frame o (hm H) (hm H') /\ pool_frame o (ha H) (ha H') /\ pool_frame o (hr H) (hr H') /\ pool_frame o (hb H) (hb H').

Ltac split4 := split; [|split; [|split]].

Lemma ext_refl H : ext H H.
Proof. split4; apply pool_ext_refl. Qed.
Lemma ext_trans H1 H2 H3 : ext H1 H2 -> ext H2 H3 -> ext H1 H3.
Proof.
  intros (A1 & A2 & A3 & A4) (B1 & B2 & B3 & B4).
  split4; eapply pool_ext_trans; eauto.
Qed.
Lemma frame_trans o H1 H2 H3 : frame o H1 H2 -> frame o H2 H3 -> frame o H1 H3.
Proof.
  intros (A1 & A2 & A3 & A4) (B1 & B2 & B3 & B4).
  split4; eapply pool_frame_trans; eauto.
Qed.
Lemma ext_frame o H H' : ext H H' -> frame o H H'.
Proof. intros (A1 & A2 & A3 & A4). split4; apply pool_ext_frame; auto. Qed.
Lemma frame_refl o H : frame o H H.
Proof. apply ext_frame, ext_refl. Qed.

Lemma ext_alloc_m o v H : ext H (fst (alloc_m o v H)).
Proof. unfold alloc_m; simpl. split4; simpl; try apply pool_ext_refl. apply (pool_ext_alloc o v (hm H)). Qed.
Lemma ext_alloc_a o v H : ext H (fst (alloc_a o v H)).
Proof. unfold alloc_a; simpl. split4; simpl; try apply pool_ext_refl. apply (pool_ext_alloc o v (ha H)). Qed.
Lemma ext_alloc_r o v H : ext H (fst (alloc_r o v H)).
Proof. unfold alloc_r; simpl. split4; simpl; try apply pool_ext_refl. apply (pool_ext_alloc o v (hr H)). Qed.
Lemma ext_alloc_b o v H : ext H (fst (alloc_b o v H)).
Proof. unfold alloc_b; simpl. split4; simpl; try apply pool_ext_refl. apply (pool_ext_alloc o v (hb H)). Qed.

Lemma frame_put_m o k v H : own (hm H) k <> o -> frame o H (put_m k v H).
Proof. intro N. unfold put_m. split4; simpl; try apply pool_ext_frame, pool_ext_refl. now apply pool_frame_put. Qed.
Lemma frame_put_a o k v H : own (ha H) k <> o -> frame o H (put_a k v H).
Proof. intro N. unfold put_a. split4; simpl; try apply pool_ext_frame, pool_ext_refl. now apply pool_frame_put. Qed.
Lemma frame_put_r o k v H : own (hr H) k <> o -> frame o H (put_r k v H).
Proof. intro N. unfold put_r. split4; simpl; try apply pool_ext_frame, pool_ext_refl. now apply pool_frame_put. Qed.
Lemma frame_put_b o k v H : own (hb H) k <> o -> frame o H (put_b k v H).
Proof. intro N. unfold put_b. split4; simpl; try apply pool_ext_frame, pool_ext_refl. now apply pool_frame_put. Qed.

Lemma ext_put_r_fresh H0 H k v : ext H0 H -> nxt (hr H0) <= k -> ext H0 (put_r k v H).
Proof. intros (A1 & A2 & A3 & A4) Hk. unfold put_r. split4; simpl; auto. now apply pool_ext_put_fresh. Qed.
Lemma ext_put_m_fresh H0 H k v : ext H0 H -> nxt (hm H0) <= k -> ext H0 (put_m k v H).
Proof. intros (A1 & A2 & A3 & A4) Hk. unfold put_m. split4; simpl; auto. now apply pool_ext_put_fresh. Qed.

(** * Well-formed heaps: references stay inside the allocated part and inside
    the region of the object that holds them *)

Definition wf_heap (H : heap) : Prop :=
  (forall m s, m < nxt (hm H) ->
     sec_arr (dat (hm H) m) s < nxt (ha H) /\ own (ha H) (sec_arr (dat (hm H) m) s) = own (hm H) m) /\
  (forall a r, a < nxt (ha H) -> In r (dat (ha H) a) ->
     r < nxt (hr H) /\ own (hr H) r = own (ha H) a) /\
  (forall r, r < nxt (hr H) ->
     r_data (dat (hr H) r) < nxt (hb H) /\ own (hb H) (r_data (dat (hr H) r)) = own (hr H) r).

Lemma wf_empty : wf_heap empty_heap.
Proof. repeat split; simpl in *; lia. Qed.

Ltac upd_case x k := destruct (Nat.eq_dec x k); [subst; rewrite ?upd_same | rewrite ?upd_other by assumption].

Lemma wf_alloc_b o d H : wf_heap H -> wf_heap (fst (alloc_b o d H)).
Proof.
  intros (W1 & W2 & W3). unfold alloc_b; simpl. split; [|split]; simpl.
  - exact W1.
  - exact W2.
  - intros r Hr. destruct (W3 r Hr) as [L E]. split; [lia|]. rewrite upd_other by lia. auto.
Qed.

Lemma wf_alloc_r o ro H :
  wf_heap H -> r_data ro < nxt (hb H) -> own (hb H) (r_data ro) = o -> wf_heap (fst (alloc_r o ro H)).
Proof.
  intros (W1 & W2 & W3) Hd Ho. unfold alloc_r; simpl. split; [|split]; simpl.
  - exact W1.
  - intros a r Ha Hi. destruct (W2 a r Ha Hi) as [L E]. split; [lia|]. rewrite upd_other by lia. auto.
  - intros r Hr. upd_case r (nxt (hr H)).
    + auto.
    + apply W3. lia.
Qed.

Lemma wf_alloc_a o l H :
  wf_heap H -> (forall r, In r l -> r < nxt (hr H) /\ own (hr H) r = o) -> wf_heap (fst (alloc_a o l H)).
Proof.
  intros (W1 & W2 & W3) Hl. unfold alloc_a; simpl. split; [|split]; simpl.
  - intros m s Hm. destruct (W1 m s Hm) as [L E]. split; [lia|]. rewrite upd_other by lia. auto.
  - intros a r Ha. upd_case a (nxt (ha H)).
    + intro Hi. apply Hl; auto.
    + apply W2. lia.
  - exact W3.
Qed.

Lemma wf_alloc_m o mo H :
  wf_heap H -> (forall s, sec_arr mo s < nxt (ha H) /\ own (ha H) (sec_arr mo s) = o) ->
  wf_heap (fst (alloc_m o mo H)).
Proof.
  intros (W1 & W2 & W3) Hs. unfold alloc_m; simpl. split; [|split]; simpl; auto.
  intros m s Hm. upd_case m (nxt (hm H)).
  - apply Hs.
  - apply W1. lia.
Qed.

Lemma wf_put_b k d H : wf_heap H -> wf_heap (put_b k d H).
Proof. intros (W1 & W2 & W3). unfold put_b. split; [|split]; simpl; auto. Qed.

Lemma wf_put_r k ro H :
  wf_heap H -> r_data ro < nxt (hb H) -> own (hb H) (r_data ro) = own (hr H) k -> wf_heap (put_r k ro H).
Proof.
  intros (W1 & W2 & W3) Hd Ho. unfold put_r. split; [|split]; simpl; auto.
  intros r Hr. upd_case r k; auto.
Qed.

Lemma wf_put_a k l H :
  wf_heap H -> (forall r, In r l -> r < nxt (hr H) /\ own (hr H) r = own (ha H) k) -> wf_heap (put_a k l H).
Proof.
  intros (W1 & W2 & W3) Hl. unfold put_a. split; [|split]; simpl; auto.
  intros a r Ha. upd_case a k; auto.
Qed.

Lemma wf_put_m k mo H :
  wf_heap H -> (forall s, sec_arr mo s < nxt (ha H) /\ own (ha H) (sec_arr mo s) = own (hm H) k) ->
  wf_heap (put_m k mo H).
Proof.
  intros (W1 & W2 & W3) Hs. unfold put_m. split; [|split]; simpl; auto.
  intros m s Hm. upd_case m k; auto.
Qed.

(** * Values only depend on the region of the message *)

Lemma rec_val_frame o H H' r :
  wf_heap H -> frame o H H' -> r < nxt (hr H) -> own (hr H) r = o -> rec_val H' r = rec_val H r.
Proof.
  intros (W1 & W2 & W3) (F1 & F2 & F3 & F4) Hr Ho. unfold rec_val.
  destruct F3 as [_ D3]. rewrite (D3 r Hr Ho).
  destruct (W3 r Hr) as [Lb Eb]. destruct F4 as [_ D4]. rewrite D4; [reflexivity | exact Lb | congruence].
Qed.

Lemma arr_val_frame o H H' a :
  wf_heap H -> frame o H H' -> a < nxt (ha H) -> own (ha H) a = o -> arr_val H' a = arr_val H a.
Proof.
  intros W F Ha Ho. unfold arr_val.
  pose proof F as (F1 & F2 & F3 & F4). destruct F2 as [_ D2]. rewrite (D2 a Ha Ho).
  apply map_ext_in. intros r Hi. pose proof W as (W1 & W2 & W3). destruct (W2 a r Ha Hi) as [L E].
  apply (rec_val_frame o); auto. congruence.
Qed.

Lemma value_frame o H H' m :
  wf_heap H -> frame o H H' -> m < nxt (hm H) -> own (hm H) m = o -> value H' m = value H m.
Proof.
  intros W F Hm Ho. unfold value.
  pose proof F as (F1 & _). destruct F1 as [_ D1]. rewrite (D1 m Hm Ho).
  pose proof W as (W1 & _).
  destruct (W1 m An Hm) as [L1 E1], (W1 m Ns Hm) as [L2 E2], (W1 m Ex Hm) as [L3 E3]. simpl in *.
  rewrite !(arr_val_frame o H H') by (auto; congruence). reflexivity.
Qed.

Lemma value_ext H H' m : wf_heap H -> ext H H' -> m < nxt (hm H) -> value H' m = value H m.
Proof. intros W E Hm. eapply value_frame; eauto. apply ext_frame; eauto. Qed.

(** * Building messages *)

Ltac splitn := match goal with |- _ /\ _ => split; [|splitn] | _ => idtac end.


Lemma rec_val_ext H H' r : wf_heap H -> ext H H' -> r < nxt (hr H) -> rec_val H' r = rec_val H r.
Proof. intros W E Hr. eapply rec_val_frame; eauto. apply ext_frame; eauto. Qed.

Lemma new_rec_spec o H v H' r :
  new_rec o H v = (H', r) -> wf_heap H ->
  r = nxt (hr H) /\ nxt (hr H') = S (nxt (hr H)) /\ hm H' = hm H /\ ha H' = ha H /\
  wf_heap H' /\ ext H H' /\ own (hr H') r = o /\ rec_val H' r = v /\
  r_data (dat (hr H') r) = nxt (hb H).
Proof.
  unfold new_rec. intros E W.
  pose proof (wf_alloc_b o (v_data v) H W) as W1.
  pose proof (ext_alloc_b o (v_data v) H) as X1.
  destruct (alloc_b o (v_data v) H) as [H1 b] eqn:Eb. simpl in W1, X1.
  assert (Hb : b = nxt (hb H) /\ nxt (hb H1) = S b /\ own (hb H1) b = o /\ dat (hb H1) b = v_data v
               /\ hm H1 = hm H /\ ha H1 = ha H /\ hr H1 = hr H).
  { unfold alloc_b, alloc in Eb. inversion Eb; subst; simpl. rewrite !upd_same. repeat split; auto. }
  destruct Hb as (Hb1 & Hb2 & Hb3 & Hb4 & Hb5 & Hb6 & Hb7).
  set (ro := mkrec (v_name v) (v_type v) (v_ttl v) b) in *.
  pose proof (wf_alloc_r o ro H1 W1) as W2.
  pose proof (ext_alloc_r o ro H1) as X2.
  rewrite E in W2, X2. simpl in W2, X2.
  assert (W2' : wf_heap H') by (apply W2; [lia | auto]).
  assert (X : ext H H') by (eapply ext_trans; eauto).
  clear W2 X2. unfold alloc_r, alloc in E. inversion E; subst H' r; simpl.
  splitn; auto; try congruence.
  - apply upd_same.
  - unfold rec_val; simpl. rewrite upd_same. simpl. rewrite Hb4. destruct v; reflexivity.
  - rewrite upd_same. simpl. exact Hb1.
Qed.

Lemma new_list_spec o l : forall H H' ids,
  new_list o H l = (H', ids) -> wf_heap H ->
  ids = seq (nxt (hr H)) (length l) /\ nxt (hr H') = nxt (hr H) + length l /\
  hm H' = hm H /\ ha H' = ha H /\ wf_heap H' /\ ext H H' /\
  (forall r, In r ids -> own (hr H') r = o) /\ map (rec_val H') ids = l /\
  (forall r, In r ids -> nxt (hb H) <= r_data (dat (hr H') r)).
Proof.
  induction l as [|v t IH]; intros H H' ids E W; cbn [new_list] in E.
  - inversion E; subst. simpl. splitn; auto using ext_refl; intros r [].
  - destruct (new_rec o H v) as [H1 r] eqn:Er.
    destruct (new_list o H1 t) as [H2 rs] eqn:El.
    injection E as <- <-.
    destruct (new_rec_spec _ _ _ _ _ Er W) as (R1 & R2 & R3 & R4 & R5 & R6 & R7 & R8 & R9).
    destruct (IH _ _ _ El R5) as (L1 & L2 & L3 & L4 & L5 & L6 & L7 & L8 & L9).
    assert (Hr : r < nxt (hr H1)) by lia.
    assert (Or : own (hr H2) r = o).
    { destruct L6 as (_ & _ & [[_ O] _] & _). rewrite O; auto. }
    splitn.
    + simpl. rewrite L1, R2, R1. reflexivity.
    + simpl. lia.
    + congruence.
    + congruence.
    + exact L5.
    + eapply ext_trans; eauto.
    + intros x [<- | Hx]; auto.
    + simpl. rewrite L8. rewrite (rec_val_ext H1 H2 r R5 L6 Hr), R8. reflexivity.
    + assert (Lb : nxt (hb H) <= nxt (hb H1)) by (destruct R6 as (_ & _ & _ & [[L _] _]); auto).
      intros x [<- | Hx].
      * destruct L6 as (_ & _ & [_ D] & _). rewrite D by auto. lia.
      * specialize (L9 x Hx). lia.
Qed.

Lemma new_arr_spec o H l H' a :
  new_arr o H l = (H', a) -> wf_heap H ->
  a = nxt (ha H) /\ nxt (ha H') = S a /\ hm H' = hm H /\ wf_heap H' /\ ext H H' /\
  own (ha H') a = o /\ dat (ha H') a = seq (nxt (hr H)) (length l) /\
  nxt (hr H') = nxt (hr H) + length l /\ arr_val H' a = l /\
  (forall r, In r (dat (ha H') a) -> nxt (hb H) <= r_data (dat (hr H') r)).
Proof.
  unfold new_arr. intros E W.
  destruct (new_list o H l) as [H1 rs] eqn:El.
  destruct (new_list_spec _ _ _ _ _ El W) as (L1 & L2 & L3 & L4 & L5 & L6 & L7 & L8 & L9).
  assert (Hrs : forall r, In r rs -> r < nxt (hr H1) /\ own (hr H1) r = o).
  { intros r Hi. split; auto. rewrite L1 in Hi. apply in_seq in Hi. lia. }
  pose proof (wf_alloc_a o rs H1 L5 Hrs) as W2.
  pose proof (ext_alloc_a o rs H1) as X2.
  rewrite E in W2, X2; simpl in W2, X2.
  assert (X : ext H H') by (eapply ext_trans; eauto).
  assert (V : arr_val H' a = l).
  { unfold arr_val. unfold alloc_a, alloc in E. inversion E; subst H' a; simpl. rewrite upd_same.
    rewrite <- L8. apply map_ext_in. intros r Hi. destruct (Hrs r Hi).
    apply (rec_val_ext H1); auto. }
  unfold alloc_a, alloc in E. inversion E; subst H' a; simpl in *.
  rewrite !upd_same. splitn; auto; try congruence.
Qed.

Lemma new_msg_spec o H v H' m :
  new_msg o H v = (H', m) -> wf_heap H ->
  m = nxt (hm H) /\ nxt (hm H') = S m /\ wf_heap H' /\ ext H H' /\ own (hm H') m = o /\
  value H' m = v /\
  reach_recs H' m = seq (nxt (hr H)) (length (mv_an v) + length (mv_ns v) + length (mv_ex v)) /\
  nxt (hr H') = nxt (hr H) + (length (mv_an v) + length (mv_ns v) + length (mv_ex v)) /\
  (forall x, In x (reach_arrs H' m) -> nxt (ha H) <= x) /\
  (forall r, In r (reach_recs H' m) -> nxt (hb H) <= r_data (dat (hr H') r)).
Proof.
  unfold new_msg. intros E W.
  destruct (new_arr o H (mv_an v)) as [H1 an] eqn:E1.
  destruct (new_arr o H1 (mv_ns v)) as [H2 ns] eqn:E2.
  destruct (new_arr o H2 (mv_ex v)) as [H3 ex] eqn:E3.
  destruct (new_arr_spec _ _ _ _ _ E1 W) as (A1 & A2 & A3 & A4 & A5 & A6 & A7 & A8 & A9 & A10).
  destruct (new_arr_spec _ _ _ _ _ E2 A4) as (B1 & B2 & B3 & B4 & B5 & B6 & B7 & B8 & B9 & B10).
  destruct (new_arr_spec _ _ _ _ _ E3 B4) as (C1 & C2 & C3 & C4 & C5 & C6 & C7 & C8 & C9 & C10).
  set (mo := mkmsg (mv_id v) (mv_hdr v) (mv_q v) an ns ex) in *.
  (* the arrays seen from H3 *)
  assert (Pa : forall H' : heap, pool_ext (ha H1) (ha H') -> dat (ha H') an = dat (ha H1) an /\ own (ha H') an = o).
  { intros Hx [[_ O] D]. rewrite D, O by lia. auto. }
  destruct B5 as (B5m & B5a & B5r & B5b). destruct C5 as (C5m & C5a & C5r & C5b).
  assert (B5' : ext H1 H2) by (split4; auto). assert (C5' : ext H2 H3) by (split4; auto).
  assert (X13 : ext H1 H3) by (eapply ext_trans; eauto).
  destruct (Pa H3) as [Dan Oan]; [apply X13|].
  assert (Dns : dat (ha H3) ns = dat (ha H2) ns /\ own (ha H3) ns = o).
  { destruct C5a as [[_ O] D]. rewrite D, O by lia. auto. }
  destruct Dns as [Dns Ons].
  assert (Hs : forall s, sec_arr mo s < nxt (ha H3) /\ own (ha H3) (sec_arr mo s) = o).
  { destruct X13 as (_ & [[L13 _] _] & _). destruct C5a as [[L23 _] _].
    intros []; simpl; split; auto; lia. }
  pose proof (wf_alloc_m o mo H3 C4 Hs) as W4.
  pose proof (ext_alloc_m o mo H3) as X4.
  rewrite E in W4, X4; simpl in W4, X4.
  assert (X : ext H H') by (eapply ext_trans; [exact A5|]; eapply ext_trans; eauto).
  assert (Hm3 : hm H3 = hm H) by congruence.
  assert (Van : arr_val H3 an = mv_an v).
  { rewrite <- A9. apply (arr_val_frame o H1 H3); auto; try lia. apply ext_frame; auto. }
  assert (Vns : arr_val H3 ns = mv_ns v).
  { rewrite <- B9. apply (arr_val_frame o H2 H3); auto; try lia. apply ext_frame; auto. }
  assert (V : value H' m = v /\ reach_recs H' m = dat (ha H3) an ++ dat (ha H3) ns ++ dat (ha H3) ex).
  { unfold alloc_m, alloc in E. injection E as <- <-. unfold value, reach_recs, reach_arrs; simpl.
    rewrite upd_same. simpl. rewrite app_nil_r. split; auto.
    change (arr_val (with_hm H3 {| dat := upd (dat (hm H3)) (nxt (hm H3)) mo; nxt := S (nxt (hm H3));
                                   own := upd (own (hm H3)) (nxt (hm H3)) o |})) with (arr_val H3).
    rewrite Van, Vns, C9. destruct v; reflexivity. }
  destruct V as [V1 V2].
  unfold alloc_m, alloc in E. injection E as <- <-; simpl in *.
  rewrite !upd_same. splitn; auto; try congruence.
  - rewrite V2, Dan, Dns, A7, B7, C7, B8, A8. rewrite <- !seq_app. f_equal. lia.
  - lia.
  - unfold reach_arrs. simpl.
    destruct A5 as (_ & [[La _] _] & _). destruct B5a as [[Lb _] _].
    intros x [<- | [<- | [<- | []]]]; lia.
  - intros r Hr. rewrite V2 in Hr.
    assert (Lb1 : nxt (hb H) <= nxt (hb H1)) by (destruct A5 as (_ & _ & _ & [[L _] _]); auto).
    assert (Lb2 : nxt (hb H1) <= nxt (hb H2)) by (destruct B5b as [[L _] _]; auto).
    destruct A4 as (_ & WA2 & _). destruct B4 as (_ & WB2 & _).
    rewrite !in_app_iff in Hr. destruct Hr as [Hr | [Hr | Hr]].
    + rewrite Dan in Hr. specialize (A10 r Hr). destruct (WA2 an r) as [Lr _]; [lia | auto |].
      destruct X13 as (_ & _ & [_ D] & _). rewrite D by auto. auto.
    + rewrite Dns in Hr. specialize (B10 r Hr). destruct (WB2 ns r) as [Lr _]; [lia | auto |].
      destruct C5r as [_ D]. rewrite D by auto. lia.
    + specialize (C10 r Hr). lia.
Qed.

(** * Copies are "build a new message from the value" *)

Definition keep (skip : bool) (v : rval) : bool := negb (skip && is_opt v).
Definition gen_val (no_opt : bool) (v : mval) : mval :=
  mkmv (mv_id v) (mv_hdr v) (mv_q v) (mv_an v) (mv_ns v) (filter (keep no_opt) (mv_ex v)).

Lemma filter_keep_false l : filter (keep false) l = l.
Proof. induction l; simpl; congruence. Qed.
Lemma gen_val_false v : gen_val false v = v.
Proof. unfold gen_val. rewrite filter_keep_false. destruct v; reflexivity. Qed.
Lemma gen_val_true v : gen_val true v = strip_opt v.
Proof. reflexivity. Qed.

Lemma copy_rec_new o H r : copy_rec o H r = new_rec o H (rec_val H r).
Proof. reflexivity. Qed.

Lemma copy_list_new o skip l : forall H,
  wf_heap H -> (forall r, In r l -> r < nxt (hr H)) ->
  copy_list o skip H l = new_list o H (filter (keep skip) (map (rec_val H) l)).
Proof.
  induction l as [|r t IH]; intros H W Hl; cbn [copy_list map filter]; auto.
  change (r_type (dat (hr H) r) =? type_opt)%N with (is_opt (rec_val H r)).
  unfold keep at 1. destruct (skip && is_opt (rec_val H r)); cbn [negb].
  - apply IH; auto. intros; apply Hl; right; auto.
  - cbn [new_list]. rewrite copy_rec_new.
    destruct (new_rec o H (rec_val H r)) as [H1 r'] eqn:Er.
    destruct (new_rec_spec _ _ _ _ _ Er W) as (R1 & R2 & R3 & R4 & R5 & R6 & R7 & R8).
    rewrite IH; auto.
    + replace (map (rec_val H1) t) with (map (rec_val H) t); auto.
      apply map_ext_in. intros x Hx. symmetry. apply rec_val_ext; auto. apply Hl; right; auto.
    + intros x Hx. rewrite R2. specialize (Hl x (or_intror Hx)). lia.
Qed.

Lemma copy_arr_new o skip H a :
  wf_heap H -> a < nxt (ha H) ->
  copy_arr o skip H a = new_arr o H (filter (keep skip) (arr_val H a)).
Proof.
  intros W Ha. unfold copy_arr, new_arr, arr_val. rewrite copy_list_new; auto.
  intros r Hr. destruct W as (_ & W2 & _). apply (W2 a r Ha Hr).
Qed.

Lemma copy_msg_gen_new o no_opt H m :
  wf_heap H -> m < nxt (hm H) ->
  copy_msg_gen o no_opt H m = new_msg o H (gen_val no_opt (value H m)).
Proof.
  intros W Hm. unfold copy_msg_gen, new_msg, gen_val, value; cbn [mv_id mv_hdr mv_q mv_an mv_ns mv_ex].
  pose proof W as (W1 & _).
  destruct (W1 m An Hm) as [La _], (W1 m Ns Hm) as [Ln _], (W1 m Ex Hm) as [Le _]. simpl in La, Ln, Le.
  set (mo := dat (hm H) m) in *.
  rewrite copy_arr_new, filter_keep_false by auto.
  destruct (new_arr o H (arr_val H (m_an mo))) as [H1 an] eqn:E1.
  destruct (new_arr_spec _ _ _ _ _ E1 W) as (A1 & A2 & A3 & A4 & A5 & A6 & A7 & A8 & A9).
  assert (L1 : nxt (ha H) <= nxt (ha H1)) by (destruct A5 as (_ & [[L _] _] & _); auto).
  rewrite copy_arr_new, filter_keep_false by (auto; lia).
  rewrite (arr_val_frame (own (ha H) (m_ns mo)) H H1) by (auto using ext_frame).
  destruct (new_arr o H1 (arr_val H (m_ns mo))) as [H2 ns] eqn:E2.
  destruct (new_arr_spec _ _ _ _ _ E2 A4) as (B1 & B2 & B3 & B4 & B5 & B6 & B7 & B8 & B9).
  assert (X2 : ext H H2) by (eapply ext_trans; eauto).
  assert (L2 : nxt (ha H) <= nxt (ha H2)) by (destruct X2 as (_ & [[L _] _] & _); auto).
  rewrite copy_arr_new by (auto; lia).
  rewrite (arr_val_frame (own (ha H) (m_ex mo)) H H2) by (auto using ext_frame).
  reflexivity.
Qed.

(** * TTL rewriting in place *)

Lemma NoDup_app_inv {A} (l l' : list A) :
  NoDup (l ++ l') -> NoDup l /\ NoDup l' /\ forall x, In x l -> ~ In x l'.
Proof.
  induction l as [|a l IH]; simpl; intro ND.
  - splitn; auto. constructor.
  - inversion ND as [|? ? Ha ND']; subst. destruct (IH ND') as (N1 & N2 & N3). splitn; auto.
    + constructor; auto. intro; apply Ha; apply in_or_app; auto.
    + intros x [<- | Hx]; auto. intro; apply Ha; apply in_or_app; auto.
Qed.


Definition adj_reco (a : ttl_adj) (ro : reco) : reco :=
  if (r_type ro =? type_opt)%N then ro
  else mkrec (r_name ro) (r_type ro) (adj_ttl a (r_ttl ro)) (r_data ro).

Lemma adjust_rec_eq a H r :
  adjust_rec a H r = put_r r (adj_reco a (dat (hr H) r)) H \/
  (adjust_rec a H r = H /\ adj_reco a (dat (hr H) r) = dat (hr H) r).
Proof.
  unfold adjust_rec, adj_reco. destruct (r_type (dat (hr H) r) =? type_opt)%N; auto.
Qed.

Definition same_shape (H H' : heap) : Prop :=
  hm H' = hm H /\ ha H' = ha H /\ hb H' = hb H /\ nxt (hr H') = nxt (hr H) /\
  own (hr H') = own (hr H) /\ (forall r, r_data (dat (hr H') r) = r_data (dat (hr H) r)).

Lemma same_shape_refl H : same_shape H H.
Proof. unfold same_shape; splitn; auto. Qed.
Lemma same_shape_trans H1 H2 H3 : same_shape H1 H2 -> same_shape H2 H3 -> same_shape H1 H3.
Proof.
  intros (A1 & A2 & A3 & A4 & A5 & A6) (B1 & B2 & B3 & B4 & B5 & B6).
  unfold same_shape; splitn; try congruence.
Qed.

Lemma adjust_rec_shape a H r :
  same_shape H (adjust_rec a H r) /\
  dat (hr (adjust_rec a H r)) r = adj_reco a (dat (hr H) r) /\
  (forall x, x <> r -> dat (hr (adjust_rec a H r)) x = dat (hr H) x).
Proof.
  destruct (adjust_rec_eq a H r) as [E | [E E']]; rewrite E.
  - unfold put_r, same_shape; simpl. splitn.
    + splitn; auto. intro x. upd_case x r; [|reflexivity]. unfold adj_reco. destruct (_ =? _)%N; reflexivity.
    + apply upd_same.
    + intros x Hx. apply upd_other; auto.
  - splitn; auto using same_shape_refl.
Qed.

Lemma adjust_list_spec a l : forall H,
  same_shape H (adjust_list a H l) /\
  (forall r, ~ In r l -> dat (hr (adjust_list a H l)) r = dat (hr H) r) /\
  (NoDup l -> forall r, In r l -> dat (hr (adjust_list a H l)) r = adj_reco a (dat (hr H) r)).
Proof.
  unfold adjust_list. induction l as [|x t IH]; intro H; cbn [fold_left].
  - splitn; auto using same_shape_refl. intros _ r [].
  - destruct (adjust_rec_shape a H x) as (S1 & D1 & D2).
    destruct (IH (adjust_rec a H x)) as (S2 & D3 & D4).
    splitn.
    + eapply same_shape_trans; eauto.
    + intros r Hr. rewrite D3 by (intro; apply Hr; right; auto). apply D2. intro; subst; apply Hr; left; auto.
    + intros ND r Hr. inversion ND as [|? ? Hx ND']; subst.
      destruct Hr as [<- | Hr].
      * rewrite D3 by auto. exact D1.
      * rewrite D4 by auto. rewrite D2; auto. intro; subst; contradiction.
Qed.

Lemma same_shape_wf H H' : same_shape H H' -> wf_heap H -> wf_heap H'.
Proof.
  intros (A1 & A2 & A3 & A4 & A5 & A6) (W1 & W2 & W3). unfold wf_heap.
  rewrite A1, A2, A3, A4, A5. splitn; auto. intros r Hr. rewrite A6. auto.
Qed.

Lemma rec_val_adj a H H' r :
  hb H' = hb H -> dat (hr H') r = adj_reco a (dat (hr H) r) -> rec_val H' r = adjust_rv a (rec_val H r).
Proof.
  intros Eb E. unfold rec_val, adjust_rv. rewrite E, Eb. unfold adj_reco. simpl.
  destruct (r_type (dat (hr H) r) =? type_opt)%N; reflexivity.
Qed.

Lemma adjust_msg_spec a H m :
  wf_heap H -> NoDup (reach_recs H m) ->
  let H' := adjust_msg a H m in
  same_shape H H' /\ wf_heap H' /\ value H' m = adjust_val a (value H m) /\
  (forall r, ~ In r (reach_recs H m) -> dat (hr H') r = dat (hr H) r).
Proof.
  intros W ND. unfold adjust_msg. set (mo := dat (hm H) m).
  unfold reach_recs, reach_arrs in ND. fold mo in ND. cbn [flat_map] in ND. rewrite app_nil_r in ND.
  set (l1 := dat (ha H) (m_an mo)) in *. set (l2 := dat (ha H) (m_ns mo)) in *. set (l3 := dat (ha H) (m_ex mo)) in *.
  destruct (adjust_list_spec a l1 H) as (S1 & N1 & D1). set (H1 := adjust_list a H l1) in *.
  assert (E2 : dat (ha H1) (m_ns mo) = l2) by (destruct S1 as (_ & -> & _); reflexivity). rewrite E2.
  destruct (adjust_list_spec a l2 H1) as (S2 & N2 & D2). set (H2 := adjust_list a H1 l2) in *.
  assert (E3 : dat (ha H2) (m_ex mo) = l3).
  { destruct S2 as (_ & -> & _). destruct S1 as (_ & -> & _). reflexivity. } rewrite E3.
  destruct (adjust_list_spec a l3 H2) as (S3 & N3 & D3). set (H3 := adjust_list a H2 l3) in *.
  assert (S : same_shape H H3) by (eapply same_shape_trans; [|exact S3]; eapply same_shape_trans; eauto).
  destruct (NoDup_app_inv _ _ ND) as (ND1 & ND23 & Q1).
  destruct (NoDup_app_inv _ _ ND23) as (ND2 & ND3 & Q2).
  assert (Dis : forall r, (In r l1 -> ~ In r l2 /\ ~ In r l3) /\ (In r l2 -> ~ In r l3)).
  { intro r. split; [|apply Q2]. intro I1. specialize (Q1 r I1). rewrite in_app_iff in Q1. tauto. }
  clear Q1 Q2.
  assert (R : forall r, In r (l1 ++ l2 ++ l3) -> dat (hr H3) r = adj_reco a (dat (hr H) r)).
  { intros r Hr. rewrite !in_app_iff in Hr. destruct (Dis r) as [Q1 Q2]. destruct Hr as [I | [I | I]].
    - destruct (Q1 I). rewrite N3, N2 by auto. auto.
    - rewrite N3 by auto. rewrite D2 by auto. rewrite N1; auto. intro I1. destruct (Q1 I1); auto.
    - rewrite D3 by auto. rewrite N2, N1; auto.
      + intro I1. destruct (Q1 I1); auto.
      + intro I2. apply (Q2 I2); auto. }
  splitn; auto.
  - eapply same_shape_wf; eauto.
  - pose proof S as (A1 & A2 & A3 & _). unfold value. rewrite A1. fold mo. unfold adjust_val; cbn [mv_id mv_hdr mv_q mv_an mv_ns mv_ex].
    unfold arr_val. rewrite A2. fold l1 l2 l3. rewrite !map_map.
    f_equal; apply map_ext_in; intros r Hr; apply rec_val_adj; auto; apply R; rewrite !in_app_iff; auto.
  - intros r Hr. unfold reach_recs, reach_arrs in Hr. fold mo in Hr. cbn [flat_map] in Hr.
    rewrite app_nil_r in Hr. fold l1 l2 l3 in Hr. rewrite !in_app_iff in Hr.
    rewrite N3, N2, N1; auto.
Qed.

(** * Mutations by a holder stay inside the holder's region *)

Lemma rec_at_wf H m s i r :
  wf_heap H -> m < nxt (hm H) -> rec_at H m s i = Some r ->
  r < nxt (hr H) /\ own (hr H) r = own (hm H) m.
Proof.
  intros (W1 & W2 & W3) Hm E. unfold rec_at in E. apply nth_error_In in E.
  destruct (W1 m s Hm) as [La Oa]. destruct (W2 _ _ La E) as [Lr Or]. split; congruence.
Qed.

Lemma set_nth_In {A} (v : A) l : forall i x, In x (set_nth i v l) -> x = v \/ In x l.
Proof.
  induction l as [|y t IH]; intros [|i] x; simpl; auto.
  - intros [<- | Hx]; auto.
  - intros [<- | Hx]; auto. destruct (IH i x Hx); auto.
Qed.

Lemma del_nth_In {A} (l : list A) : forall i x, In x (del_nth i l) -> In x l.
Proof.
  induction l as [|y t IH]; intros [|i] x; simpl; auto.
  intros [<- | Hx]; eauto.
Qed.

Lemma firstn_In' {A} n (l : list A) x : In x (firstn n l) -> In x l.
Proof. intro Hx. rewrite <- (firstn_skipn n l). apply in_or_app; auto. Qed.

Lemma mutate_ok H m m' mu :
  wf_heap H -> m < nxt (hm H) -> m' < nxt (hm H) -> own (hm H) m' = own (hm H) m ->
  wf_heap (mutate H m m' mu) /\
  forall o', o' <> own (hm H) m -> frame o' H (mutate H m m' mu).
Proof.
  intros W Hm Hm' Oeq. pose proof W as (W1 & W2 & W3).
  assert (Hsec : forall s, sec_arr (dat (hm H) m) s < nxt (ha H) /\
                           own (ha H) (sec_arr (dat (hm H) m) s) = own (hm H) m) by (intro; apply W1; auto).
  destruct mu as [v|v|q|s i v|s i v|s i v|s i j b|s i d|s v|s n|s i|s i h' s' j|s i h' s' j]; cbn [mutate].
  - split; [apply wf_put_m; auto | intros; apply frame_put_m; auto].
  - split; [apply wf_put_m; auto | intros; apply frame_put_m; auto].
  - split; [apply wf_put_m; auto | intros; apply frame_put_m; auto].
  - destruct (rec_at H m s i) as [r|] eqn:E; [|split; auto using frame_refl].
    destruct (rec_at_wf _ _ _ _ _ W Hm E) as [Lr Or]. destruct (W3 r Lr).
    split; [apply wf_put_r; auto | intros; apply frame_put_r; congruence].
  - destruct (rec_at H m s i) as [r|] eqn:E; [|split; auto using frame_refl].
    destruct (rec_at_wf _ _ _ _ _ W Hm E) as [Lr Or]. destruct (W3 r Lr).
    split; [apply wf_put_r; auto | intros; apply frame_put_r; congruence].
  - destruct (rec_at H m s i) as [r|] eqn:E; [|split; auto using frame_refl].
    destruct (rec_at_wf _ _ _ _ _ W Hm E) as [Lr Or]. destruct (W3 r Lr).
    split; [apply wf_put_r; auto | intros; apply frame_put_r; congruence].
  - destruct (rec_at H m s i) as [r|] eqn:E; [|split; auto using frame_refl].
    destruct (rec_at_wf _ _ _ _ _ W Hm E) as [Lr Or]. destruct (W3 r Lr).
    split; [apply wf_put_b; auto | intros; apply frame_put_b; congruence].
  - destruct (rec_at H m s i) as [r|] eqn:E; [|split; auto using frame_refl].
    destruct (rec_at_wf _ _ _ _ _ W Hm E) as [Lr Or].
    pose proof (wf_alloc_b (own (hm H) m) d H W) as Wb.
    pose proof (ext_alloc_b (own (hm H) m) d H) as Xb.
    destruct (alloc_b (own (hm H) m) d H) as [H1 b] eqn:Eb. simpl in Wb, Xb.
    assert (Q : b < nxt (hb H1) /\ own (hb H1) b = own (hm H) m /\ hr H1 = hr H).
    { unfold alloc_b, alloc in Eb. injection Eb as <- <-. simpl. rewrite upd_same. auto. }
    destruct Q as (Q1 & Q2 & Q3).
    split.
    + apply wf_put_r; simpl; [auto | exact Q1 | rewrite Q3; congruence].
    + intros o' Ho. eapply frame_trans; [apply ext_frame; exact Xb|]. apply frame_put_r. rewrite Q3. congruence.
  - destruct (new_rec (own (hm H) m) H v) as [H1 r] eqn:Er.
    destruct (new_rec_spec _ _ _ _ _ Er W) as (R1 & R2 & R3 & R4 & R5 & R6 & R7 & R8).
    destruct (Hsec s) as [La Oa].
    split.
    + apply wf_put_a; auto. intros x Hx. rewrite R4. apply in_app_iff in Hx. destruct Hx as [Hx | [<- | []]].
      * destruct (W2 _ _ La Hx) as [Lx Ox]. destruct R6 as (_ & _ & [[L O] _] & _).
        split; [lia|]. rewrite O; auto.
      * split; [lia | congruence].
    + intros o' Ho. eapply frame_trans; [apply ext_frame; exact R6|]. apply frame_put_a. rewrite R4. congruence.
  - destruct (Hsec s) as [La Oa]. split.
    + apply wf_put_a; auto. intros x Hx. apply firstn_In' in Hx. apply W2; auto.
    + intros; apply frame_put_a. congruence.
  - destruct (Hsec s) as [La Oa]. split.
    + apply wf_put_a; auto. intros x Hx. apply del_nth_In in Hx. apply W2; auto.
    + intros; apply frame_put_a. congruence.
  - destruct (rec_at H m' s' j) as [r'|] eqn:E; [|split; auto using frame_refl].
    destruct (rec_at_wf _ _ _ _ _ W Hm' E) as [Lr Or]. destruct (Hsec s) as [La Oa].
    split.
    + apply wf_put_a; auto. intros x Hx. apply set_nth_In in Hx. destruct Hx as [-> | Hx].
      * split; auto. congruence.
      * apply W2; auto.
    + intros; apply frame_put_a. congruence.
  - destruct (rec_at H m s i) as [r|] eqn:E; [|split; auto using frame_refl].
    destruct (rec_at H m' s' j) as [r'|] eqn:E'; [|split; auto using frame_refl].
    destruct (rec_at_wf _ _ _ _ _ W Hm E) as [Lr Or].
    destruct (rec_at_wf _ _ _ _ _ W Hm' E') as [Lr' Or']. destruct (W3 r' Lr') as [Lb Ob].
    split.
    + apply wf_put_r; auto. simpl. congruence.
    + intros; apply frame_put_r. congruence.
Qed.

(** * The invariant of histories *)

Definition noopt_val (v : mval) : Prop := forall r, In r (mv_ex v) -> is_opt r = false.

Definition inv (s : state) : Prop :=
  wf_heap (hp s) /\
  (forall k c, In (k, c) (cache s) ->
     c < nxt (hm (hp s)) /\ own (hm (hp s)) c = 0 /\ noopt_val (value (hp s) c)) /\
  (forall m, In m (handles s) -> m < nxt (hm (hp s)) /\ own (hm (hp s)) m <> 0).

Lemma inv_init : inv init.
Proof. split; [apply wf_empty|]. split; simpl; intros; contradiction. Qed.

Lemma strip_opt_noopt v : noopt_val (strip_opt v).
Proof.
  unfold noopt_val, strip_opt; simpl. intros r Hr. apply filter_In in Hr as [_ Hr].
  destruct (is_opt r); auto; discriminate.
Qed.

Lemma lookup_In k c v : lookup k c = Some v -> In (k, v) c.
Proof.
  induction c as [|[k' v'] t IH]; simpl; [discriminate|].
  destruct (N.eqb_spec k k'); intro E.
  - injection E as <-. subst. auto.
  - auto.
Qed.

Lemma remove_In k k' v c : In (k', v) (remove k c) -> In (k', v) c.
Proof.
  induction c as [|[k2 v2] t IH]; simpl; auto.
  destruct (k =? k2)%N; simpl; intros; tauto.
Qed.

(** The heap may change as long as region 0 and the shape of the handles are kept. *)
Lemma inv_frame0 s H' sv :
  inv s -> wf_heap H' -> frame 0 (hp s) H' -> inv (mkst H' (cache s) (handles s) sv).
Proof.
  intros (W & IC & IH) W' F. pose proof F as ([[Lm Om] Dm] & _).
  split; [exact W'|]. split; simpl.
  - intros k c Hc. destruct (IC k c Hc) as (L & O & NO). splitn; [lia | rewrite Om; auto |].
    rewrite (value_frame 0 (hp s) H'); auto.
  - intros m Hm. destruct (IH m Hm) as (L & O). split; [lia | rewrite Om; auto].
Qed.

Lemma save_spec k m s :
  inv s -> m < nxt (hm (hp s)) ->
  let v := value (hp s) m in
  let s' := save k m s in
  inv s' /\ ext (hp s) (hp s') /\ handles s' = handles s /\ served s' = served s /\
  ((answers v k && admissible v = true /\
    exists c, cache s' = (k, c) :: cache s /\ value (hp s') c = strip_opt v /\ c = nxt (hm (hp s))) \/
   (answers v k && admissible v = false /\ s' = s)).
Proof.
  intros I Hm v s'. subst s'. unfold save. fold v.
  destruct (answers v k && admissible v) eqn:Ec.
  2:{ splitn; auto using ext_refl. }
  pose proof I as (W & IC & IH).
  unfold copy_no_opt. rewrite copy_msg_gen_new by auto. rewrite gen_val_true. fold v.
  destruct (new_msg 0 (hp s) (strip_opt v)) as [H1 c] eqn:En.
  destruct (new_msg_spec _ _ _ _ _ En W) as (M1 & M2 & M3 & M4 & M5 & M6 & _).
  cbn [hp cache handles served]. splitn; auto.
  - pose proof (inv_frame0 s H1 (served s) I M3 (ext_frame 0 _ _ M4)) as (_ & IC' & IH').
    split; [exact M3|]. split; cbn [hp cache handles].
    + intros k' c' [E | Hc]; [|apply (IC' k' c'); auto]. injection E as <- <-.
      splitn; [lia | auto | rewrite M6; apply strip_opt_noopt].
    + exact IH'.
  - left. split; auto. exists c. auto.
Qed.

Lemma same_shape_ext H0 H1 H2 :
  ext H0 H1 -> same_shape H1 H2 ->
  (forall r, r < nxt (hr H0) -> dat (hr H2) r = dat (hr H1) r) -> ext H0 H2.
Proof.
  intros (X1 & X2 & X3 & X4) (A1 & A2 & A3 & A4 & A5 & A6) D.
  split4; try congruence.
  destruct X3 as [[L O] D3]. split; [split|].
  - lia.
  - intros x Hx. rewrite A5. auto.
  - intros x Hx. rewrite D by auto. auto.
Qed.

Lemma value_put_id H m q :
  let mo := dat (hm H) m in
  value (put_m m (mkmsg q (m_hdr mo) (m_q mo) (m_an mo) (m_ns mo) (m_ex mo)) H) m = set_id q (value H m).
Proof. unfold value, put_m; simpl. rewrite upd_same. reflexivity. Qed.

Definition hit_value (q : N) (a : ttl_adj) (v : mval) : mval := set_id q (adjust_val a v).

Lemma hit_spec s c k q a item :
  inv s -> lookup k (cache s) = Some item ->
  let s' := step s (Hit c k q a) in
  let m := nxt (hm (hp s)) in
  inv s' /\ ext (hp s) (hp s') /\ cache s' = cache s /\
  handles s' = handles s ++ [m] /\ own (hm (hp s')) m = S c /\
  served s' = served s ++ [Some (hit_value q a (value (hp s) item))] /\
  value (hp s') m = hit_value q a (value (hp s) item) /\
  nxt (hm (hp s')) = S m /\
  (forall x, In x (reach_arrs (hp s') m) -> nxt (ha (hp s)) <= x) /\
  (forall x, In x (reach_recs (hp s') m) -> nxt (hr (hp s)) <= x) /\
  (forall x, In x (reach_bufs (hp s') m) -> nxt (hb (hp s)) <= x).
Proof.
  intros I Hl s' m0. subst s' m0. remember (nxt (hm (hp s))) as m eqn:Hm0. cbn [step]. rewrite Hl.
  pose proof I as (W & IC & IH).
  destruct (IC _ _ (lookup_In _ _ _ Hl)) as (Li & Oi & NOi).
  unfold copy_msg. rewrite copy_msg_gen_new, gen_val_false by auto.
  set (vi := value (hp s) item) in *.
  destruct (new_msg (S c) (hp s) vi) as [H1 m1] eqn:En.
  destruct (new_msg_spec _ _ _ _ _ En W) as (M1 & M2 & M3 & M4 & M5 & M6 & M7 & M8 & M9 & M10).
  assert (Em : m1 = m) by congruence. clear M1. subst m1.
  assert (ND : NoDup (reach_recs H1 m)) by (rewrite M7; apply seq_NoDup).
  destruct (adjust_msg_spec a H1 m M3 ND) as (S2 & W2 & V2 & U2).
  set (H2 := adjust_msg a H1 m) in *.
  assert (X2 : ext (hp s) H2).
  { apply (same_shape_ext _ H1); auto. intros r Hr. apply U2. rewrite M7, in_seq. lia. }
  pose proof S2 as (A1 & A2 & A3 & A4 & A5 & A6).
  set (mo := dat (hm H2) m).
  set (H3 := put_m m (mkmsg q (m_hdr mo) (m_q mo) (m_an mo) (m_ns mo) (m_ex mo)) H2).
  assert (X3 : ext (hp s) H3) by (apply ext_put_m_fresh; [auto | lia]).
  assert (Lm2 : m < nxt (hm H2)) by (rewrite A1; lia).
  assert (W3 : wf_heap H3).
  { apply wf_put_m; auto. intro sx. destruct W2 as (W21 & _). destruct (W21 m sx Lm2). destruct sx; auto. }
  assert (V3 : value H3 m = hit_value q a vi).
  { unfold H3, mo. rewrite value_put_id, V2, M6. reflexivity. }
  assert (Om : own (hm H3) m = S c) by (unfold H3, put_m; simpl; rewrite A1; auto).
  (* the reachable objects of the new message *)
  assert (Hmo : dat (hm H3) m = mkmsg q (m_hdr mo) (m_q mo) (m_an mo) (m_ns mo) (m_ex mo))
    by (unfold H3, put_m; simpl; apply upd_same).
  assert (RA : reach_arrs H3 m = reach_arrs H1 m).
  { unfold reach_arrs. rewrite Hmo. simpl. unfold mo. rewrite A1. reflexivity. }
  assert (RR : reach_recs H3 m = reach_recs H1 m).
  { unfold reach_recs. rewrite RA. unfold H3, put_m; simpl. rewrite A2. reflexivity. }
  cbn [hp cache handles served]. fold H3. rewrite V3.
  splitn; auto.
  - pose proof (inv_frame0 s H3 (served s) I W3 (ext_frame 0 _ _ X3)) as (_ & IC' & IH').
    split; [exact W3|]. split; cbn [hp cache handles]; [exact IC'|].
    intros x Hx. apply in_app_iff in Hx. destruct Hx as [Hx | [<- | []]]; [apply IH'; auto|].
    split; [unfold H3, put_m; simpl; lia | rewrite Om; discriminate].
  - unfold H3, put_m; simpl. rewrite A1. auto.
  - intros x Hx. rewrite RA in Hx. auto.
  - intros x Hx. rewrite RR, M7, in_seq in Hx. lia.
  - intros x Hx. unfold reach_bufs in Hx. apply in_map_iff in Hx as (r & <- & Hr).
    rewrite RR in Hr. unfold H3, put_m; simpl. rewrite A6. auto.
Qed.

Lemma store_spec s c k v :
  inv s ->
  let s' := step s (Store c k v) in
  let m := nxt (hm (hp s)) in
  inv s' /\ ext (hp s) (hp s') /\ handles s' = handles s ++ [m] /\ served s' = served s /\
  own (hm (hp s')) m = S c /\ value (hp s') m = v /\
  ((answers v k && admissible v = true /\
    exists i, cache s' = (k, i) :: cache s /\ value (hp s') i = strip_opt v) \/
   (answers v k && admissible v = false /\ cache s' = cache s)).
Proof.
  intros I s' m0. subst s' m0. cbn [step]. pose proof I as (W & IC & IH).
  destruct (new_msg (S c) (hp s) v) as [H1 m] eqn:En.
  destruct (new_msg_spec _ _ _ _ _ En W) as (M1 & M2 & M3 & M4 & M5 & M6 & _).
  set (s1 := mkst H1 (cache s) (handles s ++ [m]) (served s)).
  assert (I1 : inv s1).
  { pose proof (inv_frame0 s H1 (served s) I M3 (ext_frame 0 _ _ M4)) as (_ & IC' & IH').
    split; [exact M3|]. split; cbn [hp cache handles]; [exact IC'|].
    intros x Hx. apply in_app_iff in Hx. destruct Hx as [Hx | [<- | []]]; [apply IH'; auto|].
    unfold s1; simpl. split; [lia | rewrite M5; discriminate]. }
  assert (Lm : m < nxt (hm (hp s1))) by (simpl; lia).
  destruct (save_spec k m s1 I1 Lm) as (J1 & J2 & J3 & J4 & J5).
  change (value (hp s1) m) with (value H1 m) in J5. rewrite M6 in J5.
  assert (X : ext (hp s) (hp (save k m s1))) by (eapply ext_trans; [exact M4 | exact J2]).
  assert (Pm : own (hm (hp (save k m s1))) m = S c /\ value (hp (save k m s1)) m = v).
  { split.
    - destruct J2 as ([[_ O] _] & _). rewrite O by auto. exact M5.
    - rewrite (value_ext H1); auto. }
  destruct Pm as [Pm1 Pm2]. rewrite <- M1.
  splitn; auto.
  destruct J5 as [(E1 & i & E2 & E3 & _) | (E1 & E2)].
  - left. split; auto. exists i. auto.
  - right. split; auto. rewrite E2. reflexivity.
Qed.

Lemma mutate_step_spec s h mu :
  inv s ->
  let s' := step s (Mutate h mu) in
  inv s' /\ cache s' = cache s /\ handles s' = handles s /\ served s' = served s /\
  forall o', o' <> actor s (Mutate h mu) -> frame o' (hp s) (hp s').
Proof.
  intros I s'. subst s'. cbn [step actor]. pose proof I as (W & IC & IH).
  destruct (nth_error (handles s) h) as [m|] eqn:Eh; [|splitn; auto using frame_refl].
  destruct (IH m (nth_error_In _ _ Eh)) as [Lm Om].
  assert (K : forall m', m' < nxt (hm (hp s)) -> own (hm (hp s)) m' = own (hm (hp s)) m ->
          let s' := mkst (mutate (hp s) m m' mu) (cache s) (handles s) (served s) in
          inv s' /\ cache s' = cache s /\ handles s' = handles s /\ served s' = served s /\
          forall o', o' <> owner s m -> frame o' (hp s) (hp s')).
  { intros m' Lm' Oe. destruct (mutate_ok (hp s) m m' mu W Lm Lm' Oe) as [W' F'].
    cbn [hp cache handles served]. splitn; auto.
    apply inv_frame0; auto. }
  destruct (link_src mu) as [h'|].
  - destruct (nth_error (handles s) h') as [m'|] eqn:Eh'; [|splitn; auto using frame_refl].
    destruct (IH m' (nth_error_In _ _ Eh')) as [Lm' Om'].
    destruct (Nat.eqb_spec (own (hm (hp s)) m') (own (hm (hp s)) m)) as [Oe|]; [|splitn; auto using frame_refl].
    apply K; auto.
  - apply K; auto.
Qed.

Lemma lookup_remove k k' c : lookup k' (remove k c) = if (k' =? k)%N then None else lookup k' c.
Proof.
  induction c as [|[k2 v2] t IH]; simpl.
  - destruct (k' =? k)%N; reflexivity.
  - destruct (N.eqb_spec k k2); simpl.
    + subst. rewrite IH. destruct (N.eqb_spec k' k2); auto.
    + rewrite IH. destruct (N.eqb_spec k' k2); auto. subst.
      destruct (N.eqb_spec k2 k); auto. congruence.
Qed.

(** One entry of a dump becomes a message of its own, made of new objects. *)
Lemma load_one_spec s e :
  inv s ->
  let s' := load_one s e in
  let c := nxt (hm (hp s)) in
  inv s' /\ ext (hp s) (hp s') /\ handles s' = handles s /\ served s' = served s /\
  cache s' = (fst e, c) :: cache s /\ value (hp s') c = strip_opt (snd e) /\
  (forall x, In x (reach_arrs (hp s') c) -> nxt (ha (hp s)) <= x) /\
  (forall x, In x (reach_recs (hp s') c) -> nxt (hr (hp s)) <= x) /\
  (forall x, In x (reach_bufs (hp s') c) -> nxt (hb (hp s)) <= x).
Proof.
  intros I s' c0. subst s' c0. unfold load_one. pose proof I as (W & IC & IH).
  destruct (new_msg 0 (hp s) (strip_opt (snd e))) as [H1 c] eqn:En.
  destruct (new_msg_spec _ _ _ _ _ En W) as (M1 & M2 & M3 & M4 & M5 & M6 & M7 & M8 & M9 & M10).
  cbn [hp cache handles served]. rewrite <- M1. splitn; auto.
  - pose proof (inv_frame0 s H1 (served s) I M3 (ext_frame 0 _ _ M4)) as (_ & IC' & IH').
    split; [exact M3|]. split; cbn [hp cache handles].
    + intros k' c' [E | Hc]; [|apply (IC' k' c'); auto]. injection E as <- <-.
      splitn; [lia | auto | rewrite M6; apply strip_opt_noopt].
    + exact IH'.
  - intros x Hx. rewrite M7, in_seq in Hx. lia.
  - intros x Hx. unfold reach_bufs in Hx. apply in_map_iff in Hx as (r & <- & Hr). auto.
Qed.

Lemma load_spec l : forall s,
  inv s ->
  let s' := fold_left load_one l s in
  inv s' /\ ext (hp s) (hp s') /\ handles s' = handles s /\ served s' = served s.
Proof.
  induction l as [|e t IH]; intros s I; cbn [fold_left].
  - splitn; auto using ext_refl.
  - destruct (load_one_spec s e I) as (J1 & J2 & J3 & J4 & _).
    destruct (IH (load_one s e) J1) as (K1 & K2 & K3 & K4).
    splitn; auto; try congruence. eapply ext_trans; eauto.
Qed.

(** Every operation that is not a holder's write only adds objects. *)
Lemma step_ext s o : inv s -> is_mutate o = false -> inv (step s o) /\ ext (hp s) (hp (step s o)).
Proof.
  intros I Hn. destruct o as [c k v|k h|c k q a|h mu|k| | |l]; try discriminate.
  - destruct (store_spec s c k v I) as (J1 & J2 & _). auto.
  - cbn [step]. destruct (nth_error (handles s) h) as [m|] eqn:Eh; [|auto using ext_refl].
    destruct I as (W & IC & IH). destruct (IH m (nth_error_In _ _ Eh)) as [Lm _].
    destruct (save_spec k m s (conj W (conj IC IH)) Lm) as (J1 & J2 & _). auto.
  - destruct (lookup k (cache s)) as [item|] eqn:El.
    + destruct (hit_spec s c k q a item I El) as (J1 & J2 & _). auto.
    + cbn [step]. rewrite El. split; [|apply ext_refl]. destruct I as (W & IC & IH). split; auto.
  - cbn [step]. split; [|apply ext_refl]. destruct I as (W & IC & IH). split; [|split]; auto.
    cbn [cache hp]. intros k' c Hc. apply (IC k' c). eapply remove_In; eauto.
  - cbn [step]. split; [|apply ext_refl]. destruct I as (W & IC & IH). split; [|split]; auto.
    cbn [cache]. intros k' c [].
  - cbn [step]. split; [auto | apply ext_refl].
  - cbn [step]. destruct (load_spec l s I) as (J1 & J2 & _). auto.
Qed.

Lemma step_inv s o : inv s -> inv (step s o).
Proof.
  intro I. destruct (is_mutate o) eqn:E.
  - destruct o; try discriminate. apply mutate_step_spec; auto.
  - apply step_ext; auto.
Qed.

Lemma run_from_inv ops : forall s, inv s -> inv (run_from s ops).
Proof. unfold run_from. induction ops as [|o t IH]; intros s I; simpl; auto. apply IH, step_inv, I. Qed.

Lemma run_inv ops : inv (run ops).
Proof. apply run_from_inv, inv_init. Qed.

Lemma step_frame s o o' : inv s -> o' <> actor s o -> frame o' (hp s) (hp (step s o)).
Proof.
  intros I Ho. destruct (is_mutate o) eqn:E.
  - destruct o; try discriminate. apply mutate_step_spec; auto.
  - apply ext_frame, step_ext; auto.
Qed.

(** * Separation *)

Definition disjoint {A} (l1 l2 : list A) : Prop := forall x, In x l1 -> ~ In x l2.

(** Two messages share no object of any kind. *)
Definition separated (H : heap) (m1 m2 : nat) : Prop :=
  m1 <> m2 /\
  disjoint (reach_arrs H m1) (reach_arrs H m2) /\
  disjoint (reach_recs H m1) (reach_recs H m2) /\
  disjoint (reach_bufs H m1) (reach_bufs H m2).

Lemma reach_region H m :
  wf_heap H -> m < nxt (hm H) ->
  (forall a, In a (reach_arrs H m) -> a < nxt (ha H) /\ own (ha H) a = own (hm H) m) /\
  (forall r, In r (reach_recs H m) -> r < nxt (hr H) /\ own (hr H) r = own (hm H) m) /\
  (forall b, In b (reach_bufs H m) -> b < nxt (hb H) /\ own (hb H) b = own (hm H) m).
Proof.
  intros (W1 & W2 & W3) Hm.
  assert (A : forall a, In a (reach_arrs H m) -> a < nxt (ha H) /\ own (ha H) a = own (hm H) m).
  { unfold reach_arrs. intros a [<- | [<- | [<- | []]]].
    - apply (W1 m An Hm). - apply (W1 m Ns Hm). - apply (W1 m Ex Hm). }
  assert (R : forall r, In r (reach_recs H m) -> r < nxt (hr H) /\ own (hr H) r = own (hm H) m).
  { unfold reach_recs. intros r Hr. apply in_flat_map in Hr as (a & Ha & Hr).
    destruct (A a Ha) as [La Oa]. destruct (W2 a r La Hr). split; congruence. }
  splitn; auto.
  unfold reach_bufs. intros b Hb. apply in_map_iff in Hb as (r & <- & Hr).
  destruct (R r Hr) as [Lr Or]. destruct (W3 r Lr). split; congruence.
Qed.

Lemma regions_separated H m1 m2 :
  wf_heap H -> m1 < nxt (hm H) -> m2 < nxt (hm H) -> own (hm H) m1 <> own (hm H) m2 ->
  separated H m1 m2.
Proof.
  intros W L1 L2 Ne.
  destruct (reach_region H m1 W L1) as (A1 & R1 & B1).
  destruct (reach_region H m2 W L2) as (A2 & R2 & B2).
  unfold separated, disjoint. splitn.
  - intro; subst; auto.
  - intros x I1 I2. destruct (A1 x I1), (A2 x I2). congruence.
  - intros x I1 I2. destruct (R1 x I1), (R2 x I2). congruence.
  - intros x I1 I2. destruct (B1 x I1), (B2 x I2). congruence.
Qed.

Lemma reach_ext H H' m :
  wf_heap H -> ext H H' -> m < nxt (hm H) ->
  reach_arrs H' m = reach_arrs H m /\ reach_recs H' m = reach_recs H m /\ reach_bufs H' m = reach_bufs H m.
Proof.
  intros W X Hm. destruct (reach_region H m W Hm) as (A & R & _).
  destruct X as ([_ Dm] & [_ Da] & [_ Dr] & _).
  assert (EA : reach_arrs H' m = reach_arrs H m) by (unfold reach_arrs; rewrite Dm; auto).
  assert (ER : reach_recs H' m = reach_recs H m).
  { unfold reach_recs. rewrite EA. generalize A. generalize (reach_arrs H m).
    induction l as [|a t IH]; intro Al; simpl; auto.
    rewrite Da by (apply Al; left; auto). rewrite IH; auto. intros; apply Al; right; auto. }
  splitn; auto.
  unfold reach_bufs. rewrite ER. apply map_ext_in. intros r Hr. rewrite Dr; auto. apply R; auto.
Qed.

(** * Theorems about all histories *)

Theorem cache_separated ops k c h :
  let s := run ops in
  In (k, c) (cache s) -> In h (handles s) -> separated (hp s) c h.
Proof.
  intros s Hc Hh. destruct (run_inv ops) as (W & IC & IH). fold s in W, IC, IH.
  destruct (IC k c Hc) as (Lc & Oc & _). destruct (IH h Hh) as (Lh & Oh).
  apply regions_separated; auto. congruence.
Qed.

Theorem clients_separated ops h1 h2 :
  let s := run ops in
  In h1 (handles s) -> In h2 (handles s) -> owner s h1 <> owner s h2 -> separated (hp s) h1 h2.
Proof.
  intros s H1 H2 Ne. destruct (run_inv ops) as (W & IC & IH). fold s in W, IC, IH.
  destruct (IH h1 H1), (IH h2 H2). apply regions_separated; auto.
Qed.

(** A hit hands out a message made of objects that did not exist before. *)
Theorem hit_fresh ops c k q a item :
  let s := run ops in
  lookup k (cache s) = Some item ->
  let s' := step s (Hit c k q a) in
  exists m, handles s' = handles s ++ [m] /\
    (forall h, In h (handles s) -> separated (hp s') m h) /\
    (forall k' c', In (k', c') (cache s') -> separated (hp s') m c').
Proof.
  intros s Hl s'. pose proof (run_inv ops) as I. fold s in I.
  destruct (hit_spec s c k q a item I Hl) as (J1 & J2 & J3 & J4 & J5 & J6 & J7 & J8 & FA & FR & FB).
  fold s' in J1, J2, J3, J4, J5, J6, J7, J8, FA, FR, FB.
  exists (nxt (hm (hp s))). split; auto.
  pose proof I as (W & IC & IH).
  assert (Old : forall x, x < nxt (hm (hp s)) -> separated (hp s') (nxt (hm (hp s))) x).
  { intros x Lx. destruct (reach_ext (hp s) (hp s') x W J2 Lx) as (EA & ER & EB).
    destruct (reach_region (hp s) x W Lx) as (A & R & B).
    unfold separated, disjoint. rewrite EA, ER, EB. splitn.
    - lia.
    - intros y I1 I2. specialize (FA y I1). destruct (A y I2). lia.
    - intros y I1 I2. specialize (FR y I1). destruct (R y I2). lia.
    - intros y I1 I2. specialize (FB y I1). destruct (B y I2). lia. }
  split.
  - intros h Hh. apply Old, IH, Hh.
  - intros k' c' Hc. rewrite J3 in Hc. apply Old. apply (IC k' c' Hc).
Qed.

(** What another client (or the cache) does leaves a client's messages alone. *)
Theorem other_clients_invisible ops o h :
  let s := run ops in
  In h (handles s) -> actor s o <> owner s h ->
  value (hp (step s o)) h = value (hp s) h.
Proof.
  intros s Hh Ne. pose proof (run_inv ops) as I. fold s in I.
  pose proof I as (W & IC & IH). destruct (IH h Hh) as [Lh _].
  apply (value_frame (owner s h)); auto. apply step_frame; auto.
Qed.

(** ** The cache's contents as values *)

Lemma cache_val_frame0 s H' k :
  inv s -> frame 0 (hp s) H' -> option_map (value H') (lookup k (cache s)) = cache_val s k.
Proof.
  intros (W & IC & IH) F. unfold cache_val. destruct (lookup k (cache s)) as [c|] eqn:E; simpl; auto.
  destruct (IC k c (lookup_In _ _ _ E)) as (L & O & _). f_equal. apply (value_frame 0); auto.
Qed.

(** No holder's write changes what the cache would serve. *)
Theorem mutation_keeps_cache ops h mu k :
  let s := run ops in cache_val (step s (Mutate h mu)) k = cache_val s k.
Proof.
  intros s. pose proof (run_inv ops) as I. fold s in I.
  destruct (mutate_step_spec s h mu I) as (J1 & J2 & J3 & J4 & J5).
  unfold cache_val at 1. rewrite J2. apply cache_val_frame0; auto.
  cbn [actor] in J5. destruct (nth_error (handles s) h) as [m|] eqn:E.
  - apply J5. destruct I as (_ & _ & IH). destruct (IH m (nth_error_In _ _ E)). unfold owner. auto.
  - cbn [step]. rewrite E. apply frame_refl.
Qed.

Lemma inv_mutation_keeps_cache s h mu k :
  inv s -> cache_val (step s (Mutate h mu)) k = cache_val s k.
Proof.
  intros I.
  destruct (mutate_step_spec s h mu I) as (J1 & J2 & J3 & J4 & J5).
  unfold cache_val at 1. rewrite J2. apply cache_val_frame0; auto.
  cbn [actor] in J5. destruct (nth_error (handles s) h) as [m|] eqn:E.
  - apply J5. destruct I as (_ & _ & IH). destruct (IH m (nth_error_In _ _ E)). unfold owner. auto.
  - cbn [step]. rewrite E. apply frame_refl.
Qed.

(** A hit returns the cache's value, TTLs rewritten, with the query's id. *)
Theorem hit_serves_cached ops c k q a v :
  let s := run ops in
  cache_val s k = Some v ->
  served (step s (Hit c k q a)) = served s ++ [Some (hit_value q a v)] /\
  (forall k', cache_val (step s (Hit c k q a)) k' = cache_val s k').
Proof.
  intros s Hv. pose proof (run_inv ops) as I. fold s in I.
  unfold cache_val in Hv. destruct (lookup k (cache s)) as [item|] eqn:El; [|discriminate].
  simpl in Hv. injection Hv as <-.
  destruct (hit_spec s c k q a item I El) as (J1 & J2 & J3 & J4 & J5 & J6 & _).
  split; auto. intro k'. unfold cache_val at 1. rewrite J3. apply cache_val_frame0; auto using ext_frame.
Qed.

Theorem miss_serves_nothing ops c k q a :
  let s := run ops in
  cache_val s k = None -> step s (Hit c k q a) = mkst (hp s) (cache s) (handles s) (served s ++ [None]).
Proof.
  intros s Hv. unfold cache_val in Hv. cbn [step]. destruct (lookup k (cache s)); [discriminate | reflexivity].
Qed.

Lemma cache_val_cons s H' k c k' :
  inv s -> frame 0 (hp s) H' ->
  option_map (value H') (lookup k' ((k, c) :: cache s)) =
  if (k' =? k)%N then Some (value H' c) else cache_val s k'.
Proof.
  intros I F. cbn [lookup]. destruct (k' =? k)%N; auto. apply cache_val_frame0; auto.
Qed.

Lemma load_one_cache_val s e k :
  inv s ->
  cache_val (load_one s e) k = if (k =? fst e)%N then Some (strip_opt (snd e)) else cache_val s k.
Proof.
  intro I. destruct (load_one_spec s e I) as (J1 & J2 & J3 & J4 & J5 & J6 & _).
  unfold cache_val at 1. rewrite J5, cache_val_cons by auto using ext_frame. rewrite J6. reflexivity.
Qed.

Lemma load_cache_val l : forall s k,
  inv s -> cache_val (fold_left load_one l s) k = loaded k l (cache_val s k).
Proof.
  unfold loaded. induction l as [|e t IH]; intros s k I; cbn [fold_left]; auto.
  destruct (load_one_spec s e I) as (J1 & _). rewrite IH by auto. rewrite load_one_cache_val by auto. reflexivity.
Qed.

(** Offering the cache a message stores the value it has at that moment,
    without OPT; other keys are not affected. *)
Theorem store_caches_snapshot ops c k v k' :
  let s := run ops in
  cache_val (step s (Store c k v)) k' =
  if (k' =? k)%N && answers v k && admissible v then Some (strip_opt v) else cache_val s k'.
Proof.
  intros s. pose proof (run_inv ops) as I. fold s in I.
  destruct (store_spec s c k v I) as (J1 & J2 & J3 & J4 & J5 & J6 & J7).
  unfold cache_val at 1.
  destruct J7 as [(E1 & i & E2 & E3) | (E1 & E2)].
  - rewrite E2, <- andb_assoc, E1, andb_true_r, cache_val_cons by auto using ext_frame. rewrite E3. reflexivity.
  - rewrite E2, <- andb_assoc, E1, andb_false_r. apply cache_val_frame0; auto using ext_frame.
Qed.

Theorem restore_caches_snapshot ops k h m k' :
  let s := run ops in
  nth_error (handles s) h = Some m ->
  let v := value (hp s) m in
  cache_val (step s (Restore k h)) k' =
  if (k' =? k)%N && answers v k && admissible v then Some (strip_opt v) else cache_val s k'.
Proof.
  intros s Eh v. pose proof (run_inv ops) as I. fold s in I. cbn [step]. rewrite Eh.
  pose proof I as (_ & _ & IH). destruct (IH m (nth_error_In _ _ Eh)) as [Lm _].
  destruct (save_spec k m s I Lm) as (J1 & J2 & J3 & J4 & J5). fold v in J5.
  unfold cache_val at 1.
  destruct J5 as [(E1 & i & E2 & E3 & _) | (E1 & E2)].
  - rewrite E2, <- andb_assoc, E1, andb_true_r, cache_val_cons by auto using ext_frame. rewrite E3. reflexivity.
  - rewrite E2, <- andb_assoc, E1, andb_false_r. reflexivity.
Qed.

Theorem cached_has_no_opt ops k v :
  cache_val (run ops) k = Some v -> forall r, In r (mv_ex v) -> v_type r <> type_opt.
Proof.
  intros Hv r Hr. destruct (run_inv ops) as (W & IC & IH). unfold cache_val in Hv.
  destruct (lookup k (cache (run ops))) as [c|] eqn:E; [|discriminate]. injection Hv as <-.
  destruct (IC k c (lookup_In _ _ _ E)) as (_ & _ & NO). specialize (NO r Hr). unfold is_opt in NO.
  intro Q. rewrite Q in NO. discriminate.
Qed.

Theorem hit_id q a v : mv_id (hit_value q a v) = q.
Proof. reflexivity. Qed.

(** * Mutations are invisible in what the cache serves *)

Definition sim (s1 s2 : state) : Prop :=
  inv s1 /\ inv s2 /\ served s1 = served s2 /\ forall k, cache_val s1 k = cache_val s2 k.

Lemma sim_refl s : inv s -> sim s s.
Proof. intro I. unfold sim; auto. Qed.

Lemma sim_mutate s1 s2 h mu : sim s1 s2 -> sim (step s1 (Mutate h mu)) s2.
Proof.
  intros (I1 & I2 & Sv & Cv). destruct (mutate_step_spec s1 h mu I1) as (J1 & J2 & J3 & J4 & _).
  unfold sim; splitn; auto; try congruence.
  intro k. rewrite inv_mutation_keeps_cache; auto.
Qed.

Lemma inv_store_cache_val s c k v k' :
  inv s ->
  cache_val (step s (Store c k v)) k' =
  if (k' =? k)%N && answers v k && admissible v then Some (strip_opt v) else cache_val s k'.
Proof.
  intros I.
  destruct (store_spec s c k v I) as (J1 & J2 & J3 & J4 & J5 & J6 & J7).
  unfold cache_val at 1.
  destruct J7 as [(E1 & i & E2 & E3) | (E1 & E2)].
  - rewrite E2, <- andb_assoc, E1, andb_true_r, cache_val_cons by auto using ext_frame. rewrite E3. reflexivity.
  - rewrite E2, <- andb_assoc, E1, andb_false_r. apply cache_val_frame0; auto using ext_frame.
Qed.

Lemma inv_hit_served s c k q a :
  inv s ->
  served (step s (Hit c k q a)) = served s ++ [option_map (hit_value q a) (cache_val s k)] /\
  forall k', cache_val (step s (Hit c k q a)) k' = cache_val s k'.
Proof.
  intros I. unfold cache_val at 1. destruct (lookup k (cache s)) as [item|] eqn:El.
  - destruct (hit_spec s c k q a item I El) as (J1 & J2 & J3 & J4 & J5 & J6 & _).
    split; auto. intro k'. unfold cache_val at 1. rewrite J3. apply cache_val_frame0; auto using ext_frame.
  - cbn [step]. rewrite El. split; reflexivity.
Qed.

Lemma sim_step s1 s2 o :
  sim s1 s2 -> is_mutate o = false -> is_restore o = false -> sim (step s1 o) (step s2 o).
Proof.
  intros (I1 & I2 & Sv & Cv) Hm Hr.
  assert (K1 := step_inv s1 o I1). assert (K2 := step_inv s2 o I2).
  unfold sim. split; [auto|]. split; [auto|].
  destruct o as [c k v|k h|c k q a|h mu|k| | |l]; try discriminate.
  - destruct (store_spec s1 c k v I1) as (_ & _ & _ & A4 & _).
    destruct (store_spec s2 c k v I2) as (_ & _ & _ & B4 & _).
    split; [congruence|]. intro k'. rewrite !inv_store_cache_val by auto. rewrite Cv. reflexivity.
  - destruct (inv_hit_served s1 c k q a I1) as [A1 A2].
    destruct (inv_hit_served s2 c k q a I2) as [B1 B2].
    split; [rewrite A1, B1, Sv, Cv; reflexivity|]. intro k'. rewrite A2, B2. apply Cv.
  - cbn [step]. split; auto. intro k'. unfold cache_val; cbn [hp cache]. rewrite !lookup_remove.
    destruct (k' =? k)%N; auto. apply Cv.
  - cbn [step]. split; auto.
  - cbn [step]. split; auto.
  - cbn [step]. destruct (load_spec l s1 I1) as (_ & _ & _ & A4). destruct (load_spec l s2 I2) as (_ & _ & _ & B4).
    split; [congruence|]. intro k'. rewrite !load_cache_val by auto. rewrite Cv. reflexivity.
Qed.

Definition no_restore (ops : list op) : Prop := forallb (fun o => negb (is_restore o)) ops = true.

Lemma sim_run ops : forall s1 s2,
  sim s1 s2 -> no_restore ops -> sim (run_from s1 ops) (run_from s2 (erase_mutations ops)).
Proof.
  unfold run_from, no_restore. induction ops as [|o t IH]; intros s1 s2 S NR; simpl in *; auto.
  apply andb_true_iff in NR as [NR1 NR2].
  destruct (is_mutate o) eqn:Em; simpl.
  - destruct o; try discriminate. apply IH; auto. apply sim_mutate; auto.
  - apply IH; auto. apply sim_step; auto. destruct (is_restore o); auto; discriminate.
Qed.

(** Starting anywhere in a history, the values returned by the lookups of a
    continuation are the same with and without the holders' writes. *)
Theorem mutations_invisible_from pre ops :
  no_restore ops ->
  served (run_from (run pre) ops) = served (run_from (run pre) (erase_mutations ops)).
Proof. intro NR. apply (sim_run ops (run pre) (run pre)); auto. apply sim_refl, run_inv. Qed.

Theorem mutations_invisible ops :
  no_restore ops -> served (run ops) = served (run (erase_mutations ops)).
Proof. intro NR. apply (sim_run ops init init); auto. apply sim_refl, inv_init. Qed.

(** * The cache's own dump and load *)

Lemma run_snoc ops o : run (ops ++ [o]) = step (run ops) o.
Proof. unfold run, run_from. rewrite fold_left_app. reflexivity. Qed.

(** Writing a dump changes nothing: not the heap, not the cache, so every
    later lookup returns what it would have returned without the dump. *)
Theorem dump_preserves_store ops : step (run ops) Dump = run ops.
Proof. reflexivity. Qed.

Theorem dump_invisible ops rest : run_from (run ops) (Dump :: rest) = run_from (run ops) rest.
Proof. reflexivity. Qed.

(** After a load every key of the dump holds the value of its own (last) entry;
    the other keys are not affected; nothing any caller holds changes. *)
Theorem load_caches_values ops l k :
  let s := run ops in
  cache_val (step s (Load l)) k = loaded k l (cache_val s k) /\
  handles (step s (Load l)) = handles s /\ served (step s (Load l)) = served s /\
  (forall h, In h (handles s) -> value (hp (step s (Load l))) h = value (hp s) h).
Proof.
  intros s. pose proof (run_inv ops) as I. fold s in I. cbn [step].
  destruct (load_spec l s I) as (J1 & J2 & J3 & J4). splitn; auto.
  - apply load_cache_val; auto.
  - intros h Hh. destruct I as (W & _ & IH). apply value_ext; auto. apply IH; auto.
Qed.

Lemma load_snoc s l e : step s (Load (l ++ [e])) = load_one (step s (Load l)) e.
Proof. cbn [step]. rewrite fold_left_app. reflexivity. Qed.

(** Every item a load creates is a message of its own: it shares no object
    with any item that existed before, with any item created earlier by the
    same load, or with any message a caller holds. *)
Theorem load_items_disjoint ops l e :
  let s := step (run ops) (Load l) in
  let s' := step (run ops) (Load (l ++ [e])) in
  exists c, cache s' = (fst e, c) :: cache s /\ value (hp s') c = strip_opt (snd e) /\
    (forall k' c', In (k', c') (cache s) -> separated (hp s') c c') /\
    (forall h, In h (handles s) -> separated (hp s') c h).
Proof.
  intros s s'. subst s'. rewrite load_snoc. fold s.
  assert (I : inv s) by (unfold s; rewrite <- run_snoc; apply run_inv).
  destruct (load_one_spec s e I) as (J1 & J2 & J3 & J4 & J5 & J6 & FA & FR & FB).
  exists (nxt (hm (hp s))). split; [auto|]. split; [auto|].
  pose proof I as (W & IC & IH).
  assert (Old : forall x, x < nxt (hm (hp s)) -> separated (hp (load_one s e)) (nxt (hm (hp s))) x).
  { intros x Lx. destruct (reach_ext (hp s) (hp (load_one s e)) x W J2 Lx) as (EA & ER & EB).
    destruct (reach_region (hp s) x W Lx) as (A & R & B).
    unfold separated, disjoint. rewrite EA, ER, EB. splitn.
    - lia.
    - intros y I1 I2. specialize (FA y I1). destruct (A y I2). lia.
    - intros y I1 I2. specialize (FR y I1). destruct (R y I2). lia.
    - intros y I1 I2. specialize (FB y I1). destruct (B y I2). lia. }
  split.
  - intros k' c' Hc. apply Old. apply (IC k' c' Hc).
  - intros h Hh. apply Old, IH, Hh.
Qed.

Lemma strip_opt_id v : noopt_val v -> strip_opt v = v.
Proof.
  unfold noopt_val, strip_opt. intro NO. destruct v as [i h q an ns ex]; simpl in *. f_equal.
  induction ex as [|r t IHt]; simpl; auto.
  rewrite (NO r) by (left; auto). simpl. f_equal. apply IHt. intros x Hx. apply NO. right; auto.
Qed.

Lemma loaded_dump_other k keys : forall (f : N -> option mval) old,
  ~ In k keys ->
  loaded k (flat_map (fun k0 => match f k0 with Some v => [(k0, v)] | None => [] end) keys) old = old.
Proof.
  unfold loaded. induction keys as [|a t IH]; intros f old Hn; simpl; auto.
  destruct (f a) as [v|]; simpl.
  - destruct (N.eqb_spec k a); [subst; exfalso; apply Hn; left; auto|]. apply IH. intro; apply Hn; right; auto.
  - apply IH. intro; apply Hn; right; auto.
Qed.

(** Round trip: whatever happened in between (writes to any message, stores,
    removals, /flush), loading a dump gives back, for every key that was in
    it, exactly the value it held when the dump was written. *)
Theorem dump_load_roundtrip ops mid keys k v :
  NoDup keys -> In k keys ->
  cache_val (run ops) k = Some v ->
  cache_val (step (run_from (run ops) mid) (Load (dump_of (run ops) keys))) k = Some v.
Proof.
  intros ND Hk Hv.
  assert (I0 : inv (run ops)) by apply run_inv.
  assert (I : inv (run_from (run ops) mid)) by (apply run_from_inv; auto).
  cbn [step]. rewrite load_cache_val by auto.
  assert (NO : strip_opt v = v).
  { apply strip_opt_id. unfold cache_val in Hv. destruct (lookup k (cache (run ops))) as [c|] eqn:E; [|discriminate].
    injection Hv as <-. destruct I0 as (_ & IC & _). apply (IC k c (lookup_In _ _ _ E)). }
  generalize (cache_val (run_from (run ops) mid) k). unfold dump_of.
  induction keys as [|a t IH]; [contradiction|]. intro old. inversion ND as [|? ? Ha ND']; subst.
  cbn [flat_map]. destruct Hk as [-> | Hk].
  - rewrite Hv. unfold loaded. cbn [app fold_left fst snd]. rewrite N.eqb_refl.
    fold (loaded k (flat_map (fun k0 => match cache_val (run ops) k0 with Some v0 => [(k0, v0)] | None => [] end) t)
                 (Some (strip_opt v))).
    rewrite loaded_dump_other by auto. congruence.
  - destruct (cache_val (run ops) a) as [va|]; [|apply IH; auto].
    unfold loaded. cbn [app fold_left]. apply IH; auto.
Qed.
