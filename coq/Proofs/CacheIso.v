(** C10 — proofs about the aliasing model Model/CacheIso.v. *)
From Verif Require Import Base.Prelude Gen.Constants Model.CacheIso.
From Coq Require Import Arith PeanoNat.
Local Open Scope nat_scope.

(** * Pools *)

Lemma upd_same {A} (f : nat -> A) k v : upd f k v k = v.
Proof. unfold upd. now rewrite Nat.eqb_refl. Qed.
Lemma upd_other {A} (f : nat -> A) k v x : x <> k -> upd f k v x = f x.
Proof. unfold upd. intro N. destruct (Nat.eqb_spec x k); [contradiction | reflexivity]. Qed.

(** [p'] has everything [p] had, with the same owners. *)
Definition pool_le {A} (p p' : pool A) : Prop :=
  nxt p <= nxt p' /\ forall x, x < nxt p -> own p' x = own p x.
(** ... and the same contents. *)
Definition pool_ext {A} (p p' : pool A) : Prop :=
  pool_le p p' /\ forall x, x < nxt p -> dat p' x = dat p x.
(** ... the same contents for the objects of region [o]. *)
Definition pool_frame {A} (o : nat) (p p' : pool A) : Prop :=
  pool_le p p' /\ forall x, x < nxt p -> own p x = o -> dat p' x = dat p x.

Lemma pool_le_refl {A} (p : pool A) : pool_le p p.
Proof. split; auto. Qed.
Lemma pool_le_trans {A} (p q r : pool A) : pool_le p q -> pool_le q r -> pool_le p r.
Proof.
  intros [L1 O1] [L2 O2]. split; [lia|]. intros x Hx. rewrite O2 by lia. auto.
Qed.
Lemma pool_ext_refl {A} (p : pool A) : pool_ext p p.
Proof. split; [apply pool_le_refl | auto]. Qed.
Lemma pool_ext_trans {A} (p q r : pool A) : pool_ext p q -> pool_ext q r -> pool_ext p r.
Proof.
  intros [L1 D1] [L2 D2]. split; [eapply pool_le_trans; eauto|].
  intros x Hx. destruct L1 as [L1 _]. rewrite D2 by lia. auto.
Qed.
Lemma pool_frame_trans {A} o (p q r : pool A) : pool_frame o p q -> pool_frame o q r -> pool_frame o p r.
Proof.
  intros [L1 D1] [L2 D2]. split; [eapply pool_le_trans; eauto|].
  intros x Hx Ho. destruct L1 as [L1 O1]. rewrite D2; [auto | lia | rewrite O1; auto].
Qed.
Lemma pool_ext_frame {A} o (p q : pool A) : pool_ext p q -> pool_frame o p q.
Proof. intros [L D]. split; auto. Qed.

Lemma pool_ext_alloc {A} o (v : A) p : pool_ext p (fst (alloc o v p)).
Proof.
  unfold alloc; simpl. split; [split|]; simpl; [lia| |]; intros x Hx; apply upd_other; lia.
Qed.
Lemma pool_frame_put {A} o k (v : A) p : own p k <> o -> pool_frame o p (put k v p).
Proof.
  intro N. unfold put. split; [split|]; simpl; auto.
  intros x Hx Ho. apply upd_other. intro; subst; contradiction.
Qed.
(** A write to an object that did not exist in [p0] keeps [p0]'s objects. *)
Lemma pool_ext_put_fresh {A} (p0 p : pool A) k v : pool_ext p0 p -> nxt p0 <= k -> pool_ext p0 (put k v p).
Proof.
  intros [[L O] D] Hk. unfold put. split; [split|]; simpl; auto.
  intros x Hx. rewrite upd_other by lia. auto.
Qed.

(** * Heaps *)

Definition ext (H H' : heap) : Prop :=
  pool_ext (hm H) (hm H') /\ pool_ext (ha H) (ha H') /\ pool_ext (hr H) (hr H') /\ pool_ext (hb H) (hb H').
Definition frame (o : nat) (H H' : heap) : Prop :=
  pool_frame o (hm H) (hm H') /\ pool_frame o (ha H) (ha H') /\ pool_frame o (hr H) (hr H') /\ pool_frame o (hb H) (hb H').

Ltac split4 := split; [|split; [|split]].

Lemma ext_refl H : ext H H.
Proof. split4; apply pool_ext_refl. Qed.
Lemma ext_trans H1 H2 H3 : ext H1 H2 -> ext H2 H3 -> ext H1 H3.
Proof.
  intros (A1 & A2 & A3 & A4) (B1 & B2 & B3 & B4).
  split4; eapply pool_ext_trans; eauto.
Qed.
Lemma frame_trans o H1 H2 H3 : frame o H1 H2 -> frame o H2 H3 -> frame o H1 H3.
Proof.
  intros (A1 & A2 & A3 & A4) (B1 & B2 & B3 & B4).
  split4; eapply pool_frame_trans; eauto.
Qed.
Lemma ext_frame o H H' : ext H H' -> frame o H H'.
Proof. intros (A1 & A2 & A3 & A4). split4; apply pool_ext_frame; auto. Qed.
Lemma frame_refl o H : frame o H H.
Proof. apply ext_frame, ext_refl. Qed.

Lemma ext_alloc_m o v H : ext H (fst (alloc_m o v H)).
Proof. unfold alloc_m; simpl. split4; simpl; try apply pool_ext_refl. apply (pool_ext_alloc o v (hm H)). Qed.
Lemma ext_alloc_a o v H : ext H (fst (alloc_a o v H)).
Proof. unfold alloc_a; simpl. split4; simpl; try apply pool_ext_refl. apply (pool_ext_alloc o v (ha H)). Qed.
Lemma ext_alloc_r o v H : ext H (fst (alloc_r o v H)).
Proof. unfold alloc_r; simpl. split4; simpl; try apply pool_ext_refl. apply (pool_ext_alloc o v (hr H)). Qed.
Lemma ext_alloc_b o v H : ext H (fst (alloc_b o v H)).
Proof. unfold alloc_b; simpl. split4; simpl; try apply pool_ext_refl. apply (pool_ext_alloc o v (hb H)). Qed.

Lemma frame_put_m o k v H : own (hm H) k <> o -> frame o H (put_m k v H).
Proof. intro N. unfold put_m. split4; simpl; try apply pool_ext_frame, pool_ext_refl. now apply pool_frame_put. Qed.
Lemma frame_put_a o k v H : own (ha H) k <> o -> frame o H (put_a k v H).
Proof. intro N. unfold put_a. split4; simpl; try apply pool_ext_frame, pool_ext_refl. now apply pool_frame_put. Qed.
Lemma frame_put_r o k v H : own (hr H) k <> o -> frame o H (put_r k v H).
Proof. intro N. unfold put_r. split4; simpl; try apply pool_ext_frame, pool_ext_refl. now apply pool_frame_put. Qed.
Lemma frame_put_b o k v H : own (hb H) k <> o -> frame o H (put_b k v H).
Proof. intro N. unfold put_b. split4; simpl; try apply pool_ext_frame, pool_ext_refl. now apply pool_frame_put. Qed.

Lemma ext_put_r_fresh H0 H k v : ext H0 H -> nxt (hr H0) <= k -> ext H0 (put_r k v H).
Proof. intros (A1 & A2 & A3 & A4) Hk. unfold put_r. split4; simpl; auto. now apply pool_ext_put_fresh. Qed.
Lemma ext_put_m_fresh H0 H k v : ext H0 H -> nxt (hm H0) <= k -> ext H0 (put_m k v H).
Proof. intros (A1 & A2 & A3 & A4) Hk. unfold put_m. split4; simpl; auto. now apply pool_ext_put_fresh. Qed.

(** * Well-formed heaps: references stay inside the allocated part and inside
    the region of the object that holds them *)

Definition wf_heap (H : heap) : Prop :=
  (forall m s, m < nxt (hm H) ->
     sec_arr (dat (hm H) m) s < nxt (ha H) /\ own (ha H) (sec_arr (dat (hm H) m) s) = own (hm H) m) /\
  (forall a r, a < nxt (ha H) -> In r (dat (ha H) a) ->
     r < nxt (hr H) /\ own (hr H) r = own (ha H) a) /\
  (forall r, r < nxt (hr H) ->
     r_data (dat (hr H) r) < nxt (hb H) /\ own (hb H) (r_data (dat (hr H) r)) = own (hr H) r).

Lemma wf_empty : wf_heap empty_heap.
Proof. repeat split; simpl in *; lia. Qed.

Ltac upd_case x k := destruct (Nat.eq_dec x k); [subst; rewrite ?upd_same | rewrite ?upd_other by assumption].

Lemma wf_alloc_b o d H : wf_heap H -> wf_heap (fst (alloc_b o d H)).
Proof.
  intros (W1 & W2 & W3). unfold alloc_b; simpl. split; [|split]; simpl.
  - exact W1.
  - exact W2.
  - intros r Hr. destruct (W3 r Hr) as [L E]. split; [lia|]. rewrite upd_other by lia. auto.
Qed.

Lemma wf_alloc_r o ro H :
  wf_heap H -> r_data ro < nxt (hb H) -> own (hb H) (r_data ro) = o -> wf_heap (fst (alloc_r o ro H)).
Proof.
  intros (W1 & W2 & W3) Hd Ho. unfold alloc_r; simpl. split; [|split]; simpl.
  - exact W1.
  - intros a r Ha Hi. destruct (W2 a r Ha Hi) as [L E]. split; [lia|]. rewrite upd_other by lia. auto.
  - intros r Hr. upd_case r (nxt (hr H)).
    + auto.
    + apply W3. lia.
Qed.

Lemma wf_alloc_a o l H :
  wf_heap H -> (forall r, In r l -> r < nxt (hr H) /\ own (hr H) r = o) -> wf_heap (fst (alloc_a o l H)).
Proof.
  intros (W1 & W2 & W3) Hl. unfold alloc_a; simpl. split; [|split]; simpl.
  - intros m s Hm. destruct (W1 m s Hm) as [L E]. split; [lia|]. rewrite upd_other by lia. auto.
  - intros a r Ha. upd_case a (nxt (ha H)).
    + intro Hi. apply Hl; auto.
    + apply W2. lia.
  - exact W3.
Qed.

Lemma wf_alloc_m o mo H :
  wf_heap H -> (forall s, sec_arr mo s < nxt (ha H) /\ own (ha H) (sec_arr mo s) = o) ->
  wf_heap (fst (alloc_m o mo H)).
Proof.
  intros (W1 & W2 & W3) Hs. unfold alloc_m; simpl. split; [|split]; simpl; auto.
  intros m s Hm. upd_case m (nxt (hm H)).
  - apply Hs.
  - apply W1. lia.
Qed.

Lemma wf_put_b k d H : wf_heap H -> wf_heap (put_b k d H).
Proof. intros (W1 & W2 & W3). unfold put_b. split; [|split]; simpl; auto. Qed.

Lemma wf_put_r k ro H :
  wf_heap H -> r_data ro < nxt (hb H) -> own (hb H) (r_data ro) = own (hr H) k -> wf_heap (put_r k ro H).
Proof.
  intros (W1 & W2 & W3) Hd Ho. unfold put_r. split; [|split]; simpl; auto.
  intros r Hr. upd_case r k; auto.
Qed.

Lemma wf_put_a k l H :
  wf_heap H -> (forall r, In r l -> r < nxt (hr H) /\ own (hr H) r = own (ha H) k) -> wf_heap (put_a k l H).
Proof.
  intros (W1 & W2 & W3) Hl. unfold put_a. split; [|split]; simpl; auto.
  intros a r Ha. upd_case a k; auto.
Qed.

Lemma wf_put_m k mo H :
  wf_heap H -> (forall s, sec_arr mo s < nxt (ha H) /\ own (ha H) (sec_arr mo s) = own (hm H) k) ->
  wf_heap (put_m k mo H).
Proof.
  intros (W1 & W2 & W3) Hs. unfold put_m. split; [|split]; simpl; auto.
  intros m s Hm. upd_case m k; auto.
Qed.

(** * Values only depend on the region of the message *)

Lemma rec_val_frame o H H' r :
  wf_heap H -> frame o H H' -> r < nxt (hr H) -> own (hr H) r = o -> rec_val H' r = rec_val H r.
Proof.
  intros (W1 & W2 & W3) (F1 & F2 & F3 & F4) Hr Ho. unfold rec_val.
  destruct F3 as [_ D3]. rewrite (D3 r Hr Ho).
  destruct (W3 r Hr) as [Lb Eb]. destruct F4 as [_ D4]. rewrite D4; [reflexivity | exact Lb | congruence].
Qed.

Lemma arr_val_frame o H H' a :
  wf_heap H -> frame o H H' -> a < nxt (ha H) -> own (ha H) a = o -> arr_val H' a = arr_val H a.
Proof.
  intros W F Ha Ho. unfold arr_val.
  pose proof F as (F1 & F2 & F3 & F4). destruct F2 as [_ D2]. rewrite (D2 a Ha Ho).
  apply map_ext_in. intros r Hi. pose proof W as (W1 & W2 & W3). destruct (W2 a r Ha Hi) as [L E].
  apply (rec_val_frame o); auto. congruence.
Qed.

Lemma value_frame o H H' m :
  wf_heap H -> frame o H H' -> m < nxt (hm H) -> own (hm H) m = o -> value H' m = value H m.
Proof.
  intros W F Hm Ho. unfold value.
  pose proof F as (F1 & _). destruct F1 as [_ D1]. rewrite (D1 m Hm Ho).
  pose proof W as (W1 & _).
  destruct (W1 m An Hm) as [L1 E1], (W1 m Ns Hm) as [L2 E2], (W1 m Ex Hm) as [L3 E3]. simpl in *.
  rewrite !(arr_val_frame o H H') by (auto; congruence). reflexivity.
Qed.

Lemma value_ext H H' m : wf_heap H -> ext H H' -> m < nxt (hm H) -> value H' m = value H m.
Proof. intros W E Hm. eapply value_frame; eauto. apply ext_frame; eauto. Qed.
