(** C04 — proofs about Model/CacheKey.v. *)
From Verif Require Import Base.Prelude Gen.Constants Model.CacheKey.
From Coq Require Import ZifyN ZifyNat ZifyBool.
Open Scope N_scope.

Ltac Zify.zify_post_hook ::= Z.div_mod_to_equations.

(** * Vocabulary of the statements *)

(** Qtype and Qclass are uint16 in dns.Question. *)
Definition wf_question (qu : question) : Prop := qtype qu < 65536 /\ qclass qu < 65536.
Definition wf_qmsg (q : qmsg) : Prop := Forall wf_question (q_question q).
Definition wf_op (o : op) : Prop :=
  match o with Query q _ _ => wf_qmsg q | _ => True end.

(** Same question (name byte for byte, type, class) and same AD, CD, DO. *)
Definition same_question_and_flags (q1 q2 : qmsg) : Prop :=
  (exists qu1 qu2, q_question q1 = [qu1] /\ q_question q2 = [qu2] /\
     qname qu1 = qname qu2 /\ qtype qu1 = qtype qu2 /\ qclass qu1 = qclass qu2) /\
  q_ad q1 = q_ad q2 /\ q_cd q1 = q_cd q2 /\ msg_do q1 = msg_do q2.

(** * Bytes *)

Lemma u16_bytes_inj t1 t2 :
  t1 < 65536 -> t2 < 65536 ->
  u8 (t1 / 256) = u8 (t2 / 256) -> u8 t1 = u8 t2 -> t1 = t2.
Proof. unfold u8. intros H1 H2 Hh Hl. lia. Qed.

Lemma flag_byte_inj a c d a' c' d' :
  flag_byte a c d = flag_byte a' c' d' -> a = a' /\ c = c' /\ d = d'.
Proof.
  destruct a, c, d, a', c', d'; intro H; vm_compute in H;
    try discriminate H; repeat split; reflexivity.
Qed.

Lemma eqb_bytes_iff (a b : bytes) : list_eqb N.eqb a b = true <-> a = b.
Proof. apply list_eqb_spec. intros x y. apply N.eqb_eq. Qed.

Lemma eqb_bytes_refl (a : bytes) : list_eqb N.eqb a a = true.
Proof. apply eqb_bytes_iff. reflexivity. Qed.

Lemma question_eqb_iff a b : question_eqb a b = true <-> a = b.
Proof.
  unfold question_eqb. destruct a as [n1 t1 c1], b as [n2 t2 c2]; cbn [qname qtype qclass].
  rewrite !andb_true_iff, eqb_bytes_iff, !N.eqb_eq. split.
  - intros [[-> ->] ->]. reflexivity.
  - intro E. injection E as -> -> ->. auto.
Qed.

(** * The key is injective *)

(** The six leading bytes have a fixed width, so the name is exactly what
    follows them: the length byte is redundant and its wrap-around at 256 can
    not make two different names (of whatever lengths) collide. *)
Lemma key_of_inj a c d a' c' d' qu1 qu2 :
  wf_question qu1 -> wf_question qu2 ->
  key_of a c d qu1 = key_of a' c' d' qu2 ->
  a = a' /\ c = c' /\ d = d' /\
  qname qu1 = qname qu2 /\ qtype qu1 = qtype qu2 /\ qclass qu1 = qclass qu2.
Proof.
  intros [Ht1 Hc1] [Ht2 Hc2] E. unfold key_of in E.
  injection E as Ef Eth Etl Ech Ecl _ En.
  apply flag_byte_inj in Ef. destruct Ef as (-> & -> & ->).
  repeat split; try assumption.
  - apply u16_bytes_inj; assumption.
  - apply u16_bytes_inj; assumption.
Qed.

Lemma key_of_not_nil a c d qu : key_of a c d qu <> [].
Proof. unfold key_of. discriminate. Qed.

(** What a non-empty key tells about the message. *)
Lemma msg_key_some q k :
  msg_key q = Some k ->
  q_qr q = false /\ q_opcode q = 0 /\
  exists qu, q_question q = [qu] /\ k = key_of (q_ad q) (q_cd q) (msg_do q) qu.
Proof.
  unfold msg_key, get_msg_key, opcode_query.
  destruct (q_qr q) eqn:Eqr; cbn [orb]; [discriminate|].
  destruct (q_opcode q =? 0) eqn:Eop; cbn [negb orb]; [|discriminate].
  destruct (q_question q) as [|qu [|qu' t]] eqn:Eq; cbn [length Nat.eqb negb]; try discriminate.
  intro H. apply N.eqb_eq in Eop.
  split; [reflexivity|]. split; [assumption|]. exists qu. split; [reflexivity|].
  unfold key_of in *. injection H as <-. reflexivity.
Qed.

Lemma msg_key_of_single q qu :
  q_qr q = false -> q_opcode q = 0 -> q_question q = [qu] ->
  msg_key q = Some (key_of (q_ad q) (q_cd q) (msg_do q) qu).
Proof.
  intros Eqr Eop Eq. unfold msg_key, get_msg_key, opcode_query.
  rewrite Eqr, Eop, Eq. reflexivity.
Qed.

(** Bypass characterisation: the key is empty exactly for QR set, an opcode
    other than QUERY, or a question count other than one. *)
Lemma msg_key_none_iff q : msg_key q = None <-> bypasses q = true.
Proof.
  unfold msg_key, get_msg_key, bypasses, opcode_query.
  destruct (q_qr q); cbn [orb]; [tauto|].
  destruct (q_opcode q =? 0); cbn [negb orb]; [|tauto].
  destruct (q_question q) as [|qu [|qu' t]]; cbn [length Nat.eqb negb]; try tauto.
  unfold key_of. split; discriminate.
Qed.

Lemma msg_key_some_iff q : (exists k, msg_key q = Some k) <-> bypasses q = false.
Proof.
  destruct (msg_key q) as [k|] eqn:E.
  - split; [|intros _; exists k; reflexivity].
    intros _. destruct (bypasses q) eqn:B; [|reflexivity].
    apply msg_key_none_iff in B. congruence.
  - apply msg_key_none_iff in E. rewrite E. split; [intros [k H]|]; discriminate.
Qed.

Theorem key_injective q1 q2 k :
  wf_qmsg q1 -> wf_qmsg q2 ->
  msg_key q1 = Some k -> msg_key q2 = Some k ->
  same_question_and_flags q1 q2.
Proof.
  intros W1 W2 K1 K2.
  apply msg_key_some in K1. destruct K1 as (_ & _ & qu1 & Q1 & E1).
  apply msg_key_some in K2. destruct K2 as (_ & _ & qu2 & Q2 & E2).
  unfold wf_qmsg in W1, W2. rewrite Q1 in W1. rewrite Q2 in W2.
  apply Forall_inv in W1. apply Forall_inv in W2.
  rewrite E1 in E2. apply key_of_inj in E2; [|assumption|assumption].
  destruct E2 as (Ea & Ec & Ed & En & Et & Ecl).
  unfold same_question_and_flags. split.
  - exists qu1, qu2. repeat split; assumption.
  - repeat split; assumption.
Qed.

(** The converse: queries with the same question and flags that both use the
    cache get the same key. *)
Theorem key_complete q1 q2 :
  bypasses q1 = false -> bypasses q2 = false ->
  same_question_and_flags q1 q2 -> msg_key q1 = msg_key q2.
Proof.
  intros B1 B2 [(qu1 & qu2 & Q1 & Q2 & En & Et & Ec) (Ea & Ecd & Ed)].
  unfold bypasses in B1, B2.
  apply orb_false_iff in B1. destruct B1 as [B1 _]. apply orb_false_iff in B1. destruct B1 as [R1 O1].
  apply orb_false_iff in B2. destruct B2 as [B2 _]. apply orb_false_iff in B2. destruct B2 as [R2 O2].
  apply negb_false_iff, N.eqb_eq in O1. apply negb_false_iff, N.eqb_eq in O2.
  rewrite (msg_key_of_single q1 qu1 R1 O1 Q1), (msg_key_of_single q2 qu2 R2 O2 Q2).
  unfold key_of. rewrite Ea, Ecd, Ed, En, Et, Ec. reflexivity.
Qed.

Theorem different_never_share q1 q2 k1 k2 :
  wf_qmsg q1 -> wf_qmsg q2 ->
  ~ same_question_and_flags q1 q2 ->
  msg_key q1 = Some k1 -> msg_key q2 = Some k2 -> k1 <> k2.
Proof.
  intros W1 W2 N K1 K2 E. subst k2. apply N. exact (key_injective q1 q2 k1 W1 W2 K1 K2).
Qed.

(** * The store *)

Lemma lookup_in k st v : lookup k st = Some v -> In (k, v) st.
Proof.
  induction st as [|[k' v'] t IH]; cbn [lookup]; [discriminate|].
  destruct (list_eqb N.eqb k k') eqn:E.
  - intro H. injection H as ->. apply eqb_bytes_iff in E. subst k'. left. reflexivity.
  - intro H. right. apply IH. exact H.
Qed.

Lemma lookup_set_same k v st : lookup k (set k v st) = Some v.
Proof. unfold set. cbn [lookup]. rewrite eqb_bytes_refl. reflexivity. Qed.

Lemma in_remove k st e : In e (remove k st) -> In e st.
Proof.
  induction st as [|[k' v'] t IH]; cbn [remove]; [tauto|].
  destruct (list_eqb N.eqb k k').
  - intro H. right. apply IH. exact H.
  - intros [H|H]; [left; exact H | right; apply IH; exact H].
Qed.

Lemma lookup_remove_same k st : lookup k (remove k st) = None.
Proof.
  induction st as [|[k' v'] t IH]; cbn [remove lookup]; [reflexivity|].
  destruct (list_eqb N.eqb k k') eqn:E; [exact IH|].
  cbn [lookup]. rewrite E. exact IH.
Qed.

(** Every entry was put there by an execution of a query with that key, whose
    downstream left that very response, and the response answers that query. *)
Definition entry_ok (h : list op) (e : bytes * resp) : Prop :=
  exists q om oh,
    In (Query q om oh) h /\ msg_key q = Some (fst e) /\
    (om = Some (snd e) \/ oh = Some (snd e)) /\
    answers_question (snd e) q = true /\ r_ok (snd e) = true.

Definition inv (h : list op) (st : store) : Prop := forall e, In e st -> entry_ok h e.

Lemma entry_ok_mono h h' e : (forall o, In o h -> In o h') -> entry_ok h e -> entry_ok h' e.
Proof.
  intros Hsub (q & om & oh & Hin & R). exists q, om, oh. split; [apply Hsub; exact Hin | exact R].
Qed.

Lemma inv_mono h h' st : (forall o, In o h -> In o h') -> inv h st -> inv h' st.
Proof. intros Hsub I e He. eapply entry_ok_mono; [exact Hsub | apply I; exact He]. Qed.

Lemma exec_query_outcome_indep st q om oh :
  snd (exec_query st q om oh) = snd (exec_query st q None None).
Proof. unfold exec_query. destruct (msg_key q); reflexivity. Qed.

Lemma exec_query_inv h st q om oh :
  inv h st -> inv (h ++ [Query q om oh]) (fst (exec_query st q om oh)).
Proof.
  intro I.
  assert (Hsub : forall o, In o h -> In o (h ++ [Query q om oh]))
    by (intros o Ho; apply in_or_app; left; exact Ho).
  unfold exec_query. destruct (msg_key q) as [k|] eqn:K; cbn [fst].
  2:{ eapply inv_mono; [exact Hsub | exact I]. }
  destruct (lookup k st) as [c|] eqn:L.
  - destruct oh as [r|]; [|eapply inv_mono; [exact Hsub | exact I]].
    destruct (answers_question r q && r_ok r) eqn:A; [|eapply inv_mono; [exact Hsub | exact I]].
    apply andb_true_iff in A. destruct A as [A1 A2].
    intros e [He|He].
    + subst e. exists q, om, (Some r). cbn [fst snd].
      split; [apply in_or_app; right; left; reflexivity|]. auto.
    + eapply entry_ok_mono; [exact Hsub | apply I; exact He].
  - destruct om as [r|]; [|eapply inv_mono; [exact Hsub | exact I]].
    destruct (answers_question r q && r_ok r) eqn:A; [|eapply inv_mono; [exact Hsub | exact I]].
    apply andb_true_iff in A. destruct A as [A1 A2].
    intros e [He|He].
    + subst e. exists q, (Some r), oh. cbn [fst snd].
      split; [apply in_or_app; right; left; reflexivity|]. auto.
    + eapply entry_ok_mono; [exact Hsub | apply I; exact He].
Qed.

Lemma step_inv h st o : inv h st -> inv (h ++ [o]) (fst (step st o)).
Proof.
  intro I. destruct o as [q om oh|k|]; cbn [step fst].
  - apply exec_query_inv. exact I.
  - intros e He. apply in_remove in He.
    eapply entry_ok_mono; [|apply I; exact He]. intros o Ho. apply in_or_app. left. exact Ho.
  - intros e [].
Qed.

Lemma run_from_fst_snd st o t :
  run_from st (o :: t) =
  (fst (run_from (fst (step st o)) t), snd (step st o) :: snd (run_from (fst (step st o)) t)).
Proof.
  cbn [run_from]. destruct (step st o) as [st1 out]. cbn [fst snd].
  destruct (run_from st1 t) as [st2 outs]. reflexivity.
Qed.

Lemma run_from_inv h : forall h0 st, inv h0 st -> inv (h0 ++ h) (fst (run_from st h)).
Proof.
  induction h as [|o t IH]; intros h0 st I.
  - rewrite app_nil_r. exact I.
  - rewrite run_from_fst_snd. cbn [fst].
    replace (h0 ++ o :: t) with ((h0 ++ [o]) ++ t) by (rewrite <- app_assoc; reflexivity).
    apply IH. apply step_inv. exact I.
Qed.

Lemma final_inv h : inv h (final h).
Proof.
  unfold final, run. change h with ([] ++ h) at 1. apply run_from_inv. intros e [].
Qed.

Lemma run_from_app h1 : forall st h2,
  fst (run_from st (h1 ++ h2)) = fst (run_from (fst (run_from st h1)) h2) /\
  snd (run_from st (h1 ++ h2)) = snd (run_from st h1) ++ snd (run_from (fst (run_from st h1)) h2).
Proof.
  induction h1 as [|o t IH]; intros st h2.
  - split; reflexivity.
  - change ((o :: t) ++ h2) with (o :: (t ++ h2)). rewrite !run_from_fst_snd. cbn [fst snd].
    destruct (IH (fst (step st o)) h2) as [E1 E2]. rewrite E1, E2. split; reflexivity.
Qed.

Lemma run_from_length h : forall st, length (snd (run_from st h)) = length h.
Proof.
  induction h as [|o t IH]; intro st; [reflexivity|].
  rewrite run_from_fst_snd. cbn [snd length]. rewrite IH. reflexivity.
Qed.

(** The outcome recorded for the step after the prefix [h1] is what the query is
    served after the history [h1]. *)
Lemma run_outcome_at h1 q om oh h2 :
  nth (length h1) (snd (run (h1 ++ Query q om oh :: h2))) Bypass = served h1 q.
Proof.
  unfold run, served, final, run.
  destruct (run_from_app h1 [] (Query q om oh :: h2)) as [_ E]. rewrite E.
  rewrite app_nth2; rewrite run_from_length; [|lia].
  rewrite Nat.sub_diag. rewrite run_from_fst_snd. cbn [snd nth step].
  apply exec_query_outcome_indep.
Qed.

(** * The history-level statement *)

Theorem hit_only_same_question h q v :
  Forall wf_op h -> wf_qmsg q ->
  served h q = Hit v ->
  exists q0 om oh,
    In (Query q0 om oh) h /\ (om = Some v \/ oh = Some v) /\
    same_question_and_flags q0 q /\ answers_question v q = true.
Proof.
  intros Wh Wq S. unfold served, exec_query in S.
  destruct (msg_key q) as [k|] eqn:K; cbn [snd] in S; [|discriminate].
  destruct (lookup k (final h)) as [c|] eqn:L; [|discriminate].
  injection S as ->.
  apply lookup_in in L. apply (final_inv h) in L.
  destruct L as (q0 & om & oh & Hin & K0 & Hv & Ha & _). cbn [fst snd] in *.
  assert (W0 : wf_qmsg q0).
  { rewrite Forall_forall in Wh. exact (Wh _ Hin). }
  pose proof (key_injective q0 q k W0 Wq K0 K) as Sq.
  exists q0, om, oh. repeat split; try assumption.
  - destruct Sq as [Sq _]. exact Sq.
  - destruct Sq as [_ Sq]. apply Sq.
  - destruct Sq as [_ Sq]. apply Sq.
  - destruct Sq as [_ Sq]. apply Sq.
  - (* the served response carries q's own question *)
    destruct Sq as [(qu0 & qu & Q0 & Q & En & Et & Ec) _].
    unfold answers_question in *. rewrite Q0 in Ha. rewrite Q.
    destruct (r_question v) as [|a [|a' t]]; try discriminate.
    apply question_eqb_iff in Ha. subst a. apply question_eqb_iff.
    destruct qu0 as [n0 t0 c0], qu as [n1 t1 c1]. cbn in En, Et, Ec. subst. reflexivity.
Qed.

(** Whatever the store holds under a key answers a query with that key — after
    any history; a lazy (background) update is the step [Query q r r] for the
    query [q] the update was started for. *)
Theorem held_entry_answers_its_key h k v :
  lookup k (final h) = Some v ->
  exists q om oh, In (Query q om oh) h /\ msg_key q = Some k /\ answers_question v q = true.
Proof.
  intro L. apply lookup_in in L. apply (final_inv h) in L.
  destruct L as (q & om & oh & Hin & K & _ & A & _). cbn [fst snd] in *.
  exists q, om, oh. auto.
Qed.

(** Loading a dump serves nothing but what the dump or the cache held under that key. *)
Theorem reload_serves_only_what_was_held fresh dump st k v :
  lookup k (reload fresh dump st) = Some v -> lookup k dump = Some v \/ lookup k st = Some v.
Proof.
  unfold reload. destruct fresh; [auto|].
  induction dump as [|[k' v'] t IH]; cbn [app lookup]; [auto|].
  destruct (list_eqb N.eqb k k'); auto.
Qed.

(** The same for the outcome recorded at any position of any run. *)
Theorem run_hits_only_same_question h1 q om oh h2 v :
  Forall wf_op (h1 ++ Query q om oh :: h2) ->
  nth (length h1) (snd (run (h1 ++ Query q om oh :: h2))) Bypass = Hit v ->
  exists q0 om0 oh0,
    In (Query q0 om0 oh0) h1 /\ (om0 = Some v \/ oh0 = Some v) /\
    same_question_and_flags q0 q /\ answers_question v q = true.
Proof.
  intros W H. rewrite run_outcome_at in H.
  apply Forall_app in W. destruct W as [W1 W2].
  apply hit_only_same_question; [exact W1 | | exact H].
  apply Forall_inv in W2. exact W2.
Qed.

(** The cache is not vacuous: right after a query whose answer was stored, any
    query with the same question and flags is served that answer. *)
Theorem same_question_is_served st q1 q2 r :
  bypasses q1 = false -> bypasses q2 = false ->
  answers_question r q1 = true -> r_ok r = true ->
  same_question_and_flags q1 q2 ->
  forall om oh, snd (exec_query (fst (exec_query st q1 (Some r) (Some r))) q2 om oh) = Hit r.
Proof.
  intros B1 B2 A Ok S om oh.
  pose proof (key_complete q1 q2 B1 B2 S) as K.
  destruct (proj2 (msg_key_some_iff q1) B1) as [k K1].
  unfold exec_query at 2. rewrite K1.
  assert (E : (match lookup k st with Some _ => Some r | None => Some r end) = Some r)
    by (destruct (lookup k st); reflexivity).
  rewrite E, A, Ok. cbn [andb fst].
  unfold exec_query. rewrite <- K, K1, lookup_set_same. reflexivity.
Qed.

(** A bypassing query neither reads nor changes the cache. *)
Theorem bypass_touches_nothing st q om oh :
  bypasses q = true -> exec_query st q om oh = (st, Bypass).
Proof.
  intro B. apply msg_key_none_iff in B. unfold exec_query. rewrite B. reflexivity.
Qed.

(** * NewContext: the query the cache sees carries a fresh OPT *)

Lemma swap_last_opt_some ex : forall ex' o,
  swap_last_opt ex = Some (ex', o) -> is_edns0 ex = Some o /\ is_edns0 ex' = Some 0.
Proof.
  induction ex as [|x t IH]; intros ex' o; cbn [swap_last_opt]; [discriminate|].
  destruct (swap_last_opt t) as [[t' o']|] eqn:E.
  - intro H. injection H as <- <-. destruct (IH t' o' eq_refl) as [H1 H2].
    cbn [is_edns0]. rewrite H1, H2. split; reflexivity.
  - destruct x as [ttl|]; [|discriminate].
    intro H. injection H as <- <-.
    assert (N : is_edns0 t = None).
    { clear IH. induction t as [|y u IHu]; [reflexivity|].
      cbn [swap_last_opt] in E. destruct (swap_last_opt u) as [[u' o'']|]; [discriminate|].
      destruct y; [discriminate|]. cbn [is_edns0]. rewrite (IHu eq_refl). reflexivity. }
    cbn [is_edns0]. rewrite N. split; reflexivity.
Qed.

Lemma swap_last_opt_none ex : swap_last_opt ex = None -> is_edns0 (ex ++ [XOpt 0]) = Some 0.
Proof.
  induction ex as [|x t IH]; cbn [swap_last_opt app is_edns0]; [reflexivity|].
  destruct (swap_last_opt t) as [[t' o']|]; [discriminate|].
  destruct x; [discriminate|]. intros _. rewrite (IH eq_refl). reflexivity.
Qed.

Lemma ctx_query_opt q : is_edns0 (q_extra (ctx_query q)) = Some 0.
Proof.
  unfold ctx_query, ctx_extra. cbn [q_extra].
  destruct (swap_last_opt (q_extra q)) as [[ex' o]|] eqn:E.
  - apply swap_last_opt_some in E. apply E.
  - apply swap_last_opt_none. exact E.
Qed.

(** Whatever the client sent, DO is clear in the message NewContext hands to
    the plugins; it reaches the key only when a plugin sets it on that OPT. *)
Theorem ctx_query_do_clear q : msg_do (ctx_query q) = false.
Proof. unfold msg_do. rewrite ctx_query_opt. reflexivity. Qed.

(** * The key derivation before the repair (F3) did collide *)

Lemma legacy_type_collision :
  legacy_key_of false false false (mkqu [97; 46] 1 1) =
  legacy_key_of false false false (mkqu [97; 46] 257 1).
Proof. vm_compute. reflexivity. Qed.

Lemma legacy_class_collision :
  legacy_key_of false false false (mkqu [97; 46] 1 1) =
  legacy_key_of false false false (mkqu [97; 46] 1 3).
Proof. vm_compute. reflexivity. Qed.

(** * The Judge's oracle is the property's notion *)
From Verif Require Judge.C04.

Lemma bytes_eqb_iff (a b : bytes) : bytes_eqb a b = true <-> a = b.
Proof.
  unfold bytes_eqb. revert b. induction a as [|x a IH]; intros [|y b]; cbn [length Nat.eqb combine forallb andb fst snd];
    try (split; [discriminate | discriminate]); [tauto|].
  specialize (IH b). split.
  - intro H. apply andb_true_iff in H. destruct H as [Hl H].
    apply andb_true_iff in H. destruct H as [Hx H]. apply N.eqb_eq in Hx. subst y.
    f_equal. apply IH. rewrite Hl, H. reflexivity.
  - intro E. injection E as -> ->. rewrite N.eqb_refl. cbn [andb].
    apply IH. reflexivity.
Qed.

Lemma land_pow2 a n : N.land a (2 ^ n) = if N.testbit a n then 2 ^ n else 0.
Proof.
  apply N.bits_inj. intro m. rewrite N.land_spec, N.pow2_bits_eqb.
  destruct (N.testbit a n) eqn:T.
  - rewrite N.pow2_bits_eqb. destruct (N.eqb_spec n m) as [->|]; [rewrite T; reflexivity | apply andb_false_r].
  - rewrite N.bits_0. destruct (N.eqb_spec n m) as [<-|]; [rewrite T; reflexivity | apply andb_false_r].
Qed.

Lemma opt_do_testbit t : opt_do t = N.testbit t 15.
Proof.
  unfold opt_do. change 32768 with (2 ^ 15). rewrite land_pow2.
  destruct (N.testbit t 15); reflexivity.
Qed.

Lemma do_flag_fold ex : forall acc,
  fold_left (fun acc x => match x with XOpt t => N.testbit t 15 | XOther => acc end) ex acc =
  match is_edns0 ex with Some t => opt_do t | None => acc end.
Proof.
  induction ex as [|x t IH]; intro acc; cbn [fold_left is_edns0]; [reflexivity|].
  rewrite IH. destruct (is_edns0 t); [reflexivity|].
  destruct x; [rewrite opt_do_testbit|]; reflexivity.
Qed.

Lemma do_flag_msg_do q : Judge.C04.do_flag q = msg_do q.
Proof. unfold Judge.C04.do_flag, msg_do. rewrite do_flag_fold. reflexivity. Qed.

Lemma cacheable_bypasses q : Judge.C04.cacheable q = negb (bypasses q).
Proof.
  unfold Judge.C04.cacheable, bypasses.
  destruct (q_qr q); cbn [negb andb orb]; [reflexivity|].
  destruct (q_opcode q =? 0); cbn [negb andb orb]; [|reflexivity].
  destruct (q_question q) as [|a [|b t]]; reflexivity.
Qed.

Lemma same_qf_b_iff q1 q2 :
  Judge.C04.same_qf_b q1 q2 = true <-> same_question_and_flags q1 q2.
Proof.
  unfold Judge.C04.same_qf_b, same_question_and_flags. rewrite !do_flag_msg_do.
  destruct (q_question q1) as [|a [|a' t1]]; destruct (q_question q2) as [|b [|b' t2]];
    try (split; [discriminate | intros [(x & y & E1 & E2 & _) _]; discriminate]).
  rewrite !andb_true_iff, bytes_eqb_iff, !N.eqb_eq, !Bool.eqb_true_iff. split.
  - intros (((((En & Et) & Ec) & Ea) & Ecd) & Ed). split; [|auto].
    exists a, b. auto.
  - intros [(x & y & E1 & E2 & En & Et & Ec) (Ea & Ecd & Ed)].
    injection E1 as <-. injection E2 as <-. auto 10.
Qed.
