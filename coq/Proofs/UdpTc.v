(** C17 — proofs about Model/UdpTc.v. *)
From Verif Require Import Base.Prelude Gen.Constants Model.UdpTc.
From Coq Require Import ZifyN ZifyNat ZifyBool.
Open Scope N_scope.

Ltac Zify.zify_post_hook ::= Z.div_mod_to_equations.

(** * msgTruncated reads bit 1 of byte 2 *)

Lemma land2_testbit x : (N.land x (N.shiftl 1 1) =? 0) = negb (N.testbit x 1).
Proof.
  change (N.shiftl 1 1) with 2.
  destruct x as [|[[p|p|]|[p|p|]|]]; reflexivity.
Qed.

Lemma msg_truncated_byte2 b x :
  nth_error b 2 = Some x -> msg_truncated b = Some (N.testbit x 1).
Proof.
  intro E. unfold msg_truncated. rewrite E, land2_testbit, negb_involutive. reflexivity.
Qed.

Lemma msg_truncated_arith b x :
  nth_error b 2 = Some x -> msg_truncated b = Some ((x / 2) mod 2 =? 1).
Proof.
  intro E. rewrite (msg_truncated_byte2 b x E), N.testbit_eqb. reflexivity.
Qed.

Lemma msg_truncated_short b : msg_truncated b = None <-> (length b <= 2)%nat.
Proof.
  unfold msg_truncated. split.
  - destruct (nth_error b 2) eqn:E; [discriminate|]. intros _. apply nth_error_None. exact E.
  - intro L. apply nth_error_None in L. rewrite L. reflexivity.
Qed.

Lemma msg_truncated_some b : (3 <= length b)%nat -> exists tc, msg_truncated b = Some tc.
Proof.
  intro L. destruct (msg_truncated b) eqn:E; [eauto|].
  apply msg_truncated_short in E. lia.
Qed.

Lemma flags_hi_bit1 h : N.testbit (flags_hi h) 1 = h_tc h.
Proof.
  rewrite N.testbit_eqb. change (2 ^ 1) with 2. unfold flags_hi, b2n.
  destruct (h_qr h), (h_aa h), (h_tc h), (h_rd h); lia.
Qed.

Lemma tc_bit h rest : msg_truncated (encode_header h ++ rest) = Some (h_tc h).
Proof.
  rewrite (msg_truncated_byte2 _ (flags_hi h)); [|reflexivity].
  rewrite flags_hi_bit1. reflexivity.
Qed.

Lemma encode_header_length h : length (encode_header h) = 12%nat.
Proof. reflexivity. Qed.

Lemma wf_headerb_spec h :
  wf_headerb h = true <->
  h_id h < 65536 /\ h_opcode h < 16 /\ h_rcode h < 16 /\
  h_qd h < 65536 /\ h_an h < 65536 /\ h_ns h < 65536 /\ h_ar h < 65536.
Proof. unfold wf_headerb. lia. Qed.

Lemma encode_header_bytes h :
  wf_headerb h = true -> Forall (fun x => x < 256) (encode_header h).
Proof.
  intro W. apply wf_headerb_spec in W. unfold encode_header, be16, flags_hi, flags_lo, b2n.
  cbn [app].
  destruct (h_qr h), (h_aa h), (h_tc h), (h_rd h), (h_ra h), (h_z h), (h_ad h), (h_cd h);
    repeat constructor; lia.
Qed.

Lemma encode_header_wf h :
  wf_headerb h = true ->
  length (encode_header h) = 12%nat /\ Forall (fun x => x < 256) (encode_header h).
Proof. intro W. split; [reflexivity | apply encode_header_bytes; exact W]. Qed.

(** every pair of flag bytes is the encoding of a header, and only of that one *)
Lemma bit_b2n x k : b2n (N.testbit x k) = (x / 2 ^ k) mod 2.
Proof.
  rewrite N.testbit_eqb. unfold b2n.
  assert (H : (x / 2 ^ k) mod 2 < 2) by (apply N.mod_lt; discriminate).
  set (y := (x / 2 ^ k) mod 2) in *. clearbody y.
  destruct (y =? 1) eqn:E; lia.
Qed.

Lemma flags_of_header_of_flags id b2 b3 qd an ns ar :
  b2 < 256 -> b3 < 256 ->
  let h := header_of_flags id b2 b3 qd an ns ar in
  flags_hi h = b2 /\ flags_lo h = b3 /\ h_tc h = N.testbit b2 1.
Proof.
  intros L2 L3 h. unfold h, header_of_flags, flags_hi, flags_lo.
  cbn [h_qr h_opcode h_aa h_tc h_rd h_ra h_z h_ad h_cd h_rcode].
  rewrite !bit_b2n.
  change (2 ^ 7) with 128. change (2 ^ 6) with 64. change (2 ^ 5) with 32.
  change (2 ^ 4) with 16. change (2 ^ 2) with 4. change (2 ^ 1) with 2. change (2 ^ 0) with 1.
  repeat split; lia.
Qed.

Lemma header_of_flags_wf id b2 b3 qd an ns ar :
  id < 65536 -> qd < 65536 -> an < 65536 -> ns < 65536 -> ar < 65536 ->
  wf_headerb (header_of_flags id b2 b3 qd an ns ar) = true.
Proof.
  intros. apply wf_headerb_spec. unfold header_of_flags.
  cbn [h_id h_opcode h_rcode h_qd h_an h_ns h_ar]. lia.
Qed.

Lemma header_of_flags_of_header h :
  wf_headerb h = true ->
  header_of_flags (h_id h) (flags_hi h) (flags_lo h) (h_qd h) (h_an h) (h_ns h) (h_ar h) = h.
Proof.
  intro W. apply wf_headerb_spec in W.
  destruct h as [id qr op aa tc rd ra z ad cd rc qd an ns ar].
  cbn [h_id h_opcode h_rcode h_qd h_an h_ns h_ar] in W.
  unfold header_of_flags, flags_hi, flags_lo.
  cbn [h_id h_qr h_opcode h_aa h_tc h_rd h_ra h_z h_ad h_cd h_rcode h_qd h_an h_ns h_ar].
  rewrite !N.testbit_eqb.
  change (2 ^ 7) with 128. change (2 ^ 6) with 64. change (2 ^ 5) with 32.
  change (2 ^ 4) with 16. change (2 ^ 2) with 4. change (2 ^ 1) with 2. change (2 ^ 0) with 1.
  unfold b2n.
  f_equal; destruct qr, aa, tc, rd, ra, z, ad, cd; lia.
Qed.

(** * udpWithFallback *)

Lemma fallback_iff_tc q udp tcp :
  tcp_used (snd (udp_with_fallback q udp tcp)) = true <->
  exists r, udp = Reply r /\ msg_truncated r = Some true.
Proof.
  unfold udp_with_fallback. destruct udp as [r|e]; cbn.
  - destruct (msg_truncated r) as [[|]|] eqn:E; cbn; split; intro H;
      try discriminate; eauto;
      destruct H as (r' & [= <-] & H'); congruence.
  - split; [discriminate|]. intros (r & H & _). discriminate.
Qed.

Lemma tcp_gets_same_query q udp tcp :
  snd (udp_with_fallback q udp tcp) = [] \/ snd (udp_with_fallback q udp tcp) = [q].
Proof.
  unfold udp_with_fallback. destruct udp as [r|e]; cbn; auto.
  destruct (msg_truncated r) as [[|]|]; cbn; auto.
Qed.

Lemma result_is_tcp_reply_when_tc q r tcp :
  msg_truncated r = Some true ->
  udp_with_fallback q (Reply r) tcp = (of_outcome (tcp q), [q]).
Proof. intro E. unfold udp_with_fallback. rewrite E. reflexivity. Qed.

Lemma result_is_udp_reply_otherwise q r tcp :
  msg_truncated r = Some false ->
  udp_with_fallback q (Reply r) tcp = (RReply r, []).
Proof. intro E. unfold udp_with_fallback. rewrite E. reflexivity. Qed.

Lemma udp_error_propagates q e tcp : udp_with_fallback q (Err e) tcp = (RErr e, []).
Proof. reflexivity. Qed.

Lemma tcp_error_propagates q r tcp e :
  msg_truncated r = Some true -> tcp q = Err e ->
  udp_with_fallback q (Reply r) tcp = (RErr e, [q]).
Proof. intros E T. rewrite (result_is_tcp_reply_when_tc q r tcp E), T. reflexivity. Qed.

Lemma tcp_reply_returned q r tcp t :
  msg_truncated r = Some true -> tcp q = Reply t ->
  udp_with_fallback q (Reply r) tcp = (RReply t, [q]).
Proof. intros E T. rewrite (result_is_tcp_reply_when_tc q r tcp E), T. reflexivity. Qed.

Lemma short_reply_panics q r tcp :
  (length r <= 2)%nat -> udp_with_fallback q (Reply r) tcp = (RPanic, []).
Proof. intro L. apply msg_truncated_short in L. unfold udp_with_fallback. rewrite L. reflexivity. Qed.

(** the property in terms of the header of the UDP reply *)
Lemma fallback_by_header q h rest tcp :
  udp_with_fallback q (Reply (encode_header h ++ rest)) tcp =
  if h_tc h then (of_outcome (tcp q), [q]) else (RReply (encode_header h ++ rest), []).
Proof.
  destruct (h_tc h) eqn:T.
  - apply result_is_tcp_reply_when_tc. rewrite tc_bit. congruence.
  - apply result_is_udp_reply_otherwise. rewrite tc_bit. congruence.
Qed.

(** * The UDP side *)

Lemma put_id_trunc id p : msg_truncated (put_id id p) = msg_truncated p.
Proof. destruct p as [|a [|b t]]; reflexivity. Qed.

Lemma put_id_rest id p : skipn 2 (put_id id p) = skipn 2 p.
Proof. reflexivity. Qed.

Lemma put_id_get_id id p : id < 65536 -> get_id (put_id id p) = id.
Proof. intro L. unfold get_id, put_id, be16. cbn [app nth]. lia. Qed.

Lemma put_id_length id p : (2 <= length p)%nat -> length (put_id id p) = length p.
Proof.
  intro L. unfold put_id, be16. rewrite app_length, skipn_length. cbn [length]. lia.
Qed.

Lemma put_id_same p :
  (2 <= length p)%nat -> Forall (fun x => x < 256) p -> put_id (get_id p) p = p.
Proof.
  intros L F. destruct p as [|a [|b t]]; cbn [length] in L; try lia.
  inversion F as [|? ? Ha F']; subst. inversion F' as [|? ? Hb _]; subst.
  unfold put_id, get_id, be16. cbn [nth skipn app]. f_equal; [|f_equal]; lia.
Qed.

Lemma udp_receive_some qid ds p :
  udp_receive qid ds = Some p ->
  tr_dns_header_len <= len p /\ len p <= udp_rx_buf /\ get_id p = qid /\
  exists d, In d ds /\ p = udp_rx d.
Proof.
  induction ds as [|d t IH]; cbn [udp_receive]; [discriminate|].
  destruct (len (udp_rx d) <? tr_dns_header_len) eqn:E1.
  - intro H. destruct (IH H) as (A & B & C & d' & I & P). repeat split; auto. exists d'. split; [right|]; auto.
  - destruct (get_id (udp_rx d) =? qid) eqn:E2.
    + intros [= <-]. repeat split.
      * lia.
      * unfold udp_rx, len. rewrite firstn_length. lia.
      * lia.
      * exists d. split; [left|]; reflexivity.
    + intro H. destruct (IH H) as (A & B & C & d' & I & P). repeat split; auto. exists d'. split; [right|]; auto.
Qed.

(** datagrams shorter than the header or with another id are as good as absent *)
Lemma udp_receive_skip qid d ds :
  len (udp_rx d) < tr_dns_header_len \/ get_id (udp_rx d) <> qid ->
  udp_receive qid (d :: ds) = udp_receive qid ds.
Proof.
  intro H. cbn [udp_receive].
  destruct (len (udp_rx d) <? tr_dns_header_len) eqn:E1; [reflexivity|].
  destruct (get_id (udp_rx d) =? qid) eqn:E2; [|reflexivity]. lia.
Qed.

Lemma udp_receive_first qid d ds :
  tr_dns_header_len <= len d -> len d <= udp_rx_buf -> get_id d = qid ->
  udp_receive qid (d :: ds) = Some d.
Proof.
  intros A B C. cbn [udp_receive].
  assert (R : udp_rx d = d).
  { unfold udp_rx. apply firstn_all2. unfold len in B. lia. }
  rewrite R.
  destruct (len d <? tr_dns_header_len) eqn:E1; [lia|].
  destruct (get_id d =? qid) eqn:E2; [reflexivity|lia].
Qed.

Lemma udp_exchange_reply q qid ds r :
  udp_exchange q qid ds = Reply r ->
  exists p, udp_receive qid ds = Some p /\ r = put_id (get_id q) p /\
            msg_truncated r = msg_truncated p /\ tr_dns_header_len <= len r.
Proof.
  unfold udp_exchange. destruct (udp_receive qid ds) as [p|] eqn:E; [|discriminate].
  intros [= <-]. exists p. repeat split; [apply put_id_trunc|].
  destruct (udp_receive_some _ _ _ E) as (A & _).
  unfold len in *. rewrite put_id_length; [exact A|].
  unfold tr_dns_header_len in A. lia.
Qed.

Lemma udp_exchange_id q qid ds r :
  udp_exchange q qid ds = Reply r ->
  (2 <= length q)%nat -> Forall (fun x => x < 256) q ->
  firstn 2 r = firstn 2 q /\
  exists p, udp_receive qid ds = Some p /\ skipn 2 r = skipn 2 p /\ length r = length p.
Proof.
  intros E L F. destruct (udp_exchange_reply _ _ _ _ E) as (p & R & -> & _ & _).
  split.
  - destruct q as [|a [|b t]]; cbn [length] in L; try lia.
    inversion F as [|? ? Ha F']; subst. inversion F' as [|? ? Hb _]; subst.
    unfold put_id, get_id, be16. cbn [nth firstn app]. f_equal; [|f_equal]; lia.
  - exists p. repeat split; [exact R|].
    apply put_id_length. destruct (udp_receive_some _ _ _ R) as (A & _).
    unfold len, tr_dns_header_len in A. lia.
Qed.

Lemma udp_exchange_no_panic q qid ds r tcp :
  udp_exchange q qid ds = Reply r -> fst (udp_with_fallback q (Reply r) tcp) <> RPanic.
Proof.
  intro E. destruct (udp_exchange_reply _ _ _ _ E) as (p & _ & _ & _ & L).
  destruct (msg_truncated_some r) as (tc & T).
  - unfold len, tr_dns_header_len in L. lia.
  - unfold udp_with_fallback. rewrite T. destruct tc; [destruct (tcp q)|]; discriminate.
Qed.

(** * The TCP side *)

Lemma tcp_attempt_seen fresh beh q :
  Forall (eq q) (snd (tcp_attempt fresh beh q)).
Proof.
  destruct beh; cbn [tcp_attempt]; try (repeat constructor).
  - destruct (tcp_read_reply (f q)); repeat constructor.
  - destruct fresh; repeat constructor.
Qed.

Lemma reuse_seen_same_query l idle beh q :
  Forall (eq q) (te_seen (snd (reuse_exchange l idle beh q))).
Proof.
  unfold reuse_exchange.
  pose proof (tcp_attempt_seen false beh q) as F0.
  pose proof (tcp_attempt_seen true beh q) as F1.
  destruct idle.
  - destruct (tcp_attempt false beh q) as [[[r|e] i0] s0]; cbn in *; auto.
    destruct l; cbn; auto.
    destruct (tcp_attempt true beh q) as [[o i1] s1]; cbn in *. apply Forall_app; auto.
  - destruct l; cbn; auto.
    destruct (tcp_attempt true beh q) as [[o i1] s1]; cbn in *; auto.
Qed.

Lemma reuse_conns_le_1 l idle beh q : te_conns (snd (reuse_exchange l idle beh q)) <= 1.
Proof.
  unfold reuse_exchange. destruct idle.
  - destruct (tcp_attempt false beh q) as [[[r|e] i0] s0]; cbn; [lia|].
    destruct l; cbn; [|lia]. destruct (tcp_attempt true beh q) as [[o i1] s1]; cbn; lia.
  - destruct l; cbn; [|lia]. destruct (tcp_attempt true beh q) as [[o i1] s1]; cbn; lia.
Qed.

Lemma reuse_new_conn_when_not_idle beh q :
  te_conns (snd (reuse_exchange true false beh q)) = 1.
Proof.
  unfold reuse_exchange. destruct (tcp_attempt true beh q) as [[o i1] s1]; reflexivity.
Qed.

Definition answers (beh : tcp_beh) (f : bytes -> bytes) : Prop :=
  beh = TAnswer f \/ beh = TAnswerClose f.

Lemma reuse_answer idle beh f q :
  answers beh f -> min_frame_len <= len (f q) ->
  let t := reuse_exchange true idle beh q in
  fst t = Reply (f q) /\ te_seen (snd t) = [q] /\
  te_conns (snd t) = (if idle then 0 else 1).
Proof.
  intros [-> | ->] L; unfold reuse_exchange, tcp_attempt, tcp_read_reply;
    (destruct (len (f q) <? min_frame_len) eqn:E; [lia|]); destruct idle; cbn; auto.
Qed.

Lemma reuse_small_frame_is_error idle beh f q :
  answers beh f -> len (f q) < min_frame_len ->
  exists e, fst (reuse_exchange true idle beh q) = Err e.
Proof.
  intros [-> | ->] L; unfold reuse_exchange, tcp_attempt, tcp_read_reply;
    (destruct (len (f q) <? min_frame_len) eqn:E; [|lia]); destruct idle; cbn; eauto.
Qed.

Lemma reuse_refused beh q :
  reuse_exchange false false beh q = (Err e_refused, mkEff false 0 []).
Proof. reflexivity. Qed.

Definition dies (beh : tcp_beh) : Prop :=
  beh = TDieAfterQuery \/ beh = TDieOnAccept \/ beh = TPartial.

Lemma reuse_dies l idle beh q :
  dies beh -> exists e, fst (reuse_exchange l idle beh q) = Err e.
Proof.
  intros [-> | [-> | ->]]; unfold reuse_exchange, tcp_attempt; destruct idle, l; cbn; eauto.
Qed.

Lemma reuse_dies_no_idle l idle beh q :
  dies beh -> te_idle (snd (reuse_exchange l idle beh q)) = false.
Proof.
  intros [-> | [-> | ->]]; unfold reuse_exchange, tcp_attempt; destruct idle, l; cbn; eauto.
Qed.

(** * One step / a whole session on one upstream *)

Definition step_ok (listening : bool) (s : sess) (x : step) (o : step_obs) : Prop :=
  let q := st_q x in
  o_wire o = put_id (s_qid s) q /\
  match udp_receive (s_qid s) (st_udp x (o_wire o)) with
  | None => o_res o = RErr e_timeout /\ o_tcp_seen o = [] /\ o_conns o = 0
  | Some p =>
    exists tc, msg_truncated p = Some tc /\
    if tc then
      let t := reuse_exchange listening (s_idle s) (st_tcp x) q in
      o_res o = of_outcome (fst t) /\ o_tcp_seen o = te_seen (snd t) /\
      o_conns o = te_conns (snd t)
    else
      o_res o = RReply (put_id (get_id q) p) /\ o_tcp_seen o = [] /\ o_conns o = 0
  end.

Lemma session_step_ok l s x : step_ok l s x (snd (session_step l s x)).
Proof.
  unfold step_ok, session_step, udp_wire_query, udp_exchange.
  set (q := st_q x). set (wire := put_id (s_qid s) q).
  destruct (udp_receive (s_qid s) (st_udp x wire)) as [p|] eqn:E.
  - destruct (udp_receive_some _ _ _ E) as (L & _).
    destruct (msg_truncated_some p) as (tc & T).
    { unfold len, tr_dns_header_len in L. lia. }
    unfold udp_with_fallback. rewrite put_id_trunc, T.
    destruct tc; cbn [snd fst o_wire o_res o_tcp_seen o_conns].
    + split; [reflexivity|]. fold wire. rewrite E. exists true. split; [exact T|].
      cbn. auto.
    + split; [reflexivity|]. fold wire. rewrite E. exists false. split; [exact T|].
      cbn. auto.
  - cbn [udp_with_fallback snd fst o_wire o_res o_tcp_seen o_conns].
    split; [reflexivity|]. fold wire. rewrite E. cbn. auto.
Qed.

Fixpoint session_ok (l : bool) (s : sess) (xs : list step) (obs : list step_obs) : Prop :=
  match xs, obs with
  | [], [] => True
  | x :: xs', o :: obs' => step_ok l s x o /\ session_ok l (fst (session_step l s x)) xs' obs'
  | _, _ => False
  end.

Lemma run_session_ok l xs : forall s, session_ok l s xs (run_session l s xs).
Proof.
  induction xs as [|x t IH]; intro s; cbn [run_session session_ok]; [exact I|].
  pose proof (session_step_ok l s x) as H.
  destruct (session_step l s x) as [s' o] eqn:E. cbn [session_ok fst snd] in *.
  split; [exact H|]. apply IH.
Qed.

(** the property, for a step of any session, in terms of the header of the
    first datagram the UDP transport accepts *)
Lemma step_by_header l s x h rest :
  udp_receive (s_qid s) (st_udp x (udp_wire_query (st_q x) (s_qid s))) = Some (encode_header h ++ rest) ->
  let o := snd (session_step l s x) in
  let t := reuse_exchange l (s_idle s) (st_tcp x) (st_q x) in
  if h_tc h then
    o_res o = of_outcome (fst t) /\ o_tcp_seen o = te_seen (snd t) /\
    Forall (eq (st_q x)) (o_tcp_seen o) /\ o_conns o = te_conns (snd t) /\ o_conns o <= 1
  else
    o_res o = RReply (put_id (get_id (st_q x)) (encode_header h ++ rest)) /\
    o_tcp_seen o = [] /\ o_conns o = 0 /\
    s_idle (fst (session_step l s x)) = s_idle s.
Proof.
  intros E o t.
  pose proof (session_step_ok l s x) as (W & H). fold o in W, H.
  unfold udp_wire_query in E. rewrite W, E in H.
  destruct H as (tc & T & H). rewrite tc_bit in T. injection T as <-.
  destruct (h_tc h) eqn:TC.
  - destruct H as (R & S & C). fold t in R, S, C. repeat split; auto.
    + rewrite S. apply reuse_seen_same_query.
    + rewrite C. apply reuse_conns_le_1.
  - destruct H as (R & S & C). repeat split; auto.
    unfold session_step, udp_wire_query, udp_exchange. rewrite E.
    unfold udp_with_fallback. rewrite put_id_trunc, tc_bit, TC. reflexivity.
Qed.

(** * The TCP retry goes where the UDP query went *)

Lemma retry_same_server addr dial_addr d :
  udp_upstream_dials addr dial_addr = Some d -> d_tcp d = d_udp d.
Proof.
  unfold udp_upstream_dials.
  destruct (Addr.new_upstream Addr.ip_literal addr dial_addr false) as [t|]; [|discriminate].
  destruct (Addr.t_transport t); try discriminate.
  intros [= <-]. reflexivity.
Qed.

(** and that place is the one C18 is about: host and port of the target *)
Lemma udp_dials_target addr dial_addr d :
  udp_upstream_dials addr dial_addr = Some d ->
  exists t, Addr.new_upstream Addr.ip_literal addr dial_addr false = Some t /\
            Addr.t_transport t = Addr.TUdp /\ d_udp d = (Addr.t_host t, Addr.t_port t).
Proof.
  unfold udp_upstream_dials.
  destruct (Addr.new_upstream Addr.ip_literal addr dial_addr false) as [t|]; [|discriminate].
  destruct (Addr.t_transport t) eqn:T; try discriminate.
  intros [= <-]. exists t. auto.
Qed.

(** * Time: only the caller's deadline (and the TCP connection deadline) bound the retry *)

Lemma timed_tcp_reply q deadline t_udp r t_tcp tcp t :
  t_udp + t_tcp < deadline -> t_tcp < tcp_query_timeout_ms ->
  msg_truncated r = Some true -> tcp q = Reply t ->
  udp_with_fallback_timed q deadline t_udp (Reply r) t_tcp tcp = (RReply t, [q]).
Proof.
  intros D C E T. unfold udp_with_fallback_timed, with_deadline.
  set (K := tcp_query_timeout_ms) in *. clearbody K.
  destruct (t_udp <? deadline) eqn:E1; [|lia].
  rewrite (result_is_tcp_reply_when_tc _ _ _ E).
  destruct (K <=? t_tcp) eqn:E2; [lia|].
  destruct (t_udp + t_tcp <? deadline) eqn:E3; [|lia].
  rewrite T. reflexivity.
Qed.

Lemma timed_udp_reply q deadline t_udp r t_tcp tcp :
  t_udp < deadline -> msg_truncated r = Some false ->
  udp_with_fallback_timed q deadline t_udp (Reply r) t_tcp tcp = (RReply r, []).
Proof.
  intros D E. unfold udp_with_fallback_timed, with_deadline.
  destruct (t_udp <? deadline) eqn:E1; [|lia].
  apply result_is_udp_reply_otherwise. exact E.
Qed.

Lemma timed_gives_up q deadline t_udp udp t_tcp tcp :
  deadline <= t_udp + t_tcp ->
  (forall r, udp = Reply r -> msg_truncated r = Some true) ->
  exists e, fst (udp_with_fallback_timed q deadline t_udp udp t_tcp tcp) = RErr e.
Proof.
  intros D TC. unfold udp_with_fallback_timed, with_deadline.
  destruct (t_udp <? deadline) eqn:E1; [|cbn; eauto].
  destruct udp as [r|e]; [|cbn; eauto].
  rewrite (result_is_tcp_reply_when_tc _ _ _ (TC r eq_refl)).
  destruct (tcp_query_timeout_ms <=? t_tcp); [cbn; eauto|].
  destruct (t_udp + t_tcp <? deadline) eqn:E3; [lia|]. cbn. eauto.
Qed.

(** * Abandoned retries never cross replies *)

Definition pool_ok (s : rpool) : Prop :=
  Forall (fun o => o = []) (r_idle s) /\ Forall (fun st => length st = 1%nat) (r_out s).

Lemma pool0_ok : pool_ok rpool0.
Proof. split; constructor. Qed.

Lemma rstep_ok f s e : pool_ok s -> pool_ok (fst (rstep f s e)).
Proof.
  intros [I O]. destruct e as [q gu|]; unfold rstep, pool_ok.
  - destruct (r_idle s) as [|o t] eqn:E.
    + cbn [app]. destruct gu; cbn; split; auto.
    + inversion I as [|? ? Ho It]; subst. cbn [app].
      destruct gu; cbn; split; auto.
  - cbn. split; [|constructor].
    apply Forall_app. split; [exact I|].
    apply Forall_forall. intros x Hx. apply in_map_iff in Hx as (y & <- & _). reflexivity.
Qed.

Lemma rstep_own_reply f s q : pool_ok s -> snd (rstep f s (EvExchange q false)) = Some (f q).
Proof.
  intros [I _]. unfold rstep. destruct (r_idle s) as [|o t]; [reflexivity|].
  inversion I; subst. reflexivity.
Qed.

Lemma rstep_gives_up f s q : snd (rstep f s (EvExchange q true)) = None.
Proof. unfold rstep. destruct (r_idle s); reflexivity. Qed.

Definition reply_ok (f : bytes -> bytes) (e : rev) (r : option bytes) : Prop :=
  match e with
  | EvExchange q false => r = Some (f q)
  | _ => r = None
  end.

Lemma rrun_own_replies f es : forall s, pool_ok s -> Forall2 (reply_ok f) es (rrun f s es).
Proof.
  induction es as [|e t IH]; intros s H; cbn [rrun]; [constructor|].
  pose proof (rstep_ok f s e H) as H'.
  destruct (rstep f s e) as [s' r] eqn:E. cbn [fst] in H'.
  constructor; [|apply IH; exact H'].
  destruct e as [q [|]|]; cbn [reply_ok].
  - pose proof (rstep_gives_up f s q) as G. rewrite E in G. exact G.
  - pose proof (rstep_own_reply f s q H) as G. rewrite E in G. exact G.
  - unfold rstep in E. injection E as _ <-. reflexivity.
Qed.

(** * Stale idle connections are retried until a fresh one is dialled *)

Lemma loop_stale_then_fresh c j : forall r,
  r + N.of_nat j <= Retry.allowed c ->
  Retry.loop c r (stale_script j (Some true)) = (Retry.FOk, S j).
Proof.
  unfold stale_script, stale_att. induction j as [|j IH]; intros r H.
  - reflexivity.
  - cbn [repeat app Retry.loop Retry.a_ok]. fold stale_att.
    assert (M : Retry.may_retry c r stale_att = true).
    { unfold Retry.may_retry, stale_att, Retry.allowed in *. cbn [Retry.a_new Retry.a_ctx_dead negb].
      rewrite !orb_true_r. cbn [andb]. rewrite andb_true_r.
      destruct (Retry.strict c); lia. }
    rewrite M. unfold stale_att.
    rewrite (IH (r + 1)); [reflexivity | lia].
Qed.

(** one stale connection too many: the error of the last one is returned *)
Lemma loop_stale_too_many c j : forall r,
  r + N.of_nat j = Retry.allowed c + 1 -> (0 < j)%nat ->
  Retry.loop c r (stale_script j (Some true)) = (Retry.FErr, j).
Proof.
  unfold stale_script, stale_att. induction j as [|j IH]; intros r H P; [lia|].
  cbn [repeat app Retry.loop Retry.a_ok]. fold stale_att.
  destruct j as [|j'].
  - assert (M : Retry.may_retry c r stale_att = false).
    { unfold Retry.may_retry, stale_att, Retry.allowed in *. cbn [Retry.a_new Retry.a_ctx_dead negb].
      rewrite !orb_true_r. cbn [andb]. rewrite andb_true_r.
      destruct (Retry.strict c); lia. }
    rewrite M. unfold stale_att. reflexivity.
  - assert (M : Retry.may_retry c r stale_att = true).
    { unfold Retry.may_retry, stale_att, Retry.allowed in *. cbn [Retry.a_new Retry.a_ctx_dead negb].
      rewrite !orb_true_r. cbn [andb]. rewrite andb_true_r.
      destruct (Retry.strict c); lia. }
    rewrite M. unfold stale_att.
    rewrite (IH (r + 1)); [reflexivity | lia | lia].
Qed.

Lemma reuse_allowed : Retry.allowed Retry.reuse_cfg = reuse_max_retry + 1.
Proof. reflexivity. Qed.

Lemma reuse_stale_answered k f q :
  N.of_nat k <= reuse_max_retry + 1 ->
  reuse_stale k f q = (Reply (f q), mkEff true 1 (repeat q (S k))).
Proof.
  intro H. unfold reuse_stale. rewrite loop_stale_then_fresh; [reflexivity|].
  rewrite reuse_allowed. lia.
Qed.

Lemma reuse_stale_too_many k f q :
  N.of_nat k = reuse_max_retry + 2 ->
  reuse_stale k f q = (Err e_closed, mkEff false 0 (repeat q k)).
Proof.
  intro H. unfold reuse_stale. rewrite loop_stale_too_many; [reflexivity| |].
  - rewrite reuse_allowed. lia.
  - unfold reuse_max_retry in H. lia.
Qed.

Lemma fallback_over_stale_conns q r k f :
  msg_truncated r = Some true -> N.of_nat k <= reuse_max_retry + 1 ->
  udp_with_fallback q (Reply r) (fun q' => fst (reuse_stale k f q')) = (RReply (f q), [q]).
Proof.
  intros E H. rewrite (result_is_tcp_reply_when_tc _ _ _ E), reuse_stale_answered by exact H.
  reflexivity.
Qed.

(** * A re-sent query is the same query *)

Lemma resend_same_datagram q qid n d : In d (udp_sends q qid n) -> d = udp_wire_query q qid.
Proof. intro H. apply repeat_spec in H. exact H. Qed.

(** whichever datagram of the exchange a server answers (echoing the id of the
    datagram it answers), the reply is the one the waiting exchange takes *)
Lemma answer_to_any_send_accepted q qid n d r ds :
  In d (udp_sends q qid n) -> qid < 65536 ->
  get_id r = get_id d -> tr_dns_header_len <= len r -> len r <= udp_rx_buf ->
  udp_receive qid (r :: ds) = Some r.
Proof.
  intros I Q G L1 L2. apply resend_same_datagram in I. subst d.
  apply udp_receive_first; auto.
  rewrite G. unfold udp_wire_query. apply put_id_get_id. exact Q.
Qed.

(** * Any number of idle connections that died (and were seen to die) is harmless *)

Lemma reuse_dead_idle_answered k f q :
  reuse_dead_idle k f q = (Reply (f q), mkEff true 1 [q]).
Proof.
  unfold reuse_dead_idle, idle_after_noticed_deaths. rewrite Nat.sub_diag.
  rewrite reuse_stale_answered; [reflexivity|]. cbn. lia.
Qed.

Lemma fallback_over_dead_idle_conns q r k f :
  msg_truncated r = Some true ->
  udp_with_fallback q (Reply r) (fun q' => fst (reuse_dead_idle k f q')) = (RReply (f q), [q]).
Proof.
  intro E. rewrite (result_is_tcp_reply_when_tc _ _ _ E), reuse_dead_idle_answered. reflexivity.
Qed.
