(** Proofs about the stream framing model (C16). *)
From Verif Require Import Base.Prelude Gen.Constants Model.Framing.
From Coq Require Import Permutation.
Open Scope N_scope.

Lemma framing_constants : min_frame_len = 13 /\ max_msg_size = 65535.
Proof. split; reflexivity. Qed.

(** ** io.ReadFull *)

Lemma read_full_aux_complete : forall s n a b got,
  flat s = a ++ b -> length a = n ->
  exists s', read_full_aux got n s = (Ok a, s') /\ flat s' = b.
Proof.
  induction s as [|r t IH]; intros n a b got Hf Hl.
  - destruct a as [|x a]; simpl in *; subst.
    + exists []. split; reflexivity.
    + discriminate.
  - destruct n as [|n].
    + destruct a; [|discriminate]. simpl in *. exists (r :: t). destruct r; split; auto.
    + destruct r as [c|].
      * cbn [read_full_aux]. cbn [flat] in Hf.
        destruct (Nat.leb_spec (length c) (S n)) as [Hle|Hgt].
        -- (* the whole chunk is consumed *)
           assert (Ha : a = c ++ skipn (length c) a /\ flat t = skipn (length c) a ++ b).
           { clear IH. revert a Hf Hl Hle. generalize (S n) as k. induction c as [|y c IHc]; intros k a Hf Hl Hle.
             - simpl. split; auto.
             - destruct a as [|z a]; simpl in *; [lia|].
               injection Hf as -> Hf. destruct k; [lia|].
               destruct (IHc k a Hf) as [E1 E2]; [lia|lia|]. split; [f_equal; exact E1 | exact E2]. }
           destruct Ha as [Ea Et].
           destruct (IH (S n - length c)%nat (skipn (length c) a) b (got || negb (length c =? 0)%nat) Et) as [s' [Hr Hs']].
           { rewrite skipn_length. lia. }
           rewrite Hr. exists s'. split; [|exact Hs']. rewrite <- Ea. reflexivity.
        -- (* the chunk is longer than what is needed *)
           exists (Chunk (skipn (S n) c) :: t). cbn [flat].
           assert (Ha : a = firstn (S n) c /\ skipn (S n) c ++ flat t = b).
           { clear IH. revert a Hf Hl Hgt. generalize (S n) as k. induction c as [|y c IHc]; intros k a Hf Hl Hgt.
             - simpl in Hgt. lia.
             - destruct k.
               + destruct a; [|discriminate]. simpl in *. split; auto.
               + destruct a as [|z a]; [discriminate|]. simpl in *. injection Hf as -> Hf.
                 destruct (IHc k a Hf) as [E1 E2]; [lia|lia|]. split; [f_equal; exact E1 | exact E2]. }
           destruct Ha as [-> <-]. split; reflexivity.
      * simpl in Hf. destruct a; discriminate.
Qed.

Lemma read_full_aux_sound : forall s n a s' got,
  read_full_aux got n s = (Ok a, s') -> flat s = a ++ flat s' /\ length a = n.
Proof.
  induction s as [|r t IH]; intros n a s' got H.
  - destruct n; simpl in H; inversion H; subst; auto.
  - destruct n as [|n].
    + simpl in H. inversion H; subst. auto.
    + destruct r as [c|]; cbn [read_full_aux] in H; [|discriminate].
      destruct (Nat.leb_spec (length c) (S n)) as [Hle|Hgt].
      * destruct (read_full_aux (got || negb (length c =? 0)%nat) (S n - length c) t) as [[r|e] s''] eqn:E;
          [|discriminate].
        inversion H; subst. apply IH in E as [E1 E2]. cbn [flat]. rewrite E1, app_assoc.
        split; [reflexivity|]. rewrite app_length. lia.
      * set (k := S n) in *. clearbody k. injection H as <- <-. cbn [flat]. rewrite app_assoc, firstn_skipn. split; [reflexivity|].
        rewrite firstn_length. lia.
Qed.

Lemma read_full_aux_nofail : forall s n got r s',
  read_full_aux got n s = (r, s') -> nofail s = true -> nofail s' = true.
Proof.
  induction s as [|x t IH]; intros n got r s' H Hn.
  - destruct n; simpl in H; inversion H; reflexivity.
  - destruct n as [|n]; [simpl in H; inversion H; subst; exact Hn|].
    destruct x as [c|]; [|discriminate]. cbn [read_full_aux] in H. cbn [nofail] in Hn.
    destruct (length c <=? S n)%nat.
    + destruct (read_full_aux (got || negb (length c =? 0)%nat) (S n - length c) t) as [[a|e] s''] eqn:E;
        inversion H; subst; eapply IH; eauto.
    + inversion H; subst. exact Hn.
Qed.

(** Fewer bytes than requested and no failing read: an EOF-class error;
    plain EOF exactly when nothing at all was read. *)
Lemma read_full_aux_short : forall s n got,
  nofail s = true -> (length (flat s) < n)%nat ->
  exists e s', read_full_aux got n s = (Er e, s') /\
    e = (if got || negb (length (flat s) =? 0)%nat then EUnexpectedEOF else EEOF).
Proof.
  induction s as [|x t IH]; intros n got Hn Hl.
  - destruct n; [simpl in Hl; lia|]. simpl. exists (if got then EUnexpectedEOF else EEOF), [].
    split; [reflexivity|]. destruct got; reflexivity.
  - destruct n as [|n]; [lia|]. destruct x as [c|]; [|discriminate].
    cbn [read_full_aux]. cbn [flat nofail] in *. rewrite app_length in Hl.
    destruct (Nat.leb_spec (length c) (S n)); [|lia].
    destruct (IH (S n - length c)%nat (got || negb (length c =? 0)%nat) Hn) as [e [s' [Hr He]]]; [lia|].
    rewrite Hr. exists e, s'. split; [reflexivity|]. rewrite He, app_length.
    destruct got; simpl; [reflexivity|].
    destruct (Nat.eqb_spec (length c) 0) as [E|E]; simpl.
    + rewrite E. reflexivity.
    + destruct (Nat.eqb_spec (length c + length (flat t)) 0); [lia|reflexivity].
Qed.

(** ** The two byte length *)

Lemma dec_enc_len n : n < 65536 -> dec_len (enc_len n) = n.
Proof. intros H. unfold dec_len, enc_len. simpl. lia. Qed.

Lemma enc_len_length n : length (enc_len n) = 2%nat.
Proof. reflexivity. Qed.

Lemma frame_some m f : frame m = Some f -> f = enc_len (len m) ++ m /\ len m <= 65535.
Proof.
  unfold frame. destruct (N.leb_spec (len m) max_msg_size) as [H|H]; [|discriminate].
  intros E; inversion E; subst. split; [reflexivity|exact H].
Qed.

Lemma frame_none m : frame m = None <-> 65535 < len m.
Proof.
  unfold frame. destruct (N.leb_spec (len m) max_msg_size) as [H|H]; change max_msg_size with 65535 in H.
  - split; [discriminate|lia].
  - split; [intros _; exact H|reflexivity].
Qed.

(** ** One frame through any chunking *)

Theorem read_frame_roundtrip s m f rest :
  13 <= len m -> frame m = Some f -> flat s = f ++ rest ->
  exists s', read_frame s = (Ok m, s') /\ flat s' = rest.
Proof.
  intros Hmin Hf Hs. apply frame_some in Hf as [-> Hmax].
  rewrite <- app_assoc in Hs.
  destruct (read_full_aux_complete s 2 (enc_len (len m)) (m ++ rest) false Hs (enc_len_length _)) as [s1 [H1 F1]].
  unfold read_frame, read_full. rewrite H1. rewrite dec_enc_len by lia.
  destruct (N.ltb_spec (len m) min_frame_len) as [H|H]; [change min_frame_len with 13 in H; lia|].
  destruct (read_full_aux_complete s1 (N.to_nat (len m)) m rest false F1) as [s2 [H2 F2]].
  { unfold len. lia. }
  exists s2. split; assumption.
Qed.

(** Whatever [read_frame] returns was announced: the returned buffer is
    exactly the [dec_len h] bytes that follow the two header bytes [h], and it
    is never shorter than 13 bytes. *)
Theorem read_frame_sound s m s' :
  read_frame s = (Ok m, s') ->
  exists h, length h = 2%nat /\ flat s = h ++ m ++ flat s' /\ len m = dec_len h /\ 13 <= len m.
Proof.
  unfold read_frame, read_full. intros H.
  destruct (read_full_aux false 2 s) as [[h|e] s1] eqn:E1; [|discriminate].
  apply read_full_aux_sound in E1 as [F1 L1].
  destruct (N.ltb_spec (dec_len h) min_frame_len) as [Hs|Hs]; [discriminate|].
  apply read_full_aux_sound in H as [F2 L2].
  exists h. split; [exact L1|]. split; [rewrite F1, F2; reflexivity|].
  change min_frame_len with 13 in Hs. unfold len. rewrite L2. lia.
Qed.

(** A frame cut anywhere (EOF inside the header or the body): an EOF-class
    error, never a short message. *)
Theorem read_frame_truncated s m f k :
  13 <= len m -> frame m = Some f -> (k < length f)%nat -> nofail s = true -> flat s = firstn k f ->
  exists e s', read_frame s = (Er e, s') /\ (e = EEOF \/ e = EUnexpectedEOF).
Proof.
  intros Hmin Hf Hk Hn Hs. apply frame_some in Hf as [-> Hmax].
  unfold read_frame, read_full.
  destruct (Nat.ltb_spec k 2) as [Hk2|Hk2].
  - destruct (read_full_aux_short s 2 false Hn) as [e [s' [Hr He]]].
    { rewrite Hs, firstn_length. lia. }
    rewrite Hr. exists e, s'. split; [reflexivity|]. rewrite He.
    destruct (false || _); auto.
  - (* header complete, body short *)
    assert (Hsplit : firstn k (enc_len (len m) ++ m) = enc_len (len m) ++ firstn (k - 2) m).
    { rewrite firstn_app, enc_len_length. f_equal. apply firstn_all2. rewrite enc_len_length. exact Hk2. }
    rewrite Hsplit in Hs.
    destruct (read_full_aux_complete s 2 _ _ false Hs (enc_len_length _)) as [s1 [H1 F1]].
    rewrite H1, dec_enc_len by lia.
    destruct (N.ltb_spec (len m) min_frame_len) as [H|H]; [change min_frame_len with 13 in H; lia|].
    pose proof (read_full_aux_nofail _ _ _ _ _ H1 Hn) as Hn1.
    destruct (read_full_aux_short s1 (N.to_nat (len m)) false Hn1) as [e [s' [Hr He]]].
    { rewrite F1, firstn_length. rewrite app_length, enc_len_length in Hk. unfold len. lia. }
    rewrite Hr. exists e, s'. split; [reflexivity|]. rewrite He. destruct (false || _); auto.
Qed.

(** An announced length of 12 or less is refused. *)
Theorem read_frame_small s h rest :
  length h = 2%nat -> dec_len h <= 12 -> flat s = h ++ rest ->
  exists s', read_frame s = (Er ETooSmall, s').
Proof.
  intros Hl Hd Hs. unfold read_frame, read_full.
  destruct (read_full_aux_complete s 2 h rest false Hs Hl) as [s1 [H1 _]]. rewrite H1.
  destruct (N.ltb_spec (dec_len h) min_frame_len) as [H|H]; [|change min_frame_len with 13 in H; lia].
  exists s1. reflexivity.
Qed.

(** ** A sequence of frames *)

Definition valid_msg (m : bytes) : Prop := 13 <= len m <= 65535.

Definition frame_bytes (m : bytes) : bytes := enc_len (len m) ++ m.

Lemma frame_valid m : valid_msg m -> frame m = Some (frame_bytes m).
Proof.
  intros [_ H]. unfold frame. destruct (N.leb_spec (len m) max_msg_size) as [H'|H']; [reflexivity|].
  change max_msg_size with 65535 in H'. lia.
Qed.

Theorem read_frames_sequence : forall ms s fuel,
  Forall valid_msg ms -> nofail s = true -> flat s = concat (map frame_bytes ms) ->
  (length ms < fuel)%nat -> read_frames fuel s = (ms, EEOF).
Proof.
  induction ms as [|m ms IH]; intros s fuel Hv Hn Hs Hfuel.
  - destruct fuel; [lia|]. cbn [read_frames]. unfold read_frame, read_full.
    destruct (read_full_aux_short s 2 false Hn) as [e [s' [Hr He]]].
    { rewrite Hs. simpl. lia. }
    rewrite Hr, He, Hs. reflexivity.
  - destruct fuel; [simpl in Hfuel; lia|]. cbn [read_frames].
    inversion Hv as [|? ? Hm Hms]; subst.
    cbn [map concat] in Hs.
    destruct (read_frame_roundtrip s m (frame_bytes m) _ (proj1 Hm) (frame_valid m Hm) Hs) as [s' [Hr Fs']].
    rewrite Hr.
    assert (Hn' : nofail s' = true).
    { unfold read_frame, read_full in Hr.
      destruct (read_full_aux false 2 s) as [[h|e] s1] eqn:E1; [|discriminate].
      pose proof (read_full_aux_nofail _ _ _ _ _ E1 Hn) as Hn1.
      destruct (dec_len h <? min_frame_len); [discriminate|].
      eapply read_full_aux_nofail; eauto. }
    rewrite (IH s' fuel Hms Hn' Fs'); [reflexivity|simpl in Hfuel; lia].
Qed.

(** Whole frames in any order (concurrent writers each emitting one whole
    frame per write) decode to the same messages in that order. *)
Corollary whole_frames_any_order ms ms' s :
  Forall valid_msg ms -> Permutation ms ms' -> nofail s = true ->
  flat s = concat (map frame_bytes ms') ->
  read_frames (S (length ms')) s = (ms', EEOF).
Proof.
  intros Hv Hp Hn Hs. apply read_frames_sequence; auto.
  eapply Permutation_Forall; eauto.
Qed.

(** [chunk_by] only re-cuts the bytes: every chunking delivers the same bytes. *)
Lemma chunk_by_flat : forall fuel sizes cur b, flat (chunk_by fuel sizes cur b) = b /\ nofail (chunk_by fuel sizes cur b) = true.
Proof.
  induction fuel as [|f IH]; intros sizes cur b.
  - simpl. rewrite app_nil_r. auto.
  - cbn [chunk_by]. destruct b as [|x b]; [auto|].
    destruct cur as [|k cur'].
    + destruct sizes as [|k0 sz]; [simpl; rewrite app_nil_r; auto|]. apply IH.
    + cbn [flat nofail]. destruct (IH sizes cur' (skipn k (x :: b))) as [E1 E2].
      rewrite E1, E2, firstn_skipn. auto.
Qed.

Theorem roundtrip_any_chunking fuel sizes m f rest :
  13 <= len m -> frame m = Some f ->
  exists s', read_frame (chunk_by fuel sizes sizes (f ++ rest)) = (Ok m, s') /\ flat s' = rest.
Proof.
  intros Hmin Hf. eapply read_frame_roundtrip; eauto. apply chunk_by_flat.
Qed.
