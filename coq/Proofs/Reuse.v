(** Invariants of the non-pipelined transport (Model.Reuse), for every label list. *)
From Verif Require Import Base.Prelude Gen.Constants Gen.RetryFacts Model.Reuse.
Open Scope N_scope.

Lemma xpc_eqb_eq a b : xpc_eqb a b = true -> a = b.
Proof. destruct a, b; simpl; congruence. Qed.

(** * Pool structure *)

Record PInv (s : xst) : Prop := {
  p_nd_idle : NoDup (idle s);
  p_nd_cset : NoDup (cset s);
  p_idle_sub : forall n, In n (idle s) -> In n (cset s);
  p_cset : forall n, In n (cset s) -> xexists (conns s n) = true /\ xclosed (conns s n) = false;
  p_open : forall n, xexists (conns s n) = true -> xclosed (conns s n) = false -> In n (cset s);
  p_bound : forall n, xexists (conns s n) = true -> (n < nconns s)%nat;
  p_tclosed : tclosed s = true -> cset s = []
}.

Lemma pinv_init : PInv xinit.
Proof.
  constructor; simpl; try constructor; try (intros; contradiction); try (intros; discriminate); auto.
Qed.

(** Lemmas about the three pool operations. *)
Lemma pinv_close_conn s n e : PInv s -> PInv (close_conn s n e).
Proof.
  intros H. unfold close_conn. destruct (xclosed (conns s n)) eqn:C; [exact H|].
  destruct H. constructor; simpl.
  - apply gremove_NoDup; assumption.
  - apply gremove_NoDup; assumption.
  - intros x. rewrite !gremove_In. intros [I N]. split; auto.
  - intros x. rewrite gremove_In. intros [I N]. rewrite gupd_other by assumption. auto.
  - intros x. destruct (Nat.eq_dec x n) as [->|N]; [rewrite gupd_same; simpl; discriminate|].
    rewrite gupd_other by assumption. intros. rewrite gremove_In. auto.
  - intros x. destruct (Nat.eq_dec x n) as [->|N]; [rewrite gupd_same; simpl; apply p_bound0|rewrite gupd_other by assumption; apply p_bound0].
  - intros T. rewrite (p_tclosed0 T). reflexivity.
Qed.

Lemma pinv_set_idle s n : PInv s -> PInv (set_idle s n).
Proof.
  intros H. unfold set_idle. destruct (tclosed s) eqn:T; [exact H|].
  destruct (gmem n (cset s)) eqn:M; [|exact H]. destruct (gmem n (idle s)) eqn:I; [exact H|].
  apply gmem_In in M. apply gmem_false in I. destruct H.
  constructor; simpl; auto; try (constructor; assumption); try (intros x [<-|Hx]; auto); try congruence.
Qed.

Lemma close_all_spec : forall l f n,
  (In n l -> xclosed (close_all f l n) = true) /\
  (~ In n l -> close_all f l n = f n) /\
  xexists (close_all f l n) = xexists (f n) /\
  (xclosed (f n) = true -> xclosed (close_all f l n) = true) /\
  xwaiting (close_all f l n) = xwaiting (f n).
Proof.
  induction l as [|m l IH]; intros f n; simpl; [split; [intros []|repeat split; auto]|].
  set (g := if xclosed (f m) then f else gupd f m _).
  destruct (IH g n) as (A & B & C & D & E).
  assert (Gn : xexists (g n) = xexists (f n) /\ xwaiting (g n) = xwaiting (f n) /\
               (xclosed (f n) = true -> xclosed (g n) = true) /\ (n <> m -> g n = f n) /\ (n = m -> xclosed (g n) = true)).
  { unfold g. destruct (xclosed (f m)) eqn:Cm.
    - repeat split; auto; try (intros ->; exact Cm).
    - destruct (Nat.eq_dec n m) as [->|N].
      + rewrite gupd_same. simpl. repeat split; auto; congruence.
      + rewrite gupd_other by assumption. repeat split; auto; congruence. }
  destruct Gn as (G1 & G2 & G3 & G4 & G5).
  repeat split.
  - intros [->|I]; [apply D; apply G5; reflexivity|apply A; exact I].
  - intros N. rewrite B by tauto. apply G4. intros ->. apply N. left. reflexivity.
  - congruence.
  - intros X. apply D. apply G3. exact X.
  - congruence.
Qed.

Ltac xsplitn x n :=
  destruct (Nat.eq_dec x n) as [->|?]; [rewrite ?gupd_same in * | rewrite ?gupd_other in * by assumption].

(** A connection changes without changing existence, closedness; its waiter may change unless it is idle. *)
Lemma pinv_set_conn s n v :
  PInv s -> xexists v = xexists (conns s n) -> xclosed v = xclosed (conns s n) ->
  PInv (set_xconn s n v).
Proof.
  intros H E C. destruct H. unfold set_xconn. constructor; simpl; auto.
  - intros x Hx. xsplitn x n; [rewrite E, C|]; auto.
  - intros x. xsplitn x n; [rewrite E, C|]; auto.
  - intros x. xsplitn x n; [rewrite E|]; auto.
Qed.

Lemma pinv_set_call s c v : PInv s -> PInv (set_xcall s c v).
Proof. intros []. constructor; simpl; auto. Qed.

Lemma pinv_calls s f : PInv s -> PInv (mkXS (tclosed s) (nconns s) (cset s) (idle s) (conns s) f).
Proof. intros []. constructor; simpl; auto. Qed.

Lemma pinv_conn_calls s n v f :
  PInv s -> xexists v = xexists (conns s n) -> xclosed v = xclosed (conns s n) ->
  PInv (mkXS (tclosed s) (nconns s) (cset s) (idle s) (gupd (conns s) n v) f).
Proof. intros H E C. apply (pinv_calls (set_xconn s n v)). apply pinv_set_conn; assumption. Qed.

Theorem pinv_step s l s' : PInv s -> xstep s l = Some s' -> PInv s'.
Proof.
  intros H Hs. destruct l; cbn [xstep] in Hs.
  - destruct (xpc_eqb (upc (xcalls s c)) U0); inversion Hs; subst. apply pinv_set_call; exact H.
  - destruct (xpc_eqb (upc (xcalls s c)) ULoop); [|discriminate].
    destruct (tclosed s) eqn:T; [inversion Hs; subst; apply pinv_set_call; exact H|].
    destruct pick as [n|].
    + destruct (gmem n (idle s)) eqn:M; [|discriminate]. inversion Hs; subst. apply gmem_In in M.
      destruct H. constructor; simpl; auto.
      * apply gremove_NoDup; assumption.
      * intros x. rewrite gremove_In. intros [I _]. auto.
      * intros X. congruence.
    + destruct (idle s); [|discriminate]. inversion Hs; subst. apply pinv_set_call; exact H.
  - destruct (udial (xcalls s c)); try discriminate. destruct ok.
    + destruct (tclosed s) eqn:T; [inversion Hs; subst; apply pinv_set_call; exact H|].
      inversion Hs; subst. destruct H.
      assert (Hn : ~ In (nconns s) (cset s)).
      { intros I. destruct (p_cset0 _ I) as [E _]. apply p_bound0 in E. lia. }
      constructor; simpl; auto;
        try (constructor; assumption);
        try (intros x Hx; right; auto; fail);
        try (intros x [<-|Hx]; [rewrite gupd_same; auto|];
             assert (x <> nconns s) by (intros ->; contradiction); rewrite gupd_other by assumption; auto);
        try (intros x; xsplitn x (nconns s); [auto|]; intros; right; auto; fail);
        try (intros x; xsplitn x (nconns s); [lia|]; intros E; apply p_bound0 in E; lia);
        try congruence.
    + inversion Hs; subst. apply pinv_set_call; exact H.
  - destruct (xpc_eqb (upc (xcalls s c)) UDialWait); [|discriminate].
    destruct (udial (xcalls s c)) as [| |[n|] e|]; try discriminate; inversion Hs; subst; apply pinv_set_call; exact H.
  - destruct (xpc_eqb (upc (xcalls s c)) UDialWait && (uctx (xcalls s c) || tclosed s)); inversion Hs; subst.
    apply pinv_set_call; exact H.
  - destruct (upc (xcalls s c)); try discriminate. destruct (udial (xcalls s c)) as [| |r e|]; try discriminate.
    inversion Hs; subst. destruct r as [n|]; [|apply pinv_set_call; exact H].
    apply pinv_set_idle. apply pinv_set_call. exact H.
  - (* MInstall *)
    destruct (xpc_eqb (upc (xcalls s c)) UHave); [|discriminate].
    destruct (if xexists (conns s (uconn (xcalls s c))) then xwaiting (conns s (uconn (xcalls s c))) else Some (c, 0)); [discriminate|].
    inversion Hs; subst. apply pinv_conn_calls; auto.
  - (* MWriteBegin *)
    destruct (xpc_eqb (upc (xcalls s c)) UInstalled && xexists (conns s (uconn (xcalls s c)))); [|discriminate]. inversion Hs; subst.
    apply pinv_conn_calls; auto.
  - (* MWriteEnd *)
    destruct (xpc_eqb (upc (xcalls s c)) UWriting); [|discriminate]. destruct ok; inversion Hs; subst.
    + apply pinv_set_call; exact H.
    + apply pinv_set_call. apply pinv_close_conn. exact H.
  - (* MSelect *)
    destruct (xpc_eqb (upc (xcalls s c)) UWaiting); [|discriminate]. destruct k.
    + destruct (ubuf (xcalls s c)); inversion Hs; subst. apply pinv_set_call; exact H.
    + destruct (xclosed (conns s (uconn (xcalls s c)))); inversion Hs; subst. apply pinv_set_call; exact H.
    + destruct (uctx (xcalls s c)); inversion Hs; subst. apply pinv_set_call; exact H.
  - (* MTake *)
    destruct (upc (xcalls s c)); try discriminate. destruct (ubuf (xcalls s c)); inversion Hs; subst; apply pinv_set_call; exact H.
  - (* MAfter *)
    destruct (upc (xcalls s c)); try discriminate. destruct (may_retry_reuse (xcalls s c)); inversion Hs; subst; apply pinv_set_call; exact H.
  - (* MCtx *)
    inversion Hs; subst. apply pinv_set_call; exact H.
  - (* MRecv *)
    destruct (xexists (conns s n) && negb (xrdead (conns s n))); [|discriminate].
    destruct (xhold (conns s n)); [discriminate|]. inversion Hs; subst. apply pinv_set_conn; auto.
  - (* MDispatch *)
    destruct (if xexists (conns s n) then xhold (conns s n) else None) as [r|]; [|discriminate].
    destruct (xwaiting (conns s n)) as [[c att]|].
    + match type of Hs with context [set_idle ?a ?b] => assert (P2 : PInv (set_idle a b)) by (apply pinv_set_idle; apply pinv_set_conn; auto) end.
      match type of Hs with (if ?b then _ else _) = _ => destruct b end; inversion Hs; subst; [apply pinv_set_call|]; exact P2.
    + inversion Hs; subst. apply pinv_close_conn. apply pinv_set_conn; auto.
  - (* MRecvErr *)
    destruct (xexists (conns s n) && negb (xrdead (conns s n))); [|discriminate].
    destruct (xhold (conns s n)); [discriminate|]. inversion Hs; subst. apply pinv_close_conn. apply pinv_set_conn; auto.
  - (* MTClose *)
    destruct (tclosed s) eqn:T; inversion Hs; subst; [exact H|].
    destruct H. constructor; simpl; auto; try constructor; try (intros; contradiction).
    + intros n E C. destruct (close_all_spec (cset s) (conns s) n) as (A & B & X & D & W).
      rewrite X in E. destruct (xclosed (conns s n)) eqn:Cn; [rewrite (D eq_refl) in C; discriminate|].
      pose proof (p_open0 n E Cn) as I. rewrite (A I) in C. discriminate.
    + intros n E. destruct (close_all_spec (cset s) (conns s) n) as (A & B & X & D & W). rewrite X in E. auto.
Qed.

Theorem pinv_run : forall ls s s', PInv s -> xrun s ls = Some s' -> PInv s'.
Proof.
  induction ls as [|l ls IH]; intros s s' H R; simpl in R; [inversion R; subst; exact H|].
  destruct (xstep s l) as [s1|] eqn:E; [|discriminate]. eapply IH; [eapply pinv_step; eauto|exact R].
Qed.

(** * Calls and their reply channels *)
Arguments gupd : simpl never.

Record KInv (s : xst) : Prop := {
  k_b1 : forall c, in_attempt (upc (xcalls s c)) = true -> ugot (xcalls s c) = None ->
         xwaiting (conns s (uconn (xcalls s c))) = Some (c, uatt (xcalls s c));
  k_buf : forall c, in_attempt (upc (xcalls s c)) = true -> ubuf (xcalls s c) = ugot (xcalls s c);
  k_nobuf : forall c, in_attempt (upc (xcalls s c)) = false ->
            ubuf (xcalls s c) = None /\ (ures (xcalls s c) = None -> ugot (xcalls s c) = None);
  k_res : forall c r, ures (xcalls s c) = Some (XOk r) -> ugot (xcalls s c) = Some r;
  k_err : forall c e, ures (xcalls s c) = Some (XErr e) -> ugot (xcalls s c) = None;
  k_done : forall c, ures (xcalls s c) = None <-> upc (xcalls s c) <> UDone;
  k_fresh : forall n, (nconns s <= n)%nat -> xwaiting (conns s n) = None
}.

Lemma kinv_init : KInv xinit.
Proof.
  constructor; simpl; try (intros; discriminate); auto.
  intros c; split; [discriminate|reflexivity].
Qed.

Ltac ksplit x c :=
  let N := fresh "Hxc" in
  destruct (Nat.eq_dec x c) as [->|N];
  [rewrite ?gupd_same in *
  |repeat match goal with
          | |- context [gupd ?f c ?v x] => rewrite (gupd_other f c v x N)
          | H : context [gupd ?f c ?v x] |- _ => rewrite (gupd_other f c v x N) in H
          end].

(** Only call [c] changes; connections keep their waiters. *)
Lemma kinv_call s c v (cs : nat -> xconn) tc cse idl :
  KInv s ->
  (forall n, xwaiting (cs n) = xwaiting (conns s n)) ->
  (in_attempt (upc v) = true -> ugot v = None -> xwaiting (conns s (uconn v)) = Some (c, uatt v)) ->
  (in_attempt (upc v) = true -> ubuf v = ugot v) ->
  (in_attempt (upc v) = false -> ubuf v = None /\ (ures v = None -> ugot v = None)) ->
  (forall r, ures v = Some (XOk r) -> ugot v = Some r) ->
  (forall e, ures v = Some (XErr e) -> ugot v = None) ->
  (ures v = None <-> upc v <> UDone) ->
  KInv (mkXS tc (nconns s) cse idl cs (gupd (xcalls s) c v)).
Proof.
  intros H Hc V1 V2 V3 V4 V5 V6. destruct H. constructor; simpl.
  - intros x A G. ksplit x c; rewrite Hc; auto.
  - intros x A. ksplit x c; auto.
  - intros x A. ksplit x c; auto.
  - intros x r A. ksplit x c; auto.
  - intros x e A. ksplit x c; eauto.
  - intros x. ksplit x c; auto.
  - intros n Hn. rewrite Hc. auto.
Qed.

Lemma conns_close_conn s n e x : xwaiting (conns (close_conn s n e) x) = xwaiting (conns s x).
Proof.
  unfold close_conn. destruct (xclosed (conns s n)); [auto|]. simpl.
  destruct (Nat.eq_dec x n) as [->|N]; [rewrite gupd_same; auto|rewrite gupd_other by assumption; auto].
Qed.
Lemma calls_close_conn s n e : xcalls (close_conn s n e) = xcalls s.
Proof. unfold close_conn. destruct (xclosed (conns s n)); reflexivity. Qed.
Lemma nconns_close_conn s n e : nconns (close_conn s n e) = nconns s.
Proof. unfold close_conn. destruct (xclosed (conns s n)); reflexivity. Qed.
Lemma conns_set_idle s n : conns (set_idle s n) = conns s /\ xcalls (set_idle s n) = xcalls s /\ nconns (set_idle s n) = nconns s.
Proof. unfold set_idle. destruct (tclosed s), (gmem n (cset s)), (gmem n (idle s)); auto. Qed.

(** Pool bookkeeping does not matter to [KInv]. *)
Lemma kinv_pool s tc cse idl cs :
  KInv s -> (forall n, xwaiting (cs n) = xwaiting (conns s n)) ->
  KInv (mkXS tc (nconns s) cse idl cs (xcalls s)).
Proof.
  intros H Hc. destruct H. constructor; simpl; auto.
  - intros x A G. rewrite Hc. auto.
  - intros n Hn. rewrite Hc. auto.
Qed.

Lemma kinv_close_conn s n e : KInv s -> KInv (close_conn s n e).
Proof.
  intros H. pose proof (kinv_pool s (tclosed (close_conn s n e)) (cset (close_conn s n e)) (idle (close_conn s n e))
                                  (conns (close_conn s n e)) H (conns_close_conn s n e)) as K.
  rewrite <- (nconns_close_conn s n e), <- (calls_close_conn s n e) in K. destruct (close_conn s n e); exact K.
Qed.

Lemma kinv_set_idle s n : KInv s -> KInv (set_idle s n).
Proof.
  intros H. unfold set_idle. destruct (tclosed s); [exact H|]. destruct (gmem n (cset s)); [|exact H].
  destruct (gmem n (idle s)); [exact H|]. apply (kinv_pool s false (cset s) (n :: idle s) (conns s) H). auto.
Qed.

Ltac kfacts s H c :=
  pose proof (k_b1 s H c) as Kb1; pose proof (k_buf s H c) as Kbuf; pose proof (k_nobuf s H c) as Knb;
  pose proof (k_res s H c) as Kres; pose proof (k_err s H c) as Kerr; pose proof (k_done s H c) as Kdone.

Ltac kclose :=
  simpl; try (intros ?n; reflexivity); try reflexivity; try discriminate; try (intros; discriminate);
  try (split; [intros; discriminate|intros; congruence]); try (split; [reflexivity|intros; congruence]);
  try (split; intros; congruence); try tauto; eauto.

(** The call keeps everything but its program counter, staying inside / outside an attempt. *)
Lemma kinv_pc s c p :
  KInv s -> in_attempt p = in_attempt (upc (xcalls s c)) -> (p = UDone <-> upc (xcalls s c) = UDone) ->
  KInv (set_xcall s c (with_upc (xcalls s c) p)).
Proof.
  intros H A D. kfacts s H c. unfold set_xcall. apply kinv_call; auto; simpl; try (intros; reflexivity); rewrite ?A; auto.
  rewrite Kdone. tauto.
Qed.

Lemma kinv_pc' s c k p :
  KInv s -> k = xcalls s c -> in_attempt p = in_attempt (upc k) -> (p = UDone <-> upc k = UDone) ->
  KInv (set_xcall s c (with_upc k p)).
Proof. intros H -> A D. apply kinv_pc; assumption. Qed.

Theorem kinv_step s l s' : PInv s -> KInv s -> xstep s l = Some s' -> KInv s'.
Proof.
  intros HP H Hs. destruct l; cbn [xstep] in Hs.
  - (* MBegin *)
    destruct (xpc_eqb (upc (xcalls s c)) U0) eqn:E; [|discriminate]. apply xpc_eqb_eq in E.
    inversion Hs; subst. apply kinv_pc; auto; rewrite E; [reflexivity|split; discriminate].
  - (* MGetIdle *)
    destruct (xpc_eqb (upc (xcalls s c)) ULoop) eqn:E; [|discriminate]. apply xpc_eqb_eq in E.
    kfacts s H c. rewrite E in *. simpl in *. destruct (Knb eq_refl) as [Nb Ng].
    assert (Rn : ures (xcalls s c) = None) by (apply Kdone; discriminate). specialize (Ng Rn).
    destruct (tclosed s).
    + inversion Hs; subst. unfold set_xcall. apply kinv_call; auto; kclose; try (intros e0 _; exact Ng).
    + destruct pick as [n|].
      * destruct (gmem n (idle s)) eqn:M; [|discriminate]. inversion Hs; subst. apply kinv_call; auto; kclose.
      * destruct (idle s); [|discriminate]. inversion Hs; subst. unfold set_xcall. apply kinv_call; auto; kclose.
  - (* MDialDone *)
    destruct (udial (xcalls s c)) eqn:D; try discriminate.
    kfacts s H c.
    assert (Same : forall d cs tc cse idl, (forall n, xwaiting (cs n) = xwaiting (conns s n)) ->
              KInv (mkXS tc (nconns s) cse idl cs (gupd (xcalls s) c
                (mkXCall (upc (xcalls s c)) (uconn (xcalls s c)) (unew (xcalls s c)) (uretry (xcalls s c))
                 (uatt (xcalls s c)) (ubuf (xcalls s c)) (uctx (xcalls s c)) (ures (xcalls s c)) (ugot (xcalls s c)) d (upasses (xcalls s c)))))).
    { intros d cs tc cse idl Hc. apply kinv_call; auto. }
    destruct ok; [|inversion Hs; subst; apply Same; auto].
    destruct (tclosed s); [inversion Hs; subst; apply Same; auto|]. inversion Hs; subst.
    pose proof (k_fresh s H (nconns s) (le_n _)) as Fw.
    specialize (Same (DDone (Some (nconns s)) XDial)
                     (gupd (conns s) (nconns s) (mkXC true false XRead None false None 0)) false (nconns s :: cset s) (idle s)).
    assert (Hc : forall n, xwaiting (gupd (conns s) (nconns s) (mkXC true false XRead None false None 0) n) = xwaiting (conns s n)).
    { intros n. destruct (Nat.eq_dec n (nconns s)) as [->|N]; [rewrite gupd_same; simpl; congruence|rewrite gupd_other by assumption; reflexivity]. }
    specialize (Same Hc). destruct Same as [S1 S2 S3 S4 S5 S6 S7]. constructor; simpl in *; auto.
    intros n Hn. apply S7. lia.
  - (* MDialRecv *)
    destruct (xpc_eqb (upc (xcalls s c)) UDialWait) eqn:E; [|discriminate]. apply xpc_eqb_eq in E.
    kfacts s H c. rewrite E in *. simpl in *. destruct (Knb eq_refl) as [Nb Ng].
    destruct (udial (xcalls s c)) as [| |[n|] e|] eqn:D; try discriminate; inversion Hs; subst;
      unfold set_xcall; apply kinv_call; auto; kclose.
  - (* MDialAbandon *)
    destruct (xpc_eqb (upc (xcalls s c)) UDialWait && (uctx (xcalls s c) || tclosed s)) eqn:E; [|discriminate].
    apply andb_true_iff in E as [E _]. apply xpc_eqb_eq in E.
    kfacts s H c. rewrite E in *. simpl in *. inversion Hs; subst. unfold set_xcall. apply kinv_call; auto; kclose.
  - (* MDialOrphan *)
    destruct (upc (xcalls s c)) eqn:E; try discriminate. destruct (udial (xcalls s c)) as [| |r e|] eqn:D; try discriminate.
    inversion Hs; subst. kfacts s H c. rewrite E in *. simpl in *.
    assert (K1 : KInv (set_xcall s c (mkXCall UDone (uconn (xcalls s c)) (unew (xcalls s c)) (uretry (xcalls s c)) (uatt (xcalls s c))
                   (ubuf (xcalls s c)) (uctx (xcalls s c)) (ures (xcalls s c)) (ugot (xcalls s c)) DTaken (upasses (xcalls s c))))).
    { unfold set_xcall. apply kinv_call; auto. }
    destruct r as [n|]; [apply kinv_set_idle|]; exact K1.
  - (* MInstall *)
    destruct (xpc_eqb (upc (xcalls s c)) UHave) eqn:E; [|discriminate]. apply xpc_eqb_eq in E.
    destruct (xexists (conns s (uconn (xcalls s c)))) eqn:Ex; [|discriminate].
    destruct (xwaiting (conns s (uconn (xcalls s c)))) eqn:W; [discriminate|]. inversion Hs; subst.
    pose proof (p_bound s HP _ Ex) as Bn.
    destruct H as [S1 S2 S3 S4 S5 S6 S7]. constructor; simpl.
    + intros x A G. ksplit x c; simpl in *.
      * rewrite ?gupd_same. reflexivity.
      * specialize (S1 x A G). destruct (Nat.eq_dec (uconn (xcalls s x)) (uconn (xcalls s c))) as [En|Nn];
          [rewrite En in S1; congruence|rewrite (gupd_other _ _ _ _ Nn); exact S1].
    + intros x A. ksplit x c; simpl; auto.
    + intros x A. ksplit x c; simpl in *; [discriminate|auto].
    + intros x r A. ksplit x c; simpl in *; [discriminate|auto].
    + intros x e A. ksplit x c; simpl in *; [discriminate|eauto].
    + intros x. ksplit x c; simpl; [split; [discriminate|reflexivity]|auto].
    + intros n Hn. rewrite gupd_other by lia. auto.
  - (* MWriteBegin *)
    destruct (xpc_eqb (upc (xcalls s c)) UInstalled && xexists (conns s (uconn (xcalls s c)))) eqn:E; [|discriminate].
    apply andb_true_iff in E as [E Ex]. apply xpc_eqb_eq in E. inversion Hs; subst.
    kfacts s H c. rewrite E in *. simpl in *.
    apply kinv_call; auto; simpl; rewrite ?E; auto.
    intros n. destruct (Nat.eq_dec n (uconn (xcalls s c))) as [->|N]; [rewrite gupd_same; reflexivity|rewrite gupd_other by assumption; reflexivity].
    rewrite Kdone. split; intros; discriminate.
  - (* MWriteEnd *)
    destruct (xpc_eqb (upc (xcalls s c)) UWriting) eqn:E; [|discriminate]. apply xpc_eqb_eq in E.
    destruct ok; inversion Hs; subst.
    + apply kinv_pc; auto; rewrite E; [reflexivity|split; discriminate].
    + pose proof (kinv_close_conn s (uconn (xcalls s c)) XWrite H) as K1.
      apply kinv_pc'; auto; [rewrite calls_close_conn; reflexivity|rewrite E; reflexivity|rewrite E; split; discriminate].
  - (* MSelect *)
    destruct (xpc_eqb (upc (xcalls s c)) UWaiting) eqn:E; [|discriminate]. apply xpc_eqb_eq in E.
    kfacts s H c. rewrite E in *. simpl in *. destruct k.
    + destruct (ubuf (xcalls s c)) eqn:B; [|discriminate]. inversion Hs; subst.
      unfold set_xcall. apply kinv_call; auto; kclose;
        try (intros r0 X; inversion X; subst; rewrite <- Kbuf by reflexivity; reflexivity).
    + destruct (xclosed (conns s (uconn (xcalls s c)))); [|discriminate]. inversion Hs; subst.
      apply kinv_pc; auto; rewrite E; [reflexivity|split; discriminate].
    + destruct (uctx (xcalls s c)); [|discriminate]. inversion Hs; subst.
      apply kinv_pc; auto; rewrite E; [reflexivity|split; discriminate].
  - (* MTake *)
    destruct (upc (xcalls s c)) eqn:E; try discriminate.
    kfacts s H c. rewrite E in *. simpl in *.
    destruct (ubuf (xcalls s c)) eqn:B; inversion Hs; subst.
    + unfold set_xcall. apply kinv_call; auto; kclose;
        try (intros r0 X; inversion X; subst; rewrite <- Kbuf by reflexivity; reflexivity).
    + unfold set_xcall. apply kinv_call; auto; simpl; try discriminate.
      * intros _. split; [exact B|]. intros _. rewrite <- Kbuf by reflexivity. reflexivity.
      * rewrite Kdone. split; intros; discriminate.
  - (* MAfter *)
    destruct (upc (xcalls s c)) eqn:E; try discriminate.
    kfacts s H c. rewrite E in *. simpl in *. destruct (Knb eq_refl) as [Nb Ng].
    assert (Rn : ures (xcalls s c) = None) by (apply Kdone; discriminate). specialize (Ng Rn).
    destruct (may_retry_reuse (xcalls s c)); inversion Hs; subst; unfold set_xcall; apply kinv_call; auto; kclose;
      try (intros e0 _; exact Ng).
  - (* MCtx *)
    inversion Hs; subst. kfacts s H c. unfold set_xcall. apply kinv_call; auto.
  - (* MRecv *)
    destruct (xexists (conns s n) && negb (xrdead (conns s n))); [|discriminate].
    destruct (xhold (conns s n)); [discriminate|]. inversion Hs; subst.
    unfold set_xconn. apply (kinv_pool s); auto.
    intros x. destruct (Nat.eq_dec x n) as [->|N]; [rewrite gupd_same; reflexivity|rewrite gupd_other by assumption; reflexivity].
  - (* MDispatch *)
    destruct (xexists (conns s n)) eqn:Ex; [|discriminate].
    destruct (xhold (conns s n)) as [r|]; [|discriminate].
    pose proof (p_bound s HP _ Ex) as Bn.
    destruct (xwaiting (conns s n)) as [[c att]|] eqn:W.
    + (* the waiter is taken; everybody who still relied on it must be this very attempt *)
      set (q' := mkXC true (xclosed (conns s n)) (xcerr (conns s n)) None (xrdead (conns s n)) None (xout (conns s n) - 1)) in *.
      destruct (conns_set_idle (set_xconn s n q') n) as (Ec & Ek & En).
      assert (Cs : xcalls (set_idle (set_xconn s n q') n) = xcalls s) by (rewrite Ek; reflexivity).
      assert (Cc : conns (set_idle (set_xconn s n q') n) = gupd (conns s) n q') by (rewrite Ec; reflexivity).
      assert (Cn : nconns (set_idle (set_xconn s n q') n) = nconns s) by (rewrite En; reflexivity).
      rewrite Cs in Hs. destruct H as [S1 S2 S3 S4 S5 S6 S7].
      destruct ((uatt (xcalls s c) =? att) && in_attempt (upc (xcalls s c)) && Nat.eqb (uconn (xcalls s c)) n) eqn:Chk.
      * apply andb_true_iff in Chk as [Chk C3]. apply andb_true_iff in Chk as [C1 C2].
        apply N.eqb_eq in C1. apply Nat.eqb_eq in C3. inversion Hs; subst. clear Hs.
        constructor; simpl; rewrite ?Cs, ?Cc, ?Cn.
        -- intros x A G. ksplit x c; simpl in *; [discriminate|].
           specialize (S1 x A G). destruct (Nat.eq_dec (uconn (xcalls s x)) (uconn (xcalls s c))) as [E2|N2];
             [rewrite E2, W in S1; congruence|rewrite gupd_other by assumption; exact S1].
        -- intros x A. ksplit x c; simpl; auto.
        -- intros x A. ksplit x c; simpl in *; [congruence|auto].
        -- intros x r0 A. ksplit x c; simpl in *; auto.
           exfalso. destruct (S6 c) as [_ S6b].
           assert (Hd : upc (xcalls s c) <> UDone) by (intros X; rewrite X in C2; discriminate).
           rewrite (S6b Hd) in A. discriminate.
        -- intros x e A. ksplit x c; simpl in *; [|eauto].
           exfalso. destruct (S6 c) as [_ S6b].
           assert (Hd : upc (xcalls s c) <> UDone) by (intros X; rewrite X in C2; discriminate).
           rewrite (S6b Hd) in A. discriminate.
        -- intros x. ksplit x c; simpl; auto.
        -- intros m Hm. rewrite gupd_other by lia. auto.
      * inversion Hs; subst. clear Hs.
        constructor; rewrite ?Cs, ?Cc, ?Cn; auto.
        -- intros x A G. specialize (S1 x A G).
           destruct (Nat.eq_dec (uconn (xcalls s x)) n) as [E2|N2]; [|rewrite gupd_other by assumption; exact S1].
           exfalso. rewrite E2, W in S1. injection S1 as Sc Sa. rewrite Sc, Sa in Chk.
           rewrite N.eqb_refl, A, E2, Nat.eqb_refl in Chk. discriminate.
        -- intros m Hm. rewrite gupd_other by lia. auto.
    + inversion Hs; subst. apply kinv_close_conn. unfold set_xconn. apply (kinv_pool s); auto.
      intros x. destruct (Nat.eq_dec x n) as [->|N]; [rewrite gupd_same; simpl; congruence|rewrite gupd_other by assumption; reflexivity].
  - (* MRecvErr *)
    destruct (xexists (conns s n) && negb (xrdead (conns s n))); [|discriminate].
    destruct (xhold (conns s n)); [discriminate|]. inversion Hs; subst.
    apply kinv_close_conn. unfold set_xconn. apply (kinv_pool s); auto.
    intros x. destruct (Nat.eq_dec x n) as [->|N]; [rewrite gupd_same; reflexivity|rewrite gupd_other by assumption; reflexivity].
  - (* MTClose *)
    destruct (tclosed s); inversion Hs; subst; [exact H|].
    apply (kinv_pool s); auto. intros n. destruct (close_all_spec (cset s) (conns s) n) as (_ & _ & _ & _ & W). exact W.
Qed.

Theorem kinv_run : forall ls s s', PInv s -> KInv s -> xrun s ls = Some s' -> KInv s'.
Proof.
  induction ls as [|l ls IH]; intros s s' HP H R; simpl in R; [inversion R; subst; exact H|].
  destruct (xstep s l) as [s1|] eqn:E; [|discriminate].
  eapply IH; [eapply pinv_step; eauto|eapply kinv_step; eauto|exact R].
Qed.

(** * Under the peer assumption: tags and the one-query-per-connection count *)

Record EInv (s : xst) : Prop := {
  e_tag : forall c r, ugot (xcalls s c) = Some r -> xfor r = Some c;
  e_w0 : forall n, xwaiting (conns s n) = None -> xout (conns s n) = 0;
  e_le : forall n, xout (conns s n) <= 1;
  e_inst : forall c, upc (xcalls s c) = UInstalled ->
           ugot (xcalls s c) = None /\ xout (conns s (uconn (xcalls s c))) = 0
}.

Lemma einv_init : EInv xinit.
Proof. constructor; simpl; intros; try discriminate; auto; lia. Qed.

(** Only call [c] changes (not into [UInstalled], or keeping the facts), connections keep waiter and count. *)
Lemma einv_call s c v cs tc nc cse idl :
  EInv s -> (forall n, xwaiting (cs n) = xwaiting (conns s n) /\ xout (cs n) = xout (conns s n)) ->
  (forall r, ugot v = Some r -> xfor r = Some c) ->
  (upc v = UInstalled -> ugot v = None /\ xout (conns s (uconn v)) = 0) ->
  EInv (mkXS tc nc cse idl cs (gupd (xcalls s) c v)).
Proof.
  intros H Hc V1 V2. destruct H. constructor; simpl.
  - intros x r A. ksplit x c; eauto.
  - intros n W. rewrite (proj1 (Hc n)) in W. rewrite (proj2 (Hc n)). auto.
  - intros n. rewrite (proj2 (Hc n)). auto.
  - intros x A. ksplit x c; rewrite (proj2 (Hc _)); auto.
Qed.

Lemma einv_pool s tc nc cse idl cs :
  EInv s -> (forall n, xwaiting (cs n) = xwaiting (conns s n) /\ xout (cs n) = xout (conns s n)) ->
  EInv (mkXS tc nc cse idl cs (xcalls s)).
Proof.
  intros H Hc. destruct H. constructor; simpl; auto.
  - intros n W. rewrite (proj1 (Hc n)) in W. rewrite (proj2 (Hc n)). auto.
  - intros n. rewrite (proj2 (Hc n)). auto.
  - intros x A. rewrite (proj2 (Hc _)). auto.
Qed.

Lemma conns_close_conn2 s n e x :
  xwaiting (conns (close_conn s n e) x) = xwaiting (conns s x) /\ xout (conns (close_conn s n e) x) = xout (conns s x).
Proof.
  unfold close_conn. destruct (xclosed (conns s n)); [auto|]. simpl.
  destruct (Nat.eq_dec x n) as [->|N]; [rewrite gupd_same; auto|rewrite gupd_other by assumption; auto].
Qed.

Lemma einv_close_conn s n e : EInv s -> EInv (close_conn s n e).
Proof.
  intros H. pose proof (einv_pool s (tclosed (close_conn s n e)) (nconns (close_conn s n e)) (cset (close_conn s n e))
                                  (idle (close_conn s n e)) (conns (close_conn s n e)) H (conns_close_conn2 s n e)) as K.
  rewrite <- (calls_close_conn s n e) in K. destruct (close_conn s n e); exact K.
Qed.

Lemma einv_set_idle s n : EInv s -> EInv (set_idle s n).
Proof.
  intros H. unfold set_idle. destruct (tclosed s); [exact H|]. destruct (gmem n (cset s)); [|exact H].
  destruct (gmem n (idle s)); [exact H|]. apply (einv_pool s); auto.
Qed.

Lemma close_all_out : forall l f n, xout (close_all f l n) = xout (f n).
Proof.
  induction l as [|m l IH]; intros f n; simpl; [reflexivity|]. rewrite IH.
  destruct (xclosed (f m)); [reflexivity|].
  destruct (Nat.eq_dec n m) as [->|N]; [rewrite gupd_same; reflexivity|rewrite gupd_other by assumption; reflexivity].
Qed.

Ltac efacts s H c := pose proof (e_tag s H c) as Etag; pose proof (e_inst s H c) as Einst.

Lemma einv_pc s c k p :
  EInv s -> k = xcalls s c -> p <> UInstalled -> EInv (set_xcall s c (with_upc k p)).
Proof.
  intros H -> P. efacts s H c. unfold set_xcall. apply einv_call; auto; simpl; auto. intros X. contradiction.
Qed.

Theorem einv_step s l s' : PInv s -> KInv s -> EInv s -> xenv_step s l -> xstep s l = Some s' -> EInv s'.
Proof.
  intros HP HK H Henv Hs. destruct l; cbn [xstep] in Hs.
  - destruct (xpc_eqb (upc (xcalls s c)) U0); inversion Hs; subst. apply einv_pc; auto; discriminate.
  - destruct (xpc_eqb (upc (xcalls s c)) ULoop); [|discriminate]. efacts s H c.
    destruct (tclosed s); [inversion Hs; subst; unfold set_xcall; apply einv_call; auto; simpl; auto; discriminate|].
    destruct pick as [n|].
    + destruct (gmem n (idle s)); inversion Hs; subst. apply einv_call; auto; simpl; intros; discriminate.
    + destruct (idle s); inversion Hs; subst. unfold set_xcall. apply einv_call; auto; simpl; intros; discriminate.
  - destruct (udial (xcalls s c)); try discriminate. efacts s H c.
    assert (Same : forall d cs tc nc cse idl, (forall n, xwaiting (cs n) = xwaiting (conns s n) /\ xout (cs n) = xout (conns s n)) ->
              EInv (mkXS tc nc cse idl cs (gupd (xcalls s) c
                (mkXCall (upc (xcalls s c)) (uconn (xcalls s c)) (unew (xcalls s c)) (uretry (xcalls s c))
                 (uatt (xcalls s c)) (ubuf (xcalls s c)) (uctx (xcalls s c)) (ures (xcalls s c)) (ugot (xcalls s c)) d (upasses (xcalls s c)))))).
    { intros. apply einv_call; auto. }
    destruct ok; [|inversion Hs; subst; apply Same; auto].
    destruct (tclosed s); [inversion Hs; subst; apply Same; auto|]. inversion Hs; subst.
    pose proof (k_fresh s HK (nconns s) (le_n _)) as Fw.
    destruct H as [T1 T2 T3 T4]. constructor; simpl.
    + intros x r A. ksplit x c; eauto.
    + intros n W. destruct (Nat.eq_dec n (nconns s)) as [->|N]; [rewrite ?gupd_same; reflexivity|rewrite gupd_other in * by assumption; auto].
    + intros n. destruct (Nat.eq_dec n (nconns s)) as [->|N]; [rewrite ?gupd_same; simpl; lia|rewrite gupd_other by assumption; auto].
    + intros x A. assert (A' : upc (xcalls s x) = UInstalled) by (ksplit x c; auto).
      destruct (T4 x A') as [G O]. ksplit x c; simpl; (split; [exact G|]);
        (match goal with |- xout (gupd _ ?k _ ?y) = 0 => destruct (Nat.eq_dec y k) as [->|N]; [rewrite ?gupd_same; reflexivity|rewrite gupd_other by assumption; exact O] end).
  - destruct (xpc_eqb (upc (xcalls s c)) UDialWait); [|discriminate]. efacts s H c.
    destruct (udial (xcalls s c)) as [| |[n|] e|]; try discriminate; inversion Hs; subst;
      unfold set_xcall; apply einv_call; auto; simpl; intros; discriminate.
  - destruct (xpc_eqb (upc (xcalls s c)) UDialWait && (uctx (xcalls s c) || tclosed s)); inversion Hs; subst.
    unfold set_xcall. apply einv_call; auto; simpl; intros; discriminate.
  - destruct (upc (xcalls s c)) eqn:E; try discriminate. destruct (udial (xcalls s c)) as [| |r e|]; try discriminate.
    inversion Hs; subst. efacts s H c.
    assert (K1 : EInv (set_xcall s c (mkXCall UDone (uconn (xcalls s c)) (unew (xcalls s c)) (uretry (xcalls s c)) (uatt (xcalls s c))
                   (ubuf (xcalls s c)) (uctx (xcalls s c)) (ures (xcalls s c)) (ugot (xcalls s c)) DTaken (upasses (xcalls s c))))).
    { unfold set_xcall. apply einv_call; auto. simpl. discriminate. }
    destruct r as [n|]; [apply einv_set_idle|]; exact K1.
  - (* MInstall *)
    destruct (xpc_eqb (upc (xcalls s c)) UHave); [|discriminate].
    destruct (xexists (conns s (uconn (xcalls s c)))); [|discriminate].
    destruct (xwaiting (conns s (uconn (xcalls s c)))) eqn:W; [discriminate|]. inversion Hs; subst.
    destruct H as [T1 T2 T3 T4]. pose proof (T2 _ W) as O0. constructor; simpl.
    + intros x r A. ksplit x c; simpl in *; [discriminate|eauto].
    + intros n Wn. destruct (Nat.eq_dec n (uconn (xcalls s c))) as [->|N]; [rewrite ?gupd_same in *; discriminate|rewrite gupd_other in * by assumption; auto].
    + intros n. destruct (Nat.eq_dec n (uconn (xcalls s c))) as [->|N]; [rewrite ?gupd_same; simpl; auto|rewrite gupd_other by assumption; auto].
    + intros x A. ksplit x c; simpl in *.
      * rewrite ?gupd_same. simpl. auto.
      * destruct (T4 x A) as [G O]. split; [exact G|].
        destruct (Nat.eq_dec (uconn (xcalls s x)) (uconn (xcalls s c))) as [->|N]; [rewrite ?gupd_same; exact O0|rewrite gupd_other by assumption; exact O].
  - (* MWriteBegin *)
    destruct (xpc_eqb (upc (xcalls s c)) UInstalled && xexists (conns s (uconn (xcalls s c)))) eqn:E; [|discriminate].
    apply andb_true_iff in E as [E _]. apply xpc_eqb_eq in E. inversion Hs; subst.
    destruct H as [T1 T2 T3 T4]. destruct (T4 c E) as [Gc Oc].
    assert (Wc : xwaiting (conns s (uconn (xcalls s c))) = Some (c, uatt (xcalls s c))) by (apply (k_b1 s HK c); [rewrite E; reflexivity|exact Gc]).
    constructor; simpl.
    + intros x r A. ksplit x c; simpl in *; eauto.
    + intros n Wn. destruct (Nat.eq_dec n (uconn (xcalls s c))) as [->|N]; [rewrite ?gupd_same in *; simpl in Wn; congruence|rewrite gupd_other in * by assumption; auto].
    + intros n. destruct (Nat.eq_dec n (uconn (xcalls s c))) as [->|N]; [rewrite ?gupd_same; simpl; lia|rewrite gupd_other by assumption; auto].
    + intros x A. ksplit x c; simpl in *; [discriminate|].
      destruct (T4 x A) as [G O]. split; [exact G|].
      destruct (Nat.eq_dec (uconn (xcalls s x)) (uconn (xcalls s c))) as [En|N]; [|rewrite gupd_other by assumption; exact O].
      exfalso. pose proof (k_b1 s HK x) as B. rewrite A in B. specialize (B eq_refl G). rewrite En, Wc in B. congruence.
  - (* MWriteEnd *)
    destruct (xpc_eqb (upc (xcalls s c)) UWriting); [|discriminate]. destruct ok; inversion Hs; subst.
    + apply einv_pc; auto; discriminate.
    + apply einv_pc; [apply einv_close_conn; exact H|rewrite calls_close_conn; reflexivity|discriminate].
  - (* MSelect *)
    destruct (xpc_eqb (upc (xcalls s c)) UWaiting) eqn:E; [|discriminate]. apply xpc_eqb_eq in E. efacts s H c. destruct k.
    + destruct (ubuf (xcalls s c)); inversion Hs; subst. unfold set_xcall. apply einv_call; auto; simpl; auto. discriminate.
    + destruct (xclosed (conns s (uconn (xcalls s c)))); inversion Hs; subst. apply einv_pc; auto; discriminate.
    + destruct (uctx (xcalls s c)); inversion Hs; subst. apply einv_pc; auto; discriminate.
  - (* MTake *)
    destruct (upc (xcalls s c)) eqn:E; try discriminate. efacts s H c.
    destruct (ubuf (xcalls s c)); inversion Hs; subst.
    + unfold set_xcall. apply einv_call; auto; simpl; auto. discriminate.
    + apply einv_pc; auto; discriminate.
  - (* MAfter *)
    destruct (upc (xcalls s c)) eqn:E; try discriminate. efacts s H c.
    destruct (may_retry_reuse (xcalls s c)); inversion Hs; subst; unfold set_xcall; apply einv_call; auto; simpl; intros; discriminate.
  - (* MCtx *)
    inversion Hs; subst. efacts s H c. unfold set_xcall. apply einv_call; auto.
  - (* MRecv *)
    destruct (xexists (conns s n) && negb (xrdead (conns s n))); [|discriminate].
    destruct (xhold (conns s n)); [discriminate|]. inversion Hs; subst.
    unfold set_xconn. apply (einv_pool s); auto.
    intros x. destruct (Nat.eq_dec x n) as [->|N]; [rewrite ?gupd_same; auto|rewrite gupd_other by assumption; auto].
  - (* MDispatch *)
    simpl in Henv.
    destruct (xexists (conns s n)) eqn:Ex; [|discriminate].
    destruct (xhold (conns s n)) as [r|] eqn:Hh; [|discriminate].
    destruct (xwaiting (conns s n)) as [[c att]|] eqn:W.
    + destruct Henv as [Ef Eo].
      set (q' := mkXC true (xclosed (conns s n)) (xcerr (conns s n)) None (xrdead (conns s n)) None (xout (conns s n) - 1)) in *.
      destruct (conns_set_idle (set_xconn s n q') n) as (Ec & Ek & En).
      assert (Cs : xcalls (set_idle (set_xconn s n q') n) = xcalls s) by (rewrite Ek; reflexivity).
      assert (Cc : conns (set_idle (set_xconn s n q') n) = gupd (conns s) n q') by (rewrite Ec; reflexivity).
      rewrite Cs in Hs. destruct H as [T1 T2 T3 T4]. pose proof (T3 n) as Le.
      assert (NoInst : forall x, upc (xcalls s x) = UInstalled -> uconn (xcalls s x) <> n).
      { intros x A En'. destruct (T4 x A) as [_ O]. rewrite En' in O. lia. }
      assert (Conn : forall m, (xwaiting (gupd (conns s) n q' m) = None -> xout (gupd (conns s) n q' m) = 0) /\ xout (gupd (conns s) n q' m) <= 1).
      { intros m. destruct (Nat.eq_dec m n) as [->|N]; [rewrite ?gupd_same; simpl; split; intros; lia|rewrite gupd_other by assumption; split; auto]. }
      destruct ((uatt (xcalls s c) =? att) && in_attempt (upc (xcalls s c)) && Nat.eqb (uconn (xcalls s c)) n) eqn:Chk;
        inversion Hs; subst; clear Hs.
      * apply andb_true_iff in Chk as [Chk C3]. apply andb_true_iff in Chk as [C1 C2]. apply Nat.eqb_eq in C3.
        constructor; simpl; rewrite ?Cs, ?Cc.
        -- intros x r0 A. ksplit x c; simpl in *; [inversion A; subst; exact Ef|eauto].
        -- intros m. apply Conn.
        -- intros m. apply Conn.
        -- intros x A. destruct (Nat.eq_dec x c) as [->|Nx].
           ++ exfalso. rewrite gupd_same in A. simpl in A. apply (NoInst c A C3).
           ++ rewrite (gupd_other (xcalls s) c _ x Nx) in *. destruct (T4 x A) as [G O]. split; [exact G|].
              rewrite gupd_other by (apply NoInst; exact A). exact O.
      * constructor; simpl; rewrite ?Cs, ?Cc.
        -- eauto.
        -- intros m. apply Conn.
        -- intros m. apply Conn.
        -- intros x A. destruct (T4 x A) as [G O]. split; [exact G|].
           rewrite gupd_other by (apply NoInst; exact A). exact O.
    + inversion Hs; subst. apply einv_close_conn. unfold set_xconn. apply (einv_pool s); auto.
      intros x. destruct (Nat.eq_dec x n) as [->|N]; [rewrite ?gupd_same; simpl; auto|rewrite gupd_other by assumption; auto].
  - (* MRecvErr *)
    destruct (xexists (conns s n) && negb (xrdead (conns s n))); [|discriminate].
    destruct (xhold (conns s n)); [discriminate|]. inversion Hs; subst.
    apply einv_close_conn. unfold set_xconn. apply (einv_pool s); auto.
    intros x. destruct (Nat.eq_dec x n) as [->|N]; [rewrite ?gupd_same; auto|rewrite gupd_other by assumption; auto].
  - (* MTClose *)
    destruct (tclosed s); inversion Hs; subst; [exact H|].
    apply (einv_pool s); auto. intros n. destruct (close_all_spec (cset s) (conns s) n) as (_ & _ & _ & _ & W).
    split; [exact W|apply close_all_out].
Qed.

Theorem xreach ls s : xrun xinit ls = Some s -> PInv s /\ KInv s.
Proof.
  intros R. split; [eapply pinv_run; [apply pinv_init|exact R]|eapply kinv_run; [apply pinv_init|apply kinv_init|exact R]].
Qed.

Theorem einv_run : forall ls s s', PInv s -> KInv s -> EInv s -> xenv s ls -> xrun s ls = Some s' -> EInv s'.
Proof.
  induction ls as [|l ls IH]; intros s s' HP HK H Henv R; simpl in R; [inversion R; subst; exact H|].
  destruct Henv as [E1 E2]. destruct (xstep s l) as [s1|] eqn:E; [|discriminate].
  eapply IH; [eapply pinv_step; eauto|eapply kinv_step; eauto|eapply einv_step; eauto|exact E2|exact R].
Qed.

(** C02, non-pipelined: a reply handed to an exchange is the only thing the call can return. *)
Theorem reuse_reply_not_lost ls s c r res :
  xrun xinit ls = Some s -> ugot (xcalls s c) = Some r -> ures (xcalls s c) = Some res -> res = XOk r.
Proof.
  intros R G E. destruct (xreach _ _ R) as [_ K]. destruct res as [r'|e].
  - pose proof (k_res s K c r' E). congruence.
  - pose proof (k_err s K c e E). congruence.
Qed.

Theorem reuse_delivered_call_returns_it ls s c r :
  xrun xinit ls = Some s -> ugot (xcalls s c) = Some r -> ures (xcalls s c) = None ->
  in_attempt (upc (xcalls s c)) = true /\ ubuf (xcalls s c) = Some r /\
  (upc (xcalls s c) = UWaiting -> exists s', xstep s (MSelect c XSelReply) = Some s' /\ ures (xcalls s' c) = Some (XOk r)) /\
  (forall e, upc (xcalls s c) = UExiting e -> exists s', xstep s (MTake c) = Some s' /\ ures (xcalls s' c) = Some (XOk r)).
Proof.
  intros R G E. destruct (xreach _ _ R) as [_ K].
  assert (A : in_attempt (upc (xcalls s c)) = true).
  { destruct (in_attempt (upc (xcalls s c))) eqn:A; [reflexivity|]. destruct (k_nobuf s K c A) as [_ N]. rewrite (N E) in G. discriminate. }
  pose proof (k_buf s K c A) as B. rewrite G in B. repeat split; auto.
  - intros P. cbn [xstep]. rewrite P, B. simpl. eexists. split; [reflexivity|]. simpl. rewrite gupd_same. reflexivity.
  - intros e P. cbn [xstep]. rewrite P, B. eexists. split; [reflexivity|]. simpl. rewrite gupd_same. reflexivity.
Qed.

(** C01, non-pipelined: under the one-reply-per-query assumption a successful call returns its own reply. *)
Theorem reuse_no_misdelivery ls s c r :
  xrun xinit ls = Some s -> xenv xinit ls -> ures (xcalls s c) = Some (XOk r) -> xfor r = Some c.
Proof.
  intros R Henv E. destruct (xreach _ _ R) as [_ K].
  pose proof (einv_run ls xinit s pinv_init kinv_init einv_init Henv R) as He.
  apply (e_tag s He c r). apply (k_res s K c r E).
Qed.

(** C08: a connection the transport has seen die is in neither pool set, so
    the pool never hands out a connection it knows to be closed. *)
Theorem reuse_dead_conn_removed ls s n :
  xrun xinit ls = Some s -> xclosed (conns s n) = true -> ~ In n (cset s) /\ ~ In n (idle s).
Proof.
  intros R C. destruct (xreach _ _ R) as [P _].
  assert (N : ~ In n (cset s)) by (intros I; destruct (p_cset s P n I) as [_ X]; congruence).
  split; [exact N|]. intros I. apply N. apply (p_idle_sub s P n I).
Qed.

(** A surplus reply (no exchange installed) closes the connection. *)
Theorem reuse_surplus_closes ls s n r s' :
  xrun xinit ls = Some s ->
  xexists (conns s n) = true -> xhold (conns s n) = Some r -> xwaiting (conns s n) = None ->
  xstep s (MDispatch n) = Some s' -> xclosed (conns s' n) = true /\ ~ In n (idle s') /\ ~ In n (cset s').
Proof.
  intros R Ex Hh W Hs.
  assert (R' : xrun xinit (ls ++ [MDispatch n]) = Some s').
  { clear - R Hs. revert R. generalize xinit. induction ls as [|l ls IH]; intros s0 R; simpl in *.
    - inversion R; subst. rewrite Hs. reflexivity.
    - destruct (xstep s0 l); [apply IH; exact R|discriminate]. }
  assert (C : xclosed (conns s' n) = true).
  { cbn [xstep] in Hs. rewrite Ex, Hh, W in Hs. inversion Hs; subst. unfold close_conn, set_xconn. simpl.
    rewrite gupd_same. simpl. destruct (xclosed (conns s n)) eqn:C; simpl; rewrite gupd_same; simpl; auto. }
  split; [exact C|]. destruct (reuse_dead_conn_removed _ _ n R' C) as [A B]. split; assumption.
Qed.

(** C09, non-pipelined: at most one query is written and unanswered on any connection. *)
Theorem reuse_one_query_per_conn ls s n :
  xrun xinit ls = Some s -> xenv xinit ls -> xout (conns s n) <= 1.
Proof.
  intros R Henv. pose proof (einv_run ls xinit s pinv_init kinv_init einv_init Henv R) as He. apply (e_le s He n).
Qed.

Theorem reuse_idle_conn_is_open ls s c n s' :
  xrun xinit ls = Some s -> xstep s (MGetIdle c (Some n)) = Some s' -> tclosed s = false ->
  xexists (conns s n) = true /\ xclosed (conns s n) = false.
Proof.
  intros R Hs T. destruct (xreach _ _ R) as [P _]. cbn [xstep] in Hs.
  destruct (xpc_eqb (upc (xcalls s c)) ULoop); [|discriminate]. rewrite T in Hs.
  destruct (gmem n (idle s)) eqn:M; [|discriminate]. apply gmem_In in M.
  apply (p_cset s P n). apply (p_idle_sub s P n M).
Qed.

(** C07: Close of the transport closes every connection, and later calls fail at once. *)
Theorem reuse_tclose_closes_all ls s s' n :
  xrun xinit ls = Some s -> xstep s MTClose = Some s' ->
  tclosed s' = true /\ (xexists (conns s' n) = true -> xclosed (conns s' n) = true).
Proof.
  intros R Hs. destruct (xreach _ _ R) as [P _]. cbn [xstep] in Hs.
  destruct (tclosed s) eqn:T; injection Hs as <-.
  - split; [exact T|]. intros Ex. destruct (xclosed (conns s n)) eqn:C; [reflexivity|].
    pose proof (p_open s P n Ex C) as I. rewrite (p_tclosed s P T) in I. destruct I.
  - simpl. split; [reflexivity|]. intros Ex.
    destruct (close_all_spec (cset s) (conns s) n) as (A & B & X & D & W). rewrite X in Ex.
    destruct (xclosed (conns s n)) eqn:C; [apply D; reflexivity|]. apply A. apply (p_open s P n Ex C).
Qed.

Theorem reuse_after_close_fails s c pick s' :
  tclosed s = true -> xstep s (MGetIdle c pick) = Some s' -> ures (xcalls s' c) = Some (XErr XClosedT).
Proof.
  intros T Hs. cbn [xstep] in Hs. destruct (xpc_eqb (upc (xcalls s c)) ULoop); [|discriminate].
  rewrite T in Hs. inversion Hs; subst. simpl. rewrite gupd_same. reflexivity.
Qed.

(** Every waiting exchange has its wake-ups. *)
Theorem reuse_waiter_wakes s c :
  upc (xcalls s c) = UWaiting ->
  (uctx (xcalls s c) = true -> exists s', xstep s (MSelect c XSelCtx) = Some s') /\
  (xclosed (conns s (uconn (xcalls s c))) = true -> exists s', xstep s (MSelect c XSelClose) = Some s') /\
  (forall r, ubuf (xcalls s c) = Some r -> exists s', xstep s (MSelect c XSelReply) = Some s').
Proof.
  intros P. cbn [xstep]. rewrite P. simpl. repeat split.
  - intros ->. eauto.
  - intros ->. eauto.
  - intros r ->. eauto.
Qed.
