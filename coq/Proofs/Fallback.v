(** C20 — proofs about Model/Fallback.v.

    Method: the state space of one call is finite, so every state invariant
    is proved for ALL interleavings by reflection: the table of reachable
    states is computed ([reach_table]), checked to contain the initial state
    and to be closed under [step] ([closed], by [vm_compute]), and the
    kernel-checked lemma [closed_sound] turns this into
    [forall s, reachable s -> s is in the table]. *)
From Verif Require Import Base.Prelude Gen.Constants Gen.FallbackFacts Model.Fallback.
From Coq Require Import FMapPositive ZifyBool.
Open Scope N_scope.

(** ** Equality *)
Lemma ppc_n_inj a b : ppc_n a = ppc_n b -> a = b.
Proof. destruct a, b; simpl; intro H; try reflexivity; discriminate. Qed.
Lemma spc_n_inj a b : spc_n a = spc_n b -> a = b.
Proof. destruct a, b; simpl; intro H; try reflexivity; discriminate. Qed.
Lemma who_n_inj a b : who_n a = who_n b -> a = b.
Proof. destruct a, b; simpl; intro H; try reflexivity; discriminate. Qed.
Lemma item_n_inj a b : item_n a = item_n b -> a = b.
Proof. destruct a as [|[|]], b as [|[|]]; simpl; intro H; try reflexivity; discriminate. Qed.
Lemma cpc_n_inj a b : cpc_n a = cpc_n b -> a = b.
Proof. destruct a as [| |[[|]| |]], b as [| |[[|]| |]]; simpl; intro H; try reflexivity; discriminate. Qed.
Lemma ow_n_inj a b : ow_n a = ow_n b -> a = b.
Proof. destruct a as [[|]|], b as [[|]|]; simpl; intro H; try reflexivity; discriminate. Qed.
Lemma psig_n_inj a b : psig_n a = psig_n b -> a = b.
Proof. destruct a, b; simpl; intro H; try reflexivity; discriminate. Qed.

Lemma item_eqb_spec a b : item_eqb a b = true <-> a = b.
Proof.
  unfold item_eqb. split; intro H.
  - apply item_n_inj, N.eqb_eq, H.
  - subst. apply N.eqb_refl.
Qed.

Lemma st_eqb_true a b : st_eqb a b = true -> a = b.
Proof.
  unfold st_eqb. intro H.
  repeat match type of H with (_ && _) = true => let H2 := fresh "E" in apply andb_true_iff in H as [H H2] end.
  destruct a, b; simpl in *.
  apply N.eqb_eq, ppc_n_inj in H. apply N.eqb_eq, spc_n_inj in E8.
  apply (list_eqb_spec item_eqb item_eqb_spec) in E7.
  apply Bool.eqb_prop in E6, E5, E4, E3, E2.
  apply N.eqb_eq, cpc_n_inj in E1. apply N.eqb_eq, ow_n_inj in E0. apply N.eqb_eq, psig_n_inj in E.
  subst. reflexivity.
Qed.

(** ** Reachability and the reflection lemma *)
Section Reach.
  Variable stepf : st -> list st.
  Variable i : st.

  Inductive reachable : st -> Prop :=
  | reach_init : reachable i
  | reach_step x y : reachable x -> In y (stepf x) -> reachable y.

  Lemma tmem_in s m : tmem s m = true -> In s (states m).
  Proof.
    unfold tmem, states. destruct (PositiveMap.find (code s) m) as [z|] eqn:F; [|discriminate].
    intro E. apply st_eqb_true in E. subst z.
    apply PositiveMap.elements_correct in F.
    change s with (snd (code s, s)). apply in_map. exact F.
  Qed.

  Lemma closed_sound m : closed stepf i m = true -> forall s, reachable s -> tmem s m = true.
  Proof.
    unfold closed. intro C. apply andb_true_iff in C as [Ci Cs].
    induction 1 as [|x y Hx IH Hy].
    - exact Ci.
    - apply tmem_in in IH.
      rewrite forallb_forall in Cs. specialize (Cs x IH).
      rewrite forallb_forall in Cs. exact (Cs y Hy).
  Qed.

  Lemma inv_by_reflection (safe : st -> bool) m :
    closed stepf i m = true -> forallb safe (states m) = true ->
    forall s, reachable s -> safe s = true.
  Proof.
    intros C F s R. apply (closed_sound m C) in R. apply tmem_in in R.
    rewrite forallb_forall in F. exact (F s R).
  Qed.

  (** following a list of successor choices *)
  Fixpoint follow (s : st) (ns : list nat) : option st :=
    match ns with
    | [] => Some s
    | n :: t => match nth_error (stepf s) n with Some s' => follow s' t | None => None end
    end.

  Lemma follow_reachable ns : forall s s', reachable s -> follow s ns = Some s' -> reachable s'.
  Proof.
    induction ns as [|n t IH]; simpl; intros s s' R F.
    - injection F as <-. exact R.
    - destruct (nth_error (stepf s) n) as [x|] eqn:E; [|discriminate].
      apply (IH x s'); [|exact F]. apply (reach_step s x R). apply (nth_error_In _ _ E).
  Qed.
End Reach.

(** ** Gated runs are runs *)
Lemma pgate_open s : pgate open_gates s = true.
Proof. unfold pgate. destruct (p_pc s); reflexivity. Qed.
Lemma sgate_open s : sgate open_gates s = true.
Proof. unfold sgate. destruct (s_pc s); reflexivity. Qed.

Lemma gstep_sub g p s y : In y (gstep g p s) -> In y (step p s).
Proof.
  unfold step, gstep, gsys, env_steps. rewrite pgate_open, sgate_open.
  rewrite !in_app_iff. intros [[H|[H|H]]|[H|[H|H]]].
  - destruct (pgate g s); [auto|contradiction].
  - destruct (sgate g s); [auto|contradiction].
  - auto.
  - auto.
  - auto.
  - right. right. right. simpl evalc. rewrite andb_true_r.
    destruct (ctx_may p && negb (ctx_done s)); simpl in *; [|contradiction].
    destruct (evalc (g_ctx g) s); [exact H|contradiction].
Qed.

Lemma greachable_sub g p s : reachable (gstep g p) (init p) s -> reachable (step p) (init p) s.
Proof.
  induction 1 as [|x y Hx IH Hy].
  - apply reach_init.
  - apply (reach_step _ _ x y IH). apply (gstep_sub g p x y Hy).
Qed.

Lemma sys_step_sub p s y : In y (sys_step p s) -> In y (step p s).
Proof. unfold sys_step, step, gstep. intro H. apply in_app_iff. left. exact H. Qed.

(** ** The invariants, as boolean predicates on a state *)
Definition is_ans (o : outcome) : bool := match o with OAns => true | _ => false end.
Definition psig_intime (x : psig) : bool := match x with PSintime => true | _ => false end.
Definition ow_eqb (a b : option who) : bool := ow_n a =? ow_n b.

(** a non-nil result is the first answer that was ever queued *)
Definition inv_first (s : st) : bool :=
  match col s with C_ret (RAns w) => ow_eqb (first_ans s) (Some w) | _ => true end.

(** answers are genuine; ErrFailed needs two failures *)
Definition inv_genuine (p : params) (s : st) : bool :=
  match col s with
  | C_ret (RAns WP) => is_ans (po p)
  | C_ret (RAns WS) => is_ans (so p)
  | C_ret RFail => negb (is_ans (po p)) && negb (is_ans (so p))
  | _ => true
  end.

(** primary answered in time: the call cannot have ended with the secondary's answer or ErrFailed *)
Definition inv_intime (p : params) (s : st) : bool :=
  if is_ans (po p) && psig_intime (p_sig s)
  then match col s with C_ret (RAns WS) | C_ret RFail => false | _ => true end
  else true.

(** secondary's answer returned: primary failed, or threshold/deadline passed before the primary signalled *)
Definition inv_sec_needed (s : st) : bool :=
  match col s with
  | C_ret (RAns WS) =>
    prim_failed s || (negb (psig_intime (p_sig s)) && (timer_fired s || sdl_fired s))
  | _ => true
  end.

(** without always_standby the secondary runs only after primFailed or the timer *)
Definition inv_nostandby_start (p : params) (s : st) : bool :=
  if negb (standby p) && ev_s_started s then prim_failed s || timer_fired s else true.

(** with always_standby a secondary holding an answer is released only by a signal *)
Definition inv_standby_release (p : params) (s : st) : bool :=
  if standby p && is_ans (so p) && ev_s_sendhook s
  then prim_done s || prim_failed s || timer_fired s || sdl_fired s else true.

(** the context error is returned only when the caller's context has ended, and
    once it has ended the collector can return at once *)
Definition is_ctx_ret (s : st) : bool := match col s with C_ret RCtx => true | _ => false end.
Definition inv_ctx (p : params) (s : st) : bool :=
  (if is_ctx_ret s then ctx_done s else true)
  && (if ctx_done s && negb (returned s) then existsb is_ctx_ret (step p s) else true).

(** the channel never overflows: pending sends fit *)
Definition p_will_send (p : params) (s : st) : bool :=
  match p_pc s with
  | P_run => true
  | P_mid => negb (is_ans (po p) && sbd p)
  | P_end => false
  end.
Definition s_may_send (s : st) : bool :=
  match s_pc s with S_wait | S_run | S_ready | S_hold | S_send => true | _ => false end.
Definition inv_capacity (p : params) (s : st) : bool :=
  (length (chan s) + (if p_will_send p s then 1 else 0) + (if s_may_send s then 1 else 0) <=? 2)%nat.

(** progress: while the call has not returned some goroutine can move without any environment event *)
Definition inv_progress (p : params) (s : st) : bool :=
  if returned s then true else match sys_step p s with [] => false | _ => true end.

(** a terminal state has the call returned and both workers finished *)
Definition workers_done (s : st) : bool :=
  match p_pc s, s_pc s with
  | P_end, (S_done | S_done_err | S_skip) => true
  | _, _ => false
  end.
Definition inv_terminal (p : params) (s : st) : bool :=
  if terminal p s then returned s && workers_done s else true.

Definition safe_all (p : params) (s : st) : bool :=
  inv_first s && inv_genuine p s && inv_intime p s && inv_sec_needed s
  && inv_nostandby_start p s && inv_standby_release p s && inv_ctx p s
  && inv_capacity p s && inv_progress p s && inv_terminal p s.

(** ** One computation for all parameter values with the repaired order *)
Definition check (p : params) : bool :=
  let m := reach_table (step p) (init p) in
  closed (step p) (init p) m && forallb (safe_all p) (states m).

Definition forall_params (f : params -> bool) : bool :=
  forallb (fun a => forallb (fun c => forallb (fun sb => forallb (fun tm => forallb (fun dm =>
    forallb (fun cm => f (mkP a c sb true tm dm cm)) bools) bools) bools) bools) outcomes) outcomes.

Lemma in_outcomes o : In o outcomes.
Proof. destruct o; simpl; auto. Qed.
Lemma in_bools b : In b bools.
Proof. destruct b; simpl; auto. Qed.

Lemma forall_params_sound f : forall_params f = true ->
  forall a c sb tm dm cm, f (mkP a c sb true tm dm cm) = true.
Proof.
  unfold forall_params. intros H a c sb tm dm cm.
  rewrite forallb_forall in H. specialize (H a (in_outcomes a)).
  rewrite forallb_forall in H. specialize (H c (in_outcomes c)).
  rewrite forallb_forall in H. specialize (H sb (in_bools sb)).
  rewrite forallb_forall in H. specialize (H tm (in_bools tm)).
  rewrite forallb_forall in H. specialize (H dm (in_bools dm)).
  rewrite forallb_forall in H. exact (H cm (in_bools cm)).
Qed.

Lemma all_checked : forall_params check = true.
Proof. vm_compute. reflexivity. Qed.

(** Configurations with the repaired statement order. *)
Definition fixed (p : params) : Prop := sbd p = true.

Theorem safe_all_reachable p s :
  fixed p -> reachable (step p) (init p) s -> safe_all p s = true.
Proof.
  destruct p as [a c sb b tm dm cm]. unfold fixed. simpl. intros -> R.
  pose proof (forall_params_sound check all_checked a c sb tm dm cm) as C.
  unfold check in C. apply andb_true_iff in C as [C F].
  exact (inv_by_reflection _ _ _ _ C F s R).
Qed.

(** projections of the conjunction *)
Ltac split_safe H :=
  unfold safe_all in H;
  repeat match type of H with (_ && _) = true => let H2 := fresh "I" in apply andb_true_iff in H as [H H2] end.

Section Consequences.
  Variable p : params.
  Variable s : st.
  Hypothesis Fx : fixed p.
  Hypothesis R : reachable (step p) (init p) s.

  Lemma first_to_arrive_wins w : col s = C_ret (RAns w) -> first_ans s = Some w.
  Proof.
    pose proof (safe_all_reachable p s Fx R) as H. split_safe H.
    unfold inv_first in H. intro E. rewrite E in H.
    apply ow_n_inj, N.eqb_eq. exact H.
  Qed.

  Lemma answers_genuine :
    (col s = C_ret (RAns WP) -> po p = OAns) /\ (col s = C_ret (RAns WS) -> so p = OAns).
  Proof.
    pose proof (safe_all_reachable p s Fx R) as H. split_safe H.
    unfold inv_genuine in I7. split; intro E; rewrite E in I7.
    - destruct (po p); simpl in I7; [reflexivity|discriminate|discriminate].
    - destruct (so p); simpl in I7; [reflexivity|discriminate|discriminate].
  Qed.

  Lemma primary_wins_in_time r :
    po p = OAns -> p_sig s = PSintime -> col s = C_ret r -> r = RAns WP \/ r = RCtx.
  Proof.
    pose proof (safe_all_reachable p s Fx R) as H. split_safe H.
    unfold inv_intime in I6. intros E1 E2 E3. rewrite E1, E2, E3 in I6. simpl in I6.
    destruct r as [[|]| |]; auto; discriminate.
  Qed.

  Lemma secondary_only_if_needed :
    col s = C_ret (RAns WS) ->
    prim_failed s = true \/ (p_sig s <> PSintime /\ (timer_fired s = true \/ sdl_fired s = true)).
  Proof.
    pose proof (safe_all_reachable p s Fx R) as H. split_safe H.
    unfold inv_sec_needed in I5. intro E. rewrite E in I5.
    apply orb_true_iff in I5 as [I5|I5]; [left; exact I5|right].
    apply andb_true_iff in I5 as [A B]. split.
    - intro Q. rewrite Q in A. discriminate.
    - apply orb_true_iff in B. exact B.
  Qed.

  Lemma error_only_if_both_fail : col s = C_ret RFail -> po p <> OAns /\ so p <> OAns.
  Proof.
    pose proof (safe_all_reachable p s Fx R) as H. split_safe H.
    unfold inv_genuine in I7. intro E. rewrite E in I7.
    apply andb_true_iff in I7 as [A B].
    split; intro Q; [rewrite Q in A|rewrite Q in B]; discriminate.
  Qed.

  Lemma error_iff_both_fail r :
    col s = C_ret r -> r <> RCtx -> (r = RFail <-> (po p <> OAns /\ so p <> OAns)).
  Proof.
    intros E NC. split.
    - intros ->. apply error_only_if_both_fail. exact E.
    - intros [A B]. destruct answers_genuine as [GP GS].
      destruct r as [[|]| |]; [ | |reflexivity| ].
      + exfalso. apply A, GP, E.
      + exfalso. apply B, GS, E.
      + exfalso. apply NC. reflexivity.
  Qed.

  Lemma no_standby_secondary_not_started_before_threshold :
    standby p = false -> ev_s_started s = true -> prim_failed s = true \/ timer_fired s = true.
  Proof.
    pose proof (safe_all_reachable p s Fx R) as H. split_safe H.
    unfold inv_nostandby_start in I4. intros E1 E2. rewrite E1, E2 in I4. simpl in I4.
    apply orb_true_iff in I4. exact I4.
  Qed.

  Lemma standby_secondary_waits :
    standby p = true -> so p = OAns -> ev_s_sendhook s = true ->
    prim_done s = true \/ prim_failed s = true \/ timer_fired s = true \/ sdl_fired s = true.
  Proof.
    pose proof (safe_all_reachable p s Fx R) as H. split_safe H.
    unfold inv_standby_release in I3. intros E1 E2 E3. rewrite E1, E2, E3 in I3. simpl in I3.
    apply orb_true_iff in I3 as [I3|I3]; [|auto].
    apply orb_true_iff in I3 as [I3|I3]; [|auto].
    apply orb_true_iff in I3 as [I3|I3]; auto.
  Qed.

  Lemma standby_answer_discarded_when_primary_ok :
    standby p = true -> po p = OAns -> p_sig s = PSintime -> col s <> C_ret (RAns WS).
  Proof.
    intros _ E1 E2 E3. destruct (primary_wins_in_time _ E1 E2 E3); discriminate.
  Qed.

  Lemma ctx_error_only_when_ctx_ended : col s = C_ret RCtx -> ctx_done s = true.
  Proof.
    pose proof (safe_all_reachable p s Fx R) as H. split_safe H.
    unfold inv_ctx in I2. apply andb_true_iff in I2 as [A _].
    intro E. unfold is_ctx_ret in A. rewrite E in A. exact A.
  Qed.

  Lemma ends_with_ctx :
    ctx_done s = true -> returned s = false ->
    exists s', In s' (step p s) /\ col s' = C_ret RCtx.
  Proof.
    pose proof (safe_all_reachable p s Fx R) as H. split_safe H.
    unfold inv_ctx in I2. apply andb_true_iff in I2 as [_ B].
    intros E1 E2. rewrite E1, E2 in B. simpl in B.
    apply existsb_exists in B as [s' [In' C]]. exists s'. split; [exact In'|].
    unfold is_ctx_ret in C. destruct (col s') as [| |[| |]]; try discriminate. reflexivity.
  Qed.

  Lemma channel_never_blocks :
    (length (chan s) + (if p_will_send p s then 1 else 0) + (if s_may_send s then 1 else 0) <= 2)%nat.
  Proof.
    pose proof (safe_all_reachable p s Fx R) as H. split_safe H.
    unfold inv_capacity in I1. apply Nat.leb_le. exact I1.
  Qed.

  Lemma progress_without_environment : returned s = false -> sys_step p s <> [].
  Proof.
    pose proof (safe_all_reachable p s Fx R) as H. split_safe H.
    unfold inv_progress in I0. intro E. rewrite E in I0.
    destruct (sys_step p s); [discriminate|discriminate].
  Qed.

  Lemma terminal_returned : terminal p s = true -> returned s = true /\ workers_done s = true.
  Proof.
    pose proof (safe_all_reachable p s Fx R) as H. split_safe H.
    unfold inv_terminal in I. intro E. rewrite E in I. apply andb_true_iff in I. exact I.
  Qed.
End Consequences.

(** Every run is finite: each step strictly decreases a measure (so a call
    that is not cancelled reaches a terminal state, which by
    [terminal_returned] has returned). *)
Definition measure (s : st) : nat :=
  (match p_pc s with P_run => 2 | P_mid => 1 | P_end => 0 end
   + match s_pc s with S_wait => 5 | S_run => 4 | S_ready => 3 | S_hold => 2 | S_send => 1 | _ => 0 end
   + match col s with C_wait2 => 2 | C_wait1 => 1 | C_ret _ => 0 end
   + (if timer_fired s then 0 else 1) + (if sdl_fired s then 0 else 1) + (if ctx_done s then 0 else 1))%nat.

Definition inv_measure (p : params) (s : st) : bool :=
  forallb (fun y => (measure y <? measure s)%nat) (step p s).

Definition check_measure (p : params) : bool :=
  let m := reach_table (step p) (init p) in
  closed (step p) (init p) m && forallb (inv_measure p) (states m).

Lemma all_checked_measure : forall_params check_measure = true.
Proof. vm_compute. reflexivity. Qed.

Lemma steps_decrease p s y :
  fixed p -> reachable (step p) (init p) s -> In y (step p s) -> (measure y < measure s)%nat.
Proof.
  destruct p as [a c sb b tm dm cm]. unfold fixed. simpl. intros -> R Hy.
  pose proof (forall_params_sound check_measure all_checked_measure a c sb tm dm cm) as C.
  unfold check_measure in C. apply andb_true_iff in C as [C F].
  pose proof (inv_by_reflection _ _ _ _ C F s R) as M.
  unfold inv_measure in M. rewrite forallb_forall in M. apply Nat.ltb_lt. exact (M y Hy).
Qed.

(** ** Finding F8 (repaired in /repo by 1767416): with the ORIGINAL order
    (close(primDone) before respChan <- r) an always_standby secondary that
    holds an answer is woken by primDone and can queue its answer first. *)
Definition p_f8 : params := mkP OAns OAns true false false false false.

Lemma standby_race_refuted :
  exists s, reachable (step p_f8) (init p_f8) s
            /\ p_sig s = PSintime /\ prim_failed s = false /\ timer_fired s = false /\ sdl_fired s = false
            /\ col s = C_ret (RAns WS).
Proof.
  destruct (follow (step p_f8) (init p_f8) [1; 1; 0; 1; 1; 1]%nat) as [s|] eqn:F; [|vm_compute in F; discriminate].
  exists s. split.
  - apply (follow_reachable _ _ _ _ _ (reach_init _ _) F).
  - vm_compute in F. injection F as <-. repeat split.
Qed.

(** ** Calls of a sequence are independent *)
Lemma calls_independent earlier p : call_model earlier p = Some (init p).
Proof. reflexivity. Qed.

(** ** The configuration path: which duration the threshold timer is armed with *)
Lemma effective_threshold_configured cfg :
  (0 < cfg)%Z -> effective_threshold cfg = (cfg * 1000000)%Z.
Proof.
  intro H. unfold effective_threshold, ns_per_ms.
  destruct (cfg * 1000000 <=? 0)%Z eqn:E; [lia|reflexivity].
Qed.

Lemma effective_threshold_default cfg :
  (cfg <= 0)%Z -> effective_threshold cfg = fallback_default_threshold.
Proof.
  intro H. unfold effective_threshold, ns_per_ms.
  destruct (cfg * 1000000 <=? 0)%Z eqn:E; [reflexivity|lia].
Qed.

(** The function tools/gofacts translated from the statements of
    newFallbackPlugin is the modelled one. *)
Lemma source_threshold_as_modelled cfg :
  fallback_effective_threshold cfg = effective_threshold cfg.
Proof.
  unfold fallback_effective_threshold, effective_threshold, ns_per_ms, fallback_default_threshold.
  cbv zeta.
  repeat match goal with |- context [if ?b then _ else _] => destruct b eqn:? end; lia.
Qed.

Lemma source_threshold_configured cfg :
  (0 < cfg)%Z -> fallback_effective_threshold cfg = (cfg * 1000000)%Z.
Proof. intro H. rewrite source_threshold_as_modelled. apply effective_threshold_configured, H. Qed.

Lemma source_threshold_default cfg :
  (cfg <= 0)%Z -> fallback_effective_threshold cfg = fallback_default_threshold.
Proof. intro H. rewrite source_threshold_as_modelled. apply effective_threshold_default, H. Qed.
