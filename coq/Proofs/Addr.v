(** Proofs about the upstream address model (C18). *)
From Coq Require Import Ascii String.
From Verif Require Import Base.Prelude Model.Addr.
From Coq Require Import ZifyN ZifyNat ZifyBool.
Open Scope N_scope.

Arguments c_colon : simpl never.
Arguments c_lbr : simpl never.
Arguments c_rbr : simpl never.
Arguments c_slash : simpl never.
Arguments c_dot : simpl never.
Arguments N.eqb : simpl never.

(** ** Lists *)

Lemma has_app c a b : has c (a ++ b) = has c a || has c b.
Proof. apply existsb_app. Qed.

Lemma has_cons c x t : has c (x :: t) = (c =? x) || has c t.
Proof. reflexivity. Qed.

Lemma firstn_len_app {A} (a b : list A) : firstn (length a) (a ++ b) = a.
Proof. induction a as [|x a IH]; simpl; [destruct b|rewrite IH]; reflexivity. Qed.

Lemma skipn_len_app {A} (a b : list A) : skipn (length a) (a ++ b) = b.
Proof. induction a as [|x a IH]; simpl; [reflexivity|exact IH]. Qed.

Lemma skipn_S_len_app {A} (a : list A) x b : skipn (S (length a)) (a ++ x :: b) = b.
Proof. induction a as [|y a IH]; [reflexivity|exact IH]. Qed.

Lemma app_eq_len {A} (a b c d : list A) :
  a ++ b = c ++ d -> length a = length c -> a = c /\ b = d.
Proof.
  revert c. induction a as [|x a IH]; intros [|y c] E L; simpl in *; try discriminate.
  - split; [reflexivity|exact E].
  - injection E as -> E. injection L as L. destruct (IH c E L) as [-> ->]. split; reflexivity.
Qed.

Lemma index_byte_none c s : index_byte c s = None <-> has c s = false.
Proof.
  induction s as [|x t IH]; simpl; [tauto|].
  rewrite (N.eqb_sym c x). destruct (x =? c); simpl.
  - split; discriminate.
  - destruct (index_byte c t); simpl; [split; [discriminate|intro H; apply IH in H; discriminate]|tauto].
Qed.

Lemma index_byte_hit c a b : has c a = false -> index_byte c (a ++ c :: b) = Some (length a).
Proof.
  induction a as [|x a IH]; simpl; intro H.
  - rewrite N.eqb_refl. reflexivity.
  - rewrite (N.eqb_sym c x) in H. destruct (x =? c); simpl in H; [discriminate|].
    rewrite (IH H). reflexivity.
Qed.

Lemma index_byte_sound c s i :
  index_byte c s = Some i ->
  s = firstn i s ++ c :: skipn (S i) s /\ has c (firstn i s) = false /\ length (firstn i s) = i.
Proof.
  revert i. induction s as [|x t IH]; simpl; intros i H; [discriminate|].
  destruct (x =? c) eqn:E.
  - injection H as <-. apply N.eqb_eq in E. subst. simpl. auto.
  - destruct (index_byte c t) as [j|] eqn:Ej; simpl in H; [|discriminate].
    injection H as <-. destruct (IH j eq_refl) as [H1 [H2 H3]].
    cbn [firstn skipn]. simpl. rewrite (N.eqb_sym c x), E. simpl.
    repeat split; [f_equal; exact H1 | exact H2 | f_equal; exact H3].
Qed.

Lemma last_index_none c s : last_index_byte c s = None <-> has c s = false.
Proof.
  induction s as [|x t IH]; simpl; [tauto|].
  rewrite (N.eqb_sym c x).
  destruct (last_index_byte c t); simpl.
  - split; [discriminate|]. intro H. apply orb_false_iff in H as [_ H]. apply IH in H. discriminate.
  - assert (Ht : has c t = false) by (apply IH; reflexivity). rewrite Ht.
    destruct (x =? c); simpl; split; auto; discriminate.
Qed.

Lemma last_index_hit c a b : has c b = false -> last_index_byte c (a ++ c :: b) = Some (length a).
Proof.
  intro H. induction a as [|x a IH]; simpl.
  - apply last_index_none in H. rewrite H, N.eqb_refl. reflexivity.
  - rewrite IH. reflexivity.
Qed.

Lemma last_index_sound c s i :
  last_index_byte c s = Some i ->
  s = firstn i s ++ c :: skipn (S i) s /\ has c (skipn (S i) s) = false /\ length (firstn i s) = i.
Proof.
  revert i. induction s as [|x t IH]; simpl; intros i H; [discriminate|].
  destruct (last_index_byte c t) as [j|] eqn:Ej.
  - injection H as <-. destruct (IH j eq_refl) as [H1 [H2 H3]].
    cbn [firstn skipn]. simpl. repeat split; [f_equal; exact H1 | exact H2 | f_equal; exact H3].
  - destruct (x =? c) eqn:E; [|discriminate]. injection H as <-.
    apply N.eqb_eq in E. subst. simpl. apply last_index_none in Ej. auto.
Qed.

Lemma count_colon_app a b : count_colon (a ++ b) = (count_colon a + count_colon b)%nat.
Proof. unfold count_colon. rewrite filter_app, app_length. reflexivity. Qed.

Lemma count_colon_zero s : has c_colon s = false -> count_colon s = O.
Proof.
  unfold count_colon. induction s as [|x t IH]; simpl; [reflexivity|].
  destruct (c_colon =? x); simpl; [discriminate|exact IH].
Qed.

Lemma count_colon_pos s : has c_colon s = true -> (1 <= count_colon s)%nat.
Proof.
  unfold count_colon. induction s as [|x t IH]; simpl; [discriminate|].
  destruct (c_colon =? x); simpl; [lia|exact IH].
Qed.

Lemma has_false_forallb c s : has c s = false <-> forallb (fun x => negb (c =? x)) s = true.
Proof.
  induction s as [|x t IH]; simpl; [tauto|].
  destruct (c =? x); simpl; [split; discriminate|exact IH].
Qed.

(** a character class that excludes [c] gives strings without [c] *)
Lemma class_excludes (P : N -> bool) c s :
  P c = false -> forallb P s = true -> has c s = false.
Proof.
  intros Hc. induction s as [|x t IH]; simpl; [reflexivity|].
  intro H. apply andb_true_iff in H as [Hx Ht].
  destruct (N.eqb_spec c x) as [->|_]; [congruence|]. simpl. apply IH, Ht.
Qed.

Lemma nth0_app_cons (a : str) x b : nth 0 ((x :: a) ++ b) 0 = x.
Proof. reflexivity. Qed.

Lemma nth0_no c (s t : str) : has c s = false -> s <> [] -> (nth 0 (s ++ t) 0 =? c) = false.
Proof.
  destruct s as [|x s]; [congruence|]. simpl. intros H _.
  rewrite N.eqb_sym. destruct (c =? x); [discriminate|reflexivity].
Qed.

(** ** net.SplitHostPort *)

Definition nobr (s : str) : Prop := has c_lbr s = false /\ has c_rbr s = false.
Definition nocolon (s : str) : Prop := has c_colon s = false.

(** "host:port" *)
Lemma split_name_port h d :
  nocolon h -> nobr h -> nocolon d -> nobr d ->
  split_host_port (h ++ c_colon :: d) = ShpOk h d.
Proof.
  intros Hh [Hl Hr] Hd [Hdl Hdr]. unfold split_host_port.
  rewrite (last_index_hit c_colon h d Hd).
  assert (E0 : (nth 0 (h ++ c_colon :: d) 0 =? c_lbr) = false).
  { destruct h as [|x h]; [reflexivity|]. apply nth0_no; [exact Hl|discriminate]. }
  rewrite E0, firstn_len_app. unfold nocolon in Hh. rewrite Hh.
  unfold shp_finish. rewrite !skipn_O.
  rewrite !has_app, !has_cons, Hl, Hr, Hdl, Hdr.
  replace (c_lbr =? c_colon) with false by reflexivity.
  replace (c_rbr =? c_colon) with false by reflexivity.
  cbn [orb]. rewrite skipn_S_len_app. reflexivity.
Qed.

(** "[host]:port" *)
Lemma split_bracketed v d :
  nobr v -> nocolon d -> nobr d ->
  split_host_port (c_lbr :: v ++ c_rbr :: c_colon :: d) = ShpOk v d.
Proof.
  intros [Hl Hr] Hd [Hdl Hdr]. unfold split_host_port.
  assert (Ei : last_index_byte c_colon (c_lbr :: v ++ c_rbr :: c_colon :: d) = Some (S (S (length v)))).
  { change (c_lbr :: v ++ c_rbr :: c_colon :: d) with ((c_lbr :: v) ++ [c_rbr] ++ c_colon :: d).
    rewrite app_assoc. rewrite (last_index_hit c_colon _ d Hd).
    rewrite app_length. simpl. f_equal. lia. }
  rewrite Ei. cbn [nth]. rewrite N.eqb_refl.
  assert (Ee : index_byte c_rbr (c_lbr :: v ++ c_rbr :: c_colon :: d) = Some (S (length v))).
  { change (c_lbr :: v ++ c_rbr :: c_colon :: d) with ((c_lbr :: v) ++ c_rbr :: c_colon :: d).
    rewrite index_byte_hit; [reflexivity|]. rewrite has_cons, Hr. reflexivity. }
  rewrite Ee.
  assert (L : length (c_lbr :: v ++ c_rbr :: c_colon :: d) = (length v + 3 + length d)%nat).
  { simpl. rewrite app_length. simpl. lia. }
  rewrite L.
  replace (S (S (length v)) =? length v + 3 + length d)%nat with false by (symmetry; apply Nat.eqb_neq; lia).
  rewrite Nat.eqb_refl.
  unfold shp_finish, slice.
  change (skipn 1 (c_lbr :: v ++ c_rbr :: c_colon :: d)) with (v ++ c_rbr :: c_colon :: d).
  replace (S (length v) - 1)%nat with (length v) by lia.
  rewrite firstn_len_app.
  rewrite !has_app, !has_cons, Hl, Hdl.
  replace (c_lbr =? c_rbr) with false by reflexivity.
  replace (c_lbr =? c_colon) with false by reflexivity.
  cbn [orb].
  change (c_lbr :: v ++ c_rbr :: c_colon :: d) with ((c_lbr :: v) ++ c_rbr :: c_colon :: d).
  change (S (length v)) with (length (c_lbr :: v)).
  rewrite skipn_S_len_app, has_cons, Hdr.
  replace (c_rbr =? c_colon) with false by reflexivity.
  cbn [orb].
  change ((c_lbr :: v) ++ c_rbr :: c_colon :: d) with ((c_lbr :: v) ++ [c_rbr] ++ c_colon :: d).
  rewrite app_assoc.
  replace (S (length (c_lbr :: v))) with (length ((c_lbr :: v) ++ [c_rbr])) by (rewrite app_length; simpl; lia).
  rewrite skipn_S_len_app. reflexivity.
Qed.

(** no colon at all *)
Lemma split_no_colon s : nocolon s -> split_host_port s = ShpErr EMissingPort.
Proof.
  intro H. unfold split_host_port. apply last_index_none in H. rewrite H. reflexivity.
Qed.

(** bare IPv6 text: two or more colons, not starting with '[' *)
Lemma split_many_colons s :
  (nth 0 s 0 =? c_lbr) = false -> (2 <= count_colon s)%nat ->
  split_host_port s = ShpErr ETooManyColons.
Proof.
  intros H0 Hc. unfold split_host_port.
  destruct (last_index_byte c_colon s) as [i|] eqn:Ei.
  - rewrite H0. destruct (last_index_sound _ _ _ Ei) as [Es [Hrest _]].
    assert (Hh : has c_colon (firstn i s) = true).
    { destruct (has c_colon (firstn i s)) eqn:E; [reflexivity|].
      rewrite Es in Hc. rewrite count_colon_app in Hc.
      change (c_colon :: skipn (S i) s) with ([c_colon] ++ skipn (S i) s) in Hc.
      rewrite count_colon_app, (count_colon_zero _ E), (count_colon_zero _ Hrest) in Hc.
      change (count_colon [c_colon]) with 1%nat in Hc. lia. }
    rewrite Hh. reflexivity.
  - apply last_index_none in Ei. rewrite (count_colon_zero _ Ei) in Hc. lia.
Qed.

Lemma index_byte_split c s i :
  index_byte c s = Some i -> exists a b, s = a ++ c :: b /\ length a = i /\ has c a = false.
Proof.
  intro H. destruct (index_byte_sound _ _ _ H) as [E [Hn Hl]].
  exists (firstn i s), (skipn (S i) s). auto.
Qed.

Lemma last_index_split c s i :
  last_index_byte c s = Some i -> exists a b, s = a ++ c :: b /\ length a = i /\ has c b = false.
Proof.
  intro H. destruct (last_index_sound _ _ _ H) as [E [Hn Hl]].
  exists (firstn i s), (skipn (S i) s). auto.
Qed.

(** the bracket branch: first ']' right before the last ':' *)
Lemma bracket_shape s e :
  (nth 0 s 0 =? c_lbr) = true -> index_byte c_rbr s = Some e -> last_index_byte c_colon s = Some (S e) ->
  exists h d, s = c_lbr :: h ++ c_rbr :: c_colon :: d /\ e = S (length h)
              /\ has c_rbr h = false /\ has c_colon d = false.
Proof.
  intros H0 He Hi.
  destruct (index_byte_split _ _ _ He) as [A [B [EA [LA HA]]]].
  destruct (last_index_split _ _ _ Hi) as [C [D [EC [LC HD]]]].
  assert (E : A ++ [c_rbr] = C /\ B = c_colon :: D).
  { apply app_eq_len.
    - rewrite <- app_assoc. cbn [app]. rewrite <- EA, <- EC. reflexivity.
    - rewrite app_length. cbn [length]. lia. }
  destruct E as [<- ->].
  destruct A as [|x A'].
  - subst s. cbn [app nth] in H0. discriminate.
  - subst s. cbn [app nth] in H0. apply N.eqb_eq in H0. subst x.
    exists A', D. rewrite has_cons in HA. apply orb_false_iff in HA as [_ HA].
    cbn [length] in LA. repeat split; auto.
Qed.

(** what an accepted string looks like *)
Lemma split_sound s h d :
  split_host_port s = ShpOk h d ->
  nobr h /\ nocolon d /\ nobr d /\
  ((s = h ++ c_colon :: d /\ nocolon h) \/ s = c_lbr :: h ++ c_rbr :: c_colon :: d).
Proof.
  unfold split_host_port.
  destruct (last_index_byte c_colon s) as [i|] eqn:Ei; [|discriminate].
  destruct (nth 0 s 0 =? c_lbr) eqn:E0.
  - destruct (index_byte c_rbr s) as [e|] eqn:Ee; [|discriminate].
    destruct (S e =? length s)%nat; [discriminate|].
    destruct (S e =? i)%nat eqn:Eei; [|destruct (nth (S e) s 0 =? c_colon); discriminate].
    apply Nat.eqb_eq in Eei. subst i.
    destruct (bracket_shape _ _ E0 Ee Ei) as [h0 [d0 [Es [-> [Hrh Hcd]]]]].
    subst s. unfold shp_finish, slice.
    change (skipn 1 (c_lbr :: h0 ++ c_rbr :: c_colon :: d0)) with (h0 ++ c_rbr :: c_colon :: d0).
    replace (S (length h0) - 1)%nat with (length h0) by lia.
    rewrite firstn_len_app.
    change (c_lbr :: h0 ++ c_rbr :: c_colon :: d0) with ((c_lbr :: h0) ++ c_rbr :: c_colon :: d0).
    change (S (length h0)) with (length (c_lbr :: h0)).
    rewrite skipn_S_len_app.
    change ((c_lbr :: h0) ++ c_rbr :: c_colon :: d0) with ((c_lbr :: h0) ++ [c_rbr] ++ c_colon :: d0).
    rewrite app_assoc.
    replace (S (length (c_lbr :: h0))) with (length ((c_lbr :: h0) ++ [c_rbr])) by (rewrite app_length; simpl; lia).
    rewrite skipn_S_len_app.
    rewrite has_app, !has_cons.
    replace (c_lbr =? c_rbr) with false by reflexivity.
    replace (c_lbr =? c_colon) with false by reflexivity.
    replace (c_rbr =? c_colon) with false by reflexivity.
    cbn [orb].
    destruct (has c_lbr h0) eqn:Hl1; [discriminate|]. cbn [orb].
    destruct (has c_lbr d0) eqn:Hl2; [discriminate|].
    destruct (has c_rbr d0) eqn:Hr2; [discriminate|].
    intro H. injection H as <- <-.
    repeat split; try assumption.
    right. rewrite <- app_assoc. reflexivity.
  - destruct (last_index_sound _ _ _ Ei) as [Es [Hrest Hlen]].
    destruct (has c_colon (firstn i s)) eqn:Hc; [discriminate|].
    unfold shp_finish. rewrite !skipn_O.
    destruct (has c_lbr s) eqn:Hl; [discriminate|].
    destruct (has c_rbr s) eqn:Hr; [discriminate|].
    intro H. injection H as <- <-.
    rewrite Es in Hl, Hr. rewrite has_app, has_cons in Hl, Hr.
    apply orb_false_iff in Hl as [Hl1 Hl2]. apply orb_false_iff in Hr as [Hr1 Hr2].
    apply orb_false_iff in Hl2 as [_ Hl2]. apply orb_false_iff in Hr2 as [_ Hr2].
    repeat split; try assumption.
    left. split; [exact Es|exact Hc].
Qed.

(** ** strconv.ParseUint(s, 10, 16) *)

Definition dstep (a c : N) : N := a * 10 + (c - 48).

Lemma dec_value_fold d : dec_value d = fold_left dstep d 0.
Proof. reflexivity. Qed.

Lemma fold_dstep_mono s : forall n, n <= fold_left dstep s n.
Proof.
  induction s as [|c t IH]; intro n; cbn [fold_left]; [lia|].
  specialize (IH (dstep n c)). unfold dstep in *. lia.
Qed.

Lemma pu_loop_spec s : forall n, n <= 65535 ->
  pu_loop n s =
  if forallb is_digit s && (fold_left dstep s n <=? 65535) then Some (fold_left dstep s n) else None.
Proof.
  induction s as [|c t IH]; intros n Hn; cbn [pu_loop forallb fold_left].
  - cbn [andb]. destruct (N.leb_spec n 65535); [reflexivity|lia].
  - destruct (is_digit c) eqn:Hd; cbn [andb]; [|reflexivity].
    assert (Hc : c - 48 <= 9) by (unfold is_digit in Hd; lia).
    destruct (N.leb_spec pu_cutoff n) as [Hcut|_]; [unfold pu_cutoff in Hcut; lia|].
    assert (Em : (n * 10 + (c - 48)) mod two64 = n * 10 + (c - 48)).
    { apply N.mod_small. unfold two64. lia. }
    rewrite Em. fold (dstep n c).
    destruct (N.ltb_spec (dstep n c) (n * 10)) as [Hw|_]; [unfold dstep in Hw; lia|].
    cbn [orb].
    destruct (N.ltb_spec 65535 (dstep n c)) as [Hbig|Hok].
    + pose proof (fold_dstep_mono t (dstep n c)) as Hm.
      destruct (N.leb_spec (fold_left dstep t (dstep n c)) 65535); [lia|]. rewrite andb_false_r. reflexivity.
    + apply IH. exact Hok.
Qed.

Lemma parse_uint16_spec s :
  parse_uint16 s =
  if negb (is_nil s) && forallb is_digit s && (dec_value s <=? 65535) then Some (dec_value s) else None.
Proof.
  destruct s as [|c t]; [reflexivity|].
  unfold parse_uint16. rewrite pu_loop_spec by lia. reflexivity.
Qed.

(** digits contain none of ':' '[' ']' *)
Lemma digits_nocolon d : forallb is_digit d = true -> nocolon d.
Proof. apply class_excludes. reflexivity. Qed.
Lemma digits_nobr d : forallb is_digit d = true -> nobr d.
Proof. intro H. split; (eapply class_excludes; [|exact H]); reflexivity. Qed.

(** ** pkg/upstream/utils.go *)

Lemma trim_bracketed s : trim_v6_brackets (c_lbr :: s ++ [c_rbr]) = s.
Proof.
  unfold trim_v6_brackets.
  assert (L : length (c_lbr :: s ++ [c_rbr]) = S (S (length s))) by (simpl; rewrite app_length; simpl; lia).
  rewrite L. cbn [Nat.ltb Nat.leb nth].
  replace (S (S (length s)) - 1)%nat with (S (length s)) by lia.
  cbn [nth]. rewrite app_nth2 by lia. rewrite Nat.sub_diag. cbn [nth].
  rewrite !N.eqb_refl. cbn [andb]. unfold slice.
  change (skipn 1 (c_lbr :: s ++ [c_rbr])) with (s ++ [c_rbr]).
  replace (S (length s) - 1)%nat with (length s) by lia.
  apply firstn_len_app.
Qed.

Lemma trim_not_open s : (nth 0 s 0 =? c_lbr) = false -> trim_v6_brackets s = s.
Proof.
  intro H. unfold trim_v6_brackets. rewrite H. cbn [andb].
  destruct (length s <? 2)%nat; reflexivity.
Qed.

Lemma trim_not_closed s : (nth (length s - 1) s 0 =? c_rbr) = false -> trim_v6_brackets s = s.
Proof.
  intro H. unfold trim_v6_brackets. rewrite H, andb_false_r.
  destruct (length s <? 2)%nat; reflexivity.
Qed.

(** the old code, kept as a refutation: s[1:len(s)-2] *)
Definition trim_v6_brackets_old (s : str) : str :=
  if (length s <? 2)%nat then s
  else if (nth 0 s 0 =? c_lbr) && (nth (length s - 1) s 0 =? c_rbr)
       then slice 1 (length s - 2) s
       else s.

Lemma brackets_off_by_one :
  trim_v6_brackets_old (lit "[::1]") = lit "::" /\ trim_v6_brackets (lit "[::1]") = lit "::1".
Proof. split; reflexivity. Qed.

Lemma last_not_rbr (a t : str) :
  t <> [] -> has c_rbr t = false ->
  (nth (length (a ++ t) - 1) (a ++ t) 0 =? c_rbr) = false.
Proof.
  intros Hne Ht. destruct (exists_last Hne) as [l' [x ->]].
  rewrite app_assoc, app_length. cbn [length].
  replace (length (a ++ l') + 1 - 1)%nat with (length (a ++ l')) by lia.
  rewrite app_nth2 by lia. rewrite Nat.sub_diag. cbn [nth].
  rewrite has_app, has_cons in Ht. apply orb_false_iff in Ht as [_ Ht].
  apply orb_false_iff in Ht as [Ht _]. rewrite N.eqb_sym. exact Ht.
Qed.

Lemma last_of_app_digit (a d : str) :
  d <> [] -> forallb is_digit d = true ->
  (nth (length (a ++ c_colon :: d) - 1) (a ++ c_colon :: d) 0 =? c_rbr) = false.
Proof.
  intros Hne Hd.
  assert (Hlast : exists d' x, d = d' ++ [x]).
  { destruct (exists_last Hne) as [d' [x E]]. eauto. }
  destruct Hlast as [d' [x ->]].
  rewrite forallb_app in Hd. apply andb_true_iff in Hd as [_ Hx]. cbn [forallb] in Hx.
  rewrite andb_true_r in Hx.
  replace (a ++ c_colon :: d' ++ [x]) with ((a ++ c_colon :: d') ++ [x]) by (rewrite <- app_assoc; reflexivity).
  rewrite app_length. cbn [length].
  replace (length (a ++ c_colon :: d') + 1 - 1)%nat with (length (a ++ c_colon :: d')) by lia.
  rewrite app_nth2 by lia. rewrite Nat.sub_diag. cbn [nth].
  unfold is_digit in Hx. unfold c_rbr. lia.
Qed.

(** ** Endpoints of the grammar *)

Lemma name_nocolon h : forallb name_char h = true -> nocolon h.
Proof. apply class_excludes. reflexivity. Qed.
Lemma name_nobr h : forallb name_char h = true -> nobr h.
Proof. intro H. split; (eapply class_excludes; [|exact H]); reflexivity. Qed.
Lemma name_noslash h : forallb name_char h = true -> has c_slash h = false.
Proof. apply class_excludes. reflexivity. Qed.
Lemma inner_nobr v : forallb inner_char v = true -> nobr v.
Proof. intro H. split; (eapply class_excludes; [|exact H]); reflexivity. Qed.
Lemma inner_noslash v : forallb inner_char v = true -> has c_slash v = false.
Proof. apply class_excludes. reflexivity. Qed.

Lemma first_not_lbr (s t : str) :
  has c_lbr s = false -> (nth 0 s 0 =? c_lbr) = false.
Proof.
  destruct s as [|x s]; [reflexivity|]. rewrite has_cons. cbn [nth].
  intro H. apply orb_false_iff in H as [H _]. rewrite N.eqb_sym. exact H.
Qed.

Lemma wf_port_facts d :
  wf_port d = true ->
  d <> [] /\ forallb is_digit d = true /\ 1 <= dec_value d <= 65535 /\ parse_uint16 d = Some (dec_value d).
Proof.
  unfold wf_port. intro H.
  apply andb_true_iff in H as [H H4]. apply andb_true_iff in H as [H H3]. apply andb_true_iff in H as [H1 H2].
  assert (Hne : d <> []) by (destruct d; [discriminate|congruence]).
  repeat split; try assumption; try lia.
  rewrite parse_uint16_spec, H1, H2, H4. reflexivity.
Qed.

(** value of the optional port, 0 when absent *)
Definition port_val (p : option str) : N := match p with Some d => dec_value d | None => 0 end.

(** trySplitHostPort on every well-formed form except "[v6]" (which only
    occurs as URL host and is trimmed first) *)
Lemma try_split_ep e :
  wf_ep e = true -> dial_ok_ep e = true ->
  try_split_host_port (render_ep e) = Some (ep_host e, port_val (ep_port e)).
Proof.
  destruct e as [h p|v br p]; cbn [wf_ep dial_ok_ep render_ep ep_host ep_port]; intros Hwf Hok.
  - apply andb_true_iff in Hwf as [Hwf Hp]. apply andb_true_iff in Hwf as [Hne Hh].
    unfold try_split_host_port. destruct p as [d|]; cbn [render_port wf_port_opt port_val] in *.
    + destruct (wf_port_facts _ Hp) as [_ [Hd [_ Hpu]]].
      rewrite (split_name_port h d (name_nocolon _ Hh) (name_nobr _ Hh) (digits_nocolon _ Hd) (digits_nobr _ Hd)).
      rewrite Hpu. reflexivity.
    + rewrite app_nil_r. rewrite (split_no_colon h (name_nocolon _ Hh)). reflexivity.
  - apply andb_true_iff in Hwf as [Hwf Hbr]. apply andb_true_iff in Hwf as [Hwf Hp].
    apply andb_true_iff in Hwf as [Hv Hc]. apply Nat.leb_le in Hc.
    unfold try_split_host_port. destruct br.
    + destruct p as [d|]; [|discriminate]. cbn [render_port wf_port_opt port_val app] in *.
      destruct (wf_port_facts _ Hp) as [_ [Hd [_ Hpu]]].
      rewrite <- app_assoc. cbn [app].
      rewrite (split_bracketed v d (inner_nobr _ Hv) (digits_nocolon _ Hd) (digits_nobr _ Hd)).
      rewrite Hpu. reflexivity.
    + destruct p as [d|]; [discriminate|]. cbn [render_port port_val]. rewrite app_nil_r.
      rewrite (split_many_colons v); [reflexivity| |exact Hc].
      apply (first_not_lbr v v). apply (inner_nobr _ Hv).
Qed.

(** what NewUpstream feeds to the helpers for a URL endpoint: the trimmed
    host denotes the same endpoint, "[v6]" included *)
Lemma try_split_trim_ep e :
  wf_ep e = true ->
  try_split_host_port (trim_v6_brackets (render_ep e)) = Some (ep_host e, port_val (ep_port e)).
Proof.
  intro Hwf. destruct (dial_ok_ep e) eqn:Hok.
  - (* trimming changes nothing *)
    assert (Et : trim_v6_brackets (render_ep e) = render_ep e).
    { destruct e as [h p|v br p]; cbn [wf_ep render_ep dial_ok_ep] in *.
      - apply andb_true_iff in Hwf as [Hwf _]. apply andb_true_iff in Hwf as [Hne Hh].
        apply trim_not_open. destruct h as [|x h]; [discriminate|].
        cbn [app nth]. pose proof (name_nobr _ Hh) as [Hl _]. rewrite has_cons in Hl.
        rewrite N.eqb_sym. destruct (c_lbr =? x); [discriminate|reflexivity].
      - apply andb_true_iff in Hwf as [Hwf Hbr]. apply andb_true_iff in Hwf as [Hwf Hp].
        apply andb_true_iff in Hwf as [Hv Hc].
        destruct br.
        + destruct p as [d|]; [|discriminate]. cbn [render_port wf_port_opt] in *.
          destruct (wf_port_facts _ Hp) as [Hne [Hd _]].
          apply trim_not_closed. apply last_of_app_digit; assumption.
        + destruct p; [discriminate|]. cbn [render_port]. rewrite app_nil_r.
          apply trim_not_open. apply (first_not_lbr v v), (inner_nobr _ Hv). }
    rewrite Et. apply try_split_ep; assumption.
  - destruct e as [h p|v br p]; [discriminate|]. destruct br; [|discriminate]. destruct p; [discriminate|].
    cbn [wf_ep render_ep render_port ep_host ep_port port_val] in *. rewrite app_nil_r.
    apply andb_true_iff in Hwf as [Hwf _]. apply andb_true_iff in Hwf as [Hwf _].
    apply andb_true_iff in Hwf as [Hv Hc]. apply Nat.leb_le in Hc.
    cbn [app]. rewrite trim_bracketed.
    unfold try_split_host_port. rewrite (split_many_colons v); [reflexivity| |exact Hc].
    apply (first_not_lbr v v), (inner_nobr _ Hv).
Qed.

Lemma try_remove_trim_ep e :
  wf_ep e = true -> try_remove_port (trim_v6_brackets (render_ep e)) = ep_host e.
Proof.
  intro Hwf. pose proof (try_split_trim_ep e Hwf) as H.
  unfold try_split_host_port, try_remove_port in *.
  destruct (split_host_port (trim_v6_brackets (render_ep e))) as [h ps|err].
  - destruct (parse_uint16 ps); [|discriminate]. injection H as -> _. reflexivity.
  - injection H as -> _. reflexivity.
Qed.

(** ** parseDialAddr *)

Definition eff_addr (url_host dial_addr : str) : str :=
  if (0 <? length dial_addr)%nat then dial_addr else url_host.

Lemma render_ep_nonempty e : wf_ep e = true -> (0 <? length (render_ep e))%nat = true.
Proof.
  destruct e as [h p|v br p]; cbn [wf_ep render_ep]; intro H.
  - apply andb_true_iff in H as [H _]. apply andb_true_iff in H as [H _].
    destruct h; [discriminate|]. reflexivity.
  - apply andb_true_iff in H as [H _]. apply andb_true_iff in H as [H _]. apply andb_true_iff in H as [_ H].
    apply Nat.leb_le in H. destruct br; [reflexivity|].
    destruct v; [cbn in H; lia|reflexivity].
Qed.

Lemma port_val_or p def :
  wf_port_opt p = true -> (if port_val p =? 0 then def else port_val p) = port_or p def.
Proof.
  destruct p as [d|]; cbn [wf_port_opt port_val port_or]; intro H; [|reflexivity].
  destruct (wf_port_facts _ H) as [_ [_ [Hr _]]].
  destruct (N.eqb_spec (dec_value d) 0); [lia|reflexivity].
Qed.

Lemma wf_ep_port e : wf_ep e = true -> wf_port_opt (ep_port e) = true.
Proof.
  destruct e as [h p|v br p]; cbn [wf_ep ep_port]; intro H.
  - apply andb_true_iff in H as [_ H]. exact H.
  - apply andb_true_iff in H as [H _]. apply andb_true_iff in H as [_ H]. exact H.
Qed.

Definition dial_wf (dial : option ep) : bool :=
  match dial with Some d => wf_ep d && dial_ok_ep d | None => true end.
Definition render_dial (dial : option ep) : str :=
  match dial with Some d => render_ep d | None => [] end.
Definition eff_ep (e : ep) (dial : option ep) : ep :=
  match dial with Some d => d | None => e end.

(** the (host, port) pair NewUpstream computes for a URL endpoint and an
    optional dial_addr endpoint *)
Lemma parse_dial_ep e dial def :
  wf_ep e = true -> dial_wf dial = true ->
  parse_dial_addr (trim_v6_brackets (render_ep e)) (render_dial dial) def =
  Some (ep_host (eff_ep e dial), port_or (ep_port (eff_ep e dial)) def).
Proof.
  intros He Hd. unfold parse_dial_addr.
  destruct dial as [d|]; cbn [dial_wf render_dial eff_ep] in *.
  - apply andb_true_iff in Hd as [Hw Hok].
    rewrite (render_ep_nonempty d Hw), (try_split_ep d Hw Hok).
    rewrite (port_val_or _ def (wf_ep_port d Hw)). reflexivity.
  - cbn [length Nat.ltb Nat.leb]. rewrite (try_split_trim_ep e He).
    rewrite (port_val_or _ def (wf_ep_port e He)). reflexivity.
Qed.

(** an accepted address denotes exactly what it says *)
Lemma parse_dial_addr_sound u d def h p :
  parse_dial_addr u d def = Some (h, p) ->
  let a := eff_addr u d in
  (exists err, split_host_port a = ShpErr err /\ h = a /\ p = def)
  \/ (exists ds,
        ((a = h ++ c_colon :: ds /\ nocolon h) \/ a = c_lbr :: h ++ c_rbr :: c_colon :: ds)
        /\ nobr h /\ ds <> [] /\ forallb is_digit ds = true /\ dec_value ds <= 65535
        /\ p = (if dec_value ds =? 0 then def else dec_value ds)).
Proof.
  unfold parse_dial_addr, eff_addr, try_split_host_port. cbv zeta.
  set (a := if (0 <? length d)%nat then d else u).
  destruct (split_host_port a) as [h0 ps|err] eqn:Es.
  - rewrite parse_uint16_spec.
    destruct (negb (is_nil ps) && forallb is_digit ps && (dec_value ps <=? 65535)) eqn:Ep; [|discriminate].
    intro H. injection H as <- <-.
    apply andb_true_iff in Ep as [Ep H3]. apply andb_true_iff in Ep as [H1 H2].
    destruct (split_sound _ _ _ Es) as [Hh [_ [_ Hshape]]].
    right. exists ps.
    split; [exact Hshape|]. split; [exact Hh|].
    split; [destruct ps; [discriminate|congruence]|].
    split; [exact H2|]. split; [apply N.leb_le; exact H3|reflexivity].
  - change (0 =? 0) with true. cbv iota.
    intro H. injection H as <- <-. left. exists err. auto.
Qed.

(** ... and the only way to be refused is a port text that is not a 16 bit decimal *)
Lemma parse_dial_addr_none u d def :
  parse_dial_addr u d def = None <->
  exists h ps, split_host_port (eff_addr u d) = ShpOk h ps /\ parse_uint16 ps = None.
Proof.
  unfold parse_dial_addr, eff_addr, try_split_host_port.
  set (a := if (0 <? length d)%nat then d else u).
  destruct (split_host_port a) as [h0 ps|err] eqn:Es.
  - destruct (parse_uint16 ps) eqn:Ep; split.
    + discriminate.
    + intros [h [ps' [E1 E2]]]. injection E1 as <- <-. congruence.
    + intros _. exists h0, ps. auto.
    + reflexivity.
  - split; [discriminate|]. intros [h [ps [E _]]]. discriminate.
Qed.

Lemma bad_port_name h d :
  nocolon h -> nobr h -> nocolon d -> nobr d -> parse_uint16 d = None ->
  try_split_host_port (h ++ c_colon :: d) = None.
Proof.
  intros. unfold try_split_host_port. rewrite split_name_port by assumption.
  rewrite H3. reflexivity.
Qed.

Lemma bad_port_bracketed v d :
  nobr v -> nocolon d -> nobr d -> parse_uint16 d = None ->
  try_split_host_port (c_lbr :: v ++ c_rbr :: c_colon :: d) = None.
Proof.
  intros. unfold try_split_host_port. rewrite split_bracketed by assumption.
  rewrite H2. reflexivity.
Qed.

(** ** The scheme switch *)

Definition classify (scheme0 : str) : option transport :=
  let '(scheme, http3) := apply_helper scheme0 in
  if is_nil scheme || str_eqb scheme (lit "udp") then Some TUdp
  else if str_eqb scheme (lit "tcp") then Some TTcp
  else if str_eqb scheme (lit "tls") then Some TTls
  else if str_eqb scheme (lit "https") then Some (if http3 then TH3 else THttps)
  else if str_eqb scheme (lit "quic") || str_eqb scheme (lit "doq") then Some TQuic
  else None.

Definition default_port (tr : transport) : N :=
  match tr with TUdp | TTcp => 53 | TTls | TQuic => 853 | THttps | TH3 => 443 end.

Definition http_host_of (url_host : str) : str :=
  if negb (has_prefix [c_lbr] url_host) && (2 <=? count_colon url_host)%nat
  then [c_lbr] ++ url_host ++ [c_rbr] else url_host.

Definition target_for (is_ip : str -> bool) (tr : transport) (url_host : str) (socks : bool)
           (hp : option (str * N)) : option target :=
  match hp with
  | None => None
  | Some (host, port) =>
    if needs_ip tr socks && negb (is_ip host) then None
    else Some (mk_target tr host port
                 (if has_tls_name tr then Some (try_remove_port (trim_v6_brackets url_host)) else None)
                 (match tr with THttps | TH3 => Some (http_host_of url_host) | _ => None end))
  end.

Lemma upstream_of_url_factored is_ip s0 uh dial socks :
  upstream_of_url is_ip s0 uh dial socks =
  match classify s0 with
  | None => None
  | Some tr => target_for is_ip tr uh socks (parse_dial_addr (trim_v6_brackets uh) dial (default_port tr))
  end.
Proof.
  unfold upstream_of_url, classify, target_for, http_host_of.
  destruct (apply_helper s0) as [scheme http3].
  destruct (is_nil scheme || str_eqb scheme (lit "udp")).
  { cbn [default_port needs_ip has_tls_name].
    destruct (parse_dial_addr (trim_v6_brackets uh) dial 53) as [[h p]|]; [|reflexivity].
    destruct (is_ip h); reflexivity. }
  destruct (str_eqb scheme (lit "tcp")).
  { cbn [default_port needs_ip has_tls_name].
    destruct (parse_dial_addr (trim_v6_brackets uh) dial 53) as [[h p]|]; [|reflexivity].
    destruct socks, (is_ip h); reflexivity. }
  destruct (str_eqb scheme (lit "tls")).
  { cbn [default_port needs_ip has_tls_name].
    destruct (parse_dial_addr (trim_v6_brackets uh) dial 853) as [[h p]|]; [|reflexivity].
    destruct socks, (is_ip h); reflexivity. }
  destruct (str_eqb scheme (lit "https")).
  { destruct http3; cbn [default_port needs_ip has_tls_name];
      (destruct (parse_dial_addr (trim_v6_brackets uh) dial 443) as [[h p]|]; [|reflexivity]).
    - reflexivity.
    - destruct socks, (is_ip h); reflexivity. }
  destruct (str_eqb scheme (lit "quic") || str_eqb scheme (lit "doq")); [|reflexivity].
  cbn [default_port needs_ip has_tls_name].
  destruct (parse_dial_addr (trim_v6_brackets uh) dial 853) as [[h p]|]; reflexivity.
Qed.

(** the table of the property: every scheme name is a URL scheme token in
    lower case, and selects the stated transport and default port *)
Definition scheme_char (c : N) : bool :=
  is_alpha c || is_digit c || (c =? 43) || (c =? 45) || (c =? c_dot).
Definition scheme_tok (s : str) : bool :=
  match s with c :: t => is_alpha c && forallb scheme_char t | [] => false end.

Definition row_ok (r : string * transport * N) : bool :=
  let '(nm, tr, def) := r in
  scheme_tok (lit nm) && str_eqb (map to_lower (lit nm)) (lit nm)
  && match classify (lit nm) with Some tr' => transport_eqb tr tr' | None => false end
  && (default_port tr =? def).

Lemma scheme_table_ok : forallb row_ok scheme_table = true.
Proof. vm_compute. reflexivity. Qed.

Lemma str_eqb_eq a b : str_eqb a b = true -> a = b.
Proof. apply list_eqb_spec. intros x y. apply N.eqb_eq. Qed.

Lemma transport_eqb_eq a b : transport_eqb a b = true -> a = b.
Proof. destruct a, b; (reflexivity || discriminate). Qed.

Lemma scheme_row nm tr def :
  In (nm, tr, def) scheme_table ->
  scheme_tok (lit nm) = true /\ map to_lower (lit nm) = lit nm
  /\ classify (lit nm) = Some tr /\ default_port tr = def.
Proof.
  intro Hin. pose proof scheme_table_ok as H. rewrite forallb_forall in H.
  specialize (H _ Hin). unfold row_ok in H.
  apply andb_true_iff in H as [H H4]. apply andb_true_iff in H as [H H3]. apply andb_true_iff in H as [H1 H2].
  destruct (classify (lit nm)) as [tr'|]; [|discriminate].
  apply transport_eqb_eq in H3. subst tr'. apply N.eqb_eq in H4. apply str_eqb_eq in H2. auto.
Qed.

(** ** net/url.Parse on the grammar *)

Lemma scheme_char_safe c : scheme_char c = true -> url_safe c = true.
Proof.
  unfold scheme_char, url_safe. intro H.
  destruct (is_alpha c); [reflexivity|]. destruct (is_digit c); [reflexivity|]. cbn [orb] in *.
  cbn [existsb].
  apply orb_true_iff in H as [H|H]; [apply orb_true_iff in H as [H|H]|];
    rewrite H; rewrite ?orb_true_r; reflexivity.
Qed.

Lemma forallb_impl {A} (P Q : A -> bool) l :
  (forall x, P x = true -> Q x = true) -> forallb P l = true -> forallb Q l = true.
Proof.
  intro H. induction l as [|x l IH]; cbn [forallb]; [reflexivity|].
  intro E. apply andb_true_iff in E as [E1 E2]. rewrite (H _ E1), (IH E2). reflexivity.
Qed.

Lemma scheme_tok_safe s : scheme_tok s = true -> forallb url_safe s = true.
Proof.
  destruct s as [|c t]; [discriminate|]. cbn [scheme_tok forallb]. intro H.
  apply andb_true_iff in H as [H1 H2].
  rewrite (forallb_impl _ _ _ scheme_char_safe H2), andb_true_r.
  unfold url_safe. rewrite H1. reflexivity.
Qed.

Lemma name_char_safe c : name_char c = true -> url_safe c = true.
Proof. unfold name_char. intro H. repeat (apply andb_true_iff in H as [H _]). exact H. Qed.

Lemma inner_char_safe c : inner_char c = true -> url_safe c = true.
Proof.
  unfold inner_char. intro H. apply orb_true_iff in H as [H|H]; [apply name_char_safe, H|].
  apply N.eqb_eq in H. subst. reflexivity.
Qed.

Lemma digit_safe c : is_digit c = true -> url_safe c = true.
Proof. unfold url_safe. intros ->. rewrite orb_true_r. reflexivity. Qed.

Lemma get_scheme_tail t r :
  forallb scheme_char t = true -> get_scheme false (t ++ c_colon :: r) = GsAt (length t).
Proof.
  induction t as [|c t IH]; cbn [forallb app length]; intro H.
  - reflexivity.
  - apply andb_true_iff in H as [Hc Ht]. cbn [get_scheme].
    destruct (is_alpha c) eqn:Ea; [rewrite (IH Ht); reflexivity|].
    unfold scheme_char in Hc. rewrite Ea in Hc. cbn [orb] in Hc. rewrite Hc.
    rewrite (IH Ht). reflexivity.
Qed.

Lemma get_scheme_tok s r :
  scheme_tok s = true -> get_scheme true (s ++ c_colon :: r) = GsAt (length s).
Proof.
  destruct s as [|c t]; [discriminate|]. cbn [scheme_tok app length get_scheme]. intro H.
  apply andb_true_iff in H as [Hc Ht]. rewrite Hc, (get_scheme_tail t r Ht). reflexivity.
Qed.

Lemma take_until_app c a p :
  has c a = false -> is_nil p || has_prefix [c] p = true -> take_until c (a ++ p) = a.
Proof.
  intros Ha Hp. induction a as [|x a IH]; cbn [app take_until].
  - destruct p as [|y p]; [reflexivity|]. cbn [is_nil orb has_prefix] in Hp.
    rewrite andb_true_r in Hp. cbn [take_until]. rewrite N.eqb_sym, Hp. reflexivity.
  - rewrite has_cons in Ha. apply orb_false_iff in Ha as [Hx Ha].
    rewrite N.eqb_sym, Hx, (IH Ha). reflexivity.
Qed.

Lemma has_prefix_app p b : has_prefix p (p ++ b) = true.
Proof. induction p as [|x p IH]; cbn [has_prefix app]; [reflexivity|]. rewrite N.eqb_refl, IH. reflexivity. Qed.

Lemma contains_mid p a b : contains p (a ++ p ++ b) = true.
Proof.
  induction a as [|x a IH]; cbn [app].
  - destruct (p ++ b) eqn:E; cbn [contains]; rewrite <- E, has_prefix_app; reflexivity.
  - cbn [contains]. rewrite IH, orb_true_r. reflexivity.
Qed.

Lemma render_port_safe p : wf_port_opt p = true -> forallb url_safe (render_port p) = true.
Proof.
  destruct p as [d|]; cbn [wf_port_opt render_port forallb]; intro H; [|reflexivity].
  destruct (wf_port_facts _ H) as [_ [Hd _]].
  rewrite (forallb_impl _ _ _ digit_safe Hd). reflexivity.
Qed.

Lemma render_port_noslash p : wf_port_opt p = true -> has c_slash (render_port p) = false.
Proof.
  destruct p as [d|]; cbn [wf_port_opt render_port]; intro H; [|reflexivity].
  destruct (wf_port_facts _ H) as [_ [Hd _]].
  rewrite has_cons. replace (c_slash =? c_colon) with false by reflexivity. cbn [orb].
  eapply class_excludes; [|exact Hd]. reflexivity.
Qed.

Lemma render_ep_safe e :
  wf_ep e = true -> forallb url_safe (render_ep e) = true /\ has c_slash (render_ep e) = false.
Proof.
  destruct e as [h p|v br p]; cbn [wf_ep render_ep]; intro H.
  - apply andb_true_iff in H as [H Hp]. apply andb_true_iff in H as [_ Hh].
    rewrite forallb_app, has_app, (forallb_impl _ _ _ name_char_safe Hh), (render_port_safe _ Hp),
      (name_noslash _ Hh), (render_port_noslash _ Hp). auto.
  - apply andb_true_iff in H as [H _]. apply andb_true_iff in H as [H Hp]. apply andb_true_iff in H as [Hv _].
    pose proof (forallb_impl _ _ _ inner_char_safe Hv) as Hs.
    destruct br; rewrite ?forallb_app, ?has_app; cbn [forallb has existsb];
      rewrite ?forallb_app, ?has_app, Hs, (render_port_safe _ Hp), (inner_noslash _ Hv), (render_port_noslash _ Hp);
      cbn [forallb has existsb]; auto.
Qed.

Lemma valid_port_render p : wf_port_opt p = true -> valid_optional_port (render_port p) = true.
Proof.
  destruct p as [d|]; cbn [wf_port_opt render_port valid_optional_port]; intro H; [|reflexivity].
  destruct (wf_port_facts _ H) as [_ [Hd _]]. rewrite N.eqb_refl, Hd. reflexivity.
Qed.

Lemma render_port_no c p :
  is_digit c = false -> c <> c_colon -> wf_port_opt p = true -> has c (render_port p) = false.
Proof.
  intros Hc Hn. destruct p as [d|]; cbn [wf_port_opt render_port]; intro H; [|reflexivity].
  destruct (wf_port_facts _ H) as [_ [Hd _]]. rewrite has_cons.
  destruct (N.eqb_spec c c_colon); [contradiction|]. cbn [orb].
  eapply class_excludes; [exact Hc|exact Hd].
Qed.

(** parseHost accepts every well-formed endpoint whose bare IPv6 form ends in digits *)
Lemma parse_host_ep e :
  wf_ep e = true -> url_ok_ep e = true -> parse_host (render_ep e) = Some (render_ep e).
Proof.
  destruct e as [h p|v br p]; cbn [wf_ep url_ok_ep render_ep]; intros H Hu; unfold parse_host.
  - apply andb_true_iff in H as [H Hp]. apply andb_true_iff in H as [Hne Hh].
    destruct h as [|x h]; [discriminate|].
    pose proof (name_nobr _ Hh) as [Hl _]. pose proof (name_nocolon _ Hh) as Hc.
    assert (E0 : has_prefix [c_lbr] ((x :: h) ++ render_port p) = false).
    { cbn [app has_prefix]. rewrite has_cons in Hl. apply orb_false_iff in Hl as [Hl _].
      rewrite Hl. reflexivity. }
    rewrite E0. destruct p as [d|]; cbn [render_port wf_port_opt] in *.
    + destruct (wf_port_facts _ Hp) as [_ [Hd _]].
      rewrite (last_index_hit c_colon (x :: h) d (digits_nocolon _ Hd)), skipn_len_app.
      cbn [valid_optional_port]. rewrite N.eqb_refl, Hd. reflexivity.
    + rewrite app_nil_r. apply last_index_none in Hc. rewrite Hc. reflexivity.
  - apply andb_true_iff in H as [H Hbr]. apply andb_true_iff in H as [H Hp]. apply andb_true_iff in H as [Hv Hc].
    pose proof (inner_nobr _ Hv) as [Hl Hr].
    destruct br.
    + cbn [app has_prefix]. rewrite N.eqb_refl. cbn [andb].
      assert (Hrp : has c_rbr (render_port p) = false)
        by (apply render_port_no; [reflexivity|discriminate|exact Hp]).
      change (c_lbr :: v ++ [c_rbr] ++ render_port p) with ((c_lbr :: v) ++ c_rbr :: render_port p).
      rewrite <- app_assoc. cbn [app].
      change (c_lbr :: v ++ c_rbr :: render_port p) with ((c_lbr :: v) ++ c_rbr :: render_port p).
      rewrite (last_index_hit c_rbr (c_lbr :: v) (render_port p) Hrp), skipn_S_len_app.
      rewrite (valid_port_render _ Hp). reflexivity.
    + destruct p as [d|]; [discriminate|]. cbn [render_port]. rewrite app_nil_r.
      assert (E0 : has_prefix [c_lbr] v = false).
      { destruct v as [|x v]; [reflexivity|]. cbn [has_prefix]. rewrite has_cons in Hl.
        apply orb_false_iff in Hl as [Hl _]. rewrite Hl. reflexivity. }
      rewrite E0. unfold after_last_colon in Hu.
      destruct (last_index_byte c_colon v) as [i|] eqn:Ei; [|reflexivity].
      destruct (last_index_sound _ _ _ Ei) as [Es [_ Hlen]].
      assert (Esk : skipn i v = c_colon :: skipn (S i) v).
      { rewrite Es at 1. rewrite <- Hlen at 1. apply skipn_len_app. }
      rewrite Esk. cbn [valid_optional_port]. rewrite N.eqb_refl, Hu. reflexivity.
Qed.

Lemma url_parse_rendered sch auth path :
  scheme_tok sch = true -> forallb url_safe auth = true -> has c_slash auth = false ->
  wf_path path = true -> parse_host auth = Some auth ->
  url_parse (sch ++ lit "://" ++ auth ++ path) = UrlOk (map to_lower sch) auth.
Proof.
  intros Hs Ha Hns Hp Hh. unfold wf_path in Hp. apply andb_true_iff in Hp as [Hps Hpp].
  unfold url_parse.
  change (lit "://") with [c_colon; c_slash; c_slash]. cbn [app].
  assert (Esafe : forallb url_safe (sch ++ c_colon :: c_slash :: c_slash :: auth ++ path) = true).
  { rewrite forallb_app, (scheme_tok_safe _ Hs). cbn [forallb andb].
    change (url_safe c_colon) with true. change (url_safe c_slash) with true. cbn [andb].
    rewrite forallb_app, Ha, Hps. reflexivity. }
  rewrite Esafe. cbn [negb].
  rewrite (get_scheme_tok sch _ Hs).
  rewrite firstn_len_app, skipn_S_len_app.
  change (has_prefix [c_slash] (c_slash :: c_slash :: auth ++ path)) with true. cbn [negb].
  assert (En : is_nil (map to_lower sch) = false) by (destruct sch; [discriminate|reflexivity]).
  rewrite En. cbn [negb orb andb].
  change (has_prefix [c_slash; c_slash] (c_slash :: c_slash :: auth ++ path)) with true.
  change (skipn 2 (c_slash :: c_slash :: auth ++ path)) with (auth ++ path).
  rewrite (take_until_app c_slash auth path Hns Hpp), Hh. reflexivity.
Qed.

(** ** NewUpstream on the grammar *)

Definition expected_target (is_ip : str -> bool) (tr : transport) (def : N) (e : ep) (dial : option ep)
           (socks : bool) : option target :=
  let eff := eff_ep e dial in
  if needs_ip tr socks && negb (is_ip (ep_host eff)) then None
  else Some (mk_target tr (ep_host eff) (port_or (ep_port eff) def)
               (if has_tls_name tr then Some (ep_host e) else None)
               (match tr with THttps | TH3 => Some (http_host_of (render_ep e)) | _ => None end)).

Lemma upstream_of_rendered is_ip nm tr def e path dial socks :
  In (nm, tr, def) scheme_table ->
  wf_ep e = true -> url_ok_ep e = true -> wf_path path = true -> dial_wf dial = true ->
  match url_parse (lit nm ++ lit "://" ++ render_ep e ++ path) with
  | UrlOk s h => upstream_of_url is_ip s h (render_dial dial) socks
  | _ => None
  end = expected_target is_ip tr def e dial socks.
Proof.
  intros Hin He Hu Hp Hd.
  destruct (scheme_row _ _ _ Hin) as [Htok [Hlow [Hcls Hdef]]].
  destruct (render_ep_safe e He) as [Hsafe Hnoslash].
  rewrite (url_parse_rendered (lit nm) (render_ep e) path Htok Hsafe Hnoslash Hp (parse_host_ep e He Hu)).
  rewrite Hlow, upstream_of_url_factored, Hcls, Hdef.
  rewrite (parse_dial_ep e dial def He Hd).
  unfold target_for, expected_target. rewrite (try_remove_trim_ep e He). reflexivity.
Qed.

Theorem dial_target is_ip nm tr def e path dial socks :
  In (nm, tr, def) scheme_table ->
  wf_ep e = true -> url_ok_ep e = true -> wf_path path = true -> dial_wf dial = true ->
  new_upstream is_ip (lit nm ++ lit "://" ++ render_ep e ++ path) (render_dial dial) socks
  = expected_target is_ip tr def e dial socks.
Proof.
  intros Hin He Hu Hp Hd. unfold new_upstream.
  replace (contains (lit "://") (lit nm ++ lit "://" ++ render_ep e ++ path)) with true
    by (symmetry; apply contains_mid).
  apply upstream_of_rendered; assumption.
Qed.

(** no scheme written: "udp://" is assumed *)
Theorem dial_target_no_scheme is_ip e path dial socks :
  wf_ep e = true -> url_ok_ep e = true -> wf_path path = true -> dial_wf dial = true ->
  contains (lit "://") (render_ep e ++ path) = false ->
  new_upstream is_ip (render_ep e ++ path) (render_dial dial) socks
  = expected_target is_ip TUdp 53 e dial socks.
Proof.
  intros He Hu Hp Hd Hc. unfold new_upstream. rewrite Hc.
  change (lit "udp://" ++ render_ep e ++ path) with (lit "udp" ++ lit "://" ++ render_ep e ++ path).
  apply (upstream_of_rendered is_ip "udp" TUdp 53); try assumption.
  cbn. auto.
Qed.

(** bare IPv6 whose last group is not decimal: refused at creation (by net/url) *)
Theorem bare_v6_hex_tail_refused is_ip sch v path dial socks :
  scheme_tok sch = true -> forallb inner_char v = true -> has c_colon v = true ->
  wf_path path = true ->
  forallb is_digit (after_last_colon v) = false ->
  new_upstream is_ip (sch ++ lit "://" ++ v ++ path) dial socks = None.
Proof.
  intros Hs Hv Hc Hp Hd. unfold wf_path in Hp. apply andb_true_iff in Hp as [Hps Hpp].
  unfold new_upstream.
  replace (contains (lit "://") (sch ++ lit "://" ++ v ++ path)) with true by (symmetry; apply contains_mid).
  unfold url_parse.
  change (lit "://") with [c_colon; c_slash; c_slash]. cbn [app].
  assert (Esafe : forallb url_safe (sch ++ c_colon :: c_slash :: c_slash :: v ++ path) = true).
  { rewrite forallb_app, (scheme_tok_safe _ Hs). cbn [forallb andb].
    change (url_safe c_colon) with true. change (url_safe c_slash) with true. cbn [andb].
    rewrite forallb_app, (forallb_impl _ _ _ inner_char_safe Hv), Hps. reflexivity. }
  rewrite Esafe. cbn [negb]. rewrite (get_scheme_tok sch _ Hs).
  rewrite firstn_len_app, skipn_S_len_app.
  change (has_prefix [c_slash] (c_slash :: c_slash :: v ++ path)) with true. cbn [negb].
  assert (En : is_nil (map to_lower sch) = false) by (destruct sch; [discriminate|reflexivity]).
  rewrite En. cbn [negb orb andb].
  change (has_prefix [c_slash; c_slash] (c_slash :: c_slash :: v ++ path)) with true.
  change (skipn 2 (c_slash :: c_slash :: v ++ path)) with (v ++ path).
  rewrite (take_until_app c_slash v path (inner_noslash _ Hv) Hpp).
  unfold parse_host.
  assert (E0 : has_prefix [c_lbr] v = false).
  { pose proof (inner_nobr _ Hv) as [Hl _]. destruct v as [|x v]; [reflexivity|]. cbn [has_prefix].
    rewrite has_cons in Hl. apply orb_false_iff in Hl as [Hl _]. rewrite Hl. reflexivity. }
  rewrite E0. unfold after_last_colon in Hd.
  destruct (last_index_byte c_colon v) as [i|] eqn:Ei.
  - destruct (last_index_sound _ _ _ Ei) as [Es [_ Hlen]].
    assert (Esk : skipn i v = c_colon :: skipn (S i) v).
    { rewrite Es at 1. rewrite <- Hlen at 1. apply skipn_len_app. }
    rewrite Esk. cbn [valid_optional_port]. rewrite N.eqb_refl, Hd. reflexivity.
  - apply last_index_none in Ei. congruence.
Qed.

(** an unknown scheme is refused *)
Theorem unknown_scheme_refused is_ip s uh dial socks :
  classify s = None -> upstream_of_url is_ip s uh dial socks = None.
Proof. intro H. rewrite upstream_of_url_factored, H. reflexivity. Qed.

(** a port text that is not a decimal 0..65535 is refused, whatever the scheme:
    as URL host text "h:d" / "[v]:d" without dial_addr ... *)
Theorem bad_url_port_refused is_ip s h d br socks :
  nobr h -> (br = false -> nocolon h) -> nocolon d -> nobr d -> parse_uint16 d = None ->
  let host := (if br then c_lbr :: h ++ [c_rbr] else h) ++ c_colon :: d in
  upstream_of_url is_ip s host [] socks = None.
Proof.
  intros Hh Hc Hd Hdb Hp host. rewrite upstream_of_url_factored.
  destruct (classify s) as [tr|]; [|reflexivity].
  assert (Et : try_split_host_port (trim_v6_brackets host) = None).
  { subst host. destruct br.
    - rewrite trim_not_closed.
      + cbn [app]. rewrite <- app_assoc. cbn [app]. apply bad_port_bracketed; assumption.
      + apply last_not_rbr; [discriminate|]. destruct Hdb as [_ Hdr]. rewrite has_cons, Hdr. reflexivity.
    - rewrite trim_not_open; [apply bad_port_name; auto|].
      destruct h as [|x h]; [reflexivity|]. apply nth0_no; [apply Hh|discriminate]. }
  unfold parse_dial_addr. cbn [length Nat.ltb Nat.leb]. rewrite Et. reflexivity.
Qed.

(** ... and as dial_addr *)
Theorem bad_dial_port_refused is_ip s uh h d br socks :
  nobr h -> (br = false -> nocolon h) -> nocolon d -> nobr d -> parse_uint16 d = None ->
  let dial := (if br then c_lbr :: h ++ [c_rbr] else h) ++ c_colon :: d in
  upstream_of_url is_ip s uh dial socks = None.
Proof.
  intros Hh Hc Hd Hdb Hp dial. rewrite upstream_of_url_factored.
  destruct (classify s) as [tr|]; [|reflexivity].
  assert (Et : try_split_host_port dial = None).
  { subst dial. destruct br.
    - cbn [app]. rewrite <- app_assoc. cbn [app]. apply bad_port_bracketed; assumption.
    - apply bad_port_name; auto. }
  unfold parse_dial_addr.
  assert (El : (0 <? length dial)%nat = true).
  { subst dial. rewrite app_length. cbn [length]. apply Nat.ltb_lt. lia. }
  rewrite El, Et. reflexivity.
Qed.

(** ** Bootstrap: resolution changes the address, never the host asked for or the port *)

Definition plan_host (p : dial_plan) : str := match p with DialLiteral h _ | DialBootstrap h _ => h end.
Definition plan_port (p : dial_plan) : N := match p with DialLiteral _ n | DialBootstrap _ n => n end.

Lemma dial_plan_keeps is_ip t socks bs :
  plan_host (dial_plan_of is_ip t socks bs) = t_host t /\ plan_port (dial_plan_of is_ip t socks bs) = t_port t.
Proof.
  unfold dial_plan_of. destruct (t_transport t), socks, (is_ip (t_host t)), bs; split; reflexivity.
Qed.

Lemma bootstrap_keeps_target is_ip addr dial socks bs t plan :
  new_upstream_bs is_ip addr dial socks bs = Some (t, plan) ->
  new_upstream is_ip addr dial socks = Some t /\ plan_host plan = t_host t /\ plan_port plan = t_port t
  /\ (forall h p, plan = DialBootstrap h p ->
        (socks = false \/ t_transport t = TH3 \/ t_transport t = TQuic) /\ is_ip (t_host t) = false /\ bs <> []).
Proof.
  unfold new_upstream_bs.
  destruct ((0 <? length bs)%nat && negb (bootstrap_ok is_ip bs)); [discriminate|].
  destruct (new_upstream is_ip addr dial socks) as [t'|]; [|discriminate].
  intro H. injection H as <- <-.
  split; [reflexivity|]. destruct (dial_plan_keeps is_ip t' socks (0 <? length bs)%nat) as [H1 H2].
  split; [exact H1|]. split; [exact H2|].
  unfold dial_plan_of. intros h p.
  destruct (t_transport t'), socks, (is_ip (t_host t')), bs as [|x bs]; cbn; intro E; try discriminate E;
    (split; [auto|split; [reflexivity|discriminate]]).
Qed.

(** on the grammar: whatever Opt.Bootstrap is, the port is the one written (or the default) *)
Lemma bootstrap_keeps_port is_ip nm tr def e path dial socks bs t plan :
  In (nm, tr, def) scheme_table ->
  wf_ep e = true -> url_ok_ep e = true -> wf_path path = true -> dial_wf dial = true ->
  new_upstream_bs is_ip (lit nm ++ lit "://" ++ render_ep e ++ path) (render_dial dial) socks bs = Some (t, plan) ->
  plan_host plan = ep_host (eff_ep e dial) /\ plan_port plan = port_or (ep_port (eff_ep e dial)) def.
Proof.
  intros Hin He Hu Hp Hd H.
  destruct (bootstrap_keeps_target _ _ _ _ _ _ _ H) as [Hn [Hh [Hpt _]]].
  rewrite (dial_target is_ip nm tr def e path dial socks Hin He Hu Hp Hd) in Hn.
  unfold expected_target in Hn.
  destruct (needs_ip tr socks && negb (is_ip (ep_host (eff_ep e dial)))); [discriminate|].
  injection Hn as <-. cbn in Hh, Hpt. auto.
Qed.

(** ** Every dial site of an upstream uses the one target *)

Lemma dial_sites_same t site :
  In site (dial_sites t) -> snd (fst site) = t_host t /\ snd site = t_port t.
Proof.
  unfold dial_sites. destruct (t_transport t); cbn [In]; intros H;
    repeat (destruct H as [<-|H]; [split; reflexivity|]); contradiction.
Qed.

Lemma udp_two_sites t :
  t_transport t = TUdp ->
  dial_sites t = [(NetUdp, t_host t, t_port t); (NetTcp, t_host t, t_port t)].
Proof. unfold dial_sites. intros ->. reflexivity. Qed.

(** on the grammar: the UDP socket and the TCP retry of the udp upstream (scheme
    udp or none) both go to the configured host and port *)
Lemma udp_sites_configured is_ip nm def e path dial socks t :
  In (nm, TUdp, def) scheme_table ->
  wf_ep e = true -> url_ok_ep e = true -> wf_path path = true -> dial_wf dial = true ->
  new_upstream is_ip (lit nm ++ lit "://" ++ render_ep e ++ path) (render_dial dial) socks = Some t ->
  let h := ep_host (eff_ep e dial) in
  let p := port_or (ep_port (eff_ep e dial)) def in
  dial_sites t = [(NetUdp, h, p); (NetTcp, h, p)].
Proof.
  intros Hin He Hu Hp Hd H.
  rewrite (dial_target is_ip nm TUdp def e path dial socks Hin He Hu Hp Hd) in H.
  unfold expected_target in H.
  destruct (needs_ip TUdp socks && negb (is_ip (ep_host (eff_ep e dial)))); [discriminate|].
  injection H as <-. reflexivity.
Qed.

Lemma udp_sites_configured_no_scheme is_ip e path dial socks t :
  wf_ep e = true -> url_ok_ep e = true -> wf_path path = true -> dial_wf dial = true ->
  contains (lit "://") (render_ep e ++ path) = false ->
  new_upstream is_ip (render_ep e ++ path) (render_dial dial) socks = Some t ->
  let h := ep_host (eff_ep e dial) in
  let p := port_or (ep_port (eff_ep e dial)) 53 in
  dial_sites t = [(NetUdp, h, p); (NetTcp, h, p)].
Proof.
  intros He Hu Hp Hd Hc H.
  rewrite (dial_target_no_scheme is_ip e path dial socks He Hu Hp Hd Hc) in H.
  unfold expected_target in H.
  destruct (needs_ip TUdp socks && negb (is_ip (ep_host (eff_ep e dial)))); [discriminate|].
  injection H as <-. reflexivity.
Qed.

(** ** A sequence of NewUpstream calls: every result is that of the single call *)

Lemma new_upstreams_independent is_ip before c after :
  nth_error (new_upstreams is_ip (before ++ c :: after)) (length before)
  = Some (new_upstream is_ip (fst (fst c)) (snd (fst c)) (snd c)).
Proof.
  unfold new_upstreams. rewrite map_app. cbn [map].
  rewrite nth_error_app2 by (rewrite map_length; lia).
  rewrite map_length, Nat.sub_diag. reflexivity.
Qed.

(** on the grammar: whatever was created before, the TLS name of an upstream
    whose options leave ServerName empty is its own URL host *)
Lemma seq_tls_name is_ip before after nm tr def e path dial socks :
  In (nm, tr, def) scheme_table -> has_tls_name tr = true ->
  wf_ep e = true -> url_ok_ep e = true -> wf_path path = true -> dial_wf dial = true ->
  needs_ip tr socks && negb (is_ip (ep_host (eff_ep e dial))) = false ->
  exists t,
    nth_error (new_upstreams is_ip
                 (before ++ (lit nm ++ lit "://" ++ render_ep e ++ path, render_dial dial, socks) :: after))
              (length before) = Some (Some t)
    /\ effective_tls_name [] t = Some (ep_host e).
Proof.
  intros Hin Htls He Hu Hp Hd Hip.
  rewrite new_upstreams_independent. cbn [fst snd].
  rewrite (dial_target is_ip nm tr def e path dial socks Hin He Hu Hp Hd).
  unfold expected_target. rewrite Hip, Htls.
  eexists. split; [reflexivity|]. reflexivity.
Qed.
