(** Proofs about the upstream address model (C18). *)
From Coq Require Import Ascii String.
From Verif Require Import Base.Prelude Model.Addr.
From Coq Require Import ZifyN ZifyNat ZifyBool.
Open Scope N_scope.

Arguments c_colon : simpl never.
Arguments c_lbr : simpl never.
Arguments c_rbr : simpl never.
Arguments c_slash : simpl never.
Arguments c_dot : simpl never.
Arguments N.eqb : simpl never.

(** ** Lists *)

Lemma has_app c a b : has c (a ++ b) = has c a || has c b.
Proof. apply existsb_app. Qed.

Lemma has_cons c x t : has c (x :: t) = (c =? x) || has c t.
Proof. reflexivity. Qed.

Lemma firstn_len_app {A} (a b : list A) : firstn (length a) (a ++ b) = a.
Proof. induction a as [|x a IH]; simpl; [destruct b|rewrite IH]; reflexivity. Qed.

Lemma skipn_len_app {A} (a b : list A) : skipn (length a) (a ++ b) = b.
Proof. induction a as [|x a IH]; simpl; [reflexivity|exact IH]. Qed.

Lemma skipn_S_len_app {A} (a : list A) x b : skipn (S (length a)) (a ++ x :: b) = b.
Proof. induction a as [|y a IH]; [reflexivity|exact IH]. Qed.

Lemma app_eq_len {A} (a b c d : list A) :
  a ++ b = c ++ d -> length a = length c -> a = c /\ b = d.
Proof.
  revert c. induction a as [|x a IH]; intros [|y c] E L; simpl in *; try discriminate.
  - split; [reflexivity|exact E].
  - injection E as -> E. injection L as L. destruct (IH c E L) as [-> ->]. split; reflexivity.
Qed.

Lemma index_byte_none c s : index_byte c s = None <-> has c s = false.
Proof.
  induction s as [|x t IH]; simpl; [tauto|].
  rewrite (N.eqb_sym c x). destruct (x =? c); simpl.
  - split; discriminate.
  - destruct (index_byte c t); simpl; [split; [discriminate|intro H; apply IH in H; discriminate]|tauto].
Qed.

Lemma index_byte_hit c a b : has c a = false -> index_byte c (a ++ c :: b) = Some (length a).
Proof.
  induction a as [|x a IH]; simpl; intro H.
  - rewrite N.eqb_refl. reflexivity.
  - rewrite (N.eqb_sym c x) in H. destruct (x =? c); simpl in H; [discriminate|].
    rewrite (IH H). reflexivity.
Qed.

Lemma index_byte_sound c s i :
  index_byte c s = Some i ->
  s = firstn i s ++ c :: skipn (S i) s /\ has c (firstn i s) = false /\ length (firstn i s) = i.
Proof.
  revert i. induction s as [|x t IH]; simpl; intros i H; [discriminate|].
  destruct (x =? c) eqn:E.
  - injection H as <-. apply N.eqb_eq in E. subst. simpl. auto.
  - destruct (index_byte c t) as [j|] eqn:Ej; simpl in H; [|discriminate].
    injection H as <-. destruct (IH j eq_refl) as [H1 [H2 H3]].
    cbn [firstn skipn]. simpl. rewrite (N.eqb_sym c x), E. simpl.
    repeat split; [f_equal; exact H1 | exact H2 | f_equal; exact H3].
Qed.

Lemma last_index_none c s : last_index_byte c s = None <-> has c s = false.
Proof.
  induction s as [|x t IH]; simpl; [tauto|].
  rewrite (N.eqb_sym c x).
  destruct (last_index_byte c t); simpl.
  - split; [discriminate|]. intro H. apply orb_false_iff in H as [_ H]. apply IH in H. discriminate.
  - assert (Ht : has c t = false) by (apply IH; reflexivity). rewrite Ht.
    destruct (x =? c); simpl; split; auto; discriminate.
Qed.

Lemma last_index_hit c a b : has c b = false -> last_index_byte c (a ++ c :: b) = Some (length a).
Proof.
  intro H. induction a as [|x a IH]; simpl.
  - apply last_index_none in H. rewrite H, N.eqb_refl. reflexivity.
  - rewrite IH. reflexivity.
Qed.

Lemma last_index_sound c s i :
  last_index_byte c s = Some i ->
  s = firstn i s ++ c :: skipn (S i) s /\ has c (skipn (S i) s) = false /\ length (firstn i s) = i.
Proof.
  revert i. induction s as [|x t IH]; simpl; intros i H; [discriminate|].
  destruct (last_index_byte c t) as [j|] eqn:Ej.
  - injection H as <-. destruct (IH j eq_refl) as [H1 [H2 H3]].
    cbn [firstn skipn]. simpl. repeat split; [f_equal; exact H1 | exact H2 | f_equal; exact H3].
  - destruct (x =? c) eqn:E; [|discriminate]. injection H as <-.
    apply N.eqb_eq in E. subst. simpl. apply last_index_none in Ej. auto.
Qed.

Lemma count_colon_app a b : count_colon (a ++ b) = (count_colon a + count_colon b)%nat.
Proof. unfold count_colon. rewrite filter_app, app_length. reflexivity. Qed.

Lemma count_colon_zero s : has c_colon s = false -> count_colon s = O.
Proof.
  unfold count_colon. induction s as [|x t IH]; simpl; [reflexivity|].
  destruct (c_colon =? x); simpl; [discriminate|exact IH].
Qed.

Lemma count_colon_pos s : has c_colon s = true -> (1 <= count_colon s)%nat.
Proof.
  unfold count_colon. induction s as [|x t IH]; simpl; [discriminate|].
  destruct (c_colon =? x); simpl; [lia|exact IH].
Qed.

Lemma has_false_forallb c s : has c s = false <-> forallb (fun x => negb (c =? x)) s = true.
Proof.
  induction s as [|x t IH]; simpl; [tauto|].
  destruct (c =? x); simpl; [split; discriminate|exact IH].
Qed.

(** a character class that excludes [c] gives strings without [c] *)
Lemma class_excludes (P : N -> bool) c s :
  P c = false -> forallb P s = true -> has c s = false.
Proof.
  intros Hc. induction s as [|x t IH]; simpl; [reflexivity|].
  intro H. apply andb_true_iff in H as [Hx Ht].
  destruct (N.eqb_spec c x) as [->|_]; [congruence|]. simpl. apply IH, Ht.
Qed.

Lemma nth0_app_cons (a : str) x b : nth 0 ((x :: a) ++ b) 0 = x.
Proof. reflexivity. Qed.

Lemma nth0_no c (s t : str) : has c s = false -> s <> [] -> (nth 0 (s ++ t) 0 =? c) = false.
Proof.
  destruct s as [|x s]; [congruence|]. simpl. intros H _.
  rewrite N.eqb_sym. destruct (c =? x); [discriminate|reflexivity].
Qed.

(** ** net.SplitHostPort *)

Definition nobr (s : str) : Prop := has c_lbr s = false /\ has c_rbr s = false.
Definition nocolon (s : str) : Prop := has c_colon s = false.

(** "host:port" *)
Lemma split_name_port h d :
  nocolon h -> nobr h -> nocolon d -> nobr d ->
  split_host_port (h ++ c_colon :: d) = ShpOk h d.
Proof.
  intros Hh [Hl Hr] Hd [Hdl Hdr]. unfold split_host_port.
  rewrite (last_index_hit c_colon h d Hd).
  assert (E0 : (nth 0 (h ++ c_colon :: d) 0 =? c_lbr) = false).
  { destruct h as [|x h]; [reflexivity|]. apply nth0_no; [exact Hl|discriminate]. }
  rewrite E0, firstn_len_app. unfold nocolon in Hh. rewrite Hh.
  unfold shp_finish. rewrite !skipn_O.
  rewrite !has_app, !has_cons, Hl, Hr, Hdl, Hdr.
  replace (c_lbr =? c_colon) with false by reflexivity.
  replace (c_rbr =? c_colon) with false by reflexivity.
  cbn [orb]. rewrite skipn_S_len_app. reflexivity.
Qed.

(** "[host]:port" *)
Lemma split_bracketed v d :
  nobr v -> nocolon d -> nobr d ->
  split_host_port (c_lbr :: v ++ c_rbr :: c_colon :: d) = ShpOk v d.
Proof.
  intros [Hl Hr] Hd [Hdl Hdr]. unfold split_host_port.
  assert (Ei : last_index_byte c_colon (c_lbr :: v ++ c_rbr :: c_colon :: d) = Some (S (S (length v)))).
  { change (c_lbr :: v ++ c_rbr :: c_colon :: d) with ((c_lbr :: v) ++ [c_rbr] ++ c_colon :: d).
    rewrite app_assoc. rewrite (last_index_hit c_colon _ d Hd).
    rewrite app_length. simpl. f_equal. lia. }
  rewrite Ei. cbn [nth]. rewrite N.eqb_refl.
  assert (Ee : index_byte c_rbr (c_lbr :: v ++ c_rbr :: c_colon :: d) = Some (S (length v))).
  { change (c_lbr :: v ++ c_rbr :: c_colon :: d) with ((c_lbr :: v) ++ c_rbr :: c_colon :: d).
    rewrite index_byte_hit; [reflexivity|]. rewrite has_cons, Hr. reflexivity. }
  rewrite Ee.
  assert (L : length (c_lbr :: v ++ c_rbr :: c_colon :: d) = (length v + 3 + length d)%nat).
  { simpl. rewrite app_length. simpl. lia. }
  rewrite L.
  replace (S (S (length v)) =? length v + 3 + length d)%nat with false by (symmetry; apply Nat.eqb_neq; lia).
  rewrite Nat.eqb_refl.
  unfold shp_finish, slice.
  change (skipn 1 (c_lbr :: v ++ c_rbr :: c_colon :: d)) with (v ++ c_rbr :: c_colon :: d).
  replace (S (length v) - 1)%nat with (length v) by lia.
  rewrite firstn_len_app.
  rewrite !has_app, !has_cons, Hl, Hdl.
  replace (c_lbr =? c_rbr) with false by reflexivity.
  replace (c_lbr =? c_colon) with false by reflexivity.
  cbn [orb].
  change (c_lbr :: v ++ c_rbr :: c_colon :: d) with ((c_lbr :: v) ++ c_rbr :: c_colon :: d).
  change (S (length v)) with (length (c_lbr :: v)).
  rewrite skipn_S_len_app, has_cons, Hdr.
  replace (c_rbr =? c_colon) with false by reflexivity.
  cbn [orb].
  change ((c_lbr :: v) ++ c_rbr :: c_colon :: d) with ((c_lbr :: v) ++ [c_rbr] ++ c_colon :: d).
  rewrite app_assoc.
  replace (S (length (c_lbr :: v))) with (length ((c_lbr :: v) ++ [c_rbr])) by (rewrite app_length; simpl; lia).
  rewrite skipn_S_len_app. reflexivity.
Qed.

(** no colon at all *)
Lemma split_no_colon s : nocolon s -> split_host_port s = ShpErr EMissingPort.
Proof.
  intro H. unfold split_host_port. apply last_index_none in H. rewrite H. reflexivity.
Qed.

(** bare IPv6 text: two or more colons, not starting with '[' *)
Lemma split_many_colons s :
  (nth 0 s 0 =? c_lbr) = false -> (2 <= count_colon s)%nat ->
  split_host_port s = ShpErr ETooManyColons.
Proof.
  intros H0 Hc. unfold split_host_port.
  destruct (last_index_byte c_colon s) as [i|] eqn:Ei.
  - rewrite H0. destruct (last_index_sound _ _ _ Ei) as [Es [Hrest _]].
    assert (Hh : has c_colon (firstn i s) = true).
    { destruct (has c_colon (firstn i s)) eqn:E; [reflexivity|].
      rewrite Es in Hc. rewrite count_colon_app in Hc.
      change (c_colon :: skipn (S i) s) with ([c_colon] ++ skipn (S i) s) in Hc.
      rewrite count_colon_app, (count_colon_zero _ E), (count_colon_zero _ Hrest) in Hc.
      change (count_colon [c_colon]) with 1%nat in Hc. lia. }
    rewrite Hh. reflexivity.
  - apply last_index_none in Ei. rewrite (count_colon_zero _ Ei) in Hc. lia.
Qed.

Lemma index_byte_split c s i :
  index_byte c s = Some i -> exists a b, s = a ++ c :: b /\ length a = i /\ has c a = false.
Proof.
  intro H. destruct (index_byte_sound _ _ _ H) as [E [Hn Hl]].
  exists (firstn i s), (skipn (S i) s). auto.
Qed.

Lemma last_index_split c s i :
  last_index_byte c s = Some i -> exists a b, s = a ++ c :: b /\ length a = i /\ has c b = false.
Proof.
  intro H. destruct (last_index_sound _ _ _ H) as [E [Hn Hl]].
  exists (firstn i s), (skipn (S i) s). auto.
Qed.

(** the bracket branch: first ']' right before the last ':' *)
Lemma bracket_shape s e :
  (nth 0 s 0 =? c_lbr) = true -> index_byte c_rbr s = Some e -> last_index_byte c_colon s = Some (S e) ->
  exists h d, s = c_lbr :: h ++ c_rbr :: c_colon :: d /\ e = S (length h)
              /\ has c_rbr h = false /\ has c_colon d = false.
Proof.
  intros H0 He Hi.
  destruct (index_byte_split _ _ _ He) as [A [B [EA [LA HA]]]].
  destruct (last_index_split _ _ _ Hi) as [C [D [EC [LC HD]]]].
  assert (E : A ++ [c_rbr] = C /\ B = c_colon :: D).
  { apply app_eq_len.
    - rewrite <- app_assoc. cbn [app]. rewrite <- EA, <- EC. reflexivity.
    - rewrite app_length. cbn [length]. lia. }
  destruct E as [<- ->].
  destruct A as [|x A'].
  - subst s. cbn [app nth] in H0. discriminate.
  - subst s. cbn [app nth] in H0. apply N.eqb_eq in H0. subst x.
    exists A', D. rewrite has_cons in HA. apply orb_false_iff in HA as [_ HA].
    cbn [length] in LA. repeat split; auto.
Qed.

(** what an accepted string looks like *)
Lemma split_sound s h d :
  split_host_port s = ShpOk h d ->
  nobr h /\ nocolon d /\ nobr d /\
  ((s = h ++ c_colon :: d /\ nocolon h) \/ s = c_lbr :: h ++ c_rbr :: c_colon :: d).
Proof.
  unfold split_host_port.
  destruct (last_index_byte c_colon s) as [i|] eqn:Ei; [|discriminate].
  destruct (nth 0 s 0 =? c_lbr) eqn:E0.
  - destruct (index_byte c_rbr s) as [e|] eqn:Ee; [|discriminate].
    destruct (S e =? length s)%nat; [discriminate|].
    destruct (S e =? i)%nat eqn:Eei; [|destruct (nth (S e) s 0 =? c_colon); discriminate].
    apply Nat.eqb_eq in Eei. subst i.
    destruct (bracket_shape _ _ E0 Ee Ei) as [h0 [d0 [Es [-> [Hrh Hcd]]]]].
    subst s. unfold shp_finish, slice.
    change (skipn 1 (c_lbr :: h0 ++ c_rbr :: c_colon :: d0)) with (h0 ++ c_rbr :: c_colon :: d0).
    replace (S (length h0) - 1)%nat with (length h0) by lia.
    rewrite firstn_len_app.
    change (c_lbr :: h0 ++ c_rbr :: c_colon :: d0) with ((c_lbr :: h0) ++ c_rbr :: c_colon :: d0).
    change (S (length h0)) with (length (c_lbr :: h0)).
    rewrite skipn_S_len_app.
    change ((c_lbr :: h0) ++ c_rbr :: c_colon :: d0) with ((c_lbr :: h0) ++ [c_rbr] ++ c_colon :: d0).
    rewrite app_assoc.
    replace (S (length (c_lbr :: h0))) with (length ((c_lbr :: h0) ++ [c_rbr])) by (rewrite app_length; simpl; lia).
    rewrite skipn_S_len_app.
    rewrite has_app, !has_cons.
    replace (c_lbr =? c_rbr) with false by reflexivity.
    replace (c_lbr =? c_colon) with false by reflexivity.
    replace (c_rbr =? c_colon) with false by reflexivity.
    cbn [orb].
    destruct (has c_lbr h0) eqn:Hl1; [discriminate|]. cbn [orb].
    destruct (has c_lbr d0) eqn:Hl2; [discriminate|].
    destruct (has c_rbr d0) eqn:Hr2; [discriminate|].
    intro H. injection H as <- <-.
    repeat split; try assumption.
    right. rewrite <- app_assoc. reflexivity.
  - destruct (last_index_sound _ _ _ Ei) as [Es [Hrest Hlen]].
    destruct (has c_colon (firstn i s)) eqn:Hc; [discriminate|].
    unfold shp_finish. rewrite !skipn_O.
    destruct (has c_lbr s) eqn:Hl; [discriminate|].
    destruct (has c_rbr s) eqn:Hr; [discriminate|].
    intro H. injection H as <- <-.
    rewrite Es in Hl, Hr. rewrite has_app, has_cons in Hl, Hr.
    apply orb_false_iff in Hl as [Hl1 Hl2]. apply orb_false_iff in Hr as [Hr1 Hr2].
    apply orb_false_iff in Hl2 as [_ Hl2]. apply orb_false_iff in Hr2 as [_ Hr2].
    repeat split; try assumption.
    left. split; [exact Es|exact Hc].
Qed.
