(** Lock-order discipline excludes deadlock: for any number of threads, any
    programs obeying the discipline and any schedule, the reached state is
    either finished or some thread can move. *)
From Coq Require Import List Arith Bool Lia.
Import ListNotations.
From Verif Require Import Model.LockOrder.

Lemma memb_true l h : memb l h = true <-> In l h.
Proof.
  unfold memb. rewrite existsb_exists. split.
  - intros [x [Hin He]]. apply Nat.eqb_eq in He. subst. exact Hin.
  - intros Hin. exists l. split; [exact Hin | apply Nat.eqb_refl].
Qed.

Lemma nth_error_set_nth_eq {A} (l : list A) i x y :
  nth_error l i = Some y -> nth_error (set_nth i x l) i = Some x.
Proof.
  revert i. induction l as [|a l IH]; intros [|i] H; simpl in *; try discriminate; auto.
Qed.

Lemma forallb_set_nth {A} (f : A -> bool) (l : list A) i x :
  forallb f l = true -> f x = true -> forallb f (set_nth i x l) = true.
Proof.
  revert i. induction l as [|a l IH]; intros [|i] H Hx; simpl in *; auto.
  - apply andb_true_iff in H as [_ H]. rewrite Hx, H. reflexivity.
  - apply andb_true_iff in H as [Ha H]. rewrite Ha. simpl. apply IH; assumption.
Qed.

Lemma forallb_nth_error {A} (f : A -> bool) (l : list A) i x :
  forallb f l = true -> nth_error l i = Some x -> f x = true.
Proof.
  intros H Hn. apply nth_error_In in Hn. rewrite forallb_forall in H. auto.
Qed.

Section Rank.
  Variable rank : nat -> nat.

  (** ** The discipline is preserved by every step *)
  Lemma lstep_disciplined s i s1 :
    disciplined rank s = true -> lstep s i = Some s1 -> disciplined rank s1 = true.
  Proof.
    unfold disciplined, lstep. intros Hd Hs.
    destruct (nth_error s i) as [[p h]|] eqn:Hn; [|discriminate].
    pose proof (forallb_nth_error _ _ _ _ Hd Hn) as Ho. simpl in Ho.
    destruct p as [|[l|l] r]; [discriminate| |].
    - destruct (free l s); [|discriminate]. injection Hs as <-.
      apply forallb_set_nth; [exact Hd|]. simpl.
      apply andb_true_iff in Ho as [_ Ho]. exact Ho.
    - injection Hs as <-. apply forallb_set_nth; [exact Hd|]. simpl.
      apply andb_true_iff in Ho as [_ Ho]. exact Ho.
  Qed.

  Lemma lrun_disciplined sched : forall s, disciplined rank s = true -> disciplined rank (lrun s sched) = true.
  Proof.
    induction sched as [|i t IH]; intros s Hd; simpl; [exact Hd|].
    destruct (lstep s i) as [s1|] eqn:Hs; [|apply IH; exact Hd].
    apply IH. eapply lstep_disciplined; eassumption.
  Qed.

  Lemma init_disciplined ps : forallb (ordered rank []) ps = true -> disciplined rank (init_of ps) = true.
  Proof.
    unfold disciplined, init_of. induction ps as [|p ps IH]; simpl; intros H; [reflexivity|].
    apply andb_true_iff in H as [Hp H]. rewrite Hp. simpl. auto.
  Qed.

  (** ** A disciplined state in which nobody can move is finished *)
  Definition stuck (s : lstate) : Prop := forall i, lstep s i = None.

  Lemma stuck_blocked s t :
    stuck s -> In t s -> fst t <> [] -> exists l r, fst t = Acq l :: r /\ free l s = false.
  Proof.
    intros Hst Hin Hne. apply In_nth_error in Hin as [i Hn].
    specialize (Hst i). unfold lstep in Hst. rewrite Hn in Hst.
    destruct t as [p h]. simpl in *. destruct p as [|[l|l] r]; [congruence| |discriminate].
    exists l, r. split; [reflexivity|]. destruct (free l s); [discriminate|reflexivity].
  Qed.

  Lemma not_free_holder l s : free l s = false -> exists t, In t s /\ In l (snd t).
  Proof.
    unfold free. induction s as [|t s IH]; simpl; [discriminate|].
    intros H. destruct (memb l (snd t)) eqn:Hm.
    - exists t. split; [left; reflexivity | apply memb_true; exact Hm].
    - simpl in H. destruct (IH H) as [t' [Hin Hl]]. exists t'. split; [right; exact Hin | exact Hl].
  Qed.

  Lemma ordered_holding_unfinished h p : ordered rank h p = true -> h <> [] -> p <> [].
  Proof. intros Ho Hh Hp. subst p. simpl in Ho. destruct h; [congruence|discriminate]. Qed.

  Lemma ordered_acq_rank h l r x : ordered rank h (Acq l :: r) = true -> In x h -> rank x < rank l.
  Proof.
    simpl. intros Ho Hx. apply andb_true_iff in Ho as [Ho _].
    rewrite forallb_forall in Ho. apply Nat.ltb_lt. auto.
  Qed.

  (** Whoever blocks a thread is itself blocked on a lock of higher rank. *)
  Lemma climb s t l r :
    stuck s -> disciplined rank s = true -> In t s -> fst t = Acq l :: r ->
    exists t1 l1 r1, In t1 s /\ fst t1 = Acq l1 :: r1 /\ rank l < rank l1.
  Proof.
    intros Hst Hd Hin Hp.
    destruct (stuck_blocked s t Hst Hin) as [l0 [r0 [Hp0 Hfree]]]; [rewrite Hp; discriminate|].
    rewrite Hp in Hp0. injection Hp0 as <- <-.
    destruct (not_free_holder _ _ Hfree) as [t1 [Hin1 Hl]].
    assert (Ho1 : ordered rank (snd t1) (fst t1) = true).
    { unfold disciplined in Hd. rewrite forallb_forall in Hd. apply Hd. exact Hin1. }
    assert (Hne : fst t1 <> []).
    { eapply ordered_holding_unfinished; [exact Ho1|]. intros E. rewrite E in Hl. destruct Hl. }
    destruct (stuck_blocked s t1 Hst Hin1 Hne) as [l1 [r1 [Hp1 _]]].
    exists t1, l1, r1. split; [exact Hin1|]. split; [exact Hp1|].
    rewrite Hp1 in Ho1. eapply ordered_acq_rank; eassumption.
  Qed.

  Lemma climb_n s : stuck s -> disciplined rank s = true ->
    forall n t l r, In t s -> fst t = Acq l :: r ->
    exists t1 l1 r1, In t1 s /\ fst t1 = Acq l1 :: r1 /\ rank l + n <= rank l1.
  Proof.
    intros Hst Hd. induction n as [|n IH]; intros t l r Hin Hp.
    - exists t, l, r. repeat split; try assumption. lia.
    - destruct (IH t l r Hin Hp) as [t1 [l1 [r1 [Hin1 [Hp1 Hle]]]]].
      destruct (climb s t1 l1 r1 Hst Hd Hin1 Hp1) as [t2 [l2 [r2 [Hin2 [Hp2 Hlt]]]]].
      exists t2, l2, r2. repeat split; try assumption. lia.
  Qed.

  (** Ranks of the locks requested in a finite state are bounded. *)
  Definition req_rank (t : thread) : nat := match fst t with Acq l :: _ => rank l | _ => 0 end.
  Lemma req_bound s t : In t s -> req_rank t <= list_max (map req_rank s).
  Proof.
    intros Hin. pose proof (proj1 (list_max_le (map req_rank s) (list_max (map req_rank s))) (le_n _)) as Hall.
    rewrite Forall_forall in Hall. apply Hall. apply in_map. exact Hin.
  Qed.

  Lemma stuck_finished s : disciplined rank s = true -> stuck s -> finished s = true.
  Proof.
    intros Hd Hst. unfold finished. apply forallb_forall. intros t Hin.
    destruct (fst t) as [|o p] eqn:Hp; [reflexivity|exfalso].
    destruct (stuck_blocked s t Hst Hin) as [l [r [Hp0 _]]]; [rewrite Hp; discriminate|].
    destruct (climb_n s Hst Hd (S (list_max (map req_rank s))) t l r Hin Hp0) as [t1 [l1 [r1 [Hin1 [Hp1 Hle]]]]].
    pose proof (req_bound s t1 Hin1) as Hb. unfold req_rank in Hb at 1. rewrite Hp1 in Hb. lia.
  Qed.

  Lemma stuck_dec s : stuck s \/ exists i s1, lstep s i = Some s1.
  Proof.
    assert (H : forall n, (forall i, i < n -> lstep s i = None) \/ exists i s1, lstep s i = Some s1).
    { induction n as [|n [IH|IH]]; [left; intros i Hi; lia| |right; exact IH].
      destruct (lstep s n) as [s1|] eqn:Hs; [right; exists n, s1; exact Hs|].
      left. intros i Hi. destruct (Nat.eq_dec i n) as [->|Hne]; [exact Hs|apply IH; lia]. }
    destruct (H (length s)) as [Hall|Hex]; [left|right; exact Hex].
    intros i. destruct (Nat.lt_ge_cases i (length s)) as [Hlt|Hge]; [apply Hall; exact Hlt|].
    unfold lstep. apply nth_error_None in Hge. rewrite Hge. reflexivity.
  Qed.

  (** ** The theorem: no reachable deadlock *)
  Theorem ordered_no_deadlock (ps : list prog) (sched : list nat) :
    forallb (ordered rank []) ps = true ->
    let s := lrun (init_of ps) sched in
    finished s = true \/ exists i s1, lstep s i = Some s1.
  Proof.
    intros Hps s.
    assert (Hd : disciplined rank s = true) by (apply lrun_disciplined, init_disciplined; exact Hps).
    destruct (stuck_dec s) as [Hst|Hex]; [left|right; exact Hex].
    apply stuck_finished; assumption.
  Qed.
End Rank.

(** ** Without the discipline the model does deadlock: the inversion that was
    in ReuseConnTransport (Close: t.m then closeOnce; closeWithErr: closeOnce
    then t.m). Lock 0 = t.m, lock 1 = the connection's closeOnce. *)
Definition inverted_progs : list prog :=
  [ [Acq 0; Acq 1; Rel 1; Rel 0];      (* Close -> closeWithErrByTransport *)
    [Acq 1; Acq 0; Rel 0; Rel 1] ].    (* closeWithErr as it was *)
Lemma inversion_deadlocks :
  let s := lrun (init_of inverted_progs) [0; 1] in
  finished s = false /\ lstep s 0 = None /\ lstep s 1 = None.
Proof. vm_compute. repeat split. Qed.

Definition repaired_progs : list prog :=
  [ [Acq 0; Acq 1; Rel 1; Rel 0];
    [Acq 0; Rel 0; Acq 1; Rel 1] ].    (* closeWithErr: pool removal first, then closeOnce *)
Lemma repaired_disciplined : forallb (ordered (fun l => l) []) repaired_progs = true.
Proof. reflexivity. Qed.
