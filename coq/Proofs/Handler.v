(** C03 / C15 — proofs about Model/Msg.v, Model/Handler.v and Model/Plugins.v. *)
From Verif Require Import Base.Prelude Gen.Constants Model.Msg Model.Handler Model.Sequence Model.Plugins.
From Verif Require Import Proofs.Sequence.
From Verif Require Model.CacheKey Proofs.CacheKey.
Open Scope N_scope.

(** * The sequence interpreter preserves what every plugin preserves *)

Definition ost {S : Type} (o : outcome S) : S := snd (fst o).
Definition oerr {S : Type} (o : outcome S) : option N := snd o.

Lemma ost_pre {S} t (o : outcome S) : ost (pre t o) = ost o.
Proof. destruct o as [[t' s] r]. reflexivity. Qed.
Lemma oerr_pre {S} t (o : outcome S) : oerr (pre t o) = oerr o.
Proof. destruct o as [[t' s] r]. reflexivity. Qed.

Section MachineInv.
  Variable S : Type.
  Variable E : env S.
  Variable X : Type.
  Variable I : X -> S -> Prop.

  (** A continuation keeps the invariant, whatever the index *)
  Definition okk (k : S -> outcome S) : Prop := forall x s, I x s -> I x (ost (k s)).

  Hypothesis Hexec : forall e x s, I x s -> I x (fst (exec_o E e s)).
  Hypothesis Hrej : forall rc x s, I x s -> I x (reject_o E rc s).
  Hypothesis Hwrap : forall w k, okk k -> okk (wrap_o E w k).

  Lemma okk_done : okk done.
  Proof. intros x s H. exact H. Qed.

  Lemma machine_ok rs : forall k, okk k -> okk (machine E rs k).
  Proof.
    induction rs using rules_mind with
      (P0 := fun r => forall rest, (forall k, okk k -> okk (machine E rest k)) ->
                       forall k, okk k -> okk (machine E (RCons r rest) k))
      (P1 := fun a => forall ms rest, (forall k, okk k -> okk (machine E rest k)) ->
                       forall k, okk k -> okk (machine E (RCons (Rule ms a) rest) k)).
    - intros k Hk. exact Hk.
    - intros k Hk. apply IHrs; assumption.
    - intros rest Hrest k Hk. apply IHrs; assumption.
    - (* Exec *)
      intros ms rest Hrest k Hk x s Hs. cbn [machine].
      destruct (match_loop E ms s) as [tm v]. destruct v.
      + pose proof (Hexec e x s Hs) as H1. destruct (exec_o E e s) as [s' err]. cbn [fst] in H1.
        destruct err; [exact H1|]. rewrite ost_pre. apply Hrest; assumption.
      + rewrite ost_pre. apply Hrest; assumption.
      + exact Hs.
    - (* Wrap *)
      intros ms rest Hrest k Hk x s Hs. cbn [machine].
      destruct (match_loop E ms s) as [tm v]. destruct v.
      + rewrite ost_pre. apply Hwrap; [apply Hrest; assumption | exact Hs].
      + rewrite ost_pre. apply Hrest; assumption.
      + exact Hs.
    - (* Accept *)
      intros ms rest Hrest k Hk x s Hs. cbn [machine].
      destruct (match_loop E ms s) as [tm v]. destruct v.
      + exact Hs.
      + rewrite ost_pre. apply Hrest; assumption.
      + exact Hs.
    - (* Reject *)
      intros ms rest Hrest k Hk x s Hs. cbn [machine].
      destruct (match_loop E ms s) as [tm v]. destruct v.
      + apply Hrej; exact Hs.
      + rewrite ost_pre. apply Hrest; assumption.
      + exact Hs.
    - (* Return *)
      intros ms rest Hrest k Hk x s Hs. cbn [machine].
      destruct (match_loop E ms s) as [tm v]. destruct v.
      + rewrite ost_pre. apply Hk; exact Hs.
      + rewrite ost_pre. apply Hrest; assumption.
      + exact Hs.
    - (* Jump *)
      intros ms rest Hrest k Hk x s Hs. cbn [machine].
      destruct (match_loop E ms s) as [tm v]. destruct v.
      + rewrite ost_pre. apply IHrs; [apply Hrest; assumption | exact Hs].
      + rewrite ost_pre. apply Hrest; assumption.
      + exact Hs.
    - (* Goto *)
      intros ms rest Hrest k Hk x s Hs. cbn [machine].
      destruct (match_loop E ms s) as [tm v]. destruct v.
      + rewrite ost_pre. apply IHrs; [apply okk_done | exact Hs].
      + rewrite ost_pre. apply Hrest; assumption.
      + exact Hs.
  Qed.

  Lemma run_seq_ok prog x s : I x s -> I x (ost (run_seq E prog s)).
  Proof. intro H. unfold run_seq. apply machine_ok; [apply okk_done | exact H]. Qed.
End MachineInv.

(** * Decidable equalities decide equality *)
Lemma name_eqb_true a b : name_eqb a b = true -> a = b.
Proof. apply CacheKey.eqb_bytes_iff. Qed.

Lemma eopt_eqb_true a b : eopt_eqb a b = true -> a = b.
Proof.
  destruct a, b. unfold eopt_eqb. cbn. intro H. apply andb_true_iff in H as [H1 H2].
  apply N.eqb_eq in H1, H2. congruence.
Qed.

Lemma list_eqb_true {A} (eqb : A -> A -> bool) :
  (forall x y, eqb x y = true -> x = y) -> forall a b, list_eqb eqb a b = true -> a = b.
Proof.
  intros H a. induction a as [|x a IH]; intros [|y b] E; cbn in E; try discriminate; [reflexivity|].
  apply andb_true_iff in E as [E1 E2]. f_equal; auto.
Qed.

Lemma opt_eqb_true a b : opt_eqb a b = true -> a = b.
Proof.
  destruct a, b. unfold opt_eqb. cbn. intro H.
  repeat (apply andb_true_iff in H as [H ?]).
  apply N.eqb_eq in H. apply Bool.eqb_prop in H3. apply N.eqb_eq in H2, H1.
  apply (list_eqb_true _ eopt_eqb_true) in H0. congruence.
Qed.

Lemma rdata_eqb_true a b : rdata_eqb a b = true -> a = b.
Proof.
  destruct a, b; cbn; intro H; try discriminate.
  - apply N.eqb_eq in H. congruence.
  - apply name_eqb_true in H. congruence.
Qed.

Lemma rr_eqb_true a b : rr_eqb a b = true -> a = b.
Proof.
  destruct a, b; cbn; intro H; try discriminate.
  - repeat (apply andb_true_iff in H as [H ?]).
    apply name_eqb_true in H. apply N.eqb_eq in H3, H2, H1. apply rdata_eqb_true in H0. congruence.
  - apply opt_eqb_true in H. congruence.
Qed.

Lemma question_eqb_true a b : question_eqb a b = true -> a = b.
Proof. apply CacheKey.question_eqb_iff. Qed.

Lemma msg_eqb_true a b : msg_eqb a b = true -> a = b.
Proof.
  destruct a, b. unfold msg_eqb. cbn. intro H.
  repeat (apply andb_true_iff in H as [H ?]).
  repeat match goal with
         | E : (_ =? _) = true |- _ => apply N.eqb_eq in E
         | E : Bool.eqb _ _ = true |- _ => apply Bool.eqb_prop in E
         | E : list_eqb rr_eqb _ _ = true |- _ => apply (list_eqb_true _ rr_eqb_true) in E
         | E : list_eqb question_eqb _ _ = true |- _ => apply (list_eqb_true _ question_eqb_true) in E
         end.
  congruence.
Qed.

(** * OPT records of a section *)
Lemma opts_of_app a b : opts_of (a ++ b) = opts_of a ++ opts_of b.
Proof. induction a as [|[] a IH]; cbn; rewrite ?IH; reflexivity. Qed.

Lemma no_opt_iff l : no_opt l = true <-> opts_of l = [].
Proof.
  induction l as [|[] l IH]; cbn; [tauto | exact IH | split; discriminate].
Qed.

Lemma pop_opt_none ex : pop_opt ex = None <-> opts_of ex = [].
Proof.
  induction ex as [|x t IH]; cbn; [tauto|].
  destruct (pop_opt t) as [[t' o]|].
  - split; [discriminate|]. intro H. destruct x; cbn in H; [|discriminate].
    apply IH in H. discriminate.
  - destruct x; cbn; [tauto | split; discriminate].
Qed.

Lemma pop_opt_some ex : forall ex' o, pop_opt ex = Some (ex', o) -> opts_of ex = opts_of ex' ++ [o].
Proof.
  induction ex as [|x t IH]; cbn; intros ex' o H; [discriminate|].
  destruct (pop_opt t) as [[t' o']|] eqn:Ht.
  - inversion H; subst. specialize (IH _ _ eq_refl). destruct x; cbn; rewrite IH; reflexivity.
  - destruct x; [discriminate|]. inversion H; subst. apply pop_opt_none in Ht. cbn. now rewrite Ht.
Qed.

Lemma pop_opt_last ex l o : opts_of ex = l ++ [o] -> exists ex', pop_opt ex = Some (ex', o) /\ opts_of ex' = l.
Proof.
  intro H. destruct (pop_opt ex) as [[ex' o']|] eqn:Hp.
  - apply pop_opt_some in Hp. rewrite Hp in H. apply app_inj_tail in H as [E1 E2]. subst o'. eauto.
  - apply pop_opt_none in Hp. rewrite Hp in H. destruct l; discriminate.
Qed.

Lemma find_opt_last ex l o : opts_of ex = l ++ [o] -> find_opt ex = Some o.
Proof. intro H. unfold find_opt. destruct (pop_opt_last _ _ _ H) as (ex' & -> & _). reflexivity. Qed.

Lemma find_opt_none ex : opts_of ex = [] -> find_opt ex = None.
Proof. intro H. unfold find_opt. apply pop_opt_none in H. now rewrite H. Qed.

Lemma find_opt_in ex o : find_opt ex = Some o -> In o (opts_of ex).
Proof.
  unfold find_opt. destruct (pop_opt ex) as [[ex' o']|] eqn:H; [|discriminate].
  intro E. inversion E; subst. rewrite (pop_opt_some _ _ _ H). apply in_or_app. right. now left.
Qed.

Lemma map_last_opt_none g ex : map_last_opt g ex = None <-> opts_of ex = [].
Proof.
  induction ex as [|x t IH]; cbn; [tauto|].
  destruct (map_last_opt g t) as [t'|].
  - split; [discriminate|]. intro H. destruct x; cbn in H; [|discriminate].
    apply IH in H. discriminate.
  - destruct x; cbn; [tauto | split; discriminate].
Qed.

Lemma map_last_opt_some g ex : forall ex', map_last_opt g ex = Some ex' ->
  exists l o, opts_of ex = l ++ [o] /\ opts_of ex' = l ++ [g o].
Proof.
  induction ex as [|x t IH]; cbn; intros ex' H; [discriminate|].
  destruct (map_last_opt g t) as [t'|] eqn:Ht.
  - inversion H; subst. destruct (IH _ eq_refl) as (l & o & E1 & E2).
    destruct x; cbn; rewrite E1, E2.
    + exists l, o. auto.
    + exists (o0 :: l), o. auto.
  - destruct x; [discriminate|]. inversion H; subst. apply map_last_opt_none in Ht.
    exists [], o. cbn. rewrite Ht. auto.
Qed.

Lemma map_last_opt_last g ex l o :
  opts_of ex = l ++ [o] -> exists ex', map_last_opt g ex = Some ex' /\ opts_of ex' = l ++ [g o].
Proof.
  intro H. destruct (map_last_opt g ex) as [ex'|] eqn:Hm.
  - destruct (map_last_opt_some _ _ _ Hm) as (l' & o' & E1 & E2). rewrite E1 in H.
    apply app_inj_tail in H as [E3 E4]. subst l' o'. eauto.
  - apply map_last_opt_none in Hm. rewrite Hm in H. destruct l; discriminate.
Qed.

Lemma swap_opt_none f ex : swap_opt f ex = None <-> opts_of ex = [].
Proof.
  induction ex as [|x t IH]; cbn; [tauto|].
  destruct (swap_opt f t) as [[t' o]|].
  - split; [discriminate|]. intro H. destruct x; cbn in H; [|discriminate].
    apply IH in H. discriminate.
  - destruct x; cbn; [tauto | split; discriminate].
Qed.

Lemma swap_opt_some f ex : forall ex' o, swap_opt f ex = Some (ex', o) ->
  exists l, opts_of ex = l ++ [o] /\ opts_of ex' = l ++ [f].
Proof.
  induction ex as [|x t IH]; cbn; intros ex' o H; [discriminate|].
  destruct (swap_opt f t) as [[t' o']|] eqn:Ht.
  - inversion H; subst. destruct (IH _ _ eq_refl) as (l & E1 & E2).
    destruct x; cbn; rewrite E1, E2.
    + exists l. auto.
    + exists (o0 :: l). auto.
  - destruct x; [discriminate|]. inversion H; subst. apply swap_opt_none in Ht.
    exists []. cbn. rewrite Ht. auto.
Qed.

(** * pkg/dnsutils: the TTL helpers leave every OPT record alone, in place *)
Lemma map_ttl_opt f r : is_opt r = true -> map_ttl f r = r.
Proof. destruct r; [discriminate | reflexivity]. Qed.

Lemma opts_of_map_ttl f l : opts_of (map (map_ttl f) l) = opts_of l.
Proof. induction l as [|[] l IH]; cbn; rewrite ?IH; reflexivity. Qed.

Lemma map_ttl_positions f l : map is_opt (map (map_ttl f) l) = map is_opt l.
Proof. induction l as [|[] l IH]; cbn; rewrite ?IH; reflexivity. Qed.

Definition same_opts (m m' : msg) : Prop :=
  opts_of (m_answer m') = opts_of (m_answer m) /\ opts_of (m_ns m') = opts_of (m_ns m)
  /\ opts_of (m_extra m') = opts_of (m_extra m)
  /\ map is_opt (m_answer m') = map is_opt (m_answer m) /\ map is_opt (m_ns m') = map is_opt (m_ns m)
  /\ map is_opt (m_extra m') = map is_opt (m_extra m).

Lemma same_opts_refl m : same_opts m m.
Proof. repeat split. Qed.
Lemma same_opts_trans a b c : same_opts a b -> same_opts b c -> same_opts a c.
Proof. unfold same_opts. intuition congruence. Qed.

Lemma map_ttl_msg_same_opts f m : same_opts m (map_ttl_msg f m).
Proof.
  unfold same_opts, map_ttl_msg. cbn. rewrite !opts_of_map_ttl, !map_ttl_positions. repeat split.
Qed.

Lemma ttl_apply_same_opts fx mn mx m : same_opts m (ttl_apply fx mn mx m).
Proof.
  unfold ttl_apply. destruct (0 <? fx); [apply map_ttl_msg_same_opts|].
  destruct (0 <? mn), (0 <? mx);
    repeat first [apply same_opts_refl | apply map_ttl_msg_same_opts
                  | eapply same_opts_trans; [apply map_ttl_msg_same_opts|] ].
Qed.

Lemma ttl_apply_header fx mn mx m :
  m_id (ttl_apply fx mn mx m) = m_id m /\ m_qr (ttl_apply fx mn mx m) = m_qr m
  /\ m_question (ttl_apply fx mn mx m) = m_question m /\ m_rcode (ttl_apply fx mn mx m) = m_rcode m.
Proof.
  unfold ttl_apply. destruct (0 <? fx); [repeat split|].
  destruct (0 <? mn), (0 <? mx); repeat split.
Qed.

(** copyNoOpt leaves no OPT in the additional section *)
Lemma copy_no_opt_extra m : opts_of (m_extra (copy_no_opt m)) = [].
Proof.
  unfold copy_no_opt. cbn. induction (m_extra m) as [|[] l IH]; cbn; auto.
Qed.
